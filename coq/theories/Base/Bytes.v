(* Bytes are N below 256; buffers are lists.  Small executable helpers. *)
From Coq Require Import NArith List Bool Arith.
Import ListNotations.
Open Scope N_scope.

Definition byte := N.
Definition bytes := list N.

Fixpoint bytes_eqb (a b : bytes) : bool :=
  match a, b with
  | [], [] => true
  | x :: a', y :: b' => (x =? y) && bytes_eqb a' b'
  | _, _ => false
  end.

(* is p a prefix of l *)
Fixpoint is_prefix (p l : bytes) : bool :=
  match p, l with
  | [], _ => true
  | x :: p', y :: l' => (x =? y) && is_prefix p' l'
  | _ :: _, [] => false
  end.

(* bytes.Index: offset of the first occurrence of pat in l (fuel-free: structural on l) *)
Fixpoint index_of (pat l : bytes) : option nat :=
  if is_prefix pat l then Some O
  else match l with
       | [] => None
       | _ :: l' => match index_of pat l' with Some i => Some (S i) | None => None end
       end.

Definition ESC : N := 27.

Definition in_range (lo hi b : N) : bool := (lo <=? b) && (b <=? hi).

Fixpoint all_bytes (f : N -> bool) (l : bytes) : bool :=
  match l with [] => true | x :: t => f x && all_bytes f t end.

(* drop the longest prefix satisfying f; returns (taken, rest) *)
Fixpoint span (f : N -> bool) (l : bytes) : bytes * bytes :=
  match l with
  | [] => ([], [])
  | x :: t => if f x then let '(a, b) := span f t in (x :: a, b) else ([], l)
  end.
