(* L1: the concurrent message/command core of a running Program as an
   interleaving transition system with ghost logs: the event loop (tea.go
   eventLoop: receive, dispatch, Update, command hand-off, View), any number of
   scripted sender goroutines blocked in Send, the command dispatcher
   (handleCommands: one goroutine per non-nil command, result through Send),
   sequence goroutines (sequenceMsg case: elements one after another, a batch
   result fanned out and awaited), cancellation.  Channels are rendezvous
   channels (gen/ChanOps.v: make(chan Msg), make(chan Cmd) unbuffered): a send
   completes in the same step as the receive.  A schedule is ANY list of
   labels; a label that is not enabled is skipped, so "every interleaving,
   every GOMAXPROCS, commands that never return" is "forall schedule".
   The user's program (model type, update, commands' results) is a parameter.
   Not in this model: WithFilter (the filter's effect on one message is the L0
   theorem C16; composing it here would replace every message by the filter's
   verdict before the dispatch), Exec / suspend, the input reader as a sender
   (it is one more sender goroutine).
   No proofs in this file. *)
From Coq Require Import List Bool Arith.
Import ListNotations.

Definition cmdid := nat.

(* what travels on the message channel *)
Inductive msg :=
| MNil                                   (* a command returned nil: Send(nil) *)
| MUser (tag : nat)                      (* any message that is not special to the runtime *)
| MQuit                                  (* QuitMsg or InterruptMsg: the loop returns without calling Update *)
| MBatch (cs : list (option cmdid))      (* BatchMsg: the commands of a Batch (nil entries possible in a raw BatchMsg) *)
| MSeq (cs : list (option cmdid)).       (* sequenceMsg *)

(* who completed a send on the message channel *)
Inductive who := WSender (i : nat) | WCmd (j : nat) | WSeq (k : nat) | WGrp (k : nat) (j : nat).

(* ghost events, in the order they happen *)
Inductive ev :=
| ERecv (w : who) (m : msg)              (* a Send completed: the loop took the message *)
| EUpdate (m : msg) (c : option cmdid)   (* Update was called with m and returned command c (None = nil) *)
| EView
| EHand (c : cmdid)                      (* a non-nil command was handed to the dispatcher *)
| EStart (w : who) (c : cmdid)           (* command c was invoked, on goroutine w (never the event loop) *)
| EEnd (w : who) (c : cmdid)             (* it returned *)
| EExit
| EDrop (w : who) (m : msg)              (* a Send gave up because the context was cancelled: the message is dropped *)
| ECancel                                (* the context was cancelled (Kill, cancellation of the supplied context, ...) *)
| EFail.                                 (* the loop left through a recovered panic in a callback or an error on p.errs *)

Inductive looppc :=
| LIdle                                   (* at the select *)
| LGot (m : msg)                          (* a message was received; filter/dispatch/Update not yet run *)
| LCmdSend (c : option cmdid)             (* Update returned c; blocked handing it to the dispatcher *)
| LBatch (cs : list (option cmdid))       (* expanding a BatchMsg into the command channel *)
| LView                                   (* about to call View and write it *)
| LExited.

Inductive cthread := CRunning (c : cmdid) | CSending (c : cmdid) (m : msg) | CDone (c : cmdid).

(* a sequence goroutine: remaining elements and what it is doing with the current one *)
Inductive sphase :=
| SNext                                   (* about to look at the next element *)
| SRunning (c : cmdid)                    (* inside cmd() of the current element *)
| SSending (c : cmdid) (m : msg)          (* blocked in Send with its result *)
| SGroup (c : cmdid) (members : list cthread).   (* the element returned a BatchMsg: errgroup members, g.Wait() *)
Record sthread := { s_rest : list (option cmdid); s_phase : sphase; s_done : bool }.

Section Conc.
  Variable M : Type.
  Variable upd : M -> msg -> M * option cmdid.     (* Update *)
  Variable cres : cmdid -> msg.                    (* what running command c returns (MNil = nil) *)

  Record cstate := {
    c_model : M;
    c_loop : looppc;
    c_senders : list (list msg);          (* per sender goroutine: the messages it still has to send, in order *)
    c_cmds : list cthread;                (* goroutines spawned by the dispatcher, in spawn order *)
    c_seqs : list sthread;                (* sequence goroutines, in spawn order *)
    c_ctx : bool;                         (* context cancelled *)
    c_disp : bool;                        (* dispatcher still alive (it exits once the context is cancelled) *)
    c_ifw : option cmdid;                 (* the Init forwarder goroutine, blocked handing Init's command to the dispatcher *)
    c_log : list ev;                      (* ghost: everything that happened, oldest first *)
    c_upds : list (M * msg * M)           (* ghost: (model passed, message, model returned) per Update *)
  }.

  Inductive label :=
  | LbRecv (w : who)            (* rendezvous on the message channel between w (at its Send) and the loop (at the select) *)
  | LbProcess                   (* the loop handles the message it holds: nil check, dispatch, Update *)
  | LbHand                      (* rendezvous on the command channel: loop -> dispatcher, which spawns the goroutine *)
  | LbView
  | LbCmdFinish (j : nat)       (* command goroutine j: cmd() returns *)
  | LbSeqStep (k : nat)         (* sequence goroutine k: next element / start it / group finished *)
  | LbSeqFinish (k : nat)       (* its current cmd() returns *)
  | LbGrpFinish (k : nat) (j : nat)   (* errgroup member j of sequence k: cmd() returns *)
  | LbCancel                    (* Kill / context cancellation *)
  | LbDispExit                  (* the dispatcher notices the cancellation *)
  | LbLoopExit                  (* the loop notices the cancellation (select, or while blocked handing over a command) *)
  | LbGiveUp (w : who)          (* w, blocked in Send, notices the cancellation: Send returns, the message is dropped *)
  | LbHandInit                  (* rendezvous on the command channel: Init forwarder -> dispatcher *)
  | LbIfwGiveUp                 (* the Init forwarder notices the cancellation *)
  | LbLoopFail.                 (* a callback of the loop panics (recovered by Run) or an error arrives on p.errs: the loop is left *)

  Fixpoint set_nth {A} (l : list A) (n : nat) (x : A) : list A :=
    match l, n with
    | [], _ => []
    | _ :: t, O => x :: t
    | h :: t, S n' => h :: set_nth t n' x
    end.

  Definition with_loop (s : cstate) (l : looppc) (e : list ev) : cstate :=
    {| c_model := c_model s; c_loop := l; c_senders := c_senders s; c_cmds := c_cmds s; c_seqs := c_seqs s;
       c_ctx := c_ctx s; c_disp := c_disp s; c_ifw := c_ifw s; c_log := c_log s ++ e; c_upds := c_upds s |}.
  Definition with_cmds (s : cstate) (cs : list cthread) (e : list ev) : cstate :=
    {| c_model := c_model s; c_loop := c_loop s; c_senders := c_senders s; c_cmds := cs; c_seqs := c_seqs s;
       c_ctx := c_ctx s; c_disp := c_disp s; c_ifw := c_ifw s; c_log := c_log s ++ e; c_upds := c_upds s |}.
  Definition with_seqs (s : cstate) (ss : list sthread) (e : list ev) : cstate :=
    {| c_model := c_model s; c_loop := c_loop s; c_senders := c_senders s; c_cmds := c_cmds s; c_seqs := ss;
       c_ctx := c_ctx s; c_disp := c_disp s; c_ifw := c_ifw s; c_log := c_log s ++ e; c_upds := c_upds s |}.

  (* the message a thread is blocked sending, if any *)
  Definition offer (s : cstate) (w : who) : option msg :=
    match w with
    | WSender i => match nth_error (c_senders s) i with Some (m :: _) => Some m | _ => None end
    | WCmd j => match nth_error (c_cmds s) j with Some (CSending _ m) => Some m | _ => None end
    | WSeq k => match nth_error (c_seqs s) k with
                | Some t => match s_phase t with SSending _ m => Some m | _ => None end
                | None => None end
    | WGrp k j => match nth_error (c_seqs s) k with
                  | Some t => match s_phase t with
                              | SGroup _ ms => match nth_error ms j with Some (CSending _ m) => Some m | _ => None end
                              | _ => None end
                  | None => None end
    end.

  (* the sender's side of a completed rendezvous *)
  Definition took (s : cstate) (w : who) : cstate :=
    match w with
    | WSender i => match nth_error (c_senders s) i with
                   | Some (_ :: rest) =>
                     {| c_model := c_model s; c_loop := c_loop s; c_senders := set_nth (c_senders s) i rest; c_cmds := c_cmds s; c_seqs := c_seqs s;
                        c_ctx := c_ctx s; c_disp := c_disp s; c_ifw := c_ifw s; c_log := c_log s; c_upds := c_upds s |}
                   | _ => s end
    | WCmd j => match nth_error (c_cmds s) j with
                | Some (CSending c _) => with_cmds s (set_nth (c_cmds s) j (CDone c)) []
                | _ => s end
    | WSeq k => match nth_error (c_seqs s) k with
                | Some t => match s_phase t with
                            | SSending _ _ => with_seqs s (set_nth (c_seqs s) k {| s_rest := s_rest t; s_phase := SNext; s_done := false |}) []
                            | _ => s end
                | None => s end
    | WGrp k j => match nth_error (c_seqs s) k with
                  | Some t => match s_phase t with
                              | SGroup c ms => match nth_error ms j with
                                               | Some (CSending cj _) =>
                                                 with_seqs s (set_nth (c_seqs s) k {| s_rest := s_rest t; s_phase := SGroup c (set_nth ms j (CDone cj)); s_done := false |}) []
                                               | _ => s end
                              | _ => s end
                  | None => s end
    end.

  Definition all_done (ms : list cthread) : bool := forallb (fun t => match t with CDone _ => true | _ => false end) ms.

  Definition somes {A} (l : list (option A)) : list A := flat_map (fun o => match o with Some x => [x] | None => [] end) l.

  (* one step; None = the label is not enabled in s *)
  Definition step (s : cstate) (l : label) : option cstate :=
    match l with
    | LbRecv w =>
      match c_loop s, offer s w with
      | LIdle, Some m => Some (with_loop (took s w) (LGot m) [ERecv w m])
      | _, _ => None
      end
    | LbProcess =>
      match c_loop s with
      | LGot MNil => Some (with_loop s LIdle [])
      | LGot MQuit => Some (with_loop s LExited [EExit])
      | LGot (MBatch cs) => Some (with_loop s (LBatch cs) [])
      | LGot m =>
        let '(m', c) := upd (c_model s) m in
        let s1 := match m with
                  | MSeq cs => with_seqs s (c_seqs s ++ [{| s_rest := cs; s_phase := SNext; s_done := false |}]) []
                  | _ => s end in
        Some {| c_model := m'; c_loop := LCmdSend c; c_senders := c_senders s1; c_cmds := c_cmds s1; c_seqs := c_seqs s1;
                c_ctx := c_ctx s1; c_disp := c_disp s1; c_ifw := c_ifw s1; c_log := c_log s1 ++ [EUpdate m c]; c_upds := c_upds s1 ++ [(c_model s, m, m')] |}
      | _ => None
      end
    | LbHand =>
      if c_disp s then
        match c_loop s with
        | LCmdSend None => Some (with_loop s LView [])
        | LCmdSend (Some c) => Some (with_loop (with_cmds s (c_cmds s ++ [CRunning c]) [EHand c; EStart (WCmd (length (c_cmds s))) c]) LView [])
        | LBatch [] => Some (with_loop s LIdle [])
        | LBatch (None :: cs) => Some (with_loop s (LBatch cs) [])
        | LBatch (Some c :: cs) => Some (with_loop (with_cmds s (c_cmds s ++ [CRunning c]) [EHand c; EStart (WCmd (length (c_cmds s))) c]) (LBatch cs) [])
        | _ => None
        end
      else match c_loop s with
           | LBatch [] => Some (with_loop s LIdle [])
           | _ => None end
    | LbView => match c_loop s with LView => Some (with_loop s LIdle [EView]) | _ => None end
    | LbCmdFinish j =>
      match nth_error (c_cmds s) j with
      | Some (CRunning c) => Some (with_cmds s (set_nth (c_cmds s) j (CSending c (cres c))) [EEnd (WCmd j) c])
      | _ => None
      end
    | LbSeqStep k =>
      match nth_error (c_seqs s) k with
      | Some t =>
        if s_done t then None else
        match s_phase t with
        | SNext =>
          match s_rest t with
          | [] => Some (with_seqs s (set_nth (c_seqs s) k {| s_rest := []; s_phase := SNext; s_done := true |}) [])
          | None :: r => Some (with_seqs s (set_nth (c_seqs s) k {| s_rest := r; s_phase := SNext; s_done := false |}) [])
          | Some c :: r => Some (with_seqs s (set_nth (c_seqs s) k {| s_rest := r; s_phase := SRunning c; s_done := false |}) [EStart (WSeq k) c])
          end
        | SGroup c ms =>
          if all_done ms then Some (with_seqs s (set_nth (c_seqs s) k {| s_rest := s_rest t; s_phase := SNext; s_done := false |}) [])
          else None
        | _ => None
        end
      | None => None
      end
    | LbSeqFinish k =>
      match nth_error (c_seqs s) k with
      | Some t =>
        match s_phase t with
        | SRunning c =>
          match cres c with
          | MBatch cs =>
            let ids := somes cs in
            Some (with_seqs s (set_nth (c_seqs s) k {| s_rest := s_rest t; s_phase := SGroup c (map CRunning ids); s_done := false |})
                            (EEnd (WSeq k) c :: map (fun jc => EStart (WGrp k (fst jc)) (snd jc)) (combine (seq 0 (length ids)) ids)))
          | m => Some (with_seqs s (set_nth (c_seqs s) k {| s_rest := s_rest t; s_phase := SSending c m; s_done := false |}) [EEnd (WSeq k) c])
          end
        | _ => None
        end
      | None => None
      end
    | LbGrpFinish k j =>
      match nth_error (c_seqs s) k with
      | Some t =>
        match s_phase t with
        | SGroup c ms =>
          match nth_error ms j with
          | Some (CRunning cj) =>
            Some (with_seqs s (set_nth (c_seqs s) k {| s_rest := s_rest t; s_phase := SGroup c (set_nth ms j (CSending cj (cres cj))); s_done := false |}) [EEnd (WGrp k j) cj])
          | _ => None
          end
        | _ => None
        end
      | None => None
      end
    | LbCancel => if c_ctx s then None else
      Some {| c_model := c_model s; c_loop := c_loop s; c_senders := c_senders s; c_cmds := c_cmds s; c_seqs := c_seqs s;
              c_ctx := true; c_disp := c_disp s; c_ifw := c_ifw s; c_log := c_log s ++ [ECancel]; c_upds := c_upds s |}
    | LbDispExit => if c_ctx s && c_disp s then
      Some {| c_model := c_model s; c_loop := c_loop s; c_senders := c_senders s; c_cmds := c_cmds s; c_seqs := c_seqs s;
              c_ctx := true; c_disp := false; c_ifw := c_ifw s; c_log := c_log s; c_upds := c_upds s |} else None
    | LbGiveUp w =>
      if c_ctx s then
        match offer s w with
        | Some m => let s1 := took s w in Some (with_loop s1 (c_loop s1) [EDrop w m])
        | None => None
        end
      else None
    | LbHandInit =>
      match c_ifw s with
      | Some c => if c_disp s then
          Some {| c_model := c_model s; c_loop := c_loop s; c_senders := c_senders s; c_cmds := c_cmds s ++ [CRunning c]; c_seqs := c_seqs s;
                  c_ctx := c_ctx s; c_disp := c_disp s; c_ifw := None; c_log := c_log s ++ [EHand c; EStart (WCmd (length (c_cmds s))) c]; c_upds := c_upds s |}
        else None
      | None => None
      end
    | LbIfwGiveUp =>
      match c_ifw s with
      | Some _ => if c_ctx s then
          Some {| c_model := c_model s; c_loop := c_loop s; c_senders := c_senders s; c_cmds := c_cmds s; c_seqs := c_seqs s;
                  c_ctx := c_ctx s; c_disp := c_disp s; c_ifw := None; c_log := c_log s; c_upds := c_upds s |}
        else None
      | None => None
      end
    | LbLoopFail =>
      match c_loop s with
      | LExited => None
      | _ => Some (with_loop s LExited [EFail; EExit])
      end
    | LbLoopExit =>
      if c_ctx s then
        match c_loop s with
        | LIdle | LCmdSend _ | LBatch _ => Some (with_loop s LExited [EExit])
        | _ => None
        end
      else None
    end.

  Definition run1 (s : cstate) (l : label) : cstate := match step s l with Some s' => s' | None => s end.
  Definition run (s : cstate) (sched : list label) : cstate := fold_left run1 sched s.

  (* Init has returned init_cmd: when it is not nil a forwarder goroutine hands it to the dispatcher (tea.go Run)
     while the loop goes on to the first View and its select *)
  Definition init_state (m0 : M) (init_cmd : option cmdid) (scripts : list (list msg)) : cstate :=
    {| c_model := m0; c_loop := LView; c_senders := scripts; c_cmds := []; c_seqs := [];
       c_ctx := false; c_disp := true; c_ifw := init_cmd; c_log := []; c_upds := [] |}.
End Conc.

Arguments c_model {M}. Arguments c_loop {M}. Arguments c_senders {M}. Arguments c_cmds {M}. Arguments c_seqs {M}.
Arguments c_ctx {M}. Arguments c_disp {M}. Arguments c_ifw {M}. Arguments c_log {M}. Arguments c_upds {M}.
