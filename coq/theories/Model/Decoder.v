(* key.go: detectOneMsg (with mayBeIncomplete), key_sequences.go:
   detectSequence, detectBracketedPaste, detectReportFocus. *)
From Coq Require Import NArith ZArith List Bool Arith.
Import ListNotations.
From BT Require Import Base.Bytes Model.Utf8 Model.Keys Model.Mouse.
From BTGen Require Consts.
Open Scope N_scope.

Inductive dres := DMsg (w : nat) (m : msg) | DMore | DPanic.

Definition bp_start : bytes := Consts.s_bpStart.
Definition bp_end : bytes := Consts.s_bpEnd.
Definition focus_in : bytes := [27; 91; 73].
Definition focus_out : bytes := [27; 91; 79].

Definition is_param (b : N) : bool := in_range 48 63 b.    (* 0x30-0x3f *)
Definition is_inter (b : N) : bool := in_range 32 47 b.    (* 0x20-0x2f *)
Definition is_final (b : N) : bool := in_range 64 126 b.   (* 0x40-0x7e *)

(* unknownCSIRe = ^\x1b\[[\x30-\x3f]*[\x20-\x2f]*[\x40-\x7e] ; returns the match length *)
Definition unknown_csi (b : bytes) : option nat :=
  match b with
  | b0 :: b1 :: r =>
    if (b0 =? 27) && (b1 =? 91) then
      let '(ps, r1) := span is_param r in
      let '(is, r2) := span is_inter r1 in
      match r2 with
      | f :: _ => if is_final f then Some (2 + length ps + length is + 1)%nat else None
      | [] => None
      end
    else None
  | _ => None
  end.

(* incompleteCSIRe = ^\x1b\x1b?\[[\x30-\x3f]*[\x20-\x2f]*$ *)
Definition incomplete_csi (b : bytes) : bool :=
  match b with
  | b0 :: r =>
    if b0 =? 27 then
      let r := match r with b1 :: r' => if b1 =? 27 then r' else r | [] => r end in
      match r with
      | c :: r0 =>
        if c =? 91 then
          let '(_, r1) := span is_param r0 in
          let '(_, r2) := span is_inter r1 in
          match r2 with [] => true | _ => false end
        else false
      | [] => false
      end
    else false
  | [] => false
  end.

(* detectSequence: longest prefix in extSequences (lengths tried in decreasing
   order), else an unknown CSI *)
(* sz <= length l, without computing the length *)
Fixpoint len_ge (l : bytes) (sz : nat) : bool :=
  match sz, l with
  | O, _ => true
  | S k, _ :: t => len_ge t k
  | S _, [] => false
  end.

Fixpoint detect_from (sz : nat) (input : bytes) : option (nat * msg) :=
  match sz with
  | O => None
  | S k =>
    if len_ge input sz then
      match assoc_bytes (firstn sz input) ext_sequences with
      | Some m => Some (sz, m)
      | None => detect_from k input
      end
    else detect_from k input
  end.

Definition detect_sequence (input : bytes) : option (nat * msg) :=
  match detect_from max_seq_len input with
  | Some r => Some r
  | None =>
    match unknown_csi input with
    | Some n => Some (n, MUnknownCSI (firstn n input))
    | None => None
    end
  end.

(* the rune loop of detectBracketedPaste; fuel = length of the payload *)
Fixpoint paste_runes (fuel : nat) (p : bytes) : list N :=
  match fuel, p with
  | S f, _ :: _ =>
    let '(r, w) := decode_rune p in
    let keep := negb (r =? RuneError) || Nat.ltb 1 w in
    (if keep then [r] else []) ++ paste_runes f (skipn w p)
  | _, _ => []
  end.

Inductive paste_res := PNone | PMore | PMsg (w : nat) (m : msg).

Definition detect_paste (input : bytes) : paste_res :=
  if is_prefix bp_start input then
    let body := skipn (length bp_start) input in
    match index_of bp_end body with
    | None => PMore
    | Some idx =>
      let payload := firstn idx body in
      PMsg (length bp_start + idx + length bp_end)%nat
           (MKey KeyRunes (paste_runes (length payload) payload) false true)
    end
  else PNone.

Definition detect_focus (input : bytes) : option (nat * msg) :=
  if bytes_eqb input focus_in then Some (3%nat, MFocus)
  else if bytes_eqb input focus_out then Some (3%nat, MBlur)
  else None.

Definition stops_run (r : N) (w : nat) : bool :=
  ((r =? RuneError) && Nat.leb w 1) || (r <=? Z.to_N keyUS) || (r =? Z.to_N keyDEL) || (r =? 32).

(* the rune loop of detectOneMsg on b[i:]; returns (runes, bytes consumed) *)
Fixpoint rune_run (fuel : nat) (alt : bool) (s : bytes) : list N * nat :=
  match fuel, s with
  | S f, _ :: _ =>
    let '(r, w) := decode_rune s in
    if stops_run r w then ([], 0%nat)
    else if alt then ([r], w)
    else let '(rs, n) := rune_run f alt (skipn w s) in (r :: rs, (w + n)%nat)
  | _, _ => ([], 0%nat)
  end.

Definition may_be_incomplete (b : bytes) : bool :=
  match b with
  | [] => false
  | b0 :: r =>
    if negb (b0 =? ESC) then negb (full_rune b)
    else if (match r with [] => false | _ => negb (full_rune r) end) then true
    else if incomplete_csi b then true
    else if negb (len_ge b 6) && is_prefix [27; 91; 77] b then true
    else existsb (fun e => is_prefix b (fst e) && negb (len_ge b (length (fst e)))) ext_sequences
  end.

Definition x10_len : nat := Z.to_nat Consts.c_mouseEventX10Len.

Definition detect_mouse (b : bytes) : option (nat * msg) :=
  if len_ge b x10_len then
    match b with
    | b0 :: b1 :: b2 :: rest =>
      if (b0 =? 27) && (b1 =? 91) then
        if b2 =? 77 then
          match rest with
          | cb :: cx :: cy :: _ => Some (x10_len, parse_x10 cb cx cy)
          | _ => None
          end
        else if b2 =? 60 then
          match match_sgr rest with
          | Some (d1, d2, d3, f, n) => Some ((n + 3)%nat, parse_sgr d1 d2 d3 f)
          | None => None
          end
        else None
      else None
    | _ => None
    end
  else None.

Definition detect_tail (b : bytes) (more : bool) : dres :=
  match b with
  | [] => DPanic
  | b0 :: r =>
    let alt := b0 =? ESC in
    let i := if alt then 1%nat else 0%nat in
    let s := skipn i b in
    if (match s with s0 :: _ => s0 =? 0 | [] => false end) then DMsg (i + 1) (MKey keyNUL [] alt false)
    else
      let '(runes, n) := rune_run (length s) alt s in
      let i' := (i + n)%nat in
      if more && negb (full_rune (skipn i' b)) then DMore
      else match runes with
           | _ :: _ => DMsg i' (MKey KeyRunes runes alt false)
           | [] =>
             if alt && negb (len_ge b 2) then DMsg 1 (MKey KeyEscape [] false false)
             else DMsg 1 (MUnknownByte b0)
           end
  end.

Definition detect_one_msg (b : bytes) (more : bool) : dres :=
  match b with
  | [] => DPanic
  | _ =>
    if more && may_be_incomplete b then DMore
    else match detect_mouse b with
    | Some (w, m) => DMsg w m
    | None =>
      match detect_focus b with
      | Some (w, m) => DMsg w m
      | None =>
        match detect_paste b with
        | PMore => DMore
        | PMsg w m => DMsg w m
        | PNone =>
          match detect_sequence b with
          | Some (w, m) => DMsg w m
          | None => detect_tail b more
          end
        end
      end
    end
  end.
