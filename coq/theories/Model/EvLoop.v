(* L0: the body of eventLoop (tea.go) for one received message, as a pure
   function, interpreted over the GENERATED dispatch table (gen/Dispatch.v):
   which renderer calls each message type triggers, whether the case returns,
   continues or falls through to Update, and the order filter / nil check /
   switch / handleMessages / Update / command hand-off / write(View).
   The user's program (model type, update, view, filter) is a parameter.
   No proofs in this file. *)
From Coq Require Import String List Bool NArith Arith.
Import ListNotations.
From BT Require Import Base.Bytes Model.GenTypes Model.VT Model.Renderer.
Open Scope string_scope.
Open Scope list_scope.

(* message kinds that have a case in the type switch *)
Inductive bkind :=
| KQuit | KInterrupt | KSuspend | KClear | KEnterAlt | KExitAlt | KMouseCell | KMouseAll | KMouseOff
| KShowCursor | KHideCursor | KPasteOn | KPasteOff | KFocusOn | KFocusOff | KExec | KBatch | KSequence
| KTitle | KWindowSizeQuery.

Definition bkind_eqb (a b : bkind) : bool :=
  match a, b with
  | KQuit, KQuit | KInterrupt, KInterrupt | KSuspend, KSuspend | KClear, KClear | KEnterAlt, KEnterAlt
  | KExitAlt, KExitAlt | KMouseCell, KMouseCell | KMouseAll, KMouseAll | KMouseOff, KMouseOff
  | KShowCursor, KShowCursor | KHideCursor, KHideCursor | KPasteOn, KPasteOn | KPasteOff, KPasteOff
  | KFocusOn, KFocusOn | KFocusOff, KFocusOff | KExec, KExec | KBatch, KBatch | KSequence, KSequence
  | KTitle, KTitle | KWindowSizeQuery, KWindowSizeQuery => true
  | _, _ => false
  end.

Definition type_name (k : bkind) : string :=
  match k with
  | KQuit => "QuitMsg" | KInterrupt => "InterruptMsg" | KSuspend => "SuspendMsg" | KClear => "clearScreenMsg"
  | KEnterAlt => "enterAltScreenMsg" | KExitAlt => "exitAltScreenMsg"
  | KMouseCell => "enableMouseCellMotionMsg" | KMouseAll => "enableMouseAllMotionMsg" | KMouseOff => "disableMouseMsg"
  | KShowCursor => "showCursorMsg" | KHideCursor => "hideCursorMsg"
  | KPasteOn => "enableBracketedPasteMsg" | KPasteOff => "disableBracketedPasteMsg"
  | KFocusOn => "enableReportFocusMsg" | KFocusOff => "disableReportFocusMsg"
  | KExec => "execMsg" | KBatch => "BatchMsg" | KSequence => "sequenceMsg"
  | KTitle => "setWindowTitleMsg" | KWindowSizeQuery => "windowSizeMsg"
  end.

Definition cmdid := nat.

(* a message as the event loop sees it; U = the user's own message type *)
Inductive rmsg (U : Type) :=
| RUser (u : U)
| RB (k : bkind)                       (* a message with a case in the switch (payload-free ones) *)
| RBatch (cs : list cmdid)
| RSequence (cs : list cmdid)
| RTitle (s : bytes)
| RPrint (body : bytes)                (* printLineMessage: handled by handleMessages only *)
| RWindowSize (w h : nat)              (* WindowSizeMsg *)
| RRepaint.
Arguments RUser {U}. Arguments RB {U}. Arguments RBatch {U}. Arguments RSequence {U}.
Arguments RTitle {U}. Arguments RPrint {U}. Arguments RWindowSize {U}. Arguments RRepaint {U}.

Definition kind_of {U} (m : rmsg U) : option bkind :=
  match m with
  | RB k => Some k
  | RBatch _ => Some KBatch
  | RSequence _ => Some KSequence
  | RTitle _ => Some KTitle
  | _ => None
  end.

(* ---- interpretation of the calls recorded in the dispatch table *)

(* effect of one renderer call on the renderer model *)
Definition renderer_call (callee : string) (title : bytes) (r : rstate) : option (rstate * list tok) :=
  if callee =? "p.renderer.clearScreen" then Some (r_clear_screen r)
  else if callee =? "p.renderer.enterAltScreen" then Some (r_enter_alt r)
  else if callee =? "p.renderer.exitAltScreen" then Some (r_exit_alt r)
  else if callee =? "p.renderer.enableMouseCellMotion" then Some (r_mouse r 1002 true)
  else if callee =? "p.renderer.disableMouseCellMotion" then Some (r_mouse r 1002 false)
  else if callee =? "p.renderer.enableMouseAllMotion" then Some (r_mouse r 1003 true)
  else if callee =? "p.renderer.disableMouseAllMotion" then Some (r_mouse r 1003 false)
  else if callee =? "p.renderer.enableMouseSGRMode" then Some (r_mouse r 1006 true)
  else if callee =? "p.renderer.disableMouseSGRMode" then Some (r_mouse r 1006 false)
  else if callee =? "p.renderer.showCursor" then Some (r_show_cursor r)
  else if callee =? "p.renderer.hideCursor" then Some (r_hide_cursor r)
  else if callee =? "p.renderer.enableBracketedPaste" then Some (r_enable_paste r)
  else if callee =? "p.renderer.disableBracketedPaste" then Some (r_disable_paste r)
  else if callee =? "p.renderer.enableReportFocus" then Some (r_enable_focus r)
  else if callee =? "p.renderer.disableReportFocus" then Some (r_disable_focus r)
  else if callee =? "p.SetWindowTitle" then Some (r, [TTitle title])
  else None.

(* calls with effects outside the renderer: recorded, not interpreted here *)
Inductive side := SSuspend | SExec | SSpawnSeq | SCheckResize | SSendCmd.

Definition side_call (callee : string) : option side :=
  if callee =? "p.suspend" then Some SSuspend
  else if callee =? "p.exec" then Some SExec
  else if callee =? "go:func" then Some SSpawnSeq
  else if callee =? "go:p.checkResize" then Some SCheckResize
  else if callee =? "send:cmds" then Some SSendCmd
  else None.

(* a call sits under a condition: which ones apply to message kind k *)
Definition cond_applies (cond : string) (k : bkind) (disable_mouse : list string) : bool :=
  if cond =? "" then true
  else if cond =? "suspendSupported" then true
  else if cond =? "range" then true
  else if cond =? "windows" then false       (* runtime.GOOS == "windows": not this platform *)
  else cond =? type_name k.                  (* inner `case T:` of a nested type switch *)

Definition find_case (table : list dcase) (k : bkind) : option dcase :=
  find (fun c => existsb (fun t => t =? type_name k) (dc_types c)) table.

(* expansion of p.disableMouse() (tea.go): the renderer calls in its body, from the generated facts *)
Fixpoint run_calls (calls : list (string * string)) (k : bkind) (dm : list string) (title : bytes)
         (r : rstate) (out : list tok) (sides : list side) (ok : bool) : rstate * list tok * list side * bool :=
  match calls with
  | [] => (r, out, sides, ok)
  | (cond, callee) :: rest =>
    if negb (cond_applies cond k dm) then run_calls rest k dm title r out sides ok
    else if callee =? "p.disableMouse" then
      (* inline its body *)
      let '(r', out') := fold_left (fun acc c => match renderer_call c title (fst acc) with
                                                  | Some (r2, o2) => (r2, snd acc ++ o2)
                                                  | None => acc end) dm (r, out) in
      run_calls rest k dm title r' out' sides ok
    else match renderer_call callee title r with
         | Some (r', o) => run_calls rest k dm title r' (out ++ o) sides ok
         | None =>
           match side_call callee with
           | Some s => run_calls rest k dm title r out (sides ++ [s]) ok
           | None => if callee =? "p.initCancelReader" then run_calls rest k dm title r out sides ok  (* windows-only branch *)
                     else run_calls rest k dm title r out sides false   (* an unknown call: the tie fails *)
           end
         end
  end.

(* ---- one iteration of the loop *)

Inductive exit_err := XNil | XInterrupted.

Record elstate (M U : Type) := {
  el_model : M;
  el_r : rstate;
  el_out : list tok;                        (* everything written by renderer mode calls so far *)
  el_filter_log : list (M * rmsg U);        (* filter consulted with (model, msg) *)
  el_update_log : list (M * rmsg U);        (* Update called with (model, msg) *)
  el_spawned : list cmdid;                  (* commands handed to the command handler, in order *)
  el_sides : list side;
  el_exit : option exit_err
}.
Arguments el_model {M U}. Arguments el_r {M U}. Arguments el_out {M U}. Arguments el_filter_log {M U}.
Arguments el_update_log {M U}. Arguments el_spawned {M U}. Arguments el_sides {M U}. Arguments el_exit {M U}.

Section Loop.
  Context {M U : Type}.
  Variable table : list dcase.              (* gen/Dispatch.dispatch *)
  Variable disable_mouse : list string.     (* renderer calls in the body of p.disableMouse *)
  Variable flt : option (M -> rmsg U -> option (rmsg U)).    (* WithFilter; None = not installed *)
  Variable upd : M -> rmsg U -> M * option cmdid.            (* Update: new model, optional command *)
  Variable view : M -> bytes.

  Definition handle_messages (r : rstate) (m : rmsg U) : rstate :=
    match m with
    | RRepaint => r_repaint r
    | RWindowSize w h => r_window_size r w h
    | RPrint body => r_print_line r body
    | _ => r
    end.

  Definition el_step (s : elstate M U) (m : rmsg U) : elstate M U :=
    match el_exit s with
    | Some _ => s                                (* the loop has returned *)
    | None =>
      let flog := match flt with Some _ => el_filter_log s ++ [(el_model s, m)] | None => el_filter_log s end in
      let m1 := match flt with Some f => f (el_model s) m | None => Some m end in
      match m1 with
      | None => {| el_model := el_model s; el_r := el_r s; el_out := el_out s; el_filter_log := flog;
                   el_update_log := el_update_log s; el_spawned := el_spawned s; el_sides := el_sides s; el_exit := None |}
      | Some m' =>
        let after_switch (r : rstate) (out : list tok) (sides : list side) :=
          let r1 := handle_messages r m' in
          let '(model', cmd) := upd (el_model s) m' in
          {| el_model := model'; el_r := r_write r1 (view model'); el_out := out; el_filter_log := flog;
             el_update_log := el_update_log s ++ [(el_model s, m')];
             el_spawned := el_spawned s ++ (match cmd with Some c => [c] | None => [] end);
             el_sides := sides; el_exit := None |} in
        match kind_of m' with
        | None => after_switch (el_r s) (el_out s) (el_sides s)
        | Some k =>
          match find_case table k with
          | None => after_switch (el_r s) (el_out s) (el_sides s)
          | Some c =>
            let title := match m' with RTitle t => t | _ => [] end in
            let '(r', out', sides', _) := run_calls (dc_calls c) k disable_mouse title (el_r s) (el_out s) (el_sides s) true in
            match dc_end c with
            | DReturn e =>
              {| el_model := el_model s; el_r := r'; el_out := out'; el_filter_log := flog;
                 el_update_log := el_update_log s; el_spawned := el_spawned s; el_sides := sides';
                 el_exit := Some (if e =? "nil" then XNil else XInterrupted) |}
            | DContinue =>
              {| el_model := el_model s; el_r := r'; el_out := out'; el_filter_log := flog;
                 el_update_log := el_update_log s;
                 el_spawned := el_spawned s ++ (match m' with RBatch cs => cs | _ => [] end);
                 el_sides := sides'; el_exit := None |}
            | DFall => after_switch r' out' sides'
            end
          end
        end
      end
    end.

  Definition el_run (s : elstate M U) (ms : list (rmsg U)) : elstate M U := fold_left el_step ms s.
End Loop.

Definition el_init {M U} (m : M) (r : rstate) : elstate M U :=
  {| el_model := m; el_r := r; el_out := []; el_filter_log := []; el_update_log := []; el_spawned := [];
     el_sides := []; el_exit := None |}.

(* well-formedness of the generated table that the model relies on *)
Definition calls_known (table : list dcase) : bool :=
  forallb (fun c => forallb (fun cc =>
     let callee := snd cc in
     (callee =? "p.disableMouse") || (callee =? "p.initCancelReader") ||
     match renderer_call callee [] r_init with Some _ => true | None => match side_call callee with Some _ => true | None => false end end)
     (dc_calls c)) table.
