(* Filter policies by message key, as the harness applies them (drop / replace /
   keep decided per message key), for the L0 event-loop model.  No proofs. *)
From Coq Require Import List Bool NArith Arith.
Import ListNotations.
From BT Require Import Base.Bytes Model.GenTypes Model.VT Model.Renderer Model.EvLoop.

Definition n_bkind (k : bkind) : N :=
  match k with
  | KQuit => 0 | KInterrupt => 1 | KSuspend => 2 | KClear => 3 | KEnterAlt => 4 | KExitAlt => 5 | KMouseCell => 6 | KMouseAll => 7
  | KMouseOff => 8 | KShowCursor => 9 | KHideCursor => 10 | KPasteOn => 11 | KPasteOff => 12 | KFocusOn => 13 | KFocusOff => 14
  | KExec => 15 | KBatch => 16 | KSequence => 17 | KTitle => 18 | KWindowSizeQuery => 19
  end%N.

Definition msg_code (m : rmsg nat) : N :=
  match m with
  | RB k => n_bkind k
  | RBatch _ => 16 | RSequence _ => 17 | RTitle _ => 18
  | RPrint _ => 30 | RWindowSize _ _ => 31 | RRepaint => 32
  | RUser n => 1000 + N.of_nat n
  end%N.

(* code |-> None (drop) | Some m' (replace); codes not listed are kept *)
Definition policy := list (N * option (rmsg nat)).

Definition policy_filter (p : policy) (_ : nat) (m : rmsg nat) : option (rmsg nat) :=
  match find (fun e => (fst e =? msg_code m)%N) p with
  | Some (_, v) => v
  | None => Some m
  end.

(* the recording model of the harness: the model is a version counter *)
Definition count_upd (m : nat) (_ : rmsg nat) : nat * option cmdid := (S m, None).

Record l0_obs := { ob_filter : list (nat * N); ob_update : list (nat * N); ob_spawned : list nat; ob_exit : option exit_err; ob_modes : list tok }.

Definition only_modes (ks : list tok) : list tok := filter (fun k => match k with TSet _ | TReset _ => true | _ => false end) ks.

Definition l0_observe (table : list dcase) (dm : list String.string) (flt : option policy) (r0 : rstate) (toks0 : list tok) (ms : list (rmsg nat)) : l0_obs :=
  let s := el_run table dm (match flt with Some p => Some (policy_filter p) | None => None end) count_upd (fun _ => []) (el_init 0%nat r0) ms in
  {| ob_filter := map (fun x => (fst x, msg_code (snd x))) (el_filter_log s);
     ob_update := map (fun x => (fst x, msg_code (snd x))) (el_update_log s);
     ob_spawned := el_spawned s; ob_exit := el_exit s; ob_modes := only_modes (toks0 ++ el_out s) |}.
