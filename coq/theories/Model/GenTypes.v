(* Types of the facts the translator (tools/goextract) extracts from tea.go,
   tty.go, key.go, signals_unix.go, standard_renderer.go, commands.go, exec.go. *)
From Coq Require Import String List Bool.
Import ListNotations.
Open Scope string_scope.

Inductive chan_dir := CSend | CRecv | CClose | CRange.

(* one channel operation: enclosing top-level function (closures are attributed
   to it), channel expression as written, direction, the OTHER communication
   cases of the select it sits in ("p.ctx.Done()", "default", "time.After",
   another channel expression...; [] when it is not inside a select), and its
   ordinal among the operations of that function in source order *)
Record chanop := mk_chanop {
  co_func : string; co_chan : string; co_dir : chan_dir; co_alts : list string; co_ord : nat
}.

(* a case of the `switch msg := msg.(type)` in eventLoop: the message type
   names of the case, the calls made in its body in source order, each with the
   condition it sits under ("" = unconditional, an inner `case T:` type name,
   "suspendSupported", "windows" for runtime.GOOS tests, "other" otherwise), and how the
   case ends *)
Inductive dend := DFall            (* falls out of the switch: handleMessages, Update, ... follow *)
                | DContinue        (* `continue`: no Update for this message *)
                | DReturn (err : string).   (* `return model, <err>` *)
Record dcase := mk_dcase { dc_types : list string; dc_calls : list (string * string); dc_end : dend }.

(* a call made by Run / shutdown / restoreTerminalState / ReleaseTerminal /
   RestoreTerminal / exec / suspend, in source order, with the condition it sits
   under: "" unconditional, or the option / flag tested, normalised text *)
Record scall := mk_scall { sc_cond : string; sc_call : string }.

(* a return statement of Run: the text of the returned error expression and
   the calls that precede it inside its own block (innermost enclosing block) *)
Record sret := mk_sret { sr_err : string; sr_after_init_terminal : bool; sr_preceded_by : list string }.
