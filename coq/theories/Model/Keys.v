(* Messages produced by the input decoder, and the extended sequence table
   (key_sequences.go: extSequences, seqLengths), built from the GENERATED key
   table BTGen.KeyTable.sequences. *)
From Coq Require Import NArith ZArith List Bool.
Import ListNotations.
From BT Require Import Base.Bytes.
From BTGen Require KeyTable.
Open Scope N_scope.

Inductive msg :=
| MKey (ty : Z) (runes : list N) (alt paste : bool)
| MMouse (x y : Z) (shift alt ctrl : bool) (action button typ : Z)
| MFocus
| MBlur
| MUnknownByte (b : N)
| MUnknownCSI (bs : bytes).

Definition KeyRunes : Z := KeyTable.c_KeyRunes.
Definition KeySpace : Z := KeyTable.c_KeySpace.
Definition KeyEscape : Z := KeyTable.c_KeyEscape.
Definition keyNUL : Z := KeyTable.c_keyNUL.
Definition keyUS : Z := KeyTable.c_keyUS.
Definition keyDEL : Z := KeyTable.c_keyDEL.
Definition keyESC : Z := KeyTable.c_keyESC.

(* the control bytes the loop of extSequences visits: keyNUL+1 .. keyUS without keyESC, then keyDEL *)
Definition ctl_range : list N :=
  filter (fun i => negb (Z.of_N i =? keyESC)%Z)
         (map N.of_nat (seq (Z.to_nat keyNUL + 1) (Z.to_nat keyUS - Z.to_nat keyNUL)))
  ++ [Z.to_N keyDEL].

Definition ext_of_table (t : list (bytes * (Z * bool))) : list (bytes * msg) :=
  flat_map (fun e => let '(s, (ty, alt)) := e in
              (s, MKey ty [] alt false) ::
              (if alt then [] else [(ESC :: s, MKey ty [] true false)])) t.

Definition ext_sequences : list (bytes * msg) :=
  ext_of_table KeyTable.sequences
  ++ flat_map (fun i => [([i], MKey (Z.of_N i) [] false false);
                         ([ESC; i], MKey (Z.of_N i) [] true false)]) ctl_range
  ++ [([32], MKey KeySpace [32] false false);
      ([ESC; 32], MKey KeySpace [32] true false);
      ([ESC; ESC], MKey KeyEscape [] true false)].

Fixpoint assoc_bytes {A} (k : bytes) (l : list (bytes * A)) : option A :=
  match l with
  | [] => None
  | (k', v) :: t => if bytes_eqb k k' then Some v else assoc_bytes k t
  end.

Definition max_seq_len : nat :=
  fold_left (fun m e => Nat.max m (length (fst e))) ext_sequences 0%nat.
