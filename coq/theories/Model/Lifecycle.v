(* The terminal-mode half of Run's startup block, restoreTerminalState,
   ReleaseTerminal and RestoreTerminal (tea.go, tty.go), as pure functions over
   the renderer model, interpreted over the GENERATED call lists of
   gen/Lifecycle.v in the style of EvLoop.run_calls: each entry is a call with
   the condition it sits under; the condition is evaluated against the startup
   options / the renderer state / the remembered flags, the call by
   EvLoop.renderer_call.  An entry the interpreter does not know sets the final
   flag to false: the tie between the Go source and this model is broken.
   No proofs in this file. *)
From Coq Require Import String List Bool NArith.
Import ListNotations.
From BT Require Import Base.Bytes Model.GenTypes Model.VT Model.Renderer Model.EvLoop Spec.Modes.
From BTGen Require Lifecycle.
Open Scope string_scope.
Open Scope list_scope.

(* ---- shared pieces *)

(* p.disableMouse(): the renderer calls of its body (callee names), in order *)
Fixpoint expand_calls (dm : list string) (r : rstate) (out : list tok) (ok : bool) : rstate * list tok * bool :=
  match dm with
  | [] => (r, out, ok)
  | c :: rest =>
    match renderer_call c [] r with
    | Some (r', o) => expand_calls rest r' (out ++ o) ok
    | None => expand_calls rest r out false
    end
  end.

(* one effectful call: p.disableMouse is inlined, anything else must be a renderer call *)
Definition mode_call (dm : list string) (callee : string) (r : rstate) (out : list tok) (ok : bool)
  : rstate * list tok * bool :=
  if callee =? "p.disableMouse" then expand_calls dm r out ok
  else match renderer_call callee [] r with
       | Some (r', o) => (r', out ++ o, ok)
       | None => (r, out, false)
       end.

(* p.initTerminal() (tty.go): every entry unconditional; initInput concerns the tty, not the modes *)
Fixpoint init_terminal_run (calls : list scall) (r : rstate) (out : list tok) (ok : bool) : rstate * list tok * bool :=
  match calls with
  | [] => (r, out, ok)
  | c :: rest =>
    if negb (sc_cond c =? "") then init_terminal_run rest r out false
    else if sc_call c =? "p.initInput" then init_terminal_run rest r out ok
    else if sc_call c =? "p.renderer.hideCursor" then
      let '(r', o) := r_hide_cursor r in init_terminal_run rest r' (out ++ o) ok
    else init_terminal_run rest r out false
  end.

Definition init_terminal (r : rstate) (out : list tok) (ok : bool) : rstate * list tok * bool :=
  init_terminal_run BTGen.Lifecycle.init_terminal_calls r out ok.

Definition str_mem (s : string) (l : list string) : bool := existsb (fun x => x =? s) l.

(* ---- Run: from p.initTerminal up to and excluding p.renderer.start *)

Definition opt_cond (o : opts) (cond : string) : option bool :=
  if cond =? "" then Some true
  else if cond =? "startupTitle" then Some false          (* no startup title in this model *)
  else if cond =? "withAltScreen" then Some (o_alt o)
  else if cond =? "!withoutBracketedPaste" then Some (negb (o_nopaste o))
  else if cond =? "withMouseCellMotion" then Some (o_cell o)
  else if cond =? "!withMouseCellMotion && withMouseAllMotion" then Some (negb (o_cell o) && o_all o)
  else if cond =? "withReportFocus" then Some (o_focus o)
  else None.

(* started = p.initTerminal has been seen; the list must reach p.renderer.start *)
Fixpoint startup_run (calls : list scall) (dm : list string) (o : opts) (started : bool)
         (r : rstate) (out : list tok) (ok : bool) : rstate * list tok * bool :=
  match calls with
  | [] => (r, out, false)
  | c :: rest =>
    if negb started then
      if sc_call c =? "p.initTerminal" then
        let '(r', out', ok') := init_terminal r out (ok && (sc_cond c =? "")) in
        startup_run rest dm o true r' out' ok'
      else startup_run rest dm o false r out ok
    else if sc_call c =? "p.renderer.start" then (r, out, ok && (sc_cond c =? ""))
    else
      match opt_cond o (sc_cond c) with
      | None => startup_run rest dm o true r out false
      | Some false => startup_run rest dm o true r out ok
      | Some true =>
        let '(r', out', ok') := mode_call dm (sc_call c) r out ok in
        startup_run rest dm o true r' out' ok'
      end
  end.

Definition startup (calls : list scall) (dm : list string) (o : opts) (r : rstate) : rstate * list tok * bool :=
  startup_run calls dm o false r [] true.

(* ---- restoreTerminalState *)

Definition restore_cond (r : rstate) (cond : string) : option bool :=
  if cond =? "" then Some true
  else if cond =? "renderer" then Some true
  else if cond =? "renderer && renderer.reportFocus()" then Some (r_focus r)
  else if cond =? "renderer && renderer.altScreen()" then Some (r_alt r)
  else None.

Definition restore_noops : list string := ["time.Sleep"; "p.restoreInput"].

Fixpoint restore_state_run (calls : list scall) (dm : list string) (r : rstate) (out : list tok) (ok : bool)
  : rstate * list tok * bool :=
  match calls with
  | [] => (r, out, ok)
  | c :: rest =>
    if str_mem (sc_call c) restore_noops then restore_state_run rest dm r out ok
    else
      match restore_cond r (sc_cond c) with
      | None => restore_state_run rest dm r out false
      | Some false => restore_state_run rest dm r out ok
      | Some true =>
        let '(r', out', ok') := mode_call dm (sc_call c) r out ok in
        restore_state_run rest dm r' out' ok'
      end
  end.

Definition restore_state (calls : list scall) (dm : list string) (r : rstate) : rstate * list tok * bool :=
  restore_state_run calls dm r [] true.

(* ---- ReleaseTerminal: stop the renderer, remember (alt, bracketed paste, focus), restore the terminal *)

Definition was := (bool * bool * bool)%type.      (* altScreenWasActive, bpWasActive, reportFocus *)

Definition release_noops : list string := ["ignoreSignals=1"; "p.cancelReader.Cancel"; "p.waitForReadLoop"].

Definition release_cond (cond : string) : bool := (cond =? "") || (cond =? "renderer").

Fixpoint release_run (calls : list scall) (dm : list string) (r : rstate) (out : list tok) (w : was) (ok : bool)
  : rstate * list tok * was * bool :=
  match calls with
  | [] => (r, out, w, ok)
  | c :: rest =>
    let '(wa, wb, wf) := w in
    if str_mem (sc_call c) release_noops then release_run rest dm r out w ok
    else if negb (release_cond (sc_cond c)) then release_run rest dm r out w false
    else if sc_call c =? "p.renderer.stop" then
      let '(r', o) := r_stop r in release_run rest dm r' (out ++ o) w ok
    else if sc_call c =? "p.renderer.altScreen" then release_run rest dm r out (r_alt r, wb, wf) ok
    else if sc_call c =? "p.renderer.bracketedPasteActive" then release_run rest dm r out (wa, r_bp r, wf) ok
    else if sc_call c =? "p.renderer.reportFocus" then release_run rest dm r out (wa, wb, r_focus r) ok
    else if sc_call c =? "p.restoreTerminalState" then
      let '(r', out', ok') := restore_state_run BTGen.Lifecycle.restore_terminal_state_calls dm r out ok in
      release_run rest dm r' out' w ok'
    else release_run rest dm r out w false
  end.

(* w0: the three fields of the Program before the call (false in a fresh Program) *)
Definition release (calls : list scall) (dm : list string) (w0 : was) (r : rstate) : rstate * list tok * was * bool :=
  release_run calls dm r [] w0 true.

(* ---- RestoreTerminal *)

Definition restore_term_noops : list string :=
  ["p.initCancelReader"; "p.renderer.start"; "go:p.checkResize"; "ignoreSignals=0"; "go:p.Send(repaintMsg{})"].

Definition restore_term_cond (w : was) (cond : string) : option bool :=
  let '(wa, wb, wf) := w in
  if cond =? "" then Some true
  else if cond =? "renderer" then Some true
  else if cond =? "altWasActive" then Some wa
  else if cond =? "!altWasActive" then Some (negb wa)
  else if cond =? "bpWasActive" then Some wb
  else if cond =? "reportFocus" then Some wf
  else None.

Fixpoint restore_term_run (calls : list scall) (dm : list string) (w : was) (r : rstate) (out : list tok) (ok : bool)
  : rstate * list tok * bool :=
  match calls with
  | [] => (r, out, ok)
  | c :: rest =>
    if str_mem (sc_call c) restore_term_noops then restore_term_run rest dm w r out ok
    else
      match restore_term_cond w (sc_cond c) with
      | None => restore_term_run rest dm w r out false
      | Some false => restore_term_run rest dm w r out ok
      | Some true =>
        let '(r', out', ok') :=
          if sc_call c =? "p.initTerminal" then init_terminal r out ok
          else mode_call dm (sc_call c) r out ok in
        restore_term_run rest dm w r' out' ok'
      end
  end.

Definition restore_term (calls : list scall) (dm : list string) (w : was) (r : rstate) : rstate * list tok * bool :=
  restore_term_run calls dm w r [] true.
