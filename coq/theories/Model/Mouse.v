(* mouse.go: parseMouseButton, parseX10MouseEvent, parseSGRMouseEvent, with the
   numeric constants taken from the GENERATED BTGen.Consts. *)
From Coq Require Import NArith ZArith List Bool.
Import ListNotations.
From BT Require Import Base.Bytes Model.Keys.
From BTGen Require Consts.
Open Scope Z_scope.

Definition has_bit (e m : Z) : bool := negb (Z.land e m =? 0).

Record mouse_ev := { mbutton : Z; maction : Z; mshift : bool; malt : bool; mctrl : bool; mtype : Z }.

Definition is_wheel (b : Z) : bool :=
  (b =? Consts.c_MouseButtonWheelUp) || (b =? Consts.c_MouseButtonWheelDown) ||
  (b =? Consts.c_MouseButtonWheelLeft) || (b =? Consts.c_MouseButtonWheelRight).

Definition legacy_type (button action : Z) : Z :=
  let press := action =? Consts.c_MouseActionPress in
  if (button =? Consts.c_MouseButtonLeft) && press then Consts.c_MouseLeft
  else if (button =? Consts.c_MouseButtonMiddle) && press then Consts.c_MouseMiddle
  else if (button =? Consts.c_MouseButtonRight) && press then Consts.c_MouseRight
  else if (button =? Consts.c_MouseButtonNone) && (action =? Consts.c_MouseActionRelease) then Consts.c_MouseRelease
  else if (button =? Consts.c_MouseButtonWheelUp) && press then Consts.c_MouseWheelUp
  else if (button =? Consts.c_MouseButtonWheelDown) && press then Consts.c_MouseWheelDown
  else if (button =? Consts.c_MouseButtonWheelLeft) && press then Consts.c_MouseWheelLeft
  else if (button =? Consts.c_MouseButtonWheelRight) && press then Consts.c_MouseWheelRight
  else if (button =? Consts.c_MouseButtonBackward) && press then Consts.c_MouseBackward
  else if (button =? Consts.c_MouseButtonForward) && press then Consts.c_MouseForward
  else if action =? Consts.c_MouseActionMotion then
    if button =? Consts.c_MouseButtonLeft then Consts.c_MouseLeft
    else if button =? Consts.c_MouseButtonMiddle then Consts.c_MouseMiddle
    else if button =? Consts.c_MouseButtonRight then Consts.c_MouseRight
    else if button =? Consts.c_MouseButtonBackward then Consts.c_MouseBackward
    else if button =? Consts.c_MouseButtonForward then Consts.c_MouseForward
    else Consts.c_MouseMotion
  else Consts.c_MouseUnknown.

Definition parse_mouse_button (b : Z) (is_sgr : bool) : mouse_ev :=
  let e := if is_sgr then b else b - Consts.c_x10MouseByteOffset in
  let low := Z.land e Consts.c_bitsMask in
  let '(button, action) :=
    if has_bit e Consts.c_bitAdd then (Consts.c_MouseButtonBackward + low, Consts.c_MouseActionPress)
    else if has_bit e Consts.c_bitWheel then (Consts.c_MouseButtonWheelUp + low, Consts.c_MouseActionPress)
    else if low =? Consts.c_bitsMask then (Consts.c_MouseButtonNone, Consts.c_MouseActionRelease)
    else (Consts.c_MouseButtonLeft + low, Consts.c_MouseActionPress) in
  let action := if has_bit e Consts.c_bitMotion && negb (is_wheel button)
                then Consts.c_MouseActionMotion else action in
  {| mbutton := button; maction := action;
     mshift := has_bit e Consts.c_bitShift; malt := has_bit e Consts.c_bitAlt; mctrl := has_bit e Consts.c_bitCtrl;
     mtype := legacy_type button action |}.

Definition mouse_msg (m : mouse_ev) (x y : Z) : msg :=
  MMouse x y (mshift m) (malt m) (mctrl m) (maction m) (mbutton m) (mtype m).

(* parseX10MouseEvent on ESC [ M cb cx cy *)
Definition parse_x10 (cb cx cy : N) : msg :=
  let m := parse_mouse_button (Z.of_N cb) false in
  mouse_msg m (Z.of_N cx - Consts.c_x10MouseByteOffset - 1) (Z.of_N cy - Consts.c_x10MouseByteOffset - 1).

(* strconv.Atoi on a non-empty string of ASCII digits, error ignored:
   the value saturates at 2^63-1. *)
Definition digit_val (b : N) : Z := Z.of_N b - 48.
Definition digits_value (ds : bytes) : Z := fold_left (fun a d => a * 10 + digit_val d) ds 0.
Definition max_int : Z := 9223372036854775807.
Definition atoi_sat (ds : bytes) : Z := Z.min (digits_value ds) max_int.

Definition is_digit (b : N) : bool := in_range 48 57 b.

(* anchored match of  ^(\d+);(\d+);(\d+)([Mm])  — returns the three digit
   groups, the final byte and the length of the match *)
Definition match_sgr (s : bytes) : option (bytes * bytes * bytes * N * nat) :=
  let '(d1, r1) := span is_digit s in
  match d1, r1 with
  | _ :: _, c1 :: r1' =>
    if (c1 =? 59)%N then
      let '(d2, r2) := span is_digit r1' in
      match d2, r2 with
      | _ :: _, c2 :: r2' =>
        if (c2 =? 59)%N then
          let '(d3, r3) := span is_digit r2' in
          match d3, r3 with
          | _ :: _, f :: _ =>
            if (f =? 77)%N || (f =? 109)%N
            then Some (d1, d2, d3, f, (length d1 + 1 + length d2 + 1 + length d3 + 1)%nat)
            else None
          | _, _ => None
          end
        else None
      | _, _ => None
      end
    else None
  | _, _ => None
  end.

(* parseSGRMouseEvent given the match *)
Definition parse_sgr (d1 d2 d3 : bytes) (final : N) : msg :=
  let b := atoi_sat d1 in
  let release := (final =? 109)%N in
  let m := parse_mouse_button b true in
  let m := if negb (maction m =? Consts.c_MouseActionMotion) && negb (is_wheel (mbutton m)) && release
           then {| mbutton := mbutton m; maction := Consts.c_MouseActionRelease;
                   mshift := mshift m; malt := malt m; mctrl := mctrl m; mtype := Consts.c_MouseRelease |}
           else m in
  mouse_msg m (atoi_sat d2 - 1) (atoi_sat d3 - 1).
