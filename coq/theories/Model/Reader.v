(* key.go: readAnsiInputs over a script of reads. *)
From Coq Require Import NArith ZArith List Bool Arith.
Import ListNotations.
From BT Require Import Base.Bytes Model.Keys Model.Decoder.
From BTGen Require Consts.

(* a read returns bytes, or an error, or - io.Reader allows it - bytes TOGETHER with an error (ChunkErr) *)
Inductive chunk := Chunk (bs : bytes) | ReadErr | ChunkErr (bs : bytes).

Inductive stop := StopErr | StopCancelled | StopScriptEnd | StopPanic | StopFuel.

Definition buf_size : nat := Z.to_nat Consts.read_buf_size.

(* inner loop over one buffer.  cancel = Some k: the context is cancelled and
   nobody receives once k messages have been delivered. *)
Inductive inner_res :=
| IDone (out : list (msg * bytes)) (sent : nat)
| ILeft (out : list (msg * bytes)) (sent : nat) (rest : bytes)
| ICancel (out : list (msg * bytes))
| IPanic (out : list (msg * bytes))
| IFuel.

Definition cancelled_at (cancel : option nat) (sent : nat) : bool :=
  match cancel with Some k => Nat.leb k sent | None => false end.

Fixpoint inner (fuel : nat) (b : bytes) (more : bool) (sent : nat) (cancel : option nat) : inner_res :=
  match b with
  | [] => IDone [] sent
  | _ =>
    match fuel with
    | O => IFuel
    | S f =>
      match detect_one_msg b more with
      | DPanic => IPanic []
      | DMore => ILeft [] sent b
      | DMsg O _ => ILeft [] sent b
      | DMsg w m =>
        if cancelled_at cancel sent then ICancel []
        else match inner f (skipn w b) more (S sent) cancel with
             | IDone o s => IDone ((m, firstn w b) :: o) s
             | ILeft o s r => ILeft ((m, firstn w b) :: o) s r
             | ICancel o => ICancel ((m, firstn w b) :: o)
             | IPanic o => IPanic ((m, firstn w b) :: o)
             | IFuel => IFuel
             end
      end
    end
  end.

Record rd_result := { rd_out : list (msg * bytes); rd_left : bytes; rd_why : stop }.

Definition read_end (left bs : bytes) (sent : nat) (cancel : option nat) : rd_result :=
  let b := left ++ bs in
  let fin o l := {| rd_out := o; rd_left := l; rd_why := StopErr |} in
  match inner (length b) b false sent cancel with
  | IDone o _ => fin o []
  | ILeft o _ r => fin o r
  | ICancel o => {| rd_out := o; rd_left := []; rd_why := StopCancelled |}
  | IPanic o => {| rd_out := o; rd_left := []; rd_why := StopPanic |}
  | IFuel => {| rd_out := []; rd_left := []; rd_why := StopFuel |}
  end.

Fixpoint reader_from (script : list chunk) (left : bytes) (sent : nat) (cancel : option nat) : rd_result :=
  match script with
  | [] => {| rd_out := []; rd_left := left; rd_why := StopScriptEnd |}
  (* the input has ended (an error that is not a cancellation): nothing more will follow, so what was held back - and
     the bytes that came together with the error - are decoded as they stand (more = false), then the reader stops *)
  | ReadErr :: _ => read_end left [] sent cancel
  | ChunkErr bs :: _ => read_end left bs sent cancel
  | Chunk bs :: rest =>
    let b := left ++ bs in
    let more := Nat.eqb (length bs) buf_size in
    let cons_out o (r : rd_result) := {| rd_out := o ++ rd_out r; rd_left := rd_left r; rd_why := rd_why r |} in
    match inner (length b) b more sent cancel with
    | IDone o s => cons_out o (reader_from rest [] s cancel)
    | ILeft o s r => cons_out o (reader_from rest r s cancel)
    | ICancel o => {| rd_out := o; rd_left := []; rd_why := StopCancelled |}
    | IPanic o => {| rd_out := o; rd_left := []; rd_why := StopPanic |}
    | IFuel => {| rd_out := []; rd_left := []; rd_why := StopFuel |}
    end
  end.

Definition reader (script : list chunk) (cancel : option nat) : rd_result :=
  reader_from script [] 0 cancel.

(* one-shot decoding of a complete input (what a single short read gives) *)
Definition decode_all (b : bytes) : rd_result := reader [Chunk b] None.
