(* standard_renderer.go mirrored function by function, emitting tokens.
   Strings are byte lists; on the theorem's alphabet (printable ASCII, each
   byte one cell) ansi.StringWidth = length and ansi.Truncate(l,w,"") = firstn w l.
   ignoreLines / scroll areas (deprecated API) are not modelled.
   No proofs in this file. *)
From Coq Require Import NArith List Bool Arith.
Import ListNotations.
From BT Require Import Base.Bytes Model.VT.

Record rstate := {
  r_buf : bytes;                 (* pending frame; [] = nothing written since the last flush *)
  r_queued : list bytes;         (* queuedMessageLines *)
  r_lastRender : bytes;          (* "" = cache invalid *)
  r_lastLines : list bytes;      (* lastRenderedLines *)
  r_linesRendered : nat;
  r_altLinesRendered : nat;
  r_cursorHidden : bool;
  r_alt : bool;
  r_bp : bool;
  r_focus : bool;
  r_width : nat;
  r_height : nat
}.

Definition r_init : rstate :=
  {| r_buf := []; r_queued := []; r_lastRender := []; r_lastLines := []; r_linesRendered := 0; r_altLinesRendered := 0;
     r_cursorHidden := false; r_alt := false; r_bp := false; r_focus := false; r_width := 0; r_height := 0 |}.

(* strings.Split(s, "\n") *)
Fixpoint split_lines (s : bytes) : list bytes :=
  match s with
  | [] => [[]]
  | c :: t =>
    match split_lines t with
    | l :: ls => if (c =? 10)%N then [] :: l :: ls else (c :: l) :: ls
    | [] => [[c]]   (* unreachable: split_lines never returns [] *)
    end
  end.

Definition chars (l : bytes) : list tok := map TChar l.

Definition cuu (n : nat) : tok := TCUU (Nat.max 1 n).   (* ansi.CursorUp(n): n <= 1 prints ESC[A *)
Definition cub (n : nat) : tok := TCUB (Nat.max 1 n).   (* ansi.CursorBackward *)
Definition cup (r : nat) : tok := match r with O => THome | _ => TCUP r end.  (* ansi.CursorPosition(0, r) *)

Definition last_lines_rendered (r : rstate) : nat := if r_alt r then r_altLinesRendered r else r_linesRendered r.

(* a queued message line: erase the rest of its last row unless it ends exactly at the margin *)
Definition msg_line (w : nat) (l : bytes) : list tok :=
  chars l ++
  (if Nat.ltb 0 w && (Nat.eqb (length l) 0 || negb (Nat.eqb (Nat.modulo (length l) w) 0)) then [TELright] else []) ++
  [TCR; TLF].

(* the "Paint new lines" loop *)
Fixpoint paint_lines (first can_skip cache_empty : bool) (w : nat) (lines last : list bytes) : list tok :=
  match lines with
  | [] => []
  | l :: rest =>
    let is_last := match rest with [] => true | _ => false end in
    let same := match last with x :: _ => bytes_eqb x l | [] => false end in
    let last' := match last with _ :: t => t | [] => [] end in
    (if can_skip && same then (if is_last then [] else [TLF])
     else
       (if first && cache_empty then [TCR] else []) ++
       (let l' := if Nat.ltb 0 w then firstn w l else l in
        chars l' ++ (if Nat.ltb (length l') w then [TELright] else [])) ++
       (if is_last then [] else [TCR; TLF]))
    ++ paint_lines false can_skip cache_empty w rest last'
  end.

Definition r_flush (r : rstate) : rstate * list tok :=
  match r_buf r with
  | [] => (r, [])
  | _ =>
    if bytes_eqb (r_buf r) (r_lastRender r) then (r, [])
    else
      let head := if r_alt r then [THome]
                  else if Nat.ltb 1 (r_linesRendered r) then [cuu (r_linesRendered r - 1)] else [] in
      let all := split_lines (r_buf r) in
      let lines := if Nat.ltb 0 (r_height r) && Nat.ltb (r_height r) (length all)
                   then skipn (length all - r_height r) all else all in
      let n := length lines in
      let flushq := negb (match r_queued r with [] => true | _ => false end) && negb (r_alt r) in
      let q := if flushq then flat_map (msg_line (r_width r)) (r_queued r) else [] in
      let body := paint_lines true (negb flushq) (match r_lastRender r with [] => true | _ => false end)
                              (r_width r) lines (r_lastLines r) in
      let ed := if Nat.ltb n (last_lines_rendered r) && (Nat.eqb (r_height r) 0 || Nat.ltb n (r_height r))
                then [TCR; TLF; TEDbelow; cuu 1] else [] in
      let tail := if r_alt r then [cup n] else [cub (r_width r)] in
      ({| r_buf := []; r_queued := if flushq then [] else r_queued r;
          r_lastRender := r_buf r; r_lastLines := lines;
          r_linesRendered := if r_alt r then r_linesRendered r else n;
          r_altLinesRendered := if r_alt r then n else r_altLinesRendered r;
          r_cursorHidden := r_cursorHidden r; r_alt := r_alt r; r_bp := r_bp r; r_focus := r_focus r;
          r_width := r_width r; r_height := r_height r |},
       head ++ q ++ body ++ ed ++ tail)
  end.

Definition upd_frame (r : rstate) (b : bytes) : rstate :=
  {| r_buf := b; r_queued := r_queued r; r_lastRender := r_lastRender r; r_lastLines := r_lastLines r;
     r_linesRendered := r_linesRendered r; r_altLinesRendered := r_altLinesRendered r;
     r_cursorHidden := r_cursorHidden r; r_alt := r_alt r; r_bp := r_bp r; r_focus := r_focus r;
     r_width := r_width r; r_height := r_height r |}.

(* write: the pending frame is REPLACED; "" is rendered as one space *)
Definition r_write (r : rstate) (s : bytes) : rstate :=
  upd_frame r (match s with [] => [32%N] | _ => s end).

Definition r_repaint (r : rstate) : rstate :=
  {| r_buf := r_buf r; r_queued := r_queued r; r_lastRender := []; r_lastLines := [];
     r_linesRendered := r_linesRendered r; r_altLinesRendered := r_altLinesRendered r;
     r_cursorHidden := r_cursorHidden r; r_alt := r_alt r; r_bp := r_bp r; r_focus := r_focus r;
     r_width := r_width r; r_height := r_height r |}.

Definition r_clear_screen (r : rstate) : rstate * list tok := (r_repaint r, [TEDall; THome]).

Definition vis_tok (r : rstate) : tok := if r_cursorHidden r then TReset 25 else TSet 25.

Definition r_enter_alt_core (r : rstate) : rstate * list tok :=
  if r_alt r then (r, [])
  else
    (r_repaint {| r_buf := r_buf r; r_queued := r_queued r; r_lastRender := r_lastRender r; r_lastLines := r_lastLines r;
                  r_linesRendered := r_linesRendered r; r_altLinesRendered := 0;
                  r_cursorHidden := r_cursorHidden r; r_alt := true; r_bp := r_bp r; r_focus := r_focus r;
                  r_width := r_width r; r_height := r_height r |},
     [TSet 1049; TEDall; THome; vis_tok r]).

(* enterAltScreen: lines printed so far belong to the main screen and are written out (one flush) before the switch *)
Definition queue_empty (r : rstate) : bool := match r_queued r with [] => true | _ => false end.
Definition r_enter_alt (r : rstate) : rstate * list tok :=
  if r_alt r || queue_empty r then r_enter_alt_core r
  else let '(r1, t1) := r_flush r in let '(r2, t2) := r_enter_alt_core r1 in (r2, t1 ++ t2).

Definition r_exit_alt (r : rstate) : rstate * list tok :=
  if negb (r_alt r) then (r, [])
  else
    (r_repaint {| r_buf := r_buf r; r_queued := r_queued r; r_lastRender := r_lastRender r; r_lastLines := r_lastLines r;
                  r_linesRendered := r_linesRendered r; r_altLinesRendered := r_altLinesRendered r;
                  r_cursorHidden := r_cursorHidden r; r_alt := false; r_bp := r_bp r; r_focus := r_focus r;
                  r_width := r_width r; r_height := r_height r |},
     [TReset 1049; vis_tok r]).

Definition set_flags (r : rstate) (hidden bp focus : bool) : rstate :=
  {| r_buf := r_buf r; r_queued := r_queued r; r_lastRender := r_lastRender r; r_lastLines := r_lastLines r;
     r_linesRendered := r_linesRendered r; r_altLinesRendered := r_altLinesRendered r;
     r_cursorHidden := hidden; r_alt := r_alt r; r_bp := bp; r_focus := focus;
     r_width := r_width r; r_height := r_height r |}.

Definition r_show_cursor (r : rstate) := (set_flags r false (r_bp r) (r_focus r), [TSet 25]).
Definition r_hide_cursor (r : rstate) := (set_flags r true (r_bp r) (r_focus r), [TReset 25]).
Definition r_enable_paste (r : rstate) := (set_flags r (r_cursorHidden r) true (r_focus r), [TSet 2004]).
Definition r_disable_paste (r : rstate) := (set_flags r (r_cursorHidden r) false (r_focus r), [TReset 2004]).
Definition r_enable_focus (r : rstate) := (set_flags r (r_cursorHidden r) (r_bp r) true, [TSet 1004]).
Definition r_disable_focus (r : rstate) := (set_flags r (r_cursorHidden r) (r_bp r) false, [TReset 1004]).
Definition r_mouse (r : rstate) (m : N) (on : bool) : rstate * list tok := (r, [if on then TSet m else TReset m]).

(* handleMessages *)
Definition r_window_size (r : rstate) (w h : nat) : rstate :=
  r_repaint {| r_buf := r_buf r; r_queued := r_queued r; r_lastRender := r_lastRender r; r_lastLines := r_lastLines r;
               r_linesRendered := r_linesRendered r; r_altLinesRendered := r_altLinesRendered r;
               r_cursorHidden := r_cursorHidden r; r_alt := r_alt r; r_bp := r_bp r; r_focus := r_focus r;
               r_width := w; r_height := h |}.

Definition r_print_line (r : rstate) (body : bytes) : rstate :=
  if r_alt r then r
  else r_repaint {| r_buf := r_buf r; r_queued := r_queued r ++ split_lines body; r_lastRender := r_lastRender r; r_lastLines := r_lastLines r;
                    r_linesRendered := r_linesRendered r; r_altLinesRendered := r_altLinesRendered r;
                    r_cursorHidden := r_cursorHidden r; r_alt := r_alt r; r_bp := r_bp r; r_focus := r_focus r;
                    r_width := r_width r; r_height := r_height r |}.

Definition r_stop (r : rstate) : rstate * list tok :=
  let '(r', out) := r_flush r in (r', out ++ [TELall; TCR]).
Definition r_kill (r : rstate) : rstate * list tok := (r, [TELall; TCR]).

(* operations of a renderer history *)
Inductive rop :=
| OWrite (s : bytes) | OFlush | OResize (w h : nat) | OEnterAlt | OExitAlt | OClear | ORepaint
| OPrint (body : bytes) | OShowCursor | OHideCursor | OMouse (m : N) (on : bool)
| OPaste (on : bool) | OFocus (on : bool) | OStop | OKill.

Definition r_step (r : rstate) (o : rop) : rstate * list tok :=
  match o with
  | OWrite s => (r_write r s, [])
  | OFlush => r_flush r
  | OResize w h => (r_window_size r w h, [])
  | OEnterAlt => r_enter_alt r
  | OExitAlt => r_exit_alt r
  | OClear => r_clear_screen r
  | ORepaint => (r_repaint r, [])
  | OPrint b => (r_print_line r b, [])
  | OShowCursor => r_show_cursor r
  | OHideCursor => r_hide_cursor r
  | OMouse m on => r_mouse r m on
  | OPaste on => if on then r_enable_paste r else r_disable_paste r
  | OFocus on => if on then r_enable_focus r else r_disable_focus r
  | OStop => r_stop r
  | OKill => r_kill r
  end.

(* run a history, collecting the tokens emitted by each operation *)
Fixpoint r_run (r : rstate) (ops : list rop) : rstate * list (list tok) :=
  match ops with
  | [] => (r, [])
  | o :: t => let '(r1, out) := r_step r o in let '(r2, outs) := r_run r1 t in (r2, out :: outs)
  end.

(* newRenderer: framerate = time.Second / time.Duration(clamped fps) (Go integer division) *)
From Coq Require Import ZArith.
From BTGen Require Consts.
Definition r_framerate_ns (fps : Z) : Z :=
  let f := if (fps <? 1)%Z then Consts.c_defaultFPS else if (Consts.c_maxFPS <? fps)%Z then Consts.c_maxFPS else fps in
  Z.quot 1000000000 f.
