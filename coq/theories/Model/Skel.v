(* L2: the finite control skeleton of a running Program (tea.go Run / eventLoop
   / shutdown / handleSignals / handleCommands / readLoop / renderer ticker /
   exec / Kill), over-approximating every environment: any message kind at any
   time, signals, input, input errors, EOF, Kill, context cancellation, panics
   in every callback, both startup failures.  Every blocking channel operation
   carries a guard flag taken from the GENERATED inventory (gen/ChanOps.v,
   gen/Lifecycle.v) saying whether the source gives it a cancellation
   alternative.  No proofs in this file. *)
From Coq Require Import List Bool Arith.
Import ListNotations.

Inductive mkind := MkUser | MkQuit | MkInt | MkBatch | MkExec.
Inductive exitr := XrNil | XrInt | XrReadErr | XrCtx.
Inductive err := ENil | EInt | EReadErr | EKilled | EOther | ENilAfterPanic.
Inductive phase := Sd0 | Sd1 | Sd2 | Sd3 | Sd4 | Sd5.

Inductive runpc :=
| RPre | RStartup | RInitCb | RView0Cb | RInitReader | RSelect
| RFilterCb (k : mkind) | RDispatch (k : mkind)
| RBatch | RBatchAfter | RUpdateCb | RCmdSend | RViewCb
| RExecRelease | RExecRun | RExecRestore
| RExit (e : exitr) | RFinalViewCb
| RSd (p : phase) (kill : bool) (e : err)
| RReturned (e : err).

Inductive cdpc := CdNs | CdSelect | CdDone.                       (* command dispatcher (handleCommands) *)
Inductive sigpc := SgOff | SgNr | SgWait | SgSendInt | SgSendQuit | SgDone.   (* signal handler goroutine *)
Inductive ifwpc := IfNone | IfWait | IfDone.                      (* Init command forwarder *)
Inductive rdpc := RdNone | RdReading | RdSendMsg | RdSendErr | RdDone.       (* read loop *)
Inductive tkpc := TkNs | TkListen | TkDone.                       (* renderer ticker (listen) *)
Inductive kxpc := KxNone | KxSd (p : phase) | KxDone.             (* an external shutdown caller: Kill / panicking command *)
Inductive finst := Fin0 | Fin1 | FinClosed.

Record skel := {
  run : runpc; cd : cdpc; sg : sigpc; ifw : ifwpc; rd : rdpc; tk : tkpc; once : bool; kx : kxpc;
  ctx : bool; ign : bool; fin : finst; restored_last : bool
}.

(* guards extracted from the source *)
Record guards := {
  g_cmd_send : bool;             (* eventLoop: cmds <- cmd after Update has a ctx alternative *)
  g_batch_send : bool;           (* eventLoop: cmds <- cmd in the BatchMsg loop has a ctx alternative *)
  g_sig_send : bool;             (* handleSignals: delivering Interrupt/Quit gives up on ctx.Done *)
  g_fin_broadcast : bool;        (* shutdown releases Wait callers by close (every path, any number) *)
  g_startup_fail_restores : bool;(* the return after a failed initCancelReader is preceded by shutdown *)
  g_panic_err : bool;            (* Run's recover path sets a non-nil error *)
  g_run_defers_cancel : bool;    (* Run defers p.cancel() *)
  g_run_defers_finish : bool;    (* Run defers closing p.finished *)
  g_rd_err_send : bool;          (* readLoop: p.errs <- err has a ctx alternative *)
  g_rd_msg_send : bool;          (* readAnsiInputs: msgs <- msg has a ctx alternative *)
  g_ifw_send : bool;             (* Init forwarder: cmds <- initCmd has a ctx alternative *)
  g_cd_recv : bool;              (* handleCommands selects on ctx.Done *)
  g_sig_recv : bool;             (* handleSignals selects on ctx.Done while waiting for a signal *)
  g_wait_read_timeout : bool     (* waitForReadLoop has a timeout alternative *)
}.

Inductive ekind := KRt | KEnv | KCbEnd | KBatchMore.

Definition upd_run (s : skel) (r : runpc) : skel :=
  {| run := r; cd := cd s; sg := sg s; ifw := ifw s; rd := rd s; tk := tk s; once := once s; kx := kx s;
     ctx := ctx s; ign := ign s; fin := fin s; restored_last := restored_last s |}.

Definition handlers_done (s : skel) : bool :=
  (match sg s with SgOff | SgDone => true | _ => false end) &&
  (match ifw s with IfNone | IfDone => true | _ => false end) &&
  (match cd s with CdNs | CdDone => true | _ => false end).

Definition next_phase (p : phase) : phase :=
  match p with Sd0 => Sd1 | Sd1 => Sd2 | Sd2 => Sd3 | Sd3 => Sd4 | Sd4 => Sd5 | Sd5 => Sd5 end.

(* one step of a shutdown() caller.  who = true: the Run thread; false: the external caller.
   Returns the successor (at most one). *)
Definition sd_step (G : guards) (s : skel) (who : bool) (p : phase) (kill : bool) (e : err) : list skel :=
  let setph (s' : skel) (p' : phase) : skel :=
    if who then upd_run s' (RSd p' kill e)
    else {| run := run s'; cd := cd s'; sg := sg s'; ifw := ifw s'; rd := rd s'; tk := tk s'; once := once s'; kx := KxSd p';
            ctx := ctx s'; ign := ign s'; fin := fin s'; restored_last := restored_last s' |} in
  match p with
  | Sd0 => (* p.cancel() *)
    [setph {| run := run s; cd := cd s; sg := sg s; ifw := ifw s; rd := rd s; tk := tk s; once := once s; kx := kx s;
              ctx := true; ign := ign s; fin := fin s; restored_last := restored_last s |} Sd1]
  | Sd1 => (* p.handlers.shutdown(): wait for signal handler, Init forwarder, command dispatcher *)
    if handlers_done s then [setph s Sd2] else []
  | Sd2 => (* cancelReader.Cancel(); waitForReadLoop (timeout); Close *)
    let s' := match rd s with
              | RdReading => {| run := run s; cd := cd s; sg := sg s; ifw := ifw s; rd := RdDone; tk := tk s; once := once s; kx := kx s;
                                ctx := ctx s; ign := ign s; fin := fin s; restored_last := restored_last s |}
              | _ => s end in
    if g_wait_read_timeout G || (match rd s with RdNone | RdDone | RdReading => true | _ => false end)
    then [setph s' Sd3] else []
  | Sd3 => (* renderer.kill()/stop(): once.Do(done <- struct{}{}) needs the listener *)
    if once s then [setph s Sd4]
    else match tk s with
         | TkListen => [setph {| run := run s; cd := cd s; sg := sg s; ifw := ifw s; rd := rd s; tk := TkDone; once := true; kx := kx s;
                                 ctx := ctx s; ign := ign s; fin := fin s; restored_last := restored_last s |} Sd4]
         | _ => []
         end
  | Sd4 => (* restoreTerminalState *)
    [setph (if who then {| run := run s; cd := cd s; sg := sg s; ifw := ifw s; rd := rd s; tk := tk s; once := once s; kx := kx s;
                           ctx := ctx s; ign := ign s; fin := fin s; restored_last := true |} else s) Sd5]
  | Sd5 => (* release Wait callers; return *)
    let finish (f : finst) : skel :=
      if who then
        {| run := RReturned e; cd := cd s; sg := sg s; ifw := ifw s; rd := rd s; tk := tk s; once := once s; kx := kx s;
           ctx := ctx s || g_run_defers_cancel G; ign := ign s;
           fin := if g_run_defers_finish G then FinClosed else f; restored_last := restored_last s |}
      else
        {| run := run s; cd := cd s; sg := sg s; ifw := ifw s; rd := rd s; tk := tk s; once := once s; kx := KxDone;
           ctx := ctx s; ign := ign s; fin := f; restored_last := restored_last s |} in
    if g_fin_broadcast G then [finish FinClosed]
    else if kill then [finish (fin s)]
    else match fin s with
         | Fin0 => [finish Fin1]
         | _ => []           (* the buffered channel is full: the send blocks *)
         end
  end.

Definition early_return (G : guards) (s : skel) (e : err) : skel :=
  {| run := RReturned e; cd := cd s; sg := sg s; ifw := ifw s; rd := rd s; tk := tk s; once := once s; kx := kx s;
     ctx := ctx s || g_run_defers_cancel G; ign := ign s;
     fin := if g_run_defers_finish G then FinClosed else fin s; restored_last := restored_last s |}.

Definition all_kinds : list mkind := [MkUser; MkQuit; MkInt; MkBatch; MkExec].

Definition is_cb (r : runpc) : bool :=
  match r with RInitCb | RView0Cb | RFilterCb _ | RUpdateCb | RViewCb | RFinalViewCb => true | _ => false end.

Definition started (r : runpc) : bool :=
  match r with RPre | RStartup | RInitCb | RView0Cb | RInitReader => false | _ => true end.

(* all transitions enabled in s *)
Definition steps (G : guards) (s : skel) : list (ekind * skel) :=
  let S (r : runpc) := upd_run s r in
  let withf cd' sg' ifw' rd' tk' once' kx' ctx' ign' rl' r' :=
    {| run := r'; cd := cd'; sg := sg'; ifw := ifw'; rd := rd'; tk := tk'; once := once'; kx := kx';
       ctx := ctx'; ign := ign'; fin := fin s; restored_last := rl' |} in
  (* ---- the Run thread *)
  (match run s with
   | RPre => [(KEnv, S RStartup)]
   | RStartup =>
     [(KEnv, early_return G s EOther);                        (* openInputTTY / initTerminal failed: nothing changed yet *)
      (KRt, withf (cd s) (sg s) (ifw s) (rd s) TkListen (once s) (kx s) (ctx s) (ign s) false RInitCb)]
   | RInitCb =>
     [(KCbEnd, S RView0Cb);
      (KCbEnd, withf (cd s) (sg s) IfWait (rd s) (tk s) (once s) (kx s) (ctx s) (ign s) (restored_last s) RView0Cb)]
   | RView0Cb => [(KCbEnd, S RInitReader)]
   | RInitReader =>
     [(KRt, withf CdSelect (sg s) (ifw s) RdNone (tk s) (once s) (kx s) (ctx s) (ign s) (restored_last s) RSelect);
      (KRt, withf CdSelect (sg s) (ifw s) RdReading (tk s) (once s) (kx s) (ctx s) (ign s) (restored_last s) RSelect);
      (KEnv, if g_startup_fail_restores G then S (RSd Sd0 true EOther) else early_return G s EOther)]
   | RSelect =>
     (if ctx s then [(KRt, S (RExit XrCtx))] else []) ++
     (match rd s with RdSendErr => [(KRt, withf (cd s) (sg s) (ifw s) RdDone (tk s) (once s) (kx s) (ctx s) (ign s) (restored_last s) (RExit XrReadErr))] | _ => [] end) ++
     map (fun k => (KEnv, S (RFilterCb k))) all_kinds ++
     (match sg s with
      | SgSendInt => [(KRt, withf (cd s) SgDone (ifw s) (rd s) (tk s) (once s) (kx s) (ctx s) (ign s) (restored_last s) (RFilterCb MkInt))]
      | SgSendQuit => [(KRt, withf (cd s) SgDone (ifw s) (rd s) (tk s) (once s) (kx s) (ctx s) (ign s) (restored_last s) (RFilterCb MkQuit))]
      | _ => [] end) ++
     (match rd s with RdSendMsg => [(KRt, withf (cd s) (sg s) (ifw s) RdReading (tk s) (once s) (kx s) (ctx s) (ign s) (restored_last s) (RFilterCb MkUser))] | _ => [] end)
   | RFilterCb _ => (KCbEnd, S RSelect) :: map (fun k => (KCbEnd, S (RDispatch k))) all_kinds
   | RDispatch k =>
     [(KRt, match k with
            | MkQuit => S (RExit XrNil)
            | MkInt => S (RExit XrInt)
            | MkBatch => S RBatchAfter
            | MkExec => S RExecRelease
            | MkUser => withf (cd s) (sg s) (ifw s) (rd s) (tk s) (once s) (kx s) (ctx s) (ign s) false RUpdateCb
            end)]
   | RBatch =>
     (match cd s with CdSelect => [(KRt, S RBatchAfter)] | _ => [] end) ++
     (if g_batch_send G && ctx s then [(KRt, S (RExit XrCtx))] else [])
   | RBatchAfter => [(KBatchMore, S RBatch); (KCbEnd, S RSelect)]
   | RUpdateCb => [(KCbEnd, S RCmdSend)]
   | RCmdSend =>
     (match cd s with CdSelect => [(KRt, S RViewCb)] | _ => [] end) ++
     (if g_cmd_send G && ctx s then [(KRt, S (RExit XrCtx))] else [])
   | RViewCb => [(KCbEnd, S RSelect)]
   | RExecRelease =>
     (* ReleaseTerminal: ignoreSignals=1, cancel reader + wait, renderer.stop (handshake), restoreTerminalState *)
     let rd' := match rd s with RdReading => RdDone | x => x end in
     if once s then [(KRt, withf (cd s) (sg s) (ifw s) rd' (tk s) true (kx s) (ctx s) true true RExecRun)]
     else match tk s with
          | TkListen => [(KRt, withf (cd s) (sg s) (ifw s) rd' TkDone true (kx s) (ctx s) true true RExecRun)]
          | _ => []
          end
   | RExecRun => [(KCbEnd, S RExecRestore)]
   | RExecRestore =>
     [(KRt, withf (cd s) (sg s) (ifw s) (match rd s with RdNone => RdNone | _ => RdReading end) TkListen false (kx s) (ctx s) false false RUpdateCb)]
   | RExit e =>
     let killed := ctx s || match e with XrInt | XrReadErr => true | _ => false end in
     [(KRt, match e, killed with
            | XrNil, false => S RFinalViewCb
            | _, _ => S (RSd Sd0 true (match e with XrInt => EInt | XrReadErr => EReadErr | _ => EKilled end))
            end)]
   | RFinalViewCb => [(KCbEnd, S (RSd Sd0 false ENil))]
   | RSd p kill e => map (fun s' => (KRt, s')) (sd_step G s true p kill e)
   | RReturned _ => []
   end) ++
  (* a panic in a user callback executed by the Run thread: recovered, shutdown(true) *)
  (if is_cb (run s) then [(KEnv, S (RSd Sd0 true (if g_panic_err G then EKilled else ENilAfterPanic)))] else []) ++
  (* ---- command dispatcher *)
  (match cd s with
   | CdSelect =>
     (if g_cd_recv G && ctx s then [(KRt, withf CdDone (sg s) (ifw s) (rd s) (tk s) (once s) (kx s) (ctx s) (ign s) (restored_last s) (run s))] else []) ++
     (match ifw s with IfWait => [(KRt, withf (cd s) (sg s) IfDone (rd s) (tk s) (once s) (kx s) (ctx s) (ign s) (restored_last s) (run s))] | _ => [] end)
   | _ => [] end) ++
  (* ---- Init forwarder *)
  (match ifw s with
   | IfWait => if g_ifw_send G && ctx s then [(KRt, withf (cd s) (sg s) IfDone (rd s) (tk s) (once s) (kx s) (ctx s) (ign s) (restored_last s) (run s))] else []
   | _ => [] end) ++
  (* ---- signal handler *)
  (match sg s with
   | SgNr => match run s with RPre => [] | _ => [(KRt, withf (cd s) SgWait (ifw s) (rd s) (tk s) (once s) (kx s) (ctx s) (ign s) (restored_last s) (run s))] end
   | SgWait =>
     (if g_sig_recv G && ctx s then [(KRt, withf (cd s) SgDone (ifw s) (rd s) (tk s) (once s) (kx s) (ctx s) (ign s) (restored_last s) (run s))] else []) ++
     [(KEnv, withf (cd s) (if ign s then SgWait else SgSendInt) (ifw s) (rd s) (tk s) (once s) (kx s) (ctx s) (ign s) (restored_last s) (run s));
      (KEnv, withf (cd s) (if ign s then SgWait else SgSendQuit) (ifw s) (rd s) (tk s) (once s) (kx s) (ctx s) (ign s) (restored_last s) (run s))]
   | SgSendInt | SgSendQuit =>
     if g_sig_send G && ctx s then [(KRt, withf (cd s) SgDone (ifw s) (rd s) (tk s) (once s) (kx s) (ctx s) (ign s) (restored_last s) (run s))] else []
   | _ => [] end) ++
  (* ---- read loop *)
  (match rd s with
   | RdReading =>
     [(KEnv, withf (cd s) (sg s) (ifw s) RdSendMsg (tk s) (once s) (kx s) (ctx s) (ign s) (restored_last s) (run s));
      (KEnv, withf (cd s) (sg s) (ifw s) RdSendErr (tk s) (once s) (kx s) (ctx s) (ign s) (restored_last s) (run s));
      (KEnv, withf (cd s) (sg s) (ifw s) RdDone (tk s) (once s) (kx s) (ctx s) (ign s) (restored_last s) (run s))]   (* EOF: the loop just ends *)
   | RdSendMsg => if g_rd_msg_send G && ctx s then [(KRt, withf (cd s) (sg s) (ifw s) RdDone (tk s) (once s) (kx s) (ctx s) (ign s) (restored_last s) (run s))] else []
   | RdSendErr => if g_rd_err_send G && ctx s then [(KRt, withf (cd s) (sg s) (ifw s) RdDone (tk s) (once s) (kx s) (ctx s) (ign s) (restored_last s) (run s))] else []
   | _ => [] end) ++
  (* ---- an external shutdown caller (Kill, or a panicking command's recover) *)
  (match kx s with
   | KxNone => if started (run s) && negb (match run s with RReturned _ => true | _ => false end)
               then [(KEnv, withf (cd s) (sg s) (ifw s) (rd s) (tk s) (once s) (KxSd Sd0) (ctx s) (ign s) (restored_last s) (run s))] else []
   | KxSd p => map (fun s' => (KRt, s')) (sd_step G s false p true EKilled)
   | KxDone => [] end) ++
  (* ---- cancellation of the supplied context *)
  (if negb (ctx s) && negb (match run s with RPre => true | _ => false end)
   then [(KEnv, withf (cd s) (sg s) (ifw s) (rd s) (tk s) (once s) (kx s) true (ign s) (restored_last s) (run s))] else []).

Definition init_skel (sighandler : bool) : skel :=
  {| run := RPre; cd := CdNs; sg := if sighandler then SgNr else SgOff; ifw := IfNone; rd := RdNone; tk := TkNs;
     once := false; kx := KxNone; ctx := false; ign := false; fin := Fin0; restored_last := true |}.

(* a termination cause has struck *)
Definition struck (s : skel) : bool :=
  ctx s || (match run s with RExit _ | RSd _ _ _ | RReturned _ => true | _ => false end) ||
  (match kx s with KxNone => false | _ => true end).

Definition is_returned (s : skel) : bool := match run s with RReturned _ => true | _ => false end.
