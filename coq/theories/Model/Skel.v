(* L2: the finite control skeleton of a running Program (tea.go Run / eventLoop
   / shutdown / handleSignals / handleCommands / readLoop / renderer ticker /
   exec / Kill), over-approximating every environment: any message kind at any
   time, signals, input, input errors, EOF, Kill, context cancellation, panics
   in every callback, both startup failures.  Every blocking channel operation
   carries a guard flag computed from the GENERATED inventories
   (gen/ChanOps.v, gen/Lifecycle.v, gen/Signals.v; see Model/SkelTie.v) saying
   whether the source gives it a cancellation alternative.
   Ghost fields (never read by a transition guard): dec = the exit decision
   the Run thread took, ext = an external cause (Kill, cancellation of the
   supplied context, a panicking command) has struck, restored_last = the last
   mode-affecting action of the Run thread was restoreTerminalState.
   No proofs in this file. *)
From Coq Require Import List Bool Arith.
Import ListNotations.

Inductive mkind := MkUser | MkQuit | MkInt | MkBatch | MkExec.
Inductive exitr := XrNil | XrInt | XrReadErr | XrCtx.
Inductive err := ENil | EInt | EReadErr | EKilled | EOther | ENilAfterPanic.
Inductive phase := Sd0 | Sd1 | Sd2 | Sd3 | Sd4 | Sd5.
(* the exit decision (ghost) *)
Inductive decision := DNone | DQuit | DInt | DReadErr | DCtx | DPanic | DStartFail.

Inductive runpc :=
| RPre | RStartup | RInitCb | RView0Cb | RInitReader | RSelect
| RFilterCb (k : mkind) | RDispatch (k : mkind)
| RBatch | RBatchAfter | RUpdateCb | RCmdSend | RViewCb
| RExecRelease | RExecRun | RExecRestore
| RExit (e : exitr) | RFinalViewCb
| RSd (p : phase) (kill : bool) (e : err)
| RReturned (e : err).

Inductive cdpc := CdNs | CdSelect | CdDone.                       (* command dispatcher (handleCommands) *)
Inductive sigpc := SgOff | SgNr | SgWait | SgSendInt | SgSendQuit | SgDone.   (* signal handler goroutine *)
Inductive ifwpc := IfNone | IfWait | IfDone.                      (* Init command forwarder *)
Inductive rdpc := RdNone | RdReading | RdSendMsg | RdSendErr | RdDone.       (* read loop *)
Inductive tkpc := TkNs | TkListen | TkDone | TkStale.             (* renderer ticker (listen); TkStale: a listener whose ticker was stopped behind its back *)
Inductive kxpc := KxNone | KxSd (p : phase) | KxDone.             (* an external shutdown caller: Kill / panicking command *)
Inductive finst := Fin0 | Fin1 | FinClosed.

Record skel := mk_skel {
  run : runpc; cd : cdpc; sg : sigpc; ifw : ifwpc; rd : rdpc; tk : tkpc; once : bool; kx : kxpc;
  ctx : bool; ign : bool; fin : finst; restored_last : bool; dec : decision; ext : bool; nosig : bool
}.

(* guards extracted from the source *)
Record guards := mk_guards {
  g_cmd_send : bool;             (* eventLoop: cmds <- cmd after Update has a ctx alternative *)
  g_batch_send : bool;           (* eventLoop: cmds <- cmd in the BatchMsg loop has a ctx alternative *)
  g_sig_send : bool;             (* handleSignals: delivering Interrupt/Quit gives up on ctx.Done *)
  g_fin_broadcast : bool;        (* shutdown releases Wait callers by close (every path, any number) *)
  g_startup_fail_restores : bool;(* the return after a failed initCancelReader is preceded by shutdown *)
  g_panic_err : bool;            (* Run's recover path sets a non-nil error *)
  g_run_defers_cancel : bool;    (* Run defers p.cancel() *)
  g_run_defers_finish : bool;    (* Run defers closing p.finished *)
  g_rd_err_send : bool;          (* readLoop: p.errs <- err has a ctx alternative *)
  g_rd_msg_send : bool;          (* readAnsiInputs: msgs <- msg has a ctx alternative *)
  g_ifw_send : bool;             (* Init forwarder: cmds <- initCmd has a ctx alternative *)
  g_cd_recv : bool;              (* handleCommands selects on ctx.Done *)
  g_sig_recv : bool;             (* handleSignals selects on ctx.Done while waiting for a signal *)
  g_wait_read_timeout : bool;    (* waitForReadLoop has a timeout alternative *)
  g_sig_loops : bool;            (* handleSignals keeps waiting after an ignored signal *)
  g_sig_honours_ignore : bool;   (* handleSignals tests ignoreSignals before forwarding *)
  g_sig_int_is_interrupt : bool; (* SIGINT -> InterruptMsg, anything else -> QuitMsg *)
  g_shutdown_cancels_first : bool;(* shutdown calls p.cancel() before waiting for the handlers *)
  g_shutdown_restores : bool;    (* shutdown ends with restoreTerminalState, unconditionally *)
  g_killed_wraps : bool;         (* Run: killed := ctx.Err()!=nil || err!=nil; killed && err==nil => ErrProgramKilled *)
  g_quit_nil : bool;             (* dispatch: QuitMsg => return model, nil *)
  g_int_err : bool;              (* dispatch: InterruptMsg => return model, ErrInterrupted *)
  g_loop_ctx_nil : bool;         (* eventLoop: <-ctx.Done() => return model, nil (turned into killed by Run) *)
  g_loop_err : bool;             (* eventLoop: err := <-p.errs => return model, err *)
  g_release_ignores : bool;      (* ReleaseTerminal sets ignoreSignals, RestoreTerminal clears it *)
  g_release_stops_reader : bool; (* ReleaseTerminal cancels the reader and waits for the read loop *)
  g_release_stops_renderer : bool;(* ReleaseTerminal stops the renderer (ticker handshake) before restoring the terminal *)
  g_restore_keeps_nosig : bool;  (* RestoreTerminal does not re-enable signals that WithoutSignals switched off *)
  g_rz_guarded : bool;           (* listenForResize selects on ctx.Done; checkResize's sends (p.errs, Send) have a ctx alternative *)
  g_sig_stays : bool;            (* handleSignals keeps listening after it has forwarded a signal *)
  g_restore_unignores_first : bool; (* RestoreTerminal clears ignoreSignals before its first call that can fail *)
  g_ticker_stopped_by_stopper : bool; (* the frame ticker is stopped by stop()/kill() after the hand-shake, not by the listener *)
  g_release_failure_restores : bool  (* exec calls RestoreTerminal when ReleaseTerminal failed *)
}.

Inductive ekind := KRt | KEnv | KCbEnd | KBatchMore.

Definition set_run (s : skel) (x : runpc) : skel :=
  mk_skel x (cd s) (sg s) (ifw s) (rd s) (tk s) (once s) (kx s) (ctx s) (ign s) (fin s) (restored_last s) (dec s) (ext s) (nosig s).
Definition set_cd (s : skel) (x : cdpc) : skel :=
  mk_skel (run s) x (sg s) (ifw s) (rd s) (tk s) (once s) (kx s) (ctx s) (ign s) (fin s) (restored_last s) (dec s) (ext s) (nosig s).
Definition set_sg (s : skel) (x : sigpc) : skel :=
  mk_skel (run s) (cd s) x (ifw s) (rd s) (tk s) (once s) (kx s) (ctx s) (ign s) (fin s) (restored_last s) (dec s) (ext s) (nosig s).
Definition set_ifw (s : skel) (x : ifwpc) : skel :=
  mk_skel (run s) (cd s) (sg s) x (rd s) (tk s) (once s) (kx s) (ctx s) (ign s) (fin s) (restored_last s) (dec s) (ext s) (nosig s).
Definition set_rd (s : skel) (x : rdpc) : skel :=
  mk_skel (run s) (cd s) (sg s) (ifw s) x (tk s) (once s) (kx s) (ctx s) (ign s) (fin s) (restored_last s) (dec s) (ext s) (nosig s).
Definition set_tk (s : skel) (x : tkpc) (o : bool) : skel :=
  mk_skel (run s) (cd s) (sg s) (ifw s) (rd s) x o (kx s) (ctx s) (ign s) (fin s) (restored_last s) (dec s) (ext s) (nosig s).
Definition set_kx (s : skel) (x : kxpc) : skel :=
  mk_skel (run s) (cd s) (sg s) (ifw s) (rd s) (tk s) (once s) x (ctx s) (ign s) (fin s) (restored_last s) (dec s) (ext s) (nosig s).
Definition set_ctx (s : skel) (x : bool) : skel :=
  mk_skel (run s) (cd s) (sg s) (ifw s) (rd s) (tk s) (once s) (kx s) x (ign s) (fin s) (restored_last s) (dec s) (ext s) (nosig s).
Definition set_ign (s : skel) (x : bool) : skel :=
  mk_skel (run s) (cd s) (sg s) (ifw s) (rd s) (tk s) (once s) (kx s) (ctx s) x (fin s) (restored_last s) (dec s) (ext s) (nosig s).
Definition set_fin (s : skel) (x : finst) : skel :=
  mk_skel (run s) (cd s) (sg s) (ifw s) (rd s) (tk s) (once s) (kx s) (ctx s) (ign s) x (restored_last s) (dec s) (ext s) (nosig s).
Definition set_rl (s : skel) (x : bool) : skel :=
  mk_skel (run s) (cd s) (sg s) (ifw s) (rd s) (tk s) (once s) (kx s) (ctx s) (ign s) (fin s) x (dec s) (ext s) (nosig s).
Definition set_dec (s : skel) (x : decision) : skel :=
  mk_skel (run s) (cd s) (sg s) (ifw s) (rd s) (tk s) (once s) (kx s) (ctx s) (ign s) (fin s) (restored_last s) x (ext s) (nosig s).
Definition set_ext (s : skel) (x : bool) : skel :=
  mk_skel (run s) (cd s) (sg s) (ifw s) (rd s) (tk s) (once s) (kx s) (ctx s) (ign s) (fin s) (restored_last s) (dec s) x (nosig s).

Definition handlers_done (s : skel) : bool :=
  (match sg s with SgOff | SgDone => true | _ => false end) &&
  (match ifw s with IfNone | IfDone => true | _ => false end) &&
  (match cd s with CdNs | CdDone => true | _ => false end).

(* one step of a shutdown() caller.  who = true: the Run thread; false: the external caller.
   Returns the successor (at most one). *)
Definition sd_step (G : guards) (s : skel) (who : bool) (p : phase) (kill : bool) (e : err) : list skel :=
  let setph (s' : skel) (p' : phase) : skel := if who then set_run s' (RSd p' kill e) else set_kx s' (KxSd p') in
  match p with
  | Sd0 => (* p.cancel() -- or, when the source no longer cancels first, straight to the wait *)
    [setph (if g_shutdown_cancels_first G then set_ctx s true else s) Sd1]
  | Sd1 => (* p.handlers.shutdown(): wait for signal handler, Init forwarder, command dispatcher - and the resize
              listener, which is not a thread of this skeleton: it has ONE blocking point (its select), which has the
              ctx.Done alternative iff g_rz_guarded, and every send it makes (p.errs, Send) has one too; the context is
              cancelled by now, so it is done after at most one step of its own and the wait for it does not block *)
    if handlers_done s && ctx s && g_rz_guarded G then [setph s Sd2] else []
  | Sd2 => (* cancelReader.Cancel(); waitForReadLoop (timeout); Close *)
    let s' := match rd s with RdReading => set_rd s RdDone | _ => s end in
    if g_wait_read_timeout G || (match rd s with RdNone | RdDone | RdReading => true | _ => false end)
    then [setph s' Sd3] else []
  | Sd3 => (* renderer.kill()/stop(): once.Do(done <- struct{}{}) needs the listener *)
    if once s then [setph s Sd4]
    else match tk s with
         | TkListen | TkStale => [setph (set_tk s TkDone true) Sd4]
         | _ => []
         end
  | Sd4 => (* restoreTerminalState *)
    [setph (if who && g_shutdown_restores G then set_rl s true else s) Sd5]
  | Sd5 => (* release Wait callers; return *)
    let finish (f : finst) : skel :=
      if who then set_fin (set_ctx (set_run s (RReturned e)) (ctx s || g_run_defers_cancel G))
                          (if g_run_defers_finish G then FinClosed else f)
      else set_fin (set_kx s KxDone) f in
    if g_fin_broadcast G then [finish FinClosed]
    else if kill then [finish (fin s)]
    else match fin s with
         | Fin0 => [finish Fin1]
         | _ => []           (* the buffered channel is full: the send blocks *)
         end
  end.

Definition early_return (G : guards) (s : skel) (e : err) : skel :=
  set_fin (set_ctx (set_run s (RReturned e)) (ctx s || g_run_defers_cancel G))
          (if g_run_defers_finish G then FinClosed else fin s).

Definition all_kinds : list mkind := [MkUser; MkQuit; MkInt; MkBatch; MkExec].

Definition is_cb (r : runpc) : bool :=
  match r with RInitCb | RView0Cb | RFilterCb _ | RUpdateCb | RViewCb | RFinalViewCb | RExecRun => true | _ => false end.

Definition started (r : runpc) : bool :=
  match r with RPre | RStartup => false | _ => true end.   (* the renderer has been started (Kill before that races Run's own set-up) *)

Definition is_returned (s : skel) : bool := match run s with RReturned _ => true | _ => false end.

(* the error Run computes from what eventLoop returned (tea.go: killed := ...) *)
Definition run_error (G : guards) (s : skel) (e : exitr) : bool * err :=
  let loop_err := match e with
                  | XrNil => if g_quit_nil G then ENil else EOther
                  | XrInt => if g_int_err G then EInt else ENil
                  | XrReadErr => if g_loop_err G then EReadErr else ENil
                  | XrCtx => if g_loop_ctx_nil G then ENil else EOther
                  end in
  let killed := ctx s || negb (match loop_err with ENil => true | _ => false end) in
  (killed, match loop_err with
           | ENil => if killed then (if g_killed_wraps G then EKilled else ENil) else ENil
           | x => x end).

(* all transitions enabled in s *)
Definition steps (G : guards) (s : skel) : list (ekind * skel) :=
  let S (r : runpc) := set_run s r in
  (* ---- the Run thread *)
  (match run s with
   | RPre => [(KEnv, S RStartup)]
   | RStartup =>
     [(KEnv, set_dec (early_return G s EOther) DStartFail);     (* openInputTTY / initTerminal failed: nothing changed yet *)
      (KRt, set_rl (set_tk (S RInitCb) TkListen false) false)]
   | RInitCb => [(KCbEnd, S RView0Cb); (KCbEnd, set_ifw (S RView0Cb) IfWait)]
   | RView0Cb => [(KCbEnd, S RInitReader)]
   | RInitReader =>
     [(KRt, set_cd (set_rd (S RSelect) RdNone) CdSelect);
      (KRt, set_cd (set_rd (S RSelect) RdReading) CdSelect);
      (KEnv, set_dec (if g_startup_fail_restores G then S (RSd Sd0 true EOther) else early_return G s EOther) DStartFail)]
   | RSelect =>
     (if ctx s then [(KRt, set_dec (S (RExit XrCtx)) DCtx)] else []) ++
     (match rd s with RdSendErr => [(KRt, set_dec (set_rd (S (RExit XrReadErr)) RdDone) DReadErr)] | _ => [] end) ++
     map (fun k => (KEnv, S (RFilterCb k))) all_kinds ++
     [(KEnv, set_dec (S (RExit XrReadErr)) DReadErr)] ++     (* a size query (checkResize) failed: its error arrives on p.errs *)
     (match sg s with
      | SgSendInt => [(KRt, set_sg (S (RFilterCb MkInt)) (if g_sig_stays G then SgWait else SgDone))]
      | SgSendQuit => [(KRt, set_sg (S (RFilterCb MkQuit)) (if g_sig_stays G then SgWait else SgDone))]
      | _ => [] end) ++
     (match rd s with RdSendMsg => [(KRt, set_rd (S (RFilterCb MkUser)) RdReading)] | _ => [] end)
   | RFilterCb _ => (KCbEnd, S RSelect) :: map (fun k => (KCbEnd, S (RDispatch k))) all_kinds
   | RDispatch k =>
     [(KRt, match k with
            | MkQuit => set_dec (S (RExit XrNil)) DQuit
            | MkInt => set_dec (S (RExit XrInt)) DInt
            | MkBatch => S RBatchAfter
            | MkExec => S RExecRelease
            | MkUser => set_rl (S RUpdateCb) false
            end)]
   | RBatch =>
     (match cd s with CdSelect => [(KRt, S RBatchAfter)] | _ => [] end) ++
     (if g_batch_send G && ctx s then [(KRt, set_dec (S (RExit XrCtx)) DCtx)] else [])
   | RBatchAfter => [(KBatchMore, S RBatch); (KCbEnd, S RSelect)]
   | RUpdateCb => [(KCbEnd, S RCmdSend)]
   | RCmdSend =>
     (match cd s with CdSelect => [(KRt, S RViewCb)] | _ => [] end) ++
     (if g_cmd_send G && ctx s then [(KRt, set_dec (S (RExit XrCtx)) DCtx)] else [])
   | RViewCb => [(KCbEnd, S RSelect)]
   | RExecRelease =>
     (* ReleaseTerminal: ignoreSignals=1, cancel reader + wait, renderer.stop (handshake), restoreTerminalState *)
     let s1 := if g_release_ignores G then set_ign s true else s in
     let s2 := if g_release_stops_reader G then (match rd s1 with RdReading => set_rd s1 RdDone | _ => s1 end) else s1 in
     let fin_ := fun s3 => [(KRt, set_rl (set_run s3 RExecRun) true)] in
     (* ... or its last step (resetting the terminal) fails after all of that was done: the command is not run; exec
        takes back what was released - if the source says so - and goes on with the callback's message *)
     let failed := fun s3 =>
       [(KEnv, if g_release_failure_restores G
               then set_rl (set_tk (set_ign (set_rd (set_run s3 RUpdateCb) (match rd s3 with RdNone => RdNone | RdSendMsg => RdSendMsg | RdSendErr => RdSendErr | _ => RdReading end))
                                            (if g_release_ignores G then (g_restore_keeps_nosig G && nosig s) else ign s)) TkListen false) false
               else set_run s3 RUpdateCb)] in
     if negb (g_release_stops_renderer G) then fin_ s2 ++ failed s2
     else if once s then fin_ s2 ++ failed s2
     else match tk s with
          | TkListen | TkStale => fin_ (set_tk s2 TkDone true) ++ failed (set_tk s2 TkDone true)
          | _ => []
          end
   | RExecRun => [(KCbEnd, S RExecRestore)]
   | RExecRestore =>
     (* RestoreTerminal: ignoreSignals=0, initTerminal, initCancelReader, modes, renderer.start *)
     [(KRt, set_rl (set_tk (set_ign (set_rd (S RUpdateCb) (match rd s with RdNone => RdNone | RdSendMsg => RdSendMsg | RdSendErr => RdSendErr | _ => RdReading end))
                                    (if g_release_ignores G then (g_restore_keeps_nosig G && nosig s) else ign s)) TkListen false) false)]
      (* ... unless the old listener stops the ticker only now (it does that itself, after the hand-shake): the new one never ticks *)
      ++ (if g_ticker_stopped_by_stopper G then [] else
          [(KRt, set_rl (set_tk (set_ign (set_rd (S RUpdateCb) (match rd s with RdNone => RdNone | RdSendMsg => RdSendMsg | RdSendErr => RdSendErr | _ => RdReading end))
                                         (if g_release_ignores G then (g_restore_keeps_nosig G && nosig s) else ign s)) TkStale false) false)])
      ++ [
      (* ... or it fails (the input went away while the external program had it): the reader and the ticker are not
         started again, the terminal stays as released; signals count again only if the flag was cleared first *)
      (KEnv, set_ign (S RUpdateCb) (if g_release_ignores G && g_restore_unignores_first G then (g_restore_keeps_nosig G && nosig s) else ign s))]
   | RExit e =>
     let '(killed, er) := run_error G s e in
     [(KRt, if negb killed && match er with ENil => true | _ => false end then S RFinalViewCb else S (RSd Sd0 killed er))]
   | RFinalViewCb => [(KCbEnd, S (RSd Sd0 false ENil))]
   | RSd p kill e => map (fun s' => (KRt, s')) (sd_step G s true p kill e)
   | RReturned _ => []
   end) ++
  (* a panic in a user callback executed by the Run thread: recovered, shutdown(true) *)
  (if is_cb (run s) then [(KEnv, set_dec (S (RSd Sd0 true (if g_panic_err G then EKilled else ENilAfterPanic))) DPanic)] else []) ++
  (* ---- command dispatcher *)
  (match cd s with
   | CdSelect =>
     (if g_cd_recv G && ctx s then [(KRt, set_cd s CdDone)] else []) ++
     (match ifw s with IfWait => [(KRt, set_ifw s IfDone)] | _ => [] end)
   | _ => [] end) ++
  (* ---- Init forwarder *)
  (match ifw s with
   | IfWait => if g_ifw_send G && ctx s then [(KRt, set_ifw s IfDone)] else []
   | _ => [] end) ++
  (* ---- signal handler *)
  (match sg s with
   | SgNr => match run s with RPre => [] | _ => [(KRt, set_sg s SgWait)] end
   | SgWait =>
     let ignored := ign s && g_sig_honours_ignore G in
     let after_ignored := if g_sig_loops G then SgWait else SgDone in
     (if g_sig_recv G && ctx s then [(KRt, set_sg s SgDone)] else []) ++
     [(KEnv, set_sg s (if ignored then after_ignored else if g_sig_int_is_interrupt G then SgSendInt else SgSendQuit));  (* SIGINT *)
      (KEnv, set_sg s (if ignored then after_ignored else SgSendQuit))]                                                 (* SIGTERM *)
   | SgSendInt | SgSendQuit =>
     if g_sig_send G && ctx s then [(KRt, set_sg s SgDone)] else []
   | _ => [] end) ++
  (* ---- read loop *)
  (match rd s with
   | RdReading =>
     [(KEnv, set_rd s RdSendMsg); (KEnv, set_rd s RdSendErr);
      (KEnv, set_rd s RdDone)]   (* EOF: the loop just ends *)
   | RdSendMsg => if g_rd_msg_send G && ctx s then [(KRt, set_rd s RdDone)] else []
   | RdSendErr => if g_rd_err_send G && ctx s then [(KRt, set_rd s RdDone)] else []
   | _ => [] end) ++
  (* ---- an external shutdown caller (Kill, or a panicking command's recover) *)
  (match kx s with
   | KxNone => if started (run s) && negb (is_returned s)
               then [(KEnv, set_ext (set_kx s (KxSd Sd0)) true)] else []
   | KxSd p => map (fun s' => (KRt, s')) (sd_step G s false p true EKilled)
   | KxDone => [] end) ++
  (* ---- cancellation of the supplied context *)
  (if negb (ctx s) && negb (match run s with RPre => true | _ => false end) && negb (is_returned s)
   then [(KEnv, set_ext (set_ctx s true) true)] else []).

Definition init_skel (sighandler : bool) (ignore_signals : bool) : skel :=
  mk_skel RPre CdNs (if sighandler then SgNr else SgOff) IfNone RdNone TkNs false KxNone false ignore_signals Fin0 true DNone false ignore_signals.

Definition inits : list skel := [init_skel true false; init_skel true true; init_skel false false].

(* a termination cause has struck *)
Definition struck (s : skel) : bool :=
  ctx s || (match run s with RExit _ | RFinalViewCb | RSd _ _ _ | RReturned _ => true | _ => false end) ||
  (match kx s with KxNone => false | _ => true end).

(* restricted edges: runtime steps and returns of user callbacks *)
Definition restricted (k : ekind) : bool := match k with KRt | KCbEnd => true | _ => false end.

(* ---- what must hold at a returned state *)
Definition err_is (a b : err) : bool :=
  match a, b with ENil, ENil | EInt, EInt | EReadErr, EReadErr | EKilled, EKilled | EOther, EOther | ENilAfterPanic, ENilAfterPanic => true | _, _ => false end.

(* the error class the property demands for an exit decision *)
Definition error_ok (s : skel) : bool :=
  match run s with
  | RReturned e =>
    match dec s with
    | DQuit => if ext s then err_is e ENil || err_is e EKilled else err_is e ENil
    | DInt => err_is e EInt
    | DReadErr => err_is e EReadErr
    | DCtx | DPanic => err_is e EKilled
    | DStartFail => err_is e EOther
    | DNone => false
    end
  | _ => true
  end.

Definition returned_ok (s : skel) : bool :=
  if is_returned s then
    error_ok s && restored_last s && ctx s && (match fin s with FinClosed => true | _ => false end)
  else true.
