(* The guards of the control skeleton, COMPUTED from the inventories that
   goextract regenerates from /repo on every run (gen/ChanOps.v,
   gen/Lifecycle.v, gen/Dispatch.v, gen/Signals.v).  No proofs. *)
From Coq Require Import String List Bool Arith.
Import ListNotations.
From BT Require Import Model.GenTypes Model.Skel.
From BT Require RefShapes.
From BTGen Require ChanOps Lifecycle Dispatch Signals.
Open Scope string_scope.

Definition str_in (a : string) (l : list string) : bool := existsb (String.eqb a) l.

Definition is_send (o : chanop) : bool := match co_dir o with CSend => true | _ => false end.
Definition is_recv (o : chanop) : bool := match co_dir o with CRecv => true | _ => false end.
Definition is_close (o : chanop) : bool := match co_dir o with CClose => true | _ => false end.
Definition ctx_alt (o : chanop) : bool := str_in "p.ctx.Done()" (co_alts o) || str_in "ctx.Done()" (co_alts o).

Definition ops_of (f : string) : list chanop := filter (fun o => co_func o =? f) ChanOps.chanops.
Definition sends_on (f ch : string) : list chanop := filter (fun o => is_send o && (co_chan o =? ch)) (ops_of f).
Definition recvs_on (f ch : string) : list chanop := filter (fun o => is_recv o && (co_chan o =? ch)) (ops_of f).

Definition nonempty {A} (l : list A) : bool := match l with [] => false | _ => true end.
(* the operation exists and every instance has a cancellation alternative *)
Definition all_guarded (l : list chanop) : bool := nonempty l && forallb ctx_alt l.
(* no send of function f lacks a cancellation alternative *)
Definition no_bare_send (f : string) : bool := forallb (fun o => negb (is_send o) || ctx_alt o) (ops_of f).

Definition send_is_guarded : bool := all_guarded (sends_on "Send" "p.msgs").
Definition calls_send (f : string) : bool := existsb (fun c => fst c =? f) ChanOps.send_calls.

Definition has_scall (l : list scall) (cond call : string) : bool :=
  existsb (fun c => (sc_cond c =? cond) && (sc_call c =? call)) l.
Fixpoint index_of_call (l : list scall) (call : string) (i : nat) : option nat :=
  match l with [] => None | c :: t => if sc_call c =? call then Some i else index_of_call t call (S i) end.
Definition call_before (l : list scall) (a b : string) : bool :=
  match index_of_call l a 0, index_of_call l b 0 with Some i, Some j => Nat.ltb i j | _, _ => false end.

Definition dispatch_end (ty : string) : option dend :=
  match find (fun c => str_in ty (dc_types c)) Dispatch.dispatch with Some c => Some (dc_end c) | None => None end.

Definition select_outcome (comm : string) : string :=
  match find (fun c => fst c =? comm) Dispatch.select_cases with Some c => snd c | None => "" end.

Definition ev_cmd_sends : list chanop := sends_on "eventLoop" "cmds".

(* substring test, and "the extracted body of function n contains p" *)
Fixpoint has_sub_from (n : nat) (p s : string) : bool :=
  match n with
  | O => String.prefix p s
  | S k => String.prefix p s || match s with EmptyString => false | String _ t => has_sub_from k p t end
  end.
Definition has_sub (p s : string) : bool := has_sub_from (String.length s) p s.
Definition shape_has (n p : string) : bool :=
  match find (fun x => fst x =? n) Signals.shapes with Some (_, b) => has_sub p b | None => false end.

Definition guards_of_gen : guards :=
  let facts := Signals.handle_signals_facts in
  {| (* keyed on where the send sits, not on its position among the sends of eventLoop: the BatchMsg case's body as
        extracted (gen/Signals.shapes) has the two-case select; the statement after Update is recorded by gen/Dispatch
        as "cmds<-:ctx" only when its select has the ctx.Done case *)
     g_batch_send := all_guarded ev_cmd_sends &&
                     (match find (fun x => fst x =? "eventLoop:BatchMsg") Signals.shapes, find (fun x => fst x =? "eventLoop:BatchMsg") RefShapes.ref_shapes with
                      | Some (_, b), Some (_, b0) => b =? b0          (* the frozen body: a two-case select with ctx.Done *)
                      | _, _ => false end);
     g_cmd_send := all_guarded ev_cmd_sends && str_in "cmds<-:ctx" Dispatch.post_switch;
     g_sig_send := no_bare_send "handleSignals" && calls_send "handleSignals" && send_is_guarded && negb (existsb (fun f => String.prefix "bare-send:" f) facts);
     g_fin_broadcast := has_scall Lifecycle.shutdown_calls "" "finishOnce.Do:close(p.finished)";
     g_startup_fail_restores :=
       Nat.leb (length (filter (fun r => sr_after_init_terminal r && negb (str_in "p.shutdown" (sr_preceded_by r))) Lifecycle.run_returns)) 1;
     g_panic_err := str_in "assign:returnErr" Lifecycle.run_recover && str_in "named-results" Lifecycle.run_recover && str_in "fmt.Errorf" Lifecycle.run_recover &&
                    str_in "errorf-arg:ErrProgramKilled" Lifecycle.run_recover;
     g_run_defers_cancel := str_in "p.cancel" Signals.run_leading_defers;
     g_run_defers_finish := str_in "p.finishOnce.Do:close(p.finished)" Signals.run_leading_defers;
     g_rd_err_send := all_guarded (sends_on "readLoop" "p.errs");
     g_rd_msg_send := all_guarded (sends_on "readAnsiInputs" "msgs");
     g_ifw_send := all_guarded (sends_on "Run" "cmds");
     g_cd_recv := all_guarded (recvs_on "handleCommands" "cmds");
     g_sig_recv := all_guarded (recvs_on "handleSignals" "sig");
     g_wait_read_timeout := let l := recvs_on "waitForReadLoop" "p.readLoopDone" in nonempty l && forallb (fun o => str_in "time.After" (co_alts o)) l;
     g_sig_loops := str_in "loop" facts;
     g_sig_honours_ignore := str_in "ignore-check" facts;
     g_sig_int_is_interrupt := str_in "map:syscall.SIGINT->InterruptMsg{}" facts &&
                               (str_in "map:default->QuitMsg{}" facts || str_in "map:syscall.SIGTERM->QuitMsg{}" facts) &&
                               str_in "notify:syscall.SIGINT" facts && str_in "notify:syscall.SIGTERM" facts;
     g_shutdown_cancels_first := call_before Lifecycle.shutdown_calls "p.cancel" "p.handlers.shutdown" && has_scall Lifecycle.shutdown_calls "" "p.cancel";
     g_shutdown_restores := has_scall Lifecycle.shutdown_calls "" "p.restoreTerminalState" &&
                            (* nothing that touches the terminal follows it: only the release of the Wait callers *)
                            (match index_of_call Lifecycle.shutdown_calls "p.restoreTerminalState" 0 with
                             | Some i => forallb (fun c => sc_call c =? "finishOnce.Do:close(p.finished)") (skipn (S i) Lifecycle.shutdown_calls)
                             | None => false end) &&
                            call_before Lifecycle.shutdown_calls "p.renderer.stop" "p.restoreTerminalState" &&
                            call_before Lifecycle.shutdown_calls "p.renderer.kill" "p.restoreTerminalState";
     g_killed_wraps := has_scall Lifecycle.run_calls "killed && err==nil" "fmt.Errorf" &&
                       (Signals.run_killed_expr =? "p.ctx.Err() != nil || err != nil") &&
                       str_in "ErrProgramKilled" Signals.run_killed_errorf_args;
     g_quit_nil := match dispatch_end "QuitMsg" with Some (DReturn e) => e =? "nil" | _ => false end;
     g_int_err := match dispatch_end "InterruptMsg" with Some (DReturn e) => e =? "ErrInterrupted" | _ => false end;
     g_loop_ctx_nil := select_outcome "<-p.ctx.Done()" =? "return model, nil";
     g_loop_err := select_outcome "err := <-p.errs" =? "return model, err";
     g_release_ignores := has_scall Lifecycle.release_terminal_calls "" "ignoreSignals=1" &&
                          (has_scall Lifecycle.restore_terminal_calls "" "ignoreSignals=0" ||
                           has_scall Lifecycle.restore_terminal_calls "!withoutSignals" "ignoreSignals=0");
     g_release_stops_reader := call_before Lifecycle.release_terminal_calls "p.cancelReader.Cancel" "p.waitForReadLoop" &&
                               call_before Lifecycle.release_terminal_calls "p.waitForReadLoop" "p.restoreTerminalState" &&
                               has_scall Lifecycle.release_terminal_calls "" "p.waitForReadLoop";
     g_release_stops_renderer := call_before Lifecycle.release_terminal_calls "p.renderer.stop" "p.restoreTerminalState" &&
                                 has_scall Lifecycle.release_terminal_calls "renderer" "p.renderer.stop";
     g_restore_keeps_nosig := has_scall Lifecycle.restore_terminal_calls "!withoutSignals" "ignoreSignals=0";
     g_rz_guarded := all_guarded (recvs_on "listenForResize" "sig") && all_guarded (sends_on "checkResize" "p.errs") &&
                     no_bare_send "checkResize" && no_bare_send "listenForResize" && send_is_guarded;
     g_sig_stays := negb (str_in "returns-after-forward" facts);
     g_ticker_stopped_by_stopper :=
       (* in the listener's body nothing touches the ticker but the receive from its channel; stop() and kill() stop it
          inside the once.Do, after the send that the listener acknowledges *)
       negb (shape_has "standardRenderer.listen" "ticker.Stop") &&
       shape_has "standardRenderer.stop" "r.done <- struct{}{} r.stopTicker()" &&
       shape_has "standardRenderer.kill" "r.done <- struct{}{} r.stopTicker()";
     g_release_failure_restores :=
       call_before Lifecycle.exec_calls "p.ReleaseTerminal" "p.RestoreTerminal" &&
       has_scall Lifecycle.exec_calls "release-failed" "p.RestoreTerminal";
     g_restore_unignores_first :=
       match Lifecycle.restore_terminal_calls with
       | c :: _ => sc_call c =? "ignoreSignals=0"
       | [] => false
       end
  |}.

(* the API entry points behave as the C13 statement needs *)
Definition api_guarded : bool :=
  send_is_guarded &&
  no_bare_send "Println" && no_bare_send "Printf" && no_bare_send "Quit" &&
  calls_send "Println" && calls_send "Printf" && calls_send "Quit" &&
  (* Wait is a plain receive from p.finished, a channel made once, in NewProgram, and only ever closed *)
  (match ops_of "Wait" with [o] => is_recv o && (co_chan o =? "p.finished") | _ => false end) &&
  (match filter (fun m => snd (fst m) =? "p.finished") ChanOps.make_chans with [m] => fst (fst m) =? "NewProgram" | _ => false end) &&
  forallb (fun o => negb (co_chan o =? "p.finished") || is_close o || (co_func o =? "Wait")) ChanOps.chanops.

(* the message and command channels are rendezvous channels *)
Definition chan_buffer (name : string) : option nat :=
  match filter (fun m => snd (fst m) =? name) ChanOps.make_chans with [m] => Some (snd m) | _ => None end.
Definition rendezvous_channels : bool :=
  match chan_buffer "p.msgs", chan_buffer "cmds", chan_buffer "p.errs" with
  | Some 0, Some 0, Some 0 => true | _, _, _ => false end.

Definition nothing_unsupported : bool :=
  match ChanOps.unsupported, Lifecycle.unsupported, Dispatch.unsupported, Signals.unsupported with
  | [], [], [], [] => true | _, _, _, _ => false end.

(* ---- the hand-mirrored functions: their bodies today equal the frozen reference shapes *)
Definition shape_is (name body : string) : bool :=
  match find (fun x => fst x =? name) Signals.shapes with Some (_, b) => b =? body | None => false end.
Definition shapes_ok_for (names : list string) : bool :=
  forallb (fun n => match find (fun x => fst x =? n) RefShapes.ref_shapes with
                    | Some (_, b) => shape_is n b
                    | None => false end) names.

(* ---- every blocking channel operation without any alternative is one of the known ones (a new bare blocking
   operation anywhere in the package is an unclassified change) *)
Definition bare_blocking : list (string * string * bool) :=      (* function, channel, is a send *)
  map (fun o => (co_func o, co_chan o, is_send o))
      (filter (fun o => (is_send o || is_recv o) && match co_alts o with [] => true | _ => false end &&
                        negb ((co_func o =? "Every") || (co_func o =? "Tick"))) ChanOps.chanops).
Definition expected_bare_blocking : list (string * string * bool) :=
  [("stop", "r.done", true); ("kill", "r.done", true); ("channelHandlers.shutdown", "ch", false);
   ("Wait", "p.finished", false); ("suspendProcess", "c", false)].
Definition triple_eqb (a b : string * string * bool) : bool :=
  (fst (fst a) =? fst (fst b)) && (snd (fst a) =? snd (fst b)) && Bool.eqb (snd a) (snd b).
Fixpoint list_eqb {A} (e : A -> A -> bool) (a b : list A) : bool :=
  match a, b with [], [] => true | x :: a', y :: b' => e x y && list_eqb e a' b' | _, _ => false end.
Definition bare_ops_ok : bool := list_eqb triple_eqb bare_blocking expected_bare_blocking.

(* goroutines are started where the models expect them, and nowhere else in the runtime functions *)
Definition expected_go_stmts : list (string * string) :=
  [("exec", "p.Send"); ("exec", "p.Send"); ("exec", "p.Send"); ("start", "r.listen"); ("channelHandlers.shutdown", "func");
   ("handleSignals", "func"); ("handleResize", "p.checkResize"); ("handleResize", "p.listenForResize"); ("handleCommands", "func");
   ("handleCommands", "func"); ("eventLoop", "func"); ("eventLoop", "p.checkResize"); ("Run", "func"); ("RestoreTerminal", "p.Send");
   ("RestoreTerminal", "p.checkResize"); ("suspend", "p.Send"); ("initCancelReader", "p.readLoop")].
Definition go_stmts_ok : bool :=
  list_eqb (fun a b => (fst a =? fst b) && (snd a =? snd b)) ChanOps.go_stmts expected_go_stmts.

Definition dend_eqb (a b : dend) : bool :=
  match a, b with DFall, DFall | DContinue, DContinue => true | DReturn x, DReturn y => x =? y | _, _ => false end.
Definition dispatch_kinds_ok : bool :=
  list_eqb (fun a b => list_eqb String.eqb (fst a) (fst b) && dend_eqb (snd a) (snd b))
           (map (fun c => (dc_types c, dc_end c)) Dispatch.dispatch) RefShapes.ref_dispatch.

(* ---- Run's deferred calls, in the order they are registered (they run in the reverse order): the recovery of a panic -
   which restores the terminal, termios included - is registered after the Close of a TTY that Run opened itself, so
   that it runs BEFORE the descriptor is closed *)
Definition run_defers : list string := map snd (filter (fun d => fst d =? "Run") ChanOps.defers).
Fixpoint index_of (x : string) (l : list string) (i : nat) : option nat :=
  match l with [] => None | y :: t => if String.prefix x y then Some i else index_of x t (S i) end.
Fixpoint last_index_of (x : string) (l : list string) (i : nat) (acc : option nat) : option nat :=
  match l with [] => acc | y :: t => last_index_of x t (S i) (if String.prefix x y then Some i else acc) end.
Definition recover_registered_after_tty_close : bool :=
  match index_of "func:recover" run_defers 0, last_index_of "f.Close" run_defers 0 None with
  | Some r, Some c => Nat.ltb c r
  | Some _, None => true
  | None, _ => false
  end.
(* deferred calls run last-registered-first *)
Definition exit_order (defers : list string) : list string := rev defers.
