(* Model of the time arithmetic used by commands.go (Every, Tick).
   Time is Z nanoseconds since the zero time (year 1 UTC), which is what
   time.Time.Truncate / Round measure multiples against.  Durations are Z ns.
   No proofs in this file. *)
From Coq Require Import ZArith Bool.
Open Scope Z_scope.

(* time.Time.Truncate: d <= 0 returns t unchanged. *)
Definition t_truncate (t d : Z) : Z := if d <=? 0 then t else t - t mod d.

(* time.Time.Round: halfway values round up; d <= 0 returns t unchanged. *)
Definition t_round (t d : Z) : Z :=
  if d <=? 0 then t
  else let r := t mod d in if r + r <? d then t - r else t + d - r.

(* time.Time.Add / Sub, away from the int64 saturation limits (|.| < 2^62). *)
Definition t_add (t d : Z) : Z := t + d.
Definition t_sub (t u : Z) : Z := t - u.

(* Structural facts about the closures returned by Every/Tick, extracted by
   the translator from the source. *)
Record timer_flags := {
  armed_at_creation : bool;      (* time.NewTimer is called in the constructor, not in the returned closure *)
  callback_gets_timer_value : bool; (* fn is applied to the value received from t.C *)
  result_is_callback_result : bool; (* the closure returns fn(ts) *)
  receives_once : bool           (* exactly one blocking receive from t.C before the callback *)
}.

Definition flags_ok (f : timer_flags) : bool :=
  armed_at_creation f && callback_gets_timer_value f &&
  result_is_callback_result f && receives_once f.

(* One execution of a timer command, as far as the runtime is concerned:
   the instant read by time.Now() in the constructor, the instant at which
   time.NewTimer was called, and the instant delivered on the timer channel. *)
Record timer_run := { created : Z; armed : Z; fired : Z }.

(* The Go runtime's contract for time.NewTimer(w): the value sent on C is the
   current time at the moment of firing, and firing does not happen before w
   has elapsed since arming.  This is a hypothesis of the theorems, never an
   axiom. *)
Definition runtime_timer_ok (w : Z) (r : timer_run) : Prop :=
  created r <= armed r /\ armed r + w <= fired r.

(* The message produced by running the command once. *)
Definition cmd_result {M : Type} (fn : Z -> M) (r : timer_run) : M := fn (fired r).
