(* unicode/utf8.DecodeRune and FullRune, mirrored from the Go standard library. *)
From Coq Require Import NArith List Bool.
Import ListNotations.
From BT Require Import Base.Bytes.
Open Scope N_scope.

Definition RuneError : N := 65533. (* U+FFFD *)

(* first-byte class: (size, lo, hi) of the accepted second byte; size 1 with
   valid=false for invalid first bytes, size 1 valid=true for ASCII *)
Inductive first_class := FAscii | FInvalid | FMulti (sz : nat) (lo hi : N).

Definition first_byte (b : N) : first_class :=
  if b <? 128 then FAscii
  else if b <? 194 then FInvalid             (* 0x80..0xC1 *)
  else if b <? 224 then FMulti 2 128 191     (* 0xC2..0xDF *)
  else if b =? 224 then FMulti 3 160 191     (* 0xE0 *)
  else if b <? 237 then FMulti 3 128 191     (* 0xE1..0xEC *)
  else if b =? 237 then FMulti 3 128 159     (* 0xED *)
  else if b <? 240 then FMulti 3 128 191     (* 0xEE..0xEF *)
  else if b =? 240 then FMulti 4 144 191     (* 0xF0 *)
  else if b <? 244 then FMulti 4 128 191     (* 0xF1..0xF3 *)
  else if b =? 244 then FMulti 4 128 143     (* 0xF4 *)
  else FInvalid.

Definition cont (b : N) : bool := in_range 128 191 b.

(* returns (rune, size); empty input gives (RuneError, 0) *)
Definition decode_rune (p : bytes) : N * nat :=
  match p with
  | [] => (RuneError, 0%nat)
  | p0 :: r =>
    match first_byte p0 with
    | FAscii => (p0, 1%nat)
    | FInvalid => (RuneError, 1%nat)
    | FMulti sz lo hi =>
      match sz, r with
      | 2%nat, b1 :: _ =>
        if in_range lo hi b1 then ((p0 mod 32) * 64 + b1 mod 64, 2%nat) else (RuneError, 1%nat)
      | 3%nat, b1 :: b2 :: _ =>
        if in_range lo hi b1 then
          if cont b2 then ((p0 mod 16) * 4096 + (b1 mod 64) * 64 + b2 mod 64, 3%nat)
          else (RuneError, 1%nat)
        else (RuneError, 1%nat)
      | 4%nat, b1 :: b2 :: b3 :: _ =>
        if in_range lo hi b1 then
          if cont b2 then
            if cont b3 then ((p0 mod 8) * 262144 + (b1 mod 64) * 4096 + (b2 mod 64) * 64 + b3 mod 64, 4%nat)
            else (RuneError, 1%nat)
          else (RuneError, 1%nat)
        else (RuneError, 1%nat)
      | _, _ => (RuneError, 1%nat)   (* n < sz *)
      end
    end
  end.

(* utf8.FullRune: does p begin with a full encoding (an invalid one counts as full) *)
Definition full_rune (p : bytes) : bool :=
  match p with
  | [] => false
  | p0 :: r =>
    match first_byte p0 with
    | FAscii | FInvalid => true
    | FMulti sz lo hi =>
      if Nat.leb sz (length p) then true
      else match r with
           | [] => false
           | b1 :: r2 =>
             if negb (in_range lo hi b1) then true
             else match r2 with
                  | [] => false
                  | b2 :: _ => negb (cont b2)
                  end
           end
    end
  end.

(* utf8 encoding of a scalar value (used by specifications only) *)
Definition utf8_encode (r : N) : bytes :=
  if r <? 128 then [r]
  else if r <? 2048 then [192 + r / 64; 128 + r mod 64]
  else if r <? 65536 then [224 + r / 4096; 128 + (r / 64) mod 64; 128 + r mod 64]
  else [240 + r / 262144; 128 + (r / 4096) mod 64; 128 + (r / 64) mod 64; 128 + r mod 64].

Definition is_scalar (r : N) : bool :=
  (r <? 55296) || ((57343 <? r) && (r <? 1114112)).
