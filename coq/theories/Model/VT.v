(* A terminal (xterm subset) for exactly the output the renderer produces.
   A buffer is a TAPE of rows: scrollback ++ visible rows (the last H rows);
   the cursor row is ABSOLUTE on the tape, so "rows above the view are
   untouched" / "scrolls into history" are statements about a list prefix.
   Rows always have exactly W cells; a blank cell is a space (32).
   No proofs in this file. *)
From Coq Require Import NArith List Bool Arith.
Import ListNotations.
From BT Require Import Base.Bytes.

Notation glyph := N (only parsing).
Definition blank : glyph := 32%N.
Notation row := (list N) (only parsing).

Inductive tok :=
| TChar (g : glyph)
| TCR | TLF
| TCUU (n : nat) | TCUB (n : nat)       (* ESC[nA / ESC[nD, n >= 1 *)
| TCUD (n : nat) | TCUF (n : nat)       (* ESC[nB / ESC[nC: down (never scrolls) / forward, clamped to the window *)
| TCUP (r : nat)                          (* ESC[r;H : row r (1-based), column 1 *)
| THome                                   (* ESC[H *)
| TELright | TELall                       (* ESC[K / ESC[2K *)
| TEDbelow | TEDall                       (* ESC[J / ESC[2J *)
| TSet (m : N) | TReset (m : N)           (* ESC[?mh / ESC[?ml *)
| TTitle (s : bytes).                     (* OSC 2 ; s BEL *)

Record cursor := { crow : nat; ccol : nat; cpend : bool }.
Record buffer := { tape : list row; cur : cursor }.

Record vt := {
  vW : nat; vH : nat;
  vmain : buffer; valt : buffer; in_alt : bool;
  vis_main : bool; vis_alt : bool;          (* cursor visibility per buffer *)
  m_cell : bool; m_all : bool; m_sgr : bool; m_paste : bool; m_focus : bool;
  title : bytes
}.

Definition blank_row (w : nat) : row := repeat blank w.

Definition top (h : nat) (b : buffer) : nat := length (tape b) - h.

Definition set_cell (r : row) (c : nat) (g : glyph) : row := firstn c r ++ g :: skipn (S c) r.
Definition erase_right (w : nat) (r : row) (c : nat) : row := firstn c r ++ repeat blank (w - c).

Fixpoint upd_row (t : list row) (i : nat) (f : row -> row) : list row :=
  match t, i with
  | [], _ => []
  | r :: t', O => f r :: t'
  | r :: t', S k => r :: upd_row t' k f
  end.

Definition mk (t : list row) (r c : nat) (p : bool) : buffer :=
  {| tape := t; cur := {| crow := r; ccol := c; cpend := p |} |}.

(* move down one row; on the bottom row of the window the window scrolls:
   a blank row is appended (the old top row becomes history) *)
Definition line_feed (w : nat) (b : buffer) : buffer :=
  let c := cur b in
  if Nat.eqb (S (crow c)) (length (tape b))
  then mk (tape b ++ [blank_row w]) (S (crow c)) (ccol c) false
  else mk (tape b) (S (crow c)) (ccol c) false.

Definition put_char (w : nat) (b : buffer) (g : glyph) : buffer :=
  (* a pending wrap is resolved first: column 0 of the next row *)
  let b1 := if cpend (cur b) then let b' := line_feed w b in mk (tape b') (crow (cur b')) 0 false else b in
  let c := cur b1 in
  let t := upd_row (tape b1) (crow c) (fun r => set_cell r (ccol c) g) in
  if Nat.eqb (S (ccol c)) w then mk t (crow c) (ccol c) true
  else mk t (crow c) (S (ccol c)) false.

Definition buf_apply (w h : nat) (b : buffer) (t : tok) : buffer :=
  let c := cur b in
  match t with
  | TChar g => put_char w b g
  | TCR => mk (tape b) (crow c) 0 false
  | TLF => line_feed w b
  | TCUU n => mk (tape b) (Nat.max (top h b) (crow c - n)) (ccol c) false
  | TCUB n => mk (tape b) (crow c) (ccol c - n) false
  | TCUD n => mk (tape b) (Nat.min (crow c + n) (top h b + (h - 1))) (ccol c) false
  | TCUF n => mk (tape b) (crow c) (Nat.min (ccol c + n) (w - 1)) false
  | TCUP r => mk (tape b) (Nat.min (top h b + (r - 1)) (top h b + (h - 1))) 0 false
  | THome => mk (tape b) (top h b) 0 false
  | TELright => mk (upd_row (tape b) (crow c) (fun r => erase_right w r (ccol c))) (crow c) (ccol c) (cpend c)
  | TELall => mk (upd_row (tape b) (crow c) (fun _ => blank_row w)) (crow c) (ccol c) (cpend c)
  | TEDbelow =>
    let t1 := upd_row (tape b) (crow c) (fun r => erase_right w r (ccol c)) in
    mk (firstn (S (crow c)) t1 ++ map (fun _ => blank_row w) (skipn (S (crow c)) t1)) (crow c) (ccol c) (cpend c)
  | TEDall =>
    mk (firstn (top h b) (tape b) ++ map (fun _ => blank_row w) (skipn (top h b) (tape b))) (crow c) (ccol c) (cpend c)
  | TSet _ | TReset _ | TTitle _ => b
  end.

Definition active (t : vt) : buffer := if in_alt t then valt t else vmain t.

Definition with_active (t : vt) (b : buffer) : vt :=
  if in_alt t
  then {| vW := vW t; vH := vH t; vmain := vmain t; valt := b; in_alt := true; vis_main := vis_main t; vis_alt := vis_alt t;
          m_cell := m_cell t; m_all := m_all t; m_sgr := m_sgr t; m_paste := m_paste t; m_focus := m_focus t; title := title t |}
  else {| vW := vW t; vH := vH t; vmain := b; valt := valt t; in_alt := false; vis_main := vis_main t; vis_alt := vis_alt t;
          m_cell := m_cell t; m_all := m_all t; m_sgr := m_sgr t; m_paste := m_paste t; m_focus := m_focus t; title := title t |}.

(* shared_vis = true: one cursor-visibility flag for both buffers (xterm);
   false: each buffer keeps its own (cmd.exe and others). *)
Definition set_vis (shared : bool) (t : vt) (v : bool) : vt :=
  {| vW := vW t; vH := vH t; vmain := vmain t; valt := valt t; in_alt := in_alt t;
     vis_main := if shared || negb (in_alt t) then v else vis_main t;
     vis_alt := if shared || in_alt t then v else vis_alt t;
     m_cell := m_cell t; m_all := m_all t; m_sgr := m_sgr t; m_paste := m_paste t; m_focus := m_focus t; title := title t |}.

Definition set_mode (shared : bool) (t : vt) (m : N) (v : bool) : vt :=
  let upd c a s p f :=
    {| vW := vW t; vH := vH t; vmain := vmain t; valt := valt t; in_alt := in_alt t; vis_main := vis_main t; vis_alt := vis_alt t;
       m_cell := c; m_all := a; m_sgr := s; m_paste := p; m_focus := f; title := title t |} in
  if (m =? 25)%N then set_vis shared t v
  else if (m =? 1002)%N then upd v (m_all t) (m_sgr t) (m_paste t) (m_focus t)
  else if (m =? 1003)%N then upd (m_cell t) v (m_sgr t) (m_paste t) (m_focus t)
  else if (m =? 1006)%N then upd (m_cell t) (m_all t) v (m_paste t) (m_focus t)
  else if (m =? 2004)%N then upd (m_cell t) (m_all t) (m_sgr t) v (m_focus t)
  else if (m =? 1004)%N then upd (m_cell t) (m_all t) (m_sgr t) (m_paste t) v
  else if (m =? 1049)%N then
    if v then
      if in_alt t then t
      else (* save cursor (kept in vmain), switch, clear the alt buffer; the cursor keeps its window position *)
        let mb := vmain t in
        let ab := mk (repeat (blank_row (vW t)) (vH t)) (crow (cur mb) - top (vH t) mb) (ccol (cur mb)) false in
        {| vW := vW t; vH := vH t; vmain := mb; valt := ab; in_alt := true; vis_main := vis_main t; vis_alt := vis_alt t;
           m_cell := m_cell t; m_all := m_all t; m_sgr := m_sgr t; m_paste := m_paste t; m_focus := m_focus t; title := title t |}
    else
      if in_alt t then
        {| vW := vW t; vH := vH t; vmain := vmain t; valt := valt t; in_alt := false; vis_main := vis_main t; vis_alt := vis_alt t;
           m_cell := m_cell t; m_all := m_all t; m_sgr := m_sgr t; m_paste := m_paste t; m_focus := m_focus t; title := title t |}
      else t
  else t.

Definition vt_apply (shared : bool) (t : vt) (k : tok) : vt :=
  match k with
  | TSet m => set_mode shared t m true
  | TReset m => set_mode shared t m false
  | TTitle s =>
    {| vW := vW t; vH := vH t; vmain := vmain t; valt := valt t; in_alt := in_alt t; vis_main := vis_main t; vis_alt := vis_alt t;
       m_cell := m_cell t; m_all := m_all t; m_sgr := m_sgr t; m_paste := m_paste t; m_focus := m_focus t; title := s |}
  | _ => with_active t (buf_apply (vW t) (vH t) (active t) k)
  end.

Definition vt_run (shared : bool) (t : vt) (ks : list tok) : vt := fold_left (vt_apply shared) ks t.

(* a fresh terminal: `above` rows of earlier output, cursor at column 0 of the row after them *)
Definition vt_init (w h : nat) (history : list row) (used : nat) : vt :=
  (* `used` rows of the window are already occupied by `history`'s tail; the rest is blank *)
  let t := history ++ repeat (blank_row w) (h - used) in
  {| vW := w; vH := h; vmain := mk t (length history) 0 false;
     valt := mk (repeat (blank_row w) h) 0 0 false; in_alt := false;
     vis_main := true; vis_alt := true; m_cell := false; m_all := false; m_sgr := false; m_paste := false; m_focus := false; title := [] |}.

(* resize of the ALT buffer (no reflow): crop / pad at the bottom and right, cursor clamped *)
Definition fit_row (w : nat) (r : row) : row := firstn w r ++ repeat blank (w - length r).
Definition resize_alt (t : vt) (w h : nat) : vt :=
  let ab := valt t in
  let rows := map (fit_row w) (firstn h (tape ab)) ++ repeat (blank_row w) (h - length (tape ab)) in
  let c := cur ab in
  {| vW := w; vH := h; vmain := vmain t; valt := mk rows (Nat.min (crow c) (h - 1)) (Nat.min (ccol c) (w - 1)) false; in_alt := in_alt t;
     vis_main := vis_main t; vis_alt := vis_alt t;
     m_cell := m_cell t; m_all := m_all t; m_sgr := m_sgr t; m_paste := m_paste t; m_focus := m_focus t; title := title t |}.
