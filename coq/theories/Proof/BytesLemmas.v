From Coq Require Import NArith ZArith List Bool Lia Arith.
Import ListNotations.
From BT Require Import Base.Bytes Model.Utf8.
Open Scope N_scope.

Lemma bytes_eqb_eq a : forall b, bytes_eqb a b = true <-> a = b.
Proof.
  induction a as [|x a IH]; intros [|y b]; cbn; split; intros H; try congruence; auto.
  - apply andb_true_iff in H. destruct H as [H1 H2]. apply N.eqb_eq in H1. apply IH in H2. congruence.
  - inversion H; subst. apply andb_true_iff. split; [apply N.eqb_refl|apply IH; reflexivity].
Qed.

Lemma bytes_eqb_refl a : bytes_eqb a a = true.
Proof. apply bytes_eqb_eq. reflexivity. Qed.

Lemma is_prefix_app p : forall l, is_prefix p l = true <-> exists r, l = p ++ r.
Proof.
  induction p as [|x p IH]; intros l; cbn.
  - split; [intros _; exists l; reflexivity|auto].
  - destruct l as [|y l]; [split; [discriminate|intros [r Hr]; discriminate]|].
    split.
    + intros H. apply andb_true_iff in H. destruct H as [H1 H2]. apply N.eqb_eq in H1.
      apply IH in H2. destruct H2 as [r Hr]. exists r. subst. reflexivity.
    + intros [r Hr]. inversion Hr; subst. apply andb_true_iff. split; [apply N.eqb_refl|].
      apply IH. exists r. reflexivity.
Qed.

Lemma is_prefix_length p l : is_prefix p l = true -> (length p <= length l)%nat.
Proof. intros H. apply is_prefix_app in H. destruct H as [r ->]. rewrite app_length. lia. Qed.

Lemma is_prefix_skipn p l : is_prefix p l = true -> l = p ++ skipn (length p) l.
Proof.
  intros H. apply is_prefix_app in H. destruct H as [r ->].
  rewrite skipn_app, skipn_all, Nat.sub_diag. reflexivity.
Qed.

Lemma is_prefix_refl_app p r : is_prefix p (p ++ r) = true.
Proof. apply is_prefix_app. exists r. reflexivity. Qed.

(* bytes.Index: the first occurrence *)
Lemma index_of_some pat : forall l i, index_of pat l = Some i ->
  exists pre post, l = pre ++ pat ++ post /\ length pre = i.
Proof.
  induction l as [|x l IH]; intros i H; cbn in H.
  - destruct (is_prefix pat []) eqn:E; [|discriminate]. inversion H; subst.
    apply is_prefix_app in E. destruct E as [r Hr]. exists [], r. split; [exact Hr|reflexivity].
  - destruct (is_prefix pat (x :: l)) eqn:E.
    + inversion H; subst. apply is_prefix_app in E. destruct E as [r Hr]. exists [], r. split; [exact Hr|reflexivity].
    + destruct (index_of pat l) as [j|] eqn:Ej; [|discriminate]. inversion H; subst.
      destruct (IH j eq_refl) as (pre & post & Hl & Hp). exists (x :: pre), post. split; [cbn; congruence|cbn; lia].
Qed.

Lemma index_of_none pat : forall l, index_of pat l = None ->
  forall pre post, l <> pre ++ pat ++ post.
Proof.
  induction l as [|x l IH]; intros H pre post Hl; cbn in H.
  - destruct (is_prefix pat []) eqn:E; [discriminate|].
    destruct pre; [|discriminate]. cbn in Hl.
    assert (is_prefix pat [] = true) by (apply is_prefix_app; exists post; exact Hl). congruence.
  - destruct (is_prefix pat (x :: l)) eqn:E; [discriminate|].
    destruct (index_of pat l) eqn:Ej; [discriminate|].
    destruct pre as [|y pre].
    + cbn in Hl. assert (is_prefix pat (x :: l) = true) by (apply is_prefix_app; exists post; exact Hl). congruence.
    + inversion Hl; subst. exact (IH eq_refl pre post eq_refl).
Qed.

(* the found occurrence is the first one *)
Lemma index_of_first pat : forall l i, index_of pat l = Some i ->
  forall j, (j < i)%nat -> is_prefix pat (skipn j l) = false.
Proof.
  induction l as [|x l IH]; intros i H j Hj; cbn in H.
  - destruct (is_prefix pat []); inversion H; subst; lia.
  - destruct (is_prefix pat (x :: l)) eqn:E; [inversion H; subst; lia|].
    destruct (index_of pat l) as [k|] eqn:Ek; [|discriminate]. inversion H; subst.
    destruct j as [|j]; [exact E|]. cbn. apply (IH k eq_refl). lia.
Qed.

Lemma index_of_app_first pat pre post :
  (forall j, (j < length pre)%nat -> is_prefix pat (skipn j (pre ++ pat ++ post)) = false) ->
  index_of pat (pre ++ pat ++ post) = Some (length pre).
Proof.
  induction pre as [|x pre IH]; intros H.
  - cbn [app length]. destruct (pat ++ post) as [|y t] eqn:E.
    + cbn. destruct pat; [reflexivity|discriminate].
    + cbn [index_of]. rewrite <- E, is_prefix_refl_app. reflexivity.
  - cbn [app length index_of].
    pose proof (H 0%nat ltac:(cbn; lia)) as H0. cbn in H0. rewrite H0.
    rewrite IH; [reflexivity|].
    intros j Hj. apply (H (S j)). cbn. lia.
Qed.

Lemma span_app f : forall l a r, span f l = (a, r) -> l = a ++ r /\ all_bytes f a = true.
Proof.
  induction l as [|x l IH]; intros a r H; cbn in H.
  - inversion H; subst. split; reflexivity.
  - destruct (f x) eqn:E.
    + destruct (span f l) as [a' r'] eqn:Es. inversion H; subst.
      destruct (IH a' r eq_refl) as [Hl Ha]. split; [cbn; congruence|cbn; rewrite E, Ha; reflexivity].
    + inversion H; subst. split; reflexivity.
Qed.

Lemma span_rest_head f : forall l a r, span f l = (a, r) ->
  match r with [] => True | x :: _ => f x = false end.
Proof.
  induction l as [|x l IH]; intros a r H; cbn in H.
  - inversion H; subst. exact I.
  - destruct (f x) eqn:E.
    + destruct (span f l) as [a' r'] eqn:Es. inversion H; subst. exact (IH a' r eq_refl).
    + inversion H; subst. exact E.
Qed.

(* utf8.DecodeRune consumes between 1 and min(4, len) bytes of a non-empty input *)
Lemma decode_rune_width p r w : p <> [] -> decode_rune p = (r, w) -> (1 <= w <= length p)%nat /\ (w <= 4)%nat.
Proof.
  intros Hp H. destruct p as [|p0 t]; [congruence|]. unfold decode_rune in H.
  destruct (first_byte p0) as [| |sz lo hi].
  - inversion H; subst. cbn. lia.
  - inversion H; subst. cbn. lia.
  - destruct sz as [|[|[|[|[|sz]]]]]; try (inversion H; subst; cbn; lia).
    + destruct t as [|b1 t]; [inversion H; subst; cbn; lia|].
      destruct (in_range lo hi b1); inversion H; subst; cbn; lia.
    + destruct t as [|b1 [|b2 t]]; try (inversion H; subst; cbn; lia).
      destruct (in_range lo hi b1); [|inversion H; subst; cbn; lia].
      destruct (cont b2); inversion H; subst; cbn; lia.
    + destruct t as [|b1 [|b2 [|b3 t]]]; try (inversion H; subst; cbn; lia).
      destruct (in_range lo hi b1); [|inversion H; subst; cbn; lia].
      destruct (cont b2); [|inversion H; subst; cbn; lia].
      destruct (cont b3); inversion H; subst; cbn; lia.
Qed.

Lemma firstn_skipn_app {A} n (l : list A) : firstn n l ++ skipn n l = l.
Proof. apply firstn_skipn. Qed.
