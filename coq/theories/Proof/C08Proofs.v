(* C08: every well-formed stream of input events, read together, decodes to
   exactly the specified messages.

   Dependency order of the proof files:
     C08a_Common  (table equality, longest-prefix search, stage lemmas, decode_encode_scalar)
     C08b_Keys    (EKey ECtl ESpace EAltEsc ENul EEsc EFocus EBlur EMouseSGR EMouseX10)
     C08c_Runes   (ERunes EAltRune, CSI syntax lemmas)
     C08d_Paste   (EPaste)
     C08e_CSI     (EUnknownCSI)
     C08Proofs    (this file: one step for every event, the stream induction)

   Two side conditions appear next to wf_stream, both forced by the model:
   - bounded_event: the code and the coordinates of an SGR mouse report are
     below 2^63.  strconv.Atoi saturates at 2^63-1 (C11_saturate), so a larger
     number does NOT decode to itself; valid_event only asks 0 <= c, 1 <= x, y.
   - the read is a SHORT read: decode_all b = reader [Chunk b] None computes
     more := (length b =? 256); on a full buffer the reader may hold bytes back
     (a trailing ESC, say).  C08_inner states the result for the inner loop
     with more = false and any sufficient fuel, C08_stream derives the
     statement about decode_all under length (encode_all evs) <> 256. *)
From Coq Require Import NArith ZArith List Bool Lia Arith.
Import ListNotations.
From BT Require Import Base.Bytes Model.Utf8 Model.Keys Model.Mouse Model.Decoder Model.Reader RefTable
  Spec.MouseSpec Spec.Events Proof.BytesLemmas Proof.DecoderTies Proof.MouseProofs Proof.ReaderProofs
  Proof.C08a_Common Proof.C08b_Keys Proof.C08c_Runes Proof.C08d_Paste Proof.C08e_CSI.
From BTGen Require Consts KeyTable.
Open Scope N_scope.

(* ---------------------------------------------------------------- one step, any event *)

Theorem C08_step e rest :
  valid_event e = true -> bounded_event e = true -> clean e rest = true -> step_ok e rest.
Proof.
  intros V B C. destruct e.
  - exact (step_EKey i alt rest V C).
  - exact (step_ECtl b alt rest V C).
  - exact (step_ESpace alt rest C).
  - exact (step_ENul alt rest).
  - exact (step_ERunes rs rest V C).
  - exact (step_EAltRune r rest V C).
  - exact (step_EAltEsc rest C).
  - exact (step_EMouseSGR code x y release rest V B).
  - exact (step_EMouseX10 code x y rest V).
  - exact (step_EPaste payload rest V).
  - exact (step_EUnknownCSI params inter final rest V C).
  - exact (step_EEsc rest C).
  - exact (step_EFocus rest C).
  - exact (step_EBlur rest C).
Qed.

(* ---------------------------------------------------------------- the inner loop *)

Lemma inner_step f b w m sent : b <> [] -> detect_one_msg b false = DMsg (S w) m ->
  inner (S f) b false sent None =
  match inner f (skipn (S w) b) false (S sent) None with
  | IDone o s => IDone ((m, firstn (S w) b) :: o) s
  | ILeft o s r => ILeft ((m, firstn (S w) b) :: o) s r
  | ICancel o => ICancel ((m, firstn (S w) b) :: o)
  | IPanic o => IPanic ((m, firstn (S w) b) :: o)
  | IFuel => IFuel
  end.
Proof.
  intros Hb D. destruct b as [|b0 r]; [congruence|]. cbn [inner]. rewrite D. cbn [cancelled_at]. reflexivity.
Qed.

(* fuel is irrelevant once it covers the buffer *)
Lemma inner_fuel more cancel : forall f1 f2 b sent, (length b <= f1)%nat -> (length b <= f2)%nat ->
  inner f1 b more sent cancel = inner f2 b more sent cancel.
Proof.
  induction f1 as [|f1 IH]; intros f2 b sent L1 L2.
  - destruct b; [destruct f2; reflexivity|cbn in L1; lia].
  - destruct b as [|b0 r] eqn:Eb; [destruct f2; reflexivity|].
    destruct f2 as [|f2]; [cbn in L2; lia|].
    rewrite <- Eb in *. assert (Hne : b <> []) by (subst; discriminate).
    assert (U : forall f, inner (S f) b more sent cancel =
                match detect_one_msg b more with
                | DPanic => IPanic []
                | DMore => ILeft [] sent b
                | DMsg O _ => ILeft [] sent b
                | DMsg w m =>
                  if cancelled_at cancel sent then ICancel []
                  else match inner f (skipn w b) more (S sent) cancel with
                       | IDone o s => IDone ((m, firstn w b) :: o) s
                       | ILeft o s r => ILeft ((m, firstn w b) :: o) s r
                       | ICancel o => ICancel ((m, firstn w b) :: o)
                       | IPanic o => IPanic ((m, firstn w b) :: o)
                       | IFuel => IFuel
                       end
                end) by (intros f; subst b; reflexivity).
    rewrite !U. pose proof (detect_width b more Hne) as W.
    destruct (detect_one_msg b more) as [w m| |]; try reflexivity.
    destruct w as [|w]; [reflexivity|].
    destruct (cancelled_at cancel sent); [reflexivity|].
    rewrite (IH f2 (skipn (S w) b) (S sent)); [reflexivity| |]; rewrite skipn_length; lia.
Qed.

(* the stream theorem on the inner loop of one short read: every event yields
   exactly one message, the specified one, built from exactly its own bytes,
   and nothing is left *)
Theorem C08_inner : forall evs fuel sent,
  wf_stream evs = true -> forallb bounded_event evs = true ->
  (length (encode_all evs) <= fuel)%nat ->
  exists o, inner fuel (encode_all evs) false sent None = IDone o (sent + length evs)%nat /\
            map (fun mc => msg_proj (fst mc)) o = map (fun e => msg_proj (expect e)) evs /\
            map snd o = map encode evs.
Proof.
  induction evs as [|e t IH]; intros fuel sent W B L.
  - exists []. cbn [encode_all length map]. rewrite Nat.add_0_r.
    split; [destruct fuel; reflexivity|split; reflexivity].
  - cbn [wf_stream] in W. apply andb_true_iff in W. destruct W as [W Wt].
    apply andb_true_iff in W. destruct W as [V C].
    cbn [forallb] in B. apply andb_true_iff in B. destruct B as [Be Bt].
    destruct (C08_step e (encode_all t) V Be C) as (m & D & Pm & Ne).
    cbn [encode_all] in *.
    assert (Le : exists w, length (encode e) = S w).
    { destruct (encode e) as [|x s]; [congruence|]. exists (length s). reflexivity. }
    destruct Le as [w Le]. rewrite app_length in L.
    destruct fuel as [|f]; [lia|].
    rewrite Le in D.
    rewrite (inner_step f _ w m sent); [|destruct (encode e); [congruence|discriminate]|exact D].
    rewrite <- Le, skipn_app_exact, firstn_app_exact.
    destruct (IH f (S sent) Wt Bt ltac:(lia)) as (o & Ho & Mo & So).
    rewrite Ho. exists ((m, encode e) :: o). split; [|split].
    + cbn [length]. f_equal. lia.
    + cbn [map fst]. rewrite Pm, Mo. reflexivity.
    + cbn [map snd]. rewrite So. reflexivity.
Qed.

(* ---------------------------------------------------------------- a single short read *)

Theorem C08_stream_runs : forall evs,
  wf_stream evs = true -> forallb bounded_event evs = true -> length (encode_all evs) <> 256%nat ->
  map (fun mc => msg_proj (fst mc)) (rd_out (decode_all (encode_all evs))) = map (fun e => msg_proj (expect e)) evs
  /\ map snd (rd_out (decode_all (encode_all evs))) = map encode evs
  /\ rd_why (decode_all (encode_all evs)) = StopScriptEnd
  /\ rd_left (decode_all (encode_all evs)) = [].
Proof.
  intros evs W B L.
  destruct (C08_inner evs (length (encode_all evs)) 0%nat W B (le_n _)) as (o & Ho & Mo & So).
  unfold decode_all, reader. cbn [reader_from app].
  change buf_size with 256%nat. rewrite (proj2 (Nat.eqb_neq _ _) L), Ho.
  cbn [rd_out rd_left rd_why]. rewrite app_nil_r. repeat split; assumption.
Qed.

Theorem C08_stream : forall evs,
  wf_stream evs = true -> forallb bounded_event evs = true -> length (encode_all evs) <> 256%nat ->
  map (fun mc => msg_proj (fst mc)) (rd_out (decode_all (encode_all evs))) = map (fun e => msg_proj (expect e)) evs
  /\ rd_why (decode_all (encode_all evs)) = StopScriptEnd
  /\ rd_left (decode_all (encode_all evs)) = [].
Proof.
  intros evs W B L. destruct (C08_stream_runs evs W B L) as (H1 & _ & H3 & H4). auto.
Qed.

(* the scalar round trip, re-exported *)
Theorem C08_scalar : forall r rest, is_scalar r = true ->
  decode_rune (utf8_encode r ++ rest) = (r, length (utf8_encode r)).
Proof. exact decode_encode_scalar. Qed.
