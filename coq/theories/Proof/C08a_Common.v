(* C08, part a: common tools.
   - the extracted key table is (Leibniz) the documented one;
   - lookup in the extended table, longest-prefix search (detect_from);
   - "stage" lemmas: when detect_mouse / detect_focus / detect_paste say None;
   - the UTF-8 scalar round trip decode_encode_scalar. *)
From Coq Require Import NArith ZArith List Bool Lia Arith ZifyN ZifyNat ZifyBool.
Import ListNotations.
From BT Require Import Base.Bytes Model.Utf8 Model.Keys Model.Mouse Model.Decoder Model.Reader RefTable
  Spec.MouseSpec Spec.Events Proof.BytesLemmas Proof.DecoderTies Proof.MouseProofs Proof.ReaderProofs.
From BTGen Require Consts KeyTable.
Open Scope N_scope.
Ltac Zify.zify_post_hook ::= Z.div_mod_to_equations.

(* ---------------------------------------------------------------- one table *)

Lemma table_eqb_eq a : forall b, table_eqb a b = true -> a = b.
Proof.
  induction a as [|[k [ty al]] a IH]; intros [|[k' [ty' al']] b] H; cbn [table_eqb] in H;
    try discriminate; auto.
  apply andb_true_iff in H. destruct H as [He Ht].
  unfold entry_eqb in He. cbn [fst snd] in He.
  apply andb_true_iff in He. destruct He as [He Hb]. apply andb_true_iff in He. destruct He as [Hk Hz].
  apply bytes_eqb_eq in Hk. apply Z.eqb_eq in Hz. apply eqb_prop in Hb. subst.
  f_equal. apply IH. exact Ht.
Qed.

Lemma key_table_eq : KeyTable.sequences = RefTable.sequences.
Proof. apply table_eqb_eq. exact Tie_KeyTable. Qed.

(* ---------------------------------------------------------------- small list facts *)

Lemma is_prefix_refl a : is_prefix a a = true.
Proof. apply is_prefix_app. exists []. rewrite app_nil_r. reflexivity. Qed.

Lemma is_prefix_firstn n (l : bytes) : is_prefix (firstn n l) l = true.
Proof. apply is_prefix_app. exists (skipn n l). symmetry. apply firstn_skipn. Qed.

Lemma is_prefix_app_short k : forall s rest, is_prefix k (s ++ rest) = true -> (length k <= length s)%nat ->
  is_prefix k s = true.
Proof.
  induction k as [|x k IH]; intros s rest H L; [reflexivity|].
  destruct s as [|y s]; [cbn in L; lia|].
  cbn [app is_prefix] in *. apply andb_true_iff in H. destruct H as [H1 H2].
  rewrite H1. cbn [andb]. apply (IH s rest H2). cbn in L. lia.
Qed.

Lemma skipn_app_exact {A} (a b : list A) : skipn (length a) (a ++ b) = b.
Proof. rewrite skipn_app, skipn_all, Nat.sub_diag. reflexivity. Qed.

Lemma firstn_app_exact {A} (a b : list A) : firstn (length a) (a ++ b) = a.
Proof. rewrite firstn_app, firstn_all, Nat.sub_diag. cbn [firstn]. apply app_nil_r. Qed.

(* two byte strings that differ at a position where both are defined *)
Fixpoint diverges (a b : bytes) : bool :=
  match a, b with
  | x :: a', y :: b' => negb (x =? y) || diverges a' b'
  | _, _ => false
  end.

Lemma diverges_not_prefix a : forall b x y, diverges a b = true ->
  is_prefix a x = true -> is_prefix b y = true -> is_prefix x y = false.
Proof.
  induction a as [|a0 a IH]; intros [|b0 b] x y D Ha Hb; cbn [diverges] in D; try discriminate.
  destruct x as [|x0 x]; [discriminate|]. destruct y as [|y0 y]; [discriminate|].
  cbn [is_prefix] in *.
  apply andb_true_iff in Ha. destruct Ha as [Ha0 Ha]. apply andb_true_iff in Hb. destruct Hb as [Hb0 Hb].
  apply N.eqb_eq in Ha0. apply N.eqb_eq in Hb0. subst x0 y0.
  destruct (N.eqb_spec a0 b0) as [E|E]; [|reflexivity].
  cbn [negb orb andb] in *. exact (IH b x y D Ha Hb).
Qed.

Lemma diverges_sym a : forall b, diverges a b = diverges b a.
Proof.
  induction a as [|x a IH]; intros [|y b]; cbn [diverges]; auto.
  rewrite (N.eqb_sym x y), IH. reflexivity.
Qed.

(* p is not a prefix of k ++ rest *)
Lemma diverges_prefix k p rest : diverges k p = true -> is_prefix p (k ++ rest) = false.
Proof.
  intros D. rewrite diverges_sym in D.
  exact (diverges_not_prefix p k p (k ++ rest) D (is_prefix_refl p) (is_prefix_refl_app k rest)).
Qed.

(* k is not a prefix of p ++ rest *)
Lemma diverges_prefix_l k p rest : diverges k p = true -> is_prefix k (p ++ rest) = false.
Proof.
  intros D.
  exact (diverges_not_prefix k p k (p ++ rest) D (is_prefix_refl k) (is_prefix_refl_app p rest)).
Qed.

(* ---------------------------------------------------------------- the extended table *)

Definition is_key (k : bytes) : Prop := In k (map fst ext_sequences).

Lemma assoc_bytes_in {A} k (l : list (bytes * A)) m : assoc_bytes k l = Some m -> In (k, m) l.
Proof.
  induction l as [|[k' v] l IH]; cbn [assoc_bytes]; intros H; [discriminate|].
  destruct (bytes_eqb k k') eqn:E.
  - apply bytes_eqb_eq in E. inversion H; subst. left. reflexivity.
  - right. exact (IH H).
Qed.

Lemma in_assoc_bytes {A} k m (l : list (bytes * A)) :
  nodup_keys l = true -> In (k, m) l -> assoc_bytes k l = Some m.
Proof.
  induction l as [|[k' v] l IH]; intros N I; [destruct I|].
  cbn [nodup_keys] in N. apply andb_true_iff in N. destruct N as [N1 N2].
  cbn [assoc_bytes]. destruct I as [I|I].
  - inversion I; subst. rewrite bytes_eqb_refl. reflexivity.
  - destruct (bytes_eqb k k') eqn:E.
    + apply bytes_eqb_eq in E. subst k'.
      assert (X : existsb (fun e : bytes * A => bytes_eqb k (fst e)) l = true).
      { apply existsb_exists. exists (k, m). split; [exact I|]. cbn [fst]. apply bytes_eqb_refl. }
      rewrite X in N1. discriminate.
    + exact (IH N2 I).
Qed.

Lemma assoc_is_key k m : assoc_bytes k ext_sequences = Some m -> is_key k.
Proof.
  intros H. apply assoc_bytes_in in H. unfold is_key. apply in_map_iff. exists (k, m). split; [reflexivity|exact H].
Qed.

Lemma key_in_ref k : is_key k -> In k ref_ext_keys.
Proof.
  unfold is_key. intros H. apply in_map_iff in H. destruct H as (e & He & Hi).
  pose proof (proj1 (forallb_forall _ _) (proj2 ext_keys_are_ref) e Hi) as X.
  apply existsb_exists in X. destruct X as (k0 & Hk0 & Eq). apply bytes_eqb_eq in Eq. subst. exact Hk0.
Qed.

Lemma key_nonempty k : is_key k -> k <> [].
Proof.
  unfold is_key. intros H. apply in_map_iff in H. destruct H as (e & He & Hi).
  pose proof (proj1 (forallb_forall _ _) ext_keys_nonempty e Hi) as X. subst k.
  destruct e as [k0 m0]. cbn [fst] in *. destruct k0 as [|x0 t0]; [cbn in X; discriminate X|discriminate].
Qed.

Lemma keys_len_max_all : forallb (fun e => Nat.leb (length (fst e)) max_seq_len) ext_sequences = true.
Proof. vm_compute. reflexivity. Qed.

Lemma key_len_max k : is_key k -> (length k <= max_seq_len)%nat.
Proof.
  unfold is_key. intros H. apply in_map_iff in H. destruct H as (e & He & Hi).
  pose proof (proj1 (forallb_forall _ _) keys_len_max_all e Hi) as X. subst k. apply Nat.leb_le. exact X.
Qed.

(* lifting a boolean fact checked on every key *)
Lemma keys_forall (P : bytes -> bool) :
  forallb (fun e => P (fst e)) ext_sequences = true -> forall k, is_key k -> P k = true.
Proof.
  intros F k H. unfold is_key in H. apply in_map_iff in H. destruct H as (e & He & Hi).
  subst k. exact (proj1 (forallb_forall _ _) F e Hi).
Qed.

(* ---------------------------------------------------------------- clean, rule (1) *)

Definition no_longer (s rest : bytes) : bool :=
  negb (existsb (fun k => Nat.ltb (length s) (length k) && is_prefix k (s ++ rest)) ref_ext_keys).

Lemma clean_no_longer e rest : clean e rest = true -> no_longer (encode e) rest = true.
Proof. unfold clean, no_longer. intros H. apply andb_true_iff in H. exact (proj1 H). Qed.

Lemma no_longer_spec s rest k : no_longer s rest = true -> is_key k -> (length s < length k)%nat ->
  is_prefix k (s ++ rest) = false.
Proof.
  unfold no_longer. intros H K L. apply negb_true_iff in H.
  destruct (is_prefix k (s ++ rest)) eqn:E; [|reflexivity].
  assert (X : existsb (fun k => Nat.ltb (length s) (length k) && is_prefix k (s ++ rest)) ref_ext_keys = true).
  { apply existsb_exists. exists k. split; [exact (key_in_ref k K)|].
    rewrite E. apply andb_true_iff. split; [apply Nat.ltb_lt; exact L|reflexivity]. }
  congruence.
Qed.

(* ---------------------------------------------------------------- longest-prefix search *)

Lemma detect_from_skip input : forall sz lo, (lo <= sz)%nat ->
  (forall k, is_key k -> (lo < length k <= sz)%nat -> is_prefix k input = false) ->
  detect_from sz input = detect_from lo input.
Proof.
  induction sz as [|sz IH]; intros lo L H.
  - assert (lo = 0%nat) by lia. subst. reflexivity.
  - destruct (Nat.eq_dec lo (S sz)) as [->|Hne]; [reflexivity|].
    cbn [detect_from].
    assert (IH' : detect_from sz input = detect_from lo input).
    { apply IH; [lia|]. intros k K Lk. apply H; [exact K|lia]. }
    destruct (len_ge input (S sz)) eqn:G; [|exact IH'].
    destruct (assoc_bytes (firstn (S sz) input) ext_sequences) as [m|] eqn:A; [|exact IH'].
    exfalso. apply len_ge_iff in G.
    pose proof (H (firstn (S sz) input) (assoc_is_key _ _ A)) as X.
    rewrite firstn_length_le in X by exact G.
    rewrite is_prefix_firstn in X. specialize (X ltac:(lia)). discriminate.
Qed.

Lemma detect_from_hit k m rest : assoc_bytes k ext_sequences = Some m -> k <> [] ->
  detect_from (length k) (k ++ rest) = Some (length k, m).
Proof.
  intros A Hk. remember (length k) as n eqn:En. destruct n as [|n]; [destruct k; [congruence|discriminate]|].
  cbn [detect_from].
  assert (G : len_ge (k ++ rest) (S n) = true) by (apply len_ge_iff; rewrite app_length; lia).
  rewrite G, En, firstn_app_exact, A. reflexivity.
Qed.

Lemma detect_from_none input :
  (forall k, is_key k -> is_prefix k input = false) -> detect_from max_seq_len input = None.
Proof.
  intros H. rewrite (detect_from_skip input max_seq_len 0%nat); [reflexivity|lia|].
  intros k K _. exact (H k K).
Qed.

Lemma detect_sequence_key k m rest : assoc_bytes k ext_sequences = Some m -> no_longer k rest = true ->
  detect_sequence (k ++ rest) = Some (length k, m).
Proof.
  intros A NL. pose proof (assoc_is_key k m A) as K.
  unfold detect_sequence.
  rewrite (detect_from_skip (k ++ rest) max_seq_len (length k)).
  - rewrite (detect_from_hit k m rest A (key_nonempty k K)). reflexivity.
  - exact (key_len_max k K).
  - intros k' K' L. apply (no_longer_spec k rest k' NL K'). lia.
Qed.

(* ---------------------------------------------------------------- the first three stages *)

Lemma detect_mouse_some b r : detect_mouse b = Some r ->
  is_prefix [27; 91; 77] b = true \/ is_prefix [27; 91; 60] b = true.
Proof.
  unfold detect_mouse. destruct (len_ge b x10_len); [|discriminate].
  destruct b as [|b0 [|b1 [|b2 rest]]]; try discriminate.
  destruct (N.eqb_spec b0 27) as [E0|E0]; [|discriminate].
  destruct (N.eqb_spec b1 91) as [E1|E1]; [|discriminate].
  cbn [andb]. subst b0 b1.
  destruct (N.eqb_spec b2 77) as [E2|E2]; [subst; left; reflexivity|].
  destruct (N.eqb_spec b2 60) as [E3|E3]; [subst; right; reflexivity|discriminate].
Qed.

Lemma detect_mouse_none b :
  is_prefix [27; 91; 77] b = false -> is_prefix [27; 91; 60] b = false -> detect_mouse b = None.
Proof.
  intros H1 H2. destruct (detect_mouse b) as [r|] eqn:E; [|reflexivity].
  apply detect_mouse_some in E. destruct E; congruence.
Qed.

Lemma detect_focus_none b : b <> focus_in -> b <> focus_out -> detect_focus b = None.
Proof.
  intros H1 H2. unfold detect_focus.
  destruct (bytes_eqb b focus_in) eqn:E1; [apply bytes_eqb_eq in E1; congruence|].
  destruct (bytes_eqb b focus_out) eqn:E2; [apply bytes_eqb_eq in E2; congruence|]. reflexivity.
Qed.

Lemma detect_paste_none b : is_prefix bp_start b = false -> detect_paste b = PNone.
Proof. intros H. unfold detect_paste. rewrite H. reflexivity. Qed.

(* a prefix k of the input that already rules the three stages out *)
Definition pre_safe (k : bytes) : bool :=
  diverges k [27; 91; 77] && diverges k [27; 91; 60] &&
  (diverges k focus_in || Nat.ltb 3 (length k)) && (diverges k focus_out || Nat.ltb 3 (length k)) &&
  diverges k bp_start.

Lemma not_focus k p rest : length p = 3%nat -> (diverges k p || Nat.ltb 3 (length k)) = true -> k ++ rest <> p.
Proof.
  intros Lp H E. apply orb_true_iff in H. destruct H as [H|H].
  - pose proof (diverges_prefix k p rest H) as X. rewrite E, is_prefix_refl in X. discriminate.
  - apply Nat.ltb_lt in H. apply (f_equal (@length N)) in E. rewrite app_length in E. lia.
Qed.

Lemma pre_safe_none k rest : pre_safe k = true ->
  detect_mouse (k ++ rest) = None /\ detect_focus (k ++ rest) = None /\ detect_paste (k ++ rest) = PNone.
Proof.
  unfold pre_safe. intros H.
  apply andb_true_iff in H. destruct H as [H H5]. apply andb_true_iff in H. destruct H as [H H4].
  apply andb_true_iff in H. destruct H as [H H3]. apply andb_true_iff in H. destruct H as [H1 H2].
  split; [|split].
  - apply detect_mouse_none; apply diverges_prefix; assumption.
  - apply detect_focus_none; apply not_focus; auto.
  - apply detect_paste_none. apply diverges_prefix. exact H5.
Qed.

Lemma keys_pre_safe : forallb (fun e => pre_safe (fst e)) ext_sequences = true.
Proof. vm_compute. reflexivity. Qed.

Lemma dom_stages b : b <> [] ->
  detect_mouse b = None -> detect_focus b = None -> detect_paste b = PNone ->
  detect_one_msg b false =
  match detect_sequence b with Some (w, m) => DMsg w m | None => detect_tail b false end.
Proof.
  intros Hb H1 H2 H3. unfold detect_one_msg. destruct b as [|b0 r]; [congruence|].
  cbn [andb]. rewrite H1, H2, H3. reflexivity.
Qed.

(* the generic step for everything that is a key of the extended table *)
Lemma step_key k m rest : assoc_bytes k ext_sequences = Some m -> no_longer k rest = true ->
  detect_one_msg (k ++ rest) false = DMsg (length k) m.
Proof.
  intros A NL. pose proof (assoc_is_key k m A) as K.
  destruct (pre_safe_none k rest (keys_forall pre_safe keys_pre_safe k K)) as (H1 & H2 & H3).
  rewrite dom_stages; auto.
  - rewrite (detect_sequence_key k m rest A NL). reflexivity.
  - pose proof (key_nonempty k K). destruct k; [congruence|discriminate].
Qed.

(* ---------------------------------------------------------------- UTF-8 round trip *)

Ltac fb_solve :=
  unfold first_byte;
  repeat match goal with
         | |- context [if ?c then _ else _] => destruct c eqn:?
         end; try reflexivity; exfalso; lia.

Lemma first_byte_ascii b : b < 128 -> first_byte b = FAscii.
Proof. intros H. unfold first_byte. destruct (N.ltb_spec b 128); [reflexivity|lia]. Qed.

Lemma first_byte_ascii_inv b : first_byte b = FAscii -> b < 128.
Proof.
  unfold first_byte. destruct (N.ltb_spec b 128) as [H|H]; [auto|].
  repeat match goal with
         | |- context [if ?c then _ else _] => destruct c
         end; discriminate.
Qed.

Lemma first_byte_2 b : 194 <= b < 224 -> first_byte b = FMulti 2 128 191.
Proof. intros H. fb_solve. Qed.
Lemma first_byte_e0 : first_byte 224 = FMulti 3 160 191.
Proof. reflexivity. Qed.
Lemma first_byte_3a b : 225 <= b < 237 -> first_byte b = FMulti 3 128 191.
Proof. intros H. fb_solve. Qed.
Lemma first_byte_ed : first_byte 237 = FMulti 3 128 159.
Proof. reflexivity. Qed.
Lemma first_byte_3b b : 238 <= b < 240 -> first_byte b = FMulti 3 128 191.
Proof. intros H. fb_solve. Qed.
Lemma first_byte_f0 : first_byte 240 = FMulti 4 144 191.
Proof. reflexivity. Qed.
Lemma first_byte_4 b : 241 <= b < 244 -> first_byte b = FMulti 4 128 191.
Proof. intros H. fb_solve. Qed.
Lemma first_byte_f4 : first_byte 244 = FMulti 4 128 143.
Proof. reflexivity. Qed.

Lemma cont_enc x : cont (128 + x mod 64) = true.
Proof. unfold cont, in_range. lia. Qed.

Lemma mod64_enc x : (128 + x mod 64) mod 64 = x mod 64.
Proof. lia. Qed.

Theorem decode_encode_scalar r rest : is_scalar r = true ->
  decode_rune (utf8_encode r ++ rest) = (r, length (utf8_encode r)).
Proof.
  intros Hs. unfold is_scalar in Hs. unfold utf8_encode.
  destruct (N.ltb_spec r 128) as [H1|H1].
  { cbn [app length]. unfold decode_rune. rewrite first_byte_ascii by exact H1. reflexivity. }
  destruct (N.ltb_spec r 2048) as [H2|H2].
  { cbn [app length]. unfold decode_rune.
    rewrite first_byte_2 by lia. cbv beta iota.
    change (in_range 128 191 (128 + r mod 64)) with (cont (128 + r mod 64)). rewrite cont_enc.
    rewrite mod64_enc. f_equal. lia. }
  destruct (N.ltb_spec r 65536) as [H3|H3].
  { cbn [app length]. unfold decode_rune.
    set (q := r / 4096).
    assert (Hq : q < 16) by (unfold q; lia).
    assert (Hv : ((224 + q) mod 16) * 4096 + ((r / 64) mod 64) * 64 + r mod 64 = r) by (unfold q; lia).
    destruct (N.eq_dec q 0) as [Q0|Q0].
    { rewrite Q0. change (224 + 0) with 224. rewrite first_byte_e0. cbv beta iota.
      assert (I : in_range 160 191 (128 + (r / 64) mod 64) = true) by (unfold in_range; unfold q in Q0; lia).
      rewrite I, cont_enc, !mod64_enc. rewrite Q0 in Hv. change (224 + 0) with 224 in Hv. rewrite Hv. reflexivity. }
    destruct (N.eq_dec q 13) as [Q13|Q13].
    { rewrite Q13. change (224 + 13) with 237. rewrite first_byte_ed. cbv beta iota.
      assert (I : in_range 128 159 (128 + (r / 64) mod 64) = true) by (unfold in_range; unfold q in Q13; lia).
      rewrite I, cont_enc, !mod64_enc. rewrite Q13 in Hv. change (224 + 13) with 237 in Hv. rewrite Hv. reflexivity. }
    assert (I : in_range 128 191 (128 + (r / 64) mod 64) = true) by apply cont_enc.
    destruct (N.ltb_spec q 13) as [Q|Q].
    { rewrite first_byte_3a by lia. cbv beta iota. rewrite I, cont_enc, !mod64_enc, Hv. reflexivity. }
    { rewrite first_byte_3b by lia. cbv beta iota. rewrite I, cont_enc, !mod64_enc, Hv. reflexivity. } }
  { cbn [app length]. unfold decode_rune.
    set (q := r / 262144).
    assert (Hq : q <= 4) by (unfold q; lia).
    assert (Hv : ((240 + q) mod 8) * 262144 + ((r / 4096) mod 64) * 4096 + ((r / 64) mod 64) * 64 + r mod 64 = r)
      by (unfold q; lia).
    destruct (N.eq_dec q 0) as [Q0|Q0].
    { rewrite Q0. change (240 + 0) with 240. rewrite first_byte_f0. cbv beta iota.
      assert (I : in_range 144 191 (128 + (r / 4096) mod 64) = true) by (unfold in_range; unfold q in Q0; lia).
      rewrite I, !cont_enc, !mod64_enc. rewrite Q0 in Hv. change (240 + 0) with 240 in Hv. rewrite Hv. reflexivity. }
    destruct (N.eq_dec q 4) as [Q4|Q4].
    { rewrite Q4. change (240 + 4) with 244. rewrite first_byte_f4. cbv beta iota.
      assert (I : in_range 128 143 (128 + (r / 4096) mod 64) = true) by (unfold in_range; unfold q in Q4; lia).
      rewrite I, !cont_enc, !mod64_enc. rewrite Q4 in Hv. change (240 + 4) with 244 in Hv. rewrite Hv. reflexivity. }
    assert (I : in_range 128 191 (128 + (r / 4096) mod 64) = true) by apply cont_enc.
    rewrite first_byte_4 by lia. cbv beta iota. rewrite I, !cont_enc, !mod64_enc, Hv. reflexivity. }
Qed.

(* facts about the encoding used by the rune events *)
Lemma utf8_encode_length r : (1 <= length (utf8_encode r) <= 4)%nat.
Proof.
  unfold utf8_encode. destruct (r <? 128); [cbn; lia|]. destruct (r <? 2048); [cbn; lia|].
  destruct (r <? 65536); cbn; lia.
Qed.

(* first byte of the encoding: the scalar itself below 128, at least 194 above *)
Lemma utf8_encode_head r : is_scalar r = true ->
  exists c t, utf8_encode r = c :: t /\ (r < 128 -> c = r /\ t = []) /\ (128 <= r -> 194 <= c).
Proof.
  intros Hs. unfold is_scalar in Hs. unfold utf8_encode.
  destruct (N.ltb_spec r 128) as [H1|H1].
  { exists r, []. split; [reflexivity|]. split; [auto|lia]. }
  destruct (N.ltb_spec r 2048) as [H2|H2].
  { eexists _, _. split; [reflexivity|]. split; lia. }
  destruct (N.ltb_spec r 65536) as [H3|H3].
  { eexists _, _. split; [reflexivity|]. split; lia. }
  { eexists _, _. split; [reflexivity|]. split; lia. }
Qed.
