(* C08, part b: the one-step lemma for the events that are keys of the
   extended table (EKey, ECtl, ESpace, EAltEsc), for NUL, for the events that
   end a read (EEsc, EFocus, EBlur) and for the mouse reports. *)
From Coq Require Import NArith ZArith List Bool Lia Arith ZifyN ZifyNat ZifyBool.
Import ListNotations.
From BT Require Import Base.Bytes Model.Utf8 Model.Keys Model.Mouse Model.Decoder Model.Reader RefTable
  Spec.MouseSpec Spec.Events Proof.BytesLemmas Proof.DecoderTies Proof.MouseProofs Proof.ReaderProofs
  Proof.C08a_Common.
From BTGen Require Consts KeyTable.
Open Scope N_scope.

(* what one step of the reader has to do on an event followed by [rest] *)
Definition step_ok (e : event) (rest : bytes) : Prop :=
  exists m, detect_one_msg (encode e ++ rest) false = DMsg (length (encode e)) m /\
            msg_proj m = msg_proj (expect e) /\ encode e <> [].

(* SGR coordinates and codes are parsed with strconv.Atoi, whose result
   saturates at 2^63-1 (C11_saturate): the round trip holds below that bound only. *)
Definition bounded_event (e : event) : bool :=
  match e with
  | EMouseSGR c x y _ => ((c <? 2 ^ 63) && (x <? 2 ^ 63) && (y <? 2 ^ 63))%Z
  | _ => true
  end.

(* ---------------------------------------------------------------- table entries *)

Lemma ext_of_table_in s ty a : In (s, (ty, a)) RefTable.sequences ->
  In (s, MKey ty [] a false) ext_sequences /\
  (a = false -> In (ESC :: s, MKey ty [] true false) ext_sequences).
Proof.
  intros H. unfold ext_sequences. rewrite key_table_eq. split.
  - apply in_or_app. left. unfold ext_of_table. apply in_flat_map. exists (s, (ty, a)).
    split; [exact H|]. left. reflexivity.
  - intros ->. apply in_or_app. left. unfold ext_of_table. apply in_flat_map. exists (s, (ty, false)).
    split; [exact H|]. right. left. reflexivity.
Qed.

Lemma step_EKey i alt rest : valid_event (EKey i alt) = true -> clean (EKey i alt) rest = true ->
  step_ok (EKey i alt) rest.
Proof.
  intros V C. apply clean_no_longer in C. unfold step_ok. cbn [valid_event encode expect] in *.
  destruct (ref_entry i) as [[s [ty a]]|] eqn:R; [|discriminate].
  assert (I : In (s, (ty, a)) RefTable.sequences) by (apply (nth_error_In _ i); exact R).
  destruct (ext_of_table_in s ty a I) as [I1 I2].
  set (k := if alt then ESC :: s else s) in *.
  assert (A : assoc_bytes k ext_sequences = Some (MKey ty [] (a || alt) false)).
  { apply in_assoc_bytes; [exact ext_keys_distinct|]. unfold k. destruct alt.
    - destruct a; [discriminate|]. cbn [orb]. apply I2. reflexivity.
    - rewrite orb_false_r. exact I1. }
  exists (MKey ty [] (a || alt) false). split; [|split].
  - exact (step_key k _ rest A C).
  - reflexivity.
  - exact (key_nonempty k (assoc_is_key _ _ A)).
Qed.

(* ---------------------------------------------------------------- control bytes *)

Lemma ctl_in_range b : is_ctl b = true -> In b ctl_range.
Proof.
  intros H. unfold is_ctl in H. unfold ctl_range.
  change (Z.to_nat keyNUL + 1)%nat with 1%nat. change (Z.to_nat keyUS - Z.to_nat keyNUL)%nat with 31%nat.
  change (Z.to_N keyDEL) with 127. change keyESC with 27%Z.
  apply in_or_app. destruct (N.eqb_spec b 127) as [E|E].
  - right. left. symmetry. exact E.
  - left. apply filter_In. split.
    + apply in_map_iff. exists (N.to_nat b). split; [lia|]. apply in_seq. lia.
    + lia.
Qed.

Lemma ctl_keys b : is_ctl b = true ->
  In ([b], MKey (Z.of_N b) [] false false) ext_sequences /\
  In ([ESC; b], MKey (Z.of_N b) [] true false) ext_sequences.
Proof.
  intros H. apply ctl_in_range in H. unfold ext_sequences.
  split; apply in_or_app; right; apply in_or_app; left; apply in_flat_map; exists b; (split; [exact H|]).
  - left. reflexivity.
  - right. left. reflexivity.
Qed.

Lemma step_ECtl b alt rest : valid_event (ECtl b alt) = true -> clean (ECtl b alt) rest = true ->
  step_ok (ECtl b alt) rest.
Proof.
  intros V C. apply clean_no_longer in C. unfold step_ok. cbn [valid_event encode expect] in *.
  destruct (ctl_keys b V) as [I1 I2].
  set (k := if alt then [ESC; b] else [b]) in *.
  assert (A : assoc_bytes k ext_sequences = Some (MKey (Z.of_N b) [] alt false)).
  { apply in_assoc_bytes; [exact ext_keys_distinct|]. unfold k. destruct alt; assumption. }
  exists (MKey (Z.of_N b) [] alt false). split; [|split].
  - exact (step_key k _ rest A C).
  - reflexivity.
  - unfold k. destruct alt; discriminate.
Qed.

(* ---------------------------------------------------------------- space, ESC ESC *)

Lemma step_ESpace alt rest : clean (ESpace alt) rest = true -> step_ok (ESpace alt) rest.
Proof.
  intros C. apply clean_no_longer in C. unfold step_ok. cbn [encode expect] in *.
  exists (MKey RefTable.KeySpace [32] alt false). split; [|split].
  - destruct alt.
    + apply (step_key [ESC; 32] _ rest); [vm_compute; reflexivity|exact C].
    + apply (step_key [32] _ rest); [vm_compute; reflexivity|exact C].
  - reflexivity.
  - destruct alt; discriminate.
Qed.

Lemma step_EAltEsc rest : clean EAltEsc rest = true -> step_ok EAltEsc rest.
Proof.
  intros C. apply clean_no_longer in C. unfold step_ok. cbn [encode expect] in *.
  exists (MKey RefTable.KeyEscape [] true false). split; [|split].
  - apply (step_key [ESC; ESC] _ rest); [vm_compute; reflexivity|exact C].
  - reflexivity.
  - discriminate.
Qed.

(* ---------------------------------------------------------------- NUL *)

Lemma keys_not_nul :
  forallb (fun e => diverges (fst e) [0] && diverges (fst e) [27; 0]) ext_sequences = true.
Proof. vm_compute. reflexivity. Qed.

Lemma step_ENul alt rest : step_ok (ENul alt) rest.
Proof.
  unfold step_ok. cbn [encode expect].
  exists (MKey RefTable.KeyNull [] alt false). split; [|split]; [|reflexivity|destruct alt; discriminate].
  set (p := if alt then [ESC; 0] else [0]).
  assert (PS : pre_safe p = true) by (unfold p; destruct alt; vm_compute; reflexivity).
  destruct (pre_safe_none p rest PS) as (H1 & H2 & H3).
  assert (Hne : p ++ rest <> []) by (unfold p; destruct alt; discriminate).
  change (detect_one_msg (p ++ rest) false = DMsg (length p) (MKey RefTable.KeyNull [] alt false)).
  rewrite (dom_stages _ Hne H1 H2 H3).
  assert (DS : detect_sequence (p ++ rest) = None).
  { unfold detect_sequence. rewrite detect_from_none.
    - unfold p. destruct alt; cbn [app]; unfold unknown_csi.
      + change ((ESC =? 27) && (0 =? 91)) with false. reflexivity.
      + destruct rest; reflexivity.
    - intros k K. pose proof (keys_forall (fun k => diverges k [0] && diverges k [27; 0]) keys_not_nul k K) as D. cbv beta in D.
      apply andb_true_iff in D. destruct D as [D0 D1].
      unfold p. destruct alt; apply diverges_prefix_l; assumption. }
  rewrite DS. unfold p. destruct alt; reflexivity.
Qed.

(* ---------------------------------------------------------------- last event of a read *)

Lemma rest_nil_of (rest : bytes) : match rest with [] => true | _ => false end = true -> rest = [].
Proof. destruct rest; [reflexivity|discriminate]. Qed.

Lemma step_EEsc rest : clean EEsc rest = true -> step_ok EEsc rest.
Proof.
  intros C. unfold clean in C. apply andb_true_iff in C. destruct C as [_ C]. apply rest_nil_of in C. subst.
  exists (MKey RefTable.KeyEscape [] false false). split; [|split]; [vm_compute; reflexivity|reflexivity|discriminate].
Qed.

Lemma step_EFocus rest : clean EFocus rest = true -> step_ok EFocus rest.
Proof.
  intros C. unfold clean in C. apply andb_true_iff in C. destruct C as [_ C]. apply rest_nil_of in C. subst.
  exists MFocus. split; [|split]; [vm_compute; reflexivity|reflexivity|discriminate].
Qed.

Lemma step_EBlur rest : clean EBlur rest = true -> step_ok EBlur rest.
Proof.
  intros C. unfold clean in C. apply andb_true_iff in C. destruct C as [_ C]. apply rest_nil_of in C. subst.
  exists MBlur. split; [|split]; [vm_compute; reflexivity|reflexivity|discriminate].
Qed.

(* ---------------------------------------------------------------- mouse *)

Lemma step_EMouseSGR c x y rel rest :
  valid_event (EMouseSGR c x y rel) = true -> bounded_event (EMouseSGR c x y rel) = true ->
  step_ok (EMouseSGR c x y rel) rest.
Proof.
  intros V B. cbn [valid_event bounded_event] in V, B.
  destruct (detect_sgr c x y rel rest ltac:(lia) ltac:(lia) ltac:(lia)) as (m & H1 & H2).
  exists m. split; [exact H1|split; [exact H2|]]. rewrite encode_sgr. discriminate.
Qed.

Lemma step_EMouseX10 c x y rest : valid_event (EMouseX10 c x y) = true -> step_ok (EMouseX10 c x y) rest.
Proof.
  intros V. cbn [valid_event] in V.
  destruct (detect_x10 c x y rest ltac:(lia) ltac:(lia) ltac:(lia)) as (m & H1 & H2 & H3).
  exists m. split; [rewrite H2; exact H1|split; [exact H3|discriminate]].
Qed.
