(* C08, part c: the one-step lemma for runs of printable scalars (ERunes) and
   for ESC + one printable scalar (EAltRune). *)
From Coq Require Import NArith ZArith List Bool Lia Arith ZifyN ZifyNat ZifyBool.
Import ListNotations.
From BT Require Import Base.Bytes Model.Utf8 Model.Keys Model.Mouse Model.Decoder Model.Reader RefTable
  Spec.MouseSpec Spec.Events Proof.BytesLemmas Proof.DecoderTies Proof.MouseProofs Proof.ReaderProofs
  Proof.C08a_Common Proof.C08b_Keys.
From BTGen Require Consts KeyTable.
Open Scope N_scope.

(* ---------------------------------------------------------------- span, CSI syntax *)

Lemma span_exact f a : forall r, all_bytes f a = true ->
  match r with [] => True | x :: _ => f x = false end -> span f (a ++ r) = (a, r).
Proof.
  induction a as [|x a IH]; intros r A R; cbn [app].
  - destruct r as [|y r]; [reflexivity|]. cbn [span]. rewrite R. reflexivity.
  - cbn [all_bytes] in A. apply andb_true_iff in A. destruct A as [A1 A2].
    cbn [span]. rewrite A1, (IH r A2 R). reflexivity.
Qed.

Lemma all_bytes_app f a b : all_bytes f (a ++ b) = all_bytes f a && all_bytes f b.
Proof. induction a as [|x a IH]; cbn [app all_bytes]; [reflexivity|]. rewrite IH, andb_assoc. reflexivity. Qed.

Lemma all_bytes_impl (f g : N -> bool) a : (forall x, f x = true -> g x = true) ->
  all_bytes f a = true -> all_bytes g a = true.
Proof.
  intros I. induction a as [|x a IH]; cbn [all_bytes]; [auto|]. intros H.
  apply andb_true_iff in H. destruct H as [H1 H2]. rewrite (I x H1), (IH H2). reflexivity.
Qed.

Lemma digit_is_param x : is_digit x = true -> Decoder.is_param x = true.
Proof. unfold is_digit, Decoder.is_param, in_range. lia. Qed.

(* the shape of an SGR match *)
Lemma match_sgr_shape s d1 d2 d3 f n : match_sgr s = Some (d1, d2, d3, f, n) ->
  exists tail, s = d1 ++ 59 :: d2 ++ 59 :: d3 ++ f :: tail /\
    all_bytes is_digit d1 = true /\ all_bytes is_digit d2 = true /\ all_bytes is_digit d3 = true /\
    d1 <> [] /\ d2 <> [] /\ d3 <> [] /\ (f = 77 \/ f = 109).
Proof.
  unfold match_sgr. intros H.
  destruct (span is_digit s) as [a1 r1] eqn:E1.
  destruct a1 as [|x1 a1]; [discriminate|].
  destruct r1 as [|c1 r1]; [discriminate|].
  destruct (N.eqb_spec c1 59) as [C1|C1]; [|discriminate].
  destruct (span is_digit r1) as [a2 r2] eqn:E2.
  destruct a2 as [|x2 a2]; [discriminate|].
  destruct r2 as [|c2 r2]; [discriminate|].
  destruct (N.eqb_spec c2 59) as [C2|C2]; [|discriminate].
  destruct (span is_digit r2) as [a3 r3] eqn:E3.
  destruct a3 as [|x3 a3]; [discriminate|].
  destruct r3 as [|c3 r3]; [discriminate|].
  destruct ((c3 =? 77) || (c3 =? 109)) eqn:F; [|discriminate].
  inversion H; subst.
  apply span_app in E1. apply span_app in E2. apply span_app in E3.
  destruct E1 as [-> D1]. destruct E2 as [-> D2]. destruct E3 as [-> D3].
  exists r3. repeat split; try assumption; try discriminate.
  apply orb_true_iff in F. destruct F as [F|F]; apply N.eqb_eq in F; auto.
Qed.

Lemma sgr_params_all d1 d2 d3 :
  all_bytes is_digit d1 = true -> all_bytes is_digit d2 = true -> all_bytes is_digit d3 = true ->
  all_bytes Decoder.is_param (d1 ++ 59 :: d2 ++ 59 :: d3) = true.
Proof.
  intros D1 D2 D3.
  rewrite all_bytes_app. cbn [all_bytes]. rewrite all_bytes_app. cbn [all_bytes].
  rewrite (all_bytes_impl _ _ d1 digit_is_param D1), (all_bytes_impl _ _ d2 digit_is_param D2),
          (all_bytes_impl _ _ d3 digit_is_param D3). reflexivity.
Qed.

(* everything the decoder recognises behind ESC [ is syntactically a CSI *)
Lemma unknown_csi_syntax b n : unknown_csi b = Some n -> csi_syntax b = true.
Proof.
  unfold unknown_csi. intros H.
  destruct b as [|b0 [|b1 r]]; try discriminate.
  destruct (N.eqb_spec b0 27) as [E0|E0]; [|discriminate].
  destruct (N.eqb_spec b1 91) as [E1|E1]; [|discriminate].
  subst b0 b1. cbn [andb] in H. unfold csi_syntax.
  change Events.is_param with Decoder.is_param. change Events.is_inter with Decoder.is_inter.
  change Events.is_final with Decoder.is_final.
  destruct (span Decoder.is_param r) as [ps r1].
  destruct (span Decoder.is_inter r1) as [is r2].
  destruct r2 as [|f r2]; [discriminate|].
  destruct (Decoder.is_final f); [reflexivity|discriminate].
Qed.

Lemma csi_syntax_intro ps is f tail :
  all_bytes Decoder.is_param ps = true -> all_bytes Decoder.is_inter is = true -> Decoder.is_final f = true ->
  csi_syntax (27 :: 91 :: ps ++ is ++ f :: tail) = true.
Proof.
  intros P I F. unfold csi_syntax.
  change Events.is_param with Decoder.is_param. change Events.is_inter with Decoder.is_inter.
  change Events.is_final with Decoder.is_final.
  assert (Fp : Decoder.is_param f = false) by (revert F; unfold Decoder.is_param, Decoder.is_final, in_range; lia).
  assert (Fi : Decoder.is_inter f = false) by (revert F; unfold Decoder.is_inter, Decoder.is_final, in_range; lia).
  assert (Hh : match is ++ f :: tail with [] => True | x :: _ => Decoder.is_param x = false end).
  { destruct is as [|i0 is']; cbn [app]; [exact Fp|].
    cbn [all_bytes] in I. apply andb_true_iff in I. destruct I as [I0 _].
    revert I0. unfold Decoder.is_param, Decoder.is_inter, in_range. lia. }
  rewrite (span_exact _ ps _ P Hh).
  rewrite (span_exact _ is (f :: tail) I Fi). exact F.
Qed.

Lemma mouse_csi_syntax b r : detect_mouse b = Some r -> csi_syntax b = true.
Proof.
  unfold detect_mouse. destruct (len_ge b x10_len); [|discriminate].
  destruct b as [|b0 [|b1 [|b2 rest]]]; try discriminate.
  destruct (N.eqb_spec b0 27) as [E0|E0]; [|discriminate].
  destruct (N.eqb_spec b1 91) as [E1|E1]; [|discriminate].
  cbn [andb]. subst b0 b1.
  destruct (N.eqb_spec b2 77) as [E2|E2].
  { intros _. subst b2. exact (csi_syntax_intro [] [] 77 rest eq_refl eq_refl eq_refl). }
  destruct (N.eqb_spec b2 60) as [E3|E3]; [|discriminate]. subst b2.
  destruct (match_sgr rest) as [[[[[d1 d2] d3] f] n]|] eqn:M; [|discriminate]. intros _.
  destruct (match_sgr_shape _ _ _ _ _ _ M) as (tail & -> & D1 & D2 & D3 & _ & _ & _ & Ff).
  pose proof (csi_syntax_intro (60 :: d1 ++ 59 :: d2 ++ 59 :: d3) [] f tail) as X.
  cbn [app] in X. rewrite <- !app_assoc in X. cbn [app] in X. rewrite <- !app_assoc in X. cbn [app] in X.
  apply X.
  - cbn [all_bytes]. rewrite (sgr_params_all d1 d2 d3 D1 D2 D3). reflexivity.
  - reflexivity.
  - destruct Ff; subst; reflexivity.
Qed.

Lemma bp_start_csi_syntax b : is_prefix bp_start b = true -> csi_syntax b = true.
Proof.
  intros H. apply is_prefix_app in H. destruct H as [tail ->].
  exact (csi_syntax_intro [50; 48; 48] [] 126 tail eq_refl eq_refl eq_refl).
Qed.

(* ---------------------------------------------------------------- the rune loop *)

Lemma rune_run_step f alt s r w : s <> [] -> decode_rune s = (r, w) ->
  rune_run (S f) alt s =
  if stops_run r w then ([], 0%nat)
  else if alt then ([r], w)
  else let '(rs, n) := rune_run f alt (skipn w s) in (r :: rs, (w + n)%nat).
Proof. intros Hs D. destruct s as [|x t]; [congruence|]. cbn [rune_run]. rewrite D. reflexivity. Qed.

Lemma printable_parts r : printable_scalar r = true -> is_scalar r = true /\ 32 < r /\ r <> 127.
Proof.
  unfold printable_scalar. intros H. apply andb_true_iff in H. destruct H as [H H3].
  apply andb_true_iff in H. destruct H as [H1 H2]. split; [exact H1|]. lia.
Qed.

Lemma stops_run_printable r : printable_scalar r = true -> stops_run r (length (utf8_encode r)) = false.
Proof.
  intros P. destruct (printable_parts r P) as (S & L & D).
  unfold stops_run. change (Z.to_N keyUS) with 31. change (Z.to_N keyDEL) with 127.
  destruct (N.eqb_spec r RuneError) as [E|E].
  - subst r. vm_compute. reflexivity.
  - cbn [andb orb]. lia.
Qed.

Lemma stops_run_ascii b : b < 128 -> printable_scalar b = false -> stops_run b 1 = true.
Proof.
  intros L P. unfold stops_run. change (Z.to_N keyUS) with 31. change (Z.to_N keyDEL) with 127.
  unfold printable_scalar, is_scalar in P. lia.
Qed.

Definition run_ends (rest : bytes) : bool :=
  match rest with [] => true | b :: _ => (b <? 128) && negb (printable_scalar b) end.

Lemma rune_run_runes rs : forall rest fuel, forallb printable_scalar rs = true -> run_ends rest = true ->
  (length (flat_map utf8_encode rs ++ rest) <= fuel)%nat ->
  rune_run fuel false (flat_map utf8_encode rs ++ rest) = (rs, length (flat_map utf8_encode rs)).
Proof.
  induction rs as [|r rs IH]; intros rest fuel P E L.
  - cbn [flat_map app length] in *. destruct rest as [|b t]; [destruct fuel; reflexivity|].
    destruct fuel as [|f]; [cbn in L; lia|].
    cbn [run_ends] in E. apply andb_true_iff in E. destruct E as [E1 E2].
    apply N.ltb_lt in E1. apply negb_true_iff in E2.
    rewrite (rune_run_step f false (b :: t) b 1%nat); [|discriminate|].
    + rewrite (stops_run_ascii b E1 E2). reflexivity.
    + unfold decode_rune. rewrite (first_byte_ascii b E1). reflexivity.
  - cbn [forallb] in P. apply andb_true_iff in P. destruct P as [P1 P2].
    destruct (printable_parts r P1) as (S & _ & _).
    cbn [flat_map] in *. rewrite <- app_assoc in *.
    pose proof (utf8_encode_length r) as Lr.
    destruct fuel as [|f]; [rewrite app_length in L; lia|].
    rewrite (rune_run_step f false _ r (length (utf8_encode r))).
    + rewrite (stops_run_printable r P1). rewrite skipn_app_exact.
      rewrite (IH rest f P2 E); [rewrite app_length; reflexivity|].
      rewrite app_length in L. lia.
    + destruct (utf8_encode r); [cbn in Lr; lia|discriminate].
    + apply decode_encode_scalar. exact S.
Qed.

(* ---------------------------------------------------------------- detect_tail *)

Lemma detect_tail_plain c t rs n : (c =? 27) = false -> (c =? 0) = false ->
  rune_run (length (c :: t)) false (c :: t) = (rs, n) -> rs <> [] ->
  detect_tail (c :: t) false = DMsg n (MKey KeyRunes rs false false).
Proof.
  intros H1 H2 R Hrs. unfold detect_tail. change ESC with 27. rewrite H1.
  cbv beta iota zeta. cbn [skipn]. rewrite H2, R. cbn [andb].
  destruct rs as [|r0 rs']; [congruence|]. reflexivity.
Qed.

Lemma detect_tail_alt c t r w : (c =? 0) = false ->
  rune_run (length (c :: t)) true (c :: t) = ([r], w) ->
  detect_tail (27 :: c :: t) false = DMsg (S w) (MKey KeyRunes [r] true false).
Proof.
  intros H2 R. unfold detect_tail. change ESC with 27. change (27 =? 27) with true.
  cbv beta iota zeta. cbn [skipn]. rewrite H2, R. cbn [andb]. reflexivity.
Qed.

(* ---------------------------------------------------------------- ERunes *)

Lemma keys_first_byte :
  forallb (fun e => match fst e with x :: _ => (x <=? 32) || (x =? 127) | [] => false end) ext_sequences = true.
Proof. vm_compute. reflexivity. Qed.

(* an input starting with a byte that is neither ESC nor the start of any key
   falls through to the rune loop *)
Lemma head_plain c t : 32 < c -> c <> 127 -> detect_one_msg (c :: t) false = detect_tail (c :: t) false.
Proof.
  intros L D.
  assert (C27 : (c =? 27) = false) by lia.
  assert (PS : pre_safe [c] = true).
  { unfold pre_safe, focus_in, focus_out, bp_start, Consts.s_bpStart. cbn [diverges]. rewrite C27. reflexivity. }
  destruct (pre_safe_none [c] t PS) as (H1 & H2 & H3). cbn [app] in *.
  rewrite (dom_stages (c :: t) ltac:(discriminate) H1 H2 H3).
  assert (DS : detect_sequence (c :: t) = None).
  { unfold detect_sequence. rewrite detect_from_none.
    - unfold unknown_csi. destruct t as [|c1 t]; [reflexivity|]. rewrite C27. reflexivity.
    - intros k K.
      pose proof (keys_forall (fun k => match k with x :: _ => (x <=? 32) || (x =? 127) | [] => false end)
                              keys_first_byte k K) as X. cbv beta in X.
      destruct k as [|x k]; [discriminate|]. cbn [is_prefix].
      destruct (N.eqb_spec x c) as [Exc|Exc]; [|reflexivity]. subst x. exfalso. lia. }
  rewrite DS. reflexivity.
Qed.

Lemma encode_head_plain r : printable_scalar r = true ->
  exists c t, utf8_encode r = c :: t /\ 32 < c /\ c <> 127 /\ (c = 91 -> r = 91) /\
              (c < 128 -> r = c /\ t = []).
Proof.
  intros P. destruct (printable_parts r P) as (S & L & D).
  destruct (utf8_encode_head r S) as (c & t & E & Hlo & Hhi).
  exists c, t. split; [exact E|].
  destruct (N.ltb_spec r 128) as [R|R].
  - destruct (Hlo R) as [-> ->]. repeat split; auto.
  - specialize (Hhi R). repeat split; lia.
Qed.

Lemma step_ERunes rs rest : valid_event (ERunes rs) = true -> clean (ERunes rs) rest = true ->
  step_ok (ERunes rs) rest.
Proof.
  intros V C. cbn [valid_event] in V. apply andb_true_iff in V. destruct V as [V1 V2].
  unfold clean in C. apply andb_true_iff in C. destruct C as [_ C]. change (run_ends rest = true) in C.
  unfold step_ok. cbn [encode expect].
  destruct rs as [|r0 rs']; [discriminate|].
  assert (P0 : printable_scalar r0 = true) by (cbn [forallb] in V2; apply andb_true_iff in V2; tauto).
  destruct (encode_head_plain r0 P0) as (c & t & E & L & D & _ & _).
  exists (MKey KeyRunes (r0 :: rs') false false). split; [|split]; [|reflexivity|].
  - pose proof (rune_run_runes (r0 :: rs') rest _ V2 C (le_n _)) as R.
    remember (flat_map utf8_encode (r0 :: rs')) as enc eqn:Henc.
    assert (Hc : exists t', enc ++ rest = c :: t').
    { subst enc. cbn [flat_map]. rewrite E. cbn [app]. eexists. reflexivity. }
    destruct Hc as [t' Hc]. rewrite Hc in *.
    rewrite (head_plain c t' L D).
    apply detect_tail_plain; [lia|lia|exact R|discriminate].
  - cbn [flat_map]. rewrite E. discriminate.
Qed.

(* ---------------------------------------------------------------- EAltRune *)

Definition second_byte_ok (k : bytes) : bool :=
  match k with
  | [] => false
  | [x] => negb (x =? 27)
  | x :: y :: tl => negb (x =? 27) ||
      ((y <? 128) && match tl with [] => (y <=? 32) || (y =? 127) | _ => true end)
  end.

Lemma keys_second_byte : forallb (fun e => second_byte_ok (fst e)) ext_sequences = true.
Proof. vm_compute. reflexivity. Qed.

Lemma step_EAltRune r rest : valid_event (EAltRune r) = true -> clean (EAltRune r) rest = true ->
  step_ok (EAltRune r) rest.
Proof.
  intros V C. cbn [valid_event] in V.
  pose proof (clean_no_longer _ _ C) as NL.
  destruct (encode_head_plain r V) as (c & t & E & L & D & C91 & Clow).
  destruct (printable_parts r V) as (Sc & Lr & Dr).
  unfold step_ok. cbn [encode expect] in *. change ESC with 27 in *.
  exists (MKey KeyRunes [r] true false). split; [|split]; [|reflexivity|discriminate].
  (* the first three stages *)
  assert (ST : detect_mouse ((27 :: utf8_encode r) ++ rest) = None /\
               detect_focus ((27 :: utf8_encode r) ++ rest) = None /\
               detect_paste ((27 :: utf8_encode r) ++ rest) = PNone /\
               unknown_csi ((27 :: utf8_encode r) ++ rest) = None).
  { destruct (N.eq_dec r 91) as [R|R].
    - subst r. unfold clean in C. apply andb_true_iff in C. destruct C as [_ C].
      apply negb_true_iff in C. cbn [encode] in C. change ESC with 27 in C.
      set (b := (27 :: utf8_encode 91) ++ rest) in *.
      split; [|split; [|split]].
      + destruct (detect_mouse b) as [x|] eqn:M; [|reflexivity]. apply mouse_csi_syntax in M. congruence.
      + apply detect_focus_none; intros X; rewrite X in C; discriminate C.
      + apply detect_paste_none. destruct (is_prefix bp_start b) eqn:M; [|reflexivity].
        apply bp_start_csi_syntax in M. congruence.
      + destruct (unknown_csi b) as [x|] eqn:M; [|reflexivity]. apply unknown_csi_syntax in M. congruence.
    - assert (Hc : (c =? 91) = false) by (apply N.eqb_neq; intros X; apply R; exact (C91 X)).
      rewrite E. cbn [app].
      assert (PS : pre_safe [27; c] = true).
      { unfold pre_safe, focus_in, focus_out, bp_start, Consts.s_bpStart. cbn [diverges]. rewrite Hc. reflexivity. }
      destruct (pre_safe_none [27; c] (t ++ rest) PS) as (H1 & H2 & H3). cbn [app] in H1, H2, H3.
      repeat split; try assumption.
      unfold unknown_csi. rewrite Hc. rewrite andb_false_r. reflexivity. }
  destruct ST as (H1 & H2 & H3 & H4).
  assert (Hne : (27 :: utf8_encode r) ++ rest <> []) by discriminate.
  rewrite (dom_stages _ Hne H1 H2 H3).
  assert (DS : detect_sequence ((27 :: utf8_encode r) ++ rest) = None).
  { unfold detect_sequence. rewrite detect_from_none; [rewrite H4; reflexivity|].
    intros k K.
    destruct (is_prefix k ((27 :: utf8_encode r) ++ rest)) eqn:Pk; [exfalso|reflexivity].
    pose proof (keys_forall second_byte_ok keys_second_byte k K) as X. unfold second_byte_ok in X.
    assert (Lk : (length k <= length (27%N :: utf8_encode r))%nat).
    { destruct (Nat.le_gt_cases (length k) (length (27%N :: utf8_encode r))) as [Y|Y]; [exact Y|].
      rewrite (no_longer_spec _ rest k NL K Y) in Pk. discriminate. }
    rewrite E in Pk, Lk. cbn [app] in Pk.
    destruct k as [|x [|y tl]]; cbv beta iota in X; [discriminate X| |].
    - cbn [is_prefix] in Pk. lia.
    - cbn [is_prefix] in Pk.
      apply andb_true_iff in Pk. destruct Pk as [Px Pk]. apply andb_true_iff in Pk. destruct Pk as [Py _].
      apply N.eqb_eq in Px. apply N.eqb_eq in Py. subst x y.
      change (27 =? 27) with true in X. cbn [negb orb] in X.
      apply andb_true_iff in X. destruct X as [X1 X2]. apply N.ltb_lt in X1.
      destruct (Clow X1) as [-> ->]. cbn [length] in Lk.
      destruct tl as [|z tl]; [|cbn [length] in Lk; lia]. lia. }
  rewrite DS. rewrite E. cbn [app].
  rewrite (detect_tail_alt c (t ++ rest) r (length (utf8_encode r))).
  - rewrite E. reflexivity.
  - lia.
  - cbn [length]. rewrite (rune_run_step _ true (c :: t ++ rest) r (length (utf8_encode r))).
    + rewrite (stops_run_printable r V). reflexivity.
    + discriminate.
    + change (c :: t ++ rest) with ((c :: t) ++ rest). rewrite <- E. apply decode_encode_scalar. exact Sc.
Qed.
