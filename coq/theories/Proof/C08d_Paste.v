(* C08, part d: the one-step lemma for bracketed paste (EPaste). *)
From Coq Require Import NArith ZArith List Bool Lia Arith ZifyN ZifyNat ZifyBool.
Import ListNotations.
From BT Require Import Base.Bytes Model.Utf8 Model.Keys Model.Mouse Model.Decoder Model.Reader RefTable
  Spec.MouseSpec Spec.Events Proof.BytesLemmas Proof.DecoderTies Proof.MouseProofs Proof.ReaderProofs
  Proof.C08a_Common Proof.C08b_Keys.
From BTGen Require Consts KeyTable.
Open Scope N_scope.

(* ---------------------------------------------------------------- the two rune loops agree *)

Lemma decode_rune_cases b0 t r w : decode_rune (b0 :: t) = (r, w) ->
  (b0 < 128 -> r = b0 /\ w = 1%nat) /\
  (128 <= b0 -> (w <= 1)%nat -> r = RuneError /\ w = 1%nat) /\ (1 <= w)%nat.
Proof.
  unfold decode_rune. destruct (first_byte b0) as [| |sz lo hi] eqn:F; intros H.
  - apply first_byte_ascii_inv in F. inversion H; subst. repeat split; lia.
  - assert (Hb : ~ b0 < 128) by (intros X; rewrite (first_byte_ascii b0 X) in F; discriminate).
    inversion H; subst. repeat split; lia.
  - assert (Hb : ~ b0 < 128) by (intros X; rewrite (first_byte_ascii b0 X) in F; discriminate).
    destruct sz as [|[|[|[|[|sz]]]]]; try (inversion H; subst; repeat split; lia).
    + destruct t as [|b1 t]; [inversion H; subst; repeat split; lia|].
      destruct (in_range lo hi b1); inversion H; subst; repeat split; lia.
    + destruct t as [|b1 [|b2 t]]; try (inversion H; subst; repeat split; lia).
      destruct (in_range lo hi b1); [|inversion H; subst; repeat split; lia].
      destruct (cont b2); inversion H; subst; repeat split; lia.
    + destruct t as [|b1 [|b2 [|b3 t]]]; try (inversion H; subst; repeat split; lia).
      destruct (in_range lo hi b1); [|inversion H; subst; repeat split; lia].
      destruct (cont b2); [|inversion H; subst; repeat split; lia].
      destruct (cont b3); inversion H; subst; repeat split; lia.
Qed.

Lemma paste_runes_valid : forall fuel p, paste_runes fuel p = valid_scalars fuel p.
Proof.
  induction fuel as [|f IH]; intros p; [reflexivity|].
  destruct p as [|b0 t]; [reflexivity|].
  cbn [paste_runes valid_scalars].
  destruct (decode_rune (b0 :: t)) as [r w] eqn:D.
  destruct (decode_rune_cases b0 t r w D) as (A & B & W).
  destruct (N.ltb_spec b0 128) as [L|L].
  - destruct (A L) as [-> ->].
    assert (E1 : (128 <=? b0) = false) by lia. rewrite E1, andb_false_r.
    assert (E2 : (b0 =? RuneError) = false) by (unfold RuneError; lia). rewrite E2.
    cbn [negb orb app]. rewrite IH. reflexivity.
  - assert (E1 : (128 <=? b0) = true) by lia. rewrite E1, andb_true_r.
    destruct (Nat.leb_spec w 1) as [Lw|Lw].
    + destruct (B L Lw) as [-> ->]. rewrite N.eqb_refl. cbn [negb orb Nat.ltb Nat.leb app skipn].
      apply IH.
    + assert (E3 : Nat.ltb 1 w = true) by (apply Nat.ltb_lt; lia). rewrite E3, orb_true_r.
      cbn [app]. rewrite IH. reflexivity.
Qed.

(* ---------------------------------------------------------------- the end marker is found where it is *)

Lemma contains_skipn pat : forall j l, contains pat (skipn j l) = true -> contains pat l = true.
Proof.
  induction j as [|j IH]; intros l H; [exact H|].
  destruct l as [|x l]; [exact H|]. cbn [skipn] in H. cbn [contains].
  rewrite (IH l H). apply orb_true_r.
Qed.

Lemma contains_prefix pat l : is_prefix pat l = true -> contains pat l = true.
Proof. intros H. destruct l; cbn [contains]; rewrite H; reflexivity. Qed.

Ltac split_andb H :=
  repeat (let H1 := fresh "Hb" in
          apply andb_true_iff in H; destruct H as [H1 H]; apply N.eqb_eq in H1).

(* byte 27 occurs in the marker at position 0 only: no occurrence can straddle
   the payload and the real marker *)
Lemma end_marker_first p rest : contains end_marker p = false ->
  forall j, (j < length p)%nat -> is_prefix bp_end (skipn j (p ++ bp_end ++ rest)) = false.
Proof.
  intros NC j Hj.
  rewrite skipn_app. replace (j - length p)%nat with 0%nat by lia. cbn [skipn].
  assert (Lq : (1 <= length (skipn j p))%nat) by (rewrite skipn_length; lia).
  assert (NCq : contains end_marker (skipn j p) = false).
  { destruct (contains end_marker (skipn j p)) eqn:X; [|reflexivity].
    rewrite (contains_skipn _ _ _ X) in NC. discriminate. }
  set (q := skipn j p) in *. clearbody q.
  destruct (is_prefix bp_end (q ++ bp_end ++ rest)) eqn:P; [exfalso|reflexivity].
  change bp_end with [27; 91; 50; 48; 49; 126] in P.
  destruct q as [|a [|b [|c [|d [|e [|f q']]]]]]; cbn [app is_prefix] in P.
  - cbn in Lq. lia.
  - split_andb P. discriminate.
  - split_andb P. discriminate.
  - split_andb P. discriminate.
  - split_andb P. discriminate.
  - split_andb P. discriminate.
  - split_andb P. subst.
    rewrite contains_prefix in NCq; [discriminate|reflexivity].
Qed.

(* ---------------------------------------------------------------- the step *)

Lemma dom_paste b w m : b <> [] -> detect_mouse b = None -> detect_focus b = None ->
  detect_paste b = PMsg w m -> detect_one_msg b false = DMsg w m.
Proof.
  intros Hb H1 H2 H3. unfold detect_one_msg. destruct b as [|b0 r]; [congruence|].
  cbn [andb]. rewrite H1, H2, H3. reflexivity.
Qed.

Lemma step_EPaste p rest : valid_event (EPaste p) = true -> step_ok (EPaste p) rest.
Proof.
  intros V. cbn [valid_event] in V. apply andb_true_iff in V. destruct V as [V _].
  apply negb_true_iff in V.
  unfold step_ok. cbn [encode expect].
  assert (Eb : ([27; 91; 50; 48; 48; 126] ++ p ++ [27; 91; 50; 48; 49; 126]) ++ rest
               = bp_start ++ p ++ bp_end ++ rest).
  { rewrite <- !app_assoc. reflexivity. }
  rewrite Eb.
  exists (MKey KeyRunes (paste_runes (length p) p) false true). split; [|split].
  - assert (Len : length ([27; 91; 50; 48; 48; 126] ++ p ++ [27; 91; 50; 48; 49; 126])
                  = (length bp_start + length p + length bp_end)%nat).
    { rewrite !app_length. cbn [length]. change (length bp_start) with 6%nat. change (length bp_end) with 6%nat. lia. }
    rewrite Len.
    apply dom_paste.
    + discriminate.
    + apply detect_mouse_none; reflexivity.
    + apply detect_focus_none; intros X; discriminate X.
    + unfold detect_paste. rewrite is_prefix_refl_app, skipn_app_exact.
      rewrite (index_of_app_first bp_end p rest (end_marker_first p rest V)).
      rewrite firstn_app_exact. reflexivity.
  - rewrite paste_runes_valid. reflexivity.
  - discriminate.
Qed.
