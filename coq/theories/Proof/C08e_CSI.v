(* C08, part e: the one-step lemma for well-formed control sequences that are
   not in the table (EUnknownCSI). *)
From Coq Require Import NArith ZArith List Bool Lia Arith ZifyN ZifyNat ZifyBool.
Import ListNotations.
From BT Require Import Base.Bytes Model.Utf8 Model.Keys Model.Mouse Model.Decoder Model.Reader RefTable
  Spec.MouseSpec Spec.Events Proof.BytesLemmas Proof.DecoderTies Proof.MouseProofs Proof.ReaderProofs
  Proof.C08a_Common Proof.C08b_Keys Proof.C08c_Runes.
From BTGen Require Consts KeyTable.
Open Scope N_scope.

(* ---------------------------------------------------------------- unique decomposition *)

Definition head_not (f : N -> bool) (r : bytes) : Prop :=
  match r with [] => True | x :: _ => f x = false end.

Lemma span_inj f a r a' r' : all_bytes f a = true -> head_not f r ->
  all_bytes f a' = true -> head_not f r' -> a ++ r = a' ++ r' -> a = a' /\ r = r'.
Proof.
  intros A R A' R' E.
  pose proof (span_exact f a r A R) as S1. pose proof (span_exact f a' r' A' R') as S2.
  rewrite E in S1. rewrite S1 in S2. inversion S2. split; reflexivity.
Qed.

Lemma span_all f a : all_bytes f a = true -> span f a = (a, []).
Proof. intros A. pose proof (span_exact f a [] A I) as S. rewrite app_nil_r in S. exact S. Qed.

Lemma final_not_param f : Decoder.is_final f = true -> Decoder.is_param f = false.
Proof. unfold Decoder.is_param, Decoder.is_final, in_range. lia. Qed.
Lemma final_not_inter f : Decoder.is_final f = true -> Decoder.is_inter f = false.
Proof. unfold Decoder.is_inter, Decoder.is_final, in_range. lia. Qed.
Lemma inter_not_param f : Decoder.is_inter f = true -> Decoder.is_param f = false.
Proof. unfold Decoder.is_param, Decoder.is_inter, in_range. lia. Qed.

Lemma inter_final_head is f tail : all_bytes Decoder.is_inter is = true -> Decoder.is_final f = true ->
  head_not Decoder.is_param (is ++ f :: tail).
Proof.
  intros I F. destruct is as [|i0 is']; cbn [app head_not].
  - exact (final_not_param f F).
  - cbn [all_bytes] in I. apply andb_true_iff in I. exact (inter_not_param i0 (proj1 I)).
Qed.

(* ---------------------------------------------------------------- SGR reports *)

Lemma sgr_report_intro d1 d2 d3 f :
  all_bytes is_digit d1 = true -> all_bytes is_digit d2 = true -> all_bytes is_digit d3 = true ->
  d1 <> [] -> d2 <> [] -> d3 <> [] -> (f = 77 \/ f = 109) ->
  is_sgr_report (60 :: d1 ++ 59 :: d2 ++ 59 :: d3) [] f = true.
Proof.
  intros D1 D2 D3 N1 N2 N3 F. unfold is_sgr_report. change is_dig with is_digit.
  rewrite (span_exact is_digit d1 (59 :: d2 ++ 59 :: d3) D1 eq_refl).
  destruct d1 as [|x1 d1']; [congruence|].
  rewrite (span_exact is_digit d2 (59 :: d3) D2 eq_refl).
  destruct d2 as [|x2 d2']; [congruence|].
  rewrite (span_all is_digit d3 D3).
  destruct d3 as [|x3 d3']; [congruence|].
  destruct F; subst; reflexivity.
Qed.

(* ---------------------------------------------------------------- the step *)

Lemma step_EUnknownCSI ps is f rest :
  valid_event (EUnknownCSI ps is f) = true -> clean (EUnknownCSI ps is f) rest = true ->
  step_ok (EUnknownCSI ps is f) rest.
Proof.
  intros V C. pose proof (clean_no_longer _ _ C) as NL.
  unfold clean in C. apply andb_true_iff in C. destruct C as [_ C].
  apply andb_true_iff in C. destruct C as [CF1 CF2].
  apply negb_true_iff in CF1. apply negb_true_iff in CF2.
  cbn [valid_event] in V.
  apply andb_true_iff in V. destruct V as [V NS]. apply andb_true_iff in V. destruct V as [V NM].
  apply andb_true_iff in V. destruct V as [V NB]. apply andb_true_iff in V. destruct V as [V NK].
  apply andb_true_iff in V. destruct V as [V F]. apply andb_true_iff in V. destruct V as [P I].
  apply negb_true_iff in NS. apply negb_true_iff in NM. apply negb_true_iff in NB. apply negb_true_iff in NK.
  change Events.is_param with Decoder.is_param in P. change Events.is_inter with Decoder.is_inter in I.
  change Events.is_final with Decoder.is_final in F.
  cbn [encode] in *.
  set (csi := [27; 91] ++ ps ++ is ++ [f]) in *.
  assert (Eb : csi ++ rest = 27 :: 91 :: ps ++ is ++ f :: rest).
  { unfold csi. cbn [app]. rewrite <- !app_assoc. reflexivity. }
  assert (Lcsi : length csi = (2 + length ps + length is + 1)%nat).
  { unfold csi. rewrite !app_length. cbn [length]. lia. }
  pose proof (inter_final_head is f rest I F) as Hh.
  pose proof (final_not_inter f F) as Fi.
  pose proof (final_not_param f F) as Fp.
  assert (S1 : span Decoder.is_param (ps ++ is ++ f :: rest) = (ps, is ++ f :: rest))
    by exact (span_exact _ ps _ P Hh).
  assert (S2 : span Decoder.is_inter (is ++ f :: rest) = (is, f :: rest))
    by exact (span_exact _ is (f :: rest) I Fi).
  (* stage 1: not a mouse report *)
  assert (H1 : detect_mouse (csi ++ rest) = None).
  { rewrite Eb. unfold detect_mouse.
    destruct (len_ge (27 :: 91 :: ps ++ is ++ f :: rest) x10_len); [|reflexivity].
    change ((27 =? 27) && (91 =? 91)) with true. cbv iota.
    destruct ps as [|p0 ps'].
    - destruct is as [|i0 is']; cbn [app].
      + cbn [app] in NM.
        destruct (N.eqb_spec f 77) as [E|E]; [subst f; discriminate NM|].
        destruct (N.eqb_spec f 60) as [E'|E']; [subst f; discriminate F|]. reflexivity.
      + cbn [all_bytes] in I. apply andb_true_iff in I. destruct I as [I0 _].
        assert (E1 : (i0 =? 77) = false) by (revert I0; unfold Decoder.is_inter, in_range; lia).
        assert (E2 : (i0 =? 60) = false) by (revert I0; unfold Decoder.is_inter, in_range; lia).
        rewrite E1, E2. reflexivity.
    - cbn [app]. cbn [all_bytes] in P. apply andb_true_iff in P. destruct P as [P0 P'].
      assert (E1 : (p0 =? 77) = false) by (revert P0; unfold Decoder.is_param, in_range; lia).
      rewrite E1.
      destruct (N.eqb_spec p0 60) as [E|E]; [subst p0|reflexivity].
      destruct (match_sgr (ps' ++ is ++ f :: rest)) as [[[[[d1 d2] d3] f'] n]|] eqn:M; [exfalso|reflexivity].
      destruct (match_sgr_shape _ _ _ _ _ _ M) as (tail & E & D1 & D2 & D3 & N1 & N2 & N3 & Ff).
      assert (E' : ps' ++ is ++ f :: rest = (d1 ++ 59 :: d2 ++ 59 :: d3) ++ f' :: tail).
      { rewrite E. rewrite <- !app_assoc. cbn [app]. rewrite <- !app_assoc. reflexivity. }
      assert (Fp' : Decoder.is_param f' = false) by (destruct Ff; subst; reflexivity).
      destruct (span_inj Decoder.is_param ps' (is ++ f :: rest) (d1 ++ 59 :: d2 ++ 59 :: d3) (f' :: tail)
                  P' (inter_final_head is f rest I F) (sgr_params_all d1 d2 d3 D1 D2 D3) Fp' E') as [Eps Et].
      destruct is as [|i0 is'].
      + cbn [app] in Et. inversion Et; subst.
        rewrite (sgr_report_intro d1 d2 d3 f' D1 D2 D3 N1 N2 N3 Ff) in NS. discriminate.
      + cbn [app] in Et. inversion Et; subst.
        cbn [all_bytes] in I. apply andb_true_iff in I. destruct I as [I0 _].
        destruct Ff; subst; discriminate I0. }
  (* stage 2: not a focus report *)
  assert (H2 : detect_focus (csi ++ rest) = None).
  { unfold detect_focus. change focus_in with [27; 91; 73]. change focus_out with [27; 91; 79].
    rewrite CF1, CF2. reflexivity. }
  (* stage 3: not a paste *)
  assert (H3 : detect_paste (csi ++ rest) = PNone).
  { apply detect_paste_none. destruct (is_prefix bp_start (csi ++ rest)) eqn:X; [exfalso|reflexivity].
    apply is_prefix_app in X. destruct X as [tail X]. rewrite Eb in X.
    change bp_start with [27; 91; 50; 48; 48; 126] in X. cbn [app] in X.
    assert (E' : ps ++ is ++ f :: rest = [50; 48; 48] ++ 126 :: tail) by (injection X as X'; exact X').
    destruct (span_inj Decoder.is_param ps (is ++ f :: rest) [50; 48; 48] (126 :: tail)
                P Hh eq_refl eq_refl E') as [Eps Et].
    destruct is as [|i0 is'].
    - cbn [app] in Et. inversion Et; subst.
      unfold csi in NB. cbn [app] in NB. discriminate NB.
    - cbn [app] in Et. inversion Et; subst.
      cbn [all_bytes] in I. apply andb_true_iff in I. destruct I as [I0 _]. discriminate I0. }
  (* stage 4: no key, but an unknown CSI *)
  assert (H4 : detect_from max_seq_len (csi ++ rest) = None).
  { apply detect_from_none. intros k K.
    destruct (is_prefix k (csi ++ rest)) eqn:X; [exfalso|reflexivity].
    destruct (Nat.le_gt_cases (length k) (length csi)) as [Y|Y].
    - pose proof (is_prefix_app_short k csi rest X Y) as Z.
      assert (W : existsb (fun k => is_prefix k csi) ref_ext_keys = true).
      { apply existsb_exists. exists k. split; [exact (key_in_ref k K)|exact Z]. }
      rewrite W in NK. discriminate.
    - rewrite (no_longer_spec csi rest k NL K Y) in X. discriminate. }
  assert (H5 : unknown_csi (csi ++ rest) = Some (length csi)).
  { rewrite Eb. unfold unknown_csi. change ((27 =? 27) && (91 =? 91)) with true. cbv iota.
    rewrite S1, S2, F, Lcsi. reflexivity. }
  unfold step_ok. cbn [encode expect]. fold csi.
  exists (MUnknownCSI csi). split; [|split]; [|reflexivity|unfold csi; discriminate].
  assert (Hne : csi ++ rest <> []) by (rewrite Eb; discriminate).
  rewrite (dom_stages _ Hne H1 H2 H3).
  unfold detect_sequence. rewrite H4, H5, firstn_app_exact. reflexivity.
Qed.
