(* C10: bracketed paste.  An open paste is held whatever the read size, the
   paste message carries the valid scalars of the payload, and the reader
   delivers exactly one such message however the paste is cut into reads. *)
From Coq Require Import NArith ZArith List Bool Lia Arith ZifyN ZifyNat ZifyBool.
Import ListNotations.
From BT Require Import Base.Bytes Model.Utf8 Model.Keys Model.Mouse Model.Decoder Model.Reader
  Spec.Events Proof.BytesLemmas Proof.DecoderTies Proof.ReaderProofs Proof.C15Proofs.
From BTGen Require Consts.
Open Scope N_scope.

Lemma bp_end_marker : bp_end = end_marker.
Proof. reflexivity. Qed.

Lemma skipn_app_exact {A} (a b : list A) : skipn (length a) (a ++ b) = b.
Proof. induction a as [|x a IH]; [reflexivity|exact IH]. Qed.

Lemma firstn_app_exact {A} (a b : list A) : firstn (length a) (a ++ b) = a.
Proof. induction a as [|x a IH]; [reflexivity|]. cbn [length app firstn]. rewrite IH. reflexivity. Qed.

(* ================================================================ the stages before the paste stage *)

Lemma detect_mouse_paste x : detect_mouse (bp_start ++ x) = None.
Proof.
  change (bp_start ++ x) with (27 :: 91 :: 50 :: 48 :: 48 :: 126 :: x).
  unfold detect_mouse. destruct (len_ge _ _); reflexivity.
Qed.

Lemma detect_focus_paste x : detect_focus (bp_start ++ x) = None.
Proof. reflexivity. Qed.

Lemma no_key_extends_bp_start :
  forallb (fun e : bytes * msg => negb (is_prefix bp_start (fst e))) ext_sequences = true.
Proof. vm_compute. reflexivity. Qed.

(* the start marker ends with a final byte: nothing after it can look incomplete *)
Lemma mbi_paste x : may_be_incomplete (bp_start ++ x) = false.
Proof.
  change (bp_start ++ x) with (27 :: 91 :: 50 :: 48 :: 48 :: 126 :: x).
  unfold may_be_incomplete. cbv beta iota.
  change (negb (27 =? ESC)) with false. cbv beta iota.
  assert (F : full_rune (91 :: 50 :: 48 :: 48 :: 126 :: x) = true) by reflexivity.
  rewrite F. cbn [negb].
  assert (C : incomplete_csi (27 :: 91 :: 50 :: 48 :: 48 :: 126 :: x) = false) by reflexivity.
  rewrite C.
  assert (P : is_prefix [27; 91; 77] (27 :: 91 :: 50 :: 48 :: 48 :: 126 :: x) = false) by reflexivity.
  rewrite P, andb_false_r.
  match goal with |- ?e = false => destruct e eqn:E end; [exfalso|reflexivity].
  apply existsb_exists in E. destruct E as (e & He & E).
  apply andb_true_iff in E. destruct E as [E _].
  pose proof (proj1 (forallb_forall _ _) no_key_extends_bp_start e He) as N.
  apply negb_true_iff in N.
  apply is_prefix_app in E. destruct E as [r Hr].
  assert (is_prefix bp_start (fst e) = true).
  { apply is_prefix_app. exists (x ++ r). rewrite Hr. reflexivity. }
  congruence.
Qed.

(* ================================================================ B1: an open paste waits *)

Theorem paste_wait b : is_prefix bp_start b = true ->
  index_of bp_end (skipn (length bp_start) b) = None ->
  forall more, detect_one_msg b more = DMore.
Proof.
  intros P I more. assert (Hb : b <> []) by (intros ->; discriminate).
  rewrite detect_one_msg_ne by exact Hb.
  destruct (more && may_be_incomplete b); [reflexivity|].
  assert (Dm : detect_mouse b = None) by (rewrite (is_prefix_skipn _ _ P); apply detect_mouse_paste).
  assert (Df : detect_focus b = None) by (rewrite (is_prefix_skipn _ _ P); apply detect_focus_paste).
  rewrite Dm, Df. unfold detect_paste. rewrite P, I. reflexivity.
Qed.

(* ================================================================ B2: a closed paste is detected *)

(* ESC occurs in the end marker at position 0 only: an occurrence cannot
   straddle the payload and the real marker *)
Lemma marker_no_straddle q rest : q <> [] -> is_prefix end_marker q = false ->
  is_prefix end_marker (q ++ end_marker ++ rest) = false.
Proof.
  intros Hq H. unfold end_marker in *.
  destruct q as [|a [|b [|c [|d [|e [|f q]]]]]]; [congruence|..]; cbn [app is_prefix] in *;
    try exact H;
    repeat match goal with
           | |- context [N.eqb ?x ?y] => is_var y; destruct (N.eqb x y)
           end; reflexivity.
Qed.

Lemma contains_false_skipn pat : forall p j, contains pat p = false -> is_prefix pat (skipn j p) = false.
Proof.
  induction p as [|x p IH]; intros j H.
  - destruct j; cbn [skipn]; cbn [contains] in H; apply orb_false_iff in H; tauto.
  - cbn [contains] in H. apply orb_false_iff in H. destruct H as [H1 H2].
    destruct j as [|j]; [exact H1|]. cbn [skipn]. apply IH. exact H2.
Qed.

Lemma index_of_marker p rest : contains end_marker p = false ->
  index_of bp_end (p ++ bp_end ++ rest) = Some (length p).
Proof.
  intros H. rewrite bp_end_marker. apply index_of_app_first. intros j Hj.
  rewrite skipn_app_le by lia. apply marker_no_straddle.
  - intros E. apply (f_equal (@length N)) in E. rewrite skipn_length in E. cbn [length] in E. lia.
  - apply contains_false_skipn. exact H.
Qed.

Theorem paste_detect p rest more : contains end_marker p = false ->
  detect_one_msg (bp_start ++ p ++ bp_end ++ rest) more =
  DMsg (12 + length p) (MKey KeyRunes (paste_runes (length p) p) false true).
Proof.
  intros H.
  assert (Hb : bp_start ++ p ++ bp_end ++ rest <> []) by discriminate.
  rewrite detect_one_msg_ne by exact Hb.
  rewrite mbi_paste, andb_false_r, detect_mouse_paste, detect_focus_paste.
  unfold detect_paste. rewrite is_prefix_refl_app, skipn_app_exact.
  rewrite (index_of_marker p rest H), firstn_app_exact.
  f_equal. change (length bp_start) with 6%nat. change (length bp_end) with 6%nat. lia.
Qed.

(* the form asked for, with the side condition (always dischargeable by mbi_paste) *)
Corollary paste_detect' p rest more : contains end_marker p = false ->
  (more = false \/ may_be_incomplete (bp_start ++ p ++ bp_end ++ rest) = false) ->
  detect_one_msg (bp_start ++ p ++ bp_end ++ rest) more =
  DMsg (12 + length p) (MKey KeyRunes (paste_runes (length p) p) false true).
Proof. intros H _. apply paste_detect. exact H. Qed.

(* ================================================================ B3: the two rune loops agree *)

Lemma first_byte_ascii b : first_byte b = FAscii -> b < 128.
Proof.
  unfold first_byte. destruct (b <? 128) eqn:A; [lia|].
  repeat match goal with |- context [if ?c then _ else _] => destruct c end; discriminate.
Qed.

Lemma first_byte_high b : first_byte b <> FAscii -> 128 <= b.
Proof.
  unfold first_byte. destruct (b <? 128) eqn:A; [congruence|]. lia.
Qed.

Lemma decode_rune_cases b0 t r w : decode_rune (b0 :: t) = (r, w) ->
  (b0 < 128 /\ r = b0 /\ w = 1%nat) \/
  (128 <= b0 /\ r = RuneError /\ w = 1%nat) \/
  (128 <= b0 /\ (2 <= w)%nat).
Proof.
  unfold decode_rune. destruct (first_byte b0) as [| |sz lo hi] eqn:F; intros H.
  - inversion H; subst. left. split; [apply first_byte_ascii; exact F|split; reflexivity].
  - inversion H; subst. right. left.
    split; [apply first_byte_high; congruence|split; reflexivity].
  - assert (Hh : 128 <= b0) by (apply first_byte_high; congruence).
    right.
    destruct sz as [|[|[|[|[|sz]]]]]; destruct t as [|b1 [|b2 [|b3 t]]];
      repeat match type of H with
             | context [in_range ?a ?b ?c] => destruct (in_range a b c)
             | context [cont ?c] => destruct (cont c)
             end;
      inversion H; subst;
      first [left; split; [exact Hh|split; reflexivity] | right; split; [exact Hh|lia]].
Qed.

Theorem paste_runes_valid_scalars : forall fuel p, paste_runes fuel p = valid_scalars fuel p.
Proof.
  induction fuel as [|f IH]; intros p; [destruct p; reflexivity|].
  destruct p as [|b0 t]; [reflexivity|].
  cbn [paste_runes valid_scalars].
  destruct (decode_rune (b0 :: t)) as [r w] eqn:D.
  destruct (decode_rune_cases _ _ _ _ D) as [(A & -> & ->)|[(A & -> & ->)|(A & W)]].
  - replace (negb (b0 =? RuneError) || Nat.ltb 1 1) with true by (unfold RuneError; lia).
    replace (Nat.leb 1 1 && (128 <=? b0)) with false by lia.
    cbn [app]. rewrite IH. reflexivity.
  - replace (Nat.leb 1 1 && (128 <=? b0)) with true by lia.
    change (negb (RuneError =? RuneError) || Nat.ltb 1 1) with false.
    cbn [app skipn]. apply IH.
  - replace (negb (r =? RuneError) || Nat.ltb 1 w) with true by lia.
    replace (Nat.leb w 1 && (128 <=? b0)) with false by lia.
    cbn [app]. rewrite IH. reflexivity.
Qed.

Corollary paste_runes_spec p : paste_runes (length p) p = valid_scalars (length p) p.
Proof. apply paste_runes_valid_scalars. Qed.

(* ================================================================ B4: a paste cut into reads *)

Definition paste_msg (payload : bytes) : msg :=
  MKey KeyRunes (valid_scalars (length payload) payload) false true.

(* a strict prefix of the text up to the end of the first marker has no marker *)
Lemma no_marker_yet pat W n x z : index_of pat W = Some n -> x ++ z = W ->
  (length x < n + length pat)%nat -> index_of pat x = None.
Proof.
  intros HW Hx Hl. destruct (index_of pat x) as [i|] eqn:E; [exfalso|reflexivity].
  pose proof (index_of_app_stable _ _ _ z E) as E2. rewrite Hx, HW in E2. inversion E2; subst i.
  apply index_of_some in E. destruct E as (pre & post & Hp & Hn).
  rewrite Hp, !app_length in Hl. lia.
Qed.

Lemma inner_more b more sent cancel : b <> [] -> detect_one_msg b more = DMore ->
  inner (length b) b more sent cancel = ILeft [] sent b.
Proof.
  intros Hb H. destruct b as [|b0 r] eqn:Eb; [congruence|]. rewrite <- Eb in *.
  replace (length b) with (S (length r)) by (subst b; reflexivity).
  rewrite inner_unfold by exact Hb. rewrite H. reflexivity.
Qed.

(* reads that do not complete the end marker deliver nothing and are kept *)
Lemma paste_hold W n script : index_of bp_end W = Some n ->
  forall pre p1 sent z, p1 ++ concat pre ++ z = W ->
  (length (p1 ++ concat pre) < n + 6)%nat ->
  reader_from (map Chunk pre ++ script) (bp_start ++ p1) sent None =
  reader_from script (bp_start ++ p1 ++ concat pre) sent None.
Proof.
  intros HW. induction pre as [|c pre IH]; intros p1 sent z Hz Hl.
  - cbn [map app concat]. rewrite app_nil_r. reflexivity.
  - cbn [map app concat] in *. rewrite reader_from_chunk.
    rewrite <- (app_assoc bp_start p1 c).
    assert (I : index_of bp_end (p1 ++ c) = None).
    { apply (no_marker_yet bp_end W n (p1 ++ c) (concat pre ++ z) HW).
      - rewrite <- Hz, <- !app_assoc. reflexivity.
      - change (length bp_end) with 6%nat. rewrite !app_length in *. lia. }
    assert (Hb : bp_start ++ p1 ++ c <> []) by discriminate.
    rewrite (inner_more _ _ sent None Hb).
    + cbn [after_inner]. rewrite cons_out_nil.
      rewrite (IH (p1 ++ c) sent z).
      * rewrite <- !app_assoc. reflexivity.
      * rewrite <- Hz, <- !app_assoc. reflexivity.
      * rewrite !app_length in *. lia.
    + apply paste_wait; [apply is_prefix_refl_app|]. rewrite skipn_app_exact. exact I.
Qed.

(* the read that completes the end marker delivers the paste and goes on with the rest of that read *)
Lemma paste_complete c script p payload tail_c sent :
  contains end_marker payload = false ->
  p ++ c = payload ++ bp_end ++ tail_c ->
  reader_from (Chunk c :: script) (bp_start ++ p) sent None =
  cons_out [(paste_msg payload, bp_start ++ payload ++ bp_end)]
    (after_inner (inner (length tail_c) tail_c (Nat.eqb (length c) buf_size) (S sent) None) script None).
Proof.
  intros Hc Hp. rewrite reader_from_chunk.
  set (more := Nat.eqb (length c) buf_size).
  rewrite <- (app_assoc bp_start p c), Hp.
  set (b := bp_start ++ payload ++ bp_end ++ tail_c).
  assert (Hb : b <> []) by discriminate.
  pose proof (paste_detect payload tail_c more Hc) as D. fold b in D.
  rewrite (inner_fuel more None (length b) (S (length b))) by lia.
  rewrite inner_unfold by exact Hb. rewrite D.
  change (12 + length payload)%nat with (S (11 + length payload)). cbv beta iota.
  cbn [cancelled_at].
  assert (Eb : b = (bp_start ++ payload ++ bp_end) ++ tail_c).
  { unfold b. rewrite <- !app_assoc. reflexivity. }
  assert (Ew : S (11 + length payload) = length (bp_start ++ payload ++ bp_end)).
  { rewrite !app_length. change (length bp_start) with 6%nat. change (length bp_end) with 6%nat. lia. }
  rewrite Ew. rewrite Eb at 1 3. rewrite skipn_app_exact, firstn_app_exact.
  rewrite (inner_fuel more None (length b) (length tail_c)).
  - rewrite after_inner_push by apply inner_not_fuel.
    unfold paste_msg. rewrite paste_runes_spec. reflexivity.
  - rewrite Eb, app_length. lia.
  - lia.
Qed.

(* The chunked theorem.  The start marker and p1 have been read, no end marker
   so far.  Reads pre arrive without completing the end marker, read c
   completes it (tail_c is what follows the marker in c).  No message is
   delivered for pre; c delivers exactly one paste message carrying the valid
   scalars of the whole payload and accounting for 12 + |payload| bytes, and
   decoding goes on with tail_c inside the same read. No assumption on the
   sizes of the reads. *)
Theorem chunked_paste pre c script p1 payload tail_c sent :
  contains end_marker payload = false ->
  p1 ++ concat pre ++ c = payload ++ bp_end ++ tail_c ->
  (length tail_c < length c)%nat ->
  reader_from (map Chunk pre ++ Chunk c :: script) (bp_start ++ p1) sent None =
  cons_out [(paste_msg payload, bp_start ++ payload ++ bp_end)]
    (after_inner (inner (length tail_c) tail_c (Nat.eqb (length c) buf_size) (S sent) None) script None).
Proof.
  intros Hc Hp Hl.
  pose proof (index_of_marker payload tail_c Hc) as HW.
  rewrite (paste_hold _ _ (Chunk c :: script) HW pre p1 sent c Hp).
  - apply paste_complete; [exact Hc|]. rewrite <- app_assoc. exact Hp.
  - apply (f_equal (@length N)) in Hp. rewrite !app_length in *.
    change (length bp_end) with 6%nat in Hp. lia.
Qed.

(* ---------------------------------------------------------------- any list of reads *)

Lemma split_reads : forall (reads : list bytes) n, (n < length (concat reads))%nat ->
  exists pre c post, reads = pre ++ c :: post /\
    (length (concat pre) <= n < length (concat pre) + length c)%nat.
Proof.
  induction reads as [|c reads IH]; intros n H; [cbn in H; lia|].
  cbn [concat] in H. rewrite app_length in H.
  destruct (Nat.ltb n (length c)) eqn:L.
  - apply Nat.ltb_lt in L. exists [], c, reads. split; [reflexivity|]. cbn [concat length]. lia.
  - apply Nat.ltb_ge in L.
    destruct (IH (n - length c)%nat ltac:(lia)) as (pre & c' & post & -> & B).
    exists (c :: pre), c', post. split; [reflexivity|]. cbn [concat]. rewrite app_length. lia.
Qed.

Lemma app_eq_len {A} (a b c d : list A) : a ++ b = c ++ d -> length a = length c -> a = c /\ b = d.
Proof.
  intros H L. split.
  - rewrite <- (firstn_app_exact a b), H, L. apply firstn_app_exact.
  - rewrite <- (skipn_app_exact a b), H, L. apply skipn_app_exact.
Qed.

(* whatever the further reads are, as long as together they bring the rest of
   the payload, the end marker and anything after it *)
Theorem chunked_paste_any reads p1 p2 tail sent :
  contains end_marker (p1 ++ p2) = false ->
  concat reads = p2 ++ bp_end ++ tail ->
  exists pre c post tail_c,
    reads = pre ++ c :: post /\ tail = tail_c ++ concat post /\ (length tail_c < length c)%nat /\
    (length (concat pre) < length p2 + 6 <= length (concat pre) + length c)%nat /\
    reader_from (map Chunk reads) (bp_start ++ p1) sent None =
    cons_out [(paste_msg (p1 ++ p2), bp_start ++ (p1 ++ p2) ++ bp_end)]
      (after_inner (inner (length tail_c) tail_c (Nat.eqb (length c) buf_size) (S sent) None)
                   (map Chunk post) None).
Proof.
  intros Hc Hr.
  assert (Hn : (length p2 + 5 < length (concat reads))%nat).
  { rewrite Hr, !app_length. change (length bp_end) with 6%nat. lia. }
  destruct (split_reads reads _ Hn) as (pre & c & post & -> & B).
  set (k := (length p2 + 6 - length (concat pre))%nat).
  assert (Hk : (1 <= k <= length c)%nat) by (unfold k; lia).
  rewrite concat_app in Hr. cbn [concat] in Hr.
  assert (S : concat pre ++ firstn k c = p2 ++ bp_end /\ skipn k c ++ concat post = tail).
  { apply app_eq_len.
    - rewrite <- !app_assoc. rewrite <- Hr. rewrite (app_assoc (firstn k c)), firstn_skipn. reflexivity.
    - rewrite !app_length, firstn_length_le by lia. change (length bp_end) with 6%nat. unfold k. lia. }
  destruct S as [S1 S2].
  exists pre, c, post, (skipn k c).
  split; [reflexivity|]. split; [symmetry; exact S2|].
  split; [rewrite skipn_length; lia|]. split; [lia|].
  rewrite map_app. cbn [map].
  apply chunked_paste.
  - exact Hc.
  - rewrite <- (firstn_skipn k c) at 1.
    rewrite (app_assoc (concat pre)), S1, <- !app_assoc. reflexivity.
  - rewrite skipn_length. lia.
Qed.
