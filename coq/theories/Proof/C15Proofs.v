(* C15: input longer than the read buffer decodes as if it had arrived in one
   piece.  Stability of detect_one_msg under appending bytes, then chunk
   invariance of the reader. *)
From Coq Require Import NArith ZArith List Bool Lia Arith ZifyN ZifyNat ZifyBool.
Import ListNotations.
From BT Require Import Base.Bytes Model.Utf8 Model.Keys Model.Mouse Model.Decoder Model.Reader
  Proof.BytesLemmas Proof.DecoderTies Proof.ReaderProofs.
From BTGen Require Consts.
Open Scope N_scope.

(* ================================================================ lists under append *)

Lemma firstn_app_le {A} n (l ext : list A) : (n <= length l)%nat -> firstn n (l ++ ext) = firstn n l.
Proof.
  intros H. rewrite firstn_app. replace (n - length l)%nat with 0%nat by lia.
  cbn [firstn]. apply app_nil_r.
Qed.

Lemma skipn_app_le {A} n (l ext : list A) : (n <= length l)%nat -> skipn n (l ++ ext) = skipn n l ++ ext.
Proof.
  intros H. rewrite skipn_app. replace (n - length l)%nat with 0%nat by lia. reflexivity.
Qed.

Lemma skipn_add {A} a : forall b (l : list A), skipn (a + b) l = skipn b (skipn a l).
Proof.
  induction a as [|a IH]; intros b l; [reflexivity|].
  destruct l as [|x l]; [cbn [Nat.add skipn]; destruct b; reflexivity|]. cbn [Nat.add skipn]. apply IH.
Qed.

Lemma len_ge_app l ext n : len_ge l n = true -> len_ge (l ++ ext) n = true.
Proof. rewrite !len_ge_iff, app_length. lia. Qed.

Lemma is_prefix_app_r p l ext : is_prefix p l = true -> is_prefix p (l ++ ext) = true.
Proof.
  intros H. apply is_prefix_app in H. destruct H as [r ->].
  rewrite <- app_assoc. apply is_prefix_refl_app.
Qed.

(* a pattern that becomes a prefix only after appending: l was a proper prefix of it *)
Lemma is_prefix_app_new pat : forall l ext,
  is_prefix pat l = false -> is_prefix pat (l ++ ext) = true ->
  is_prefix l pat = true /\ (length l < length pat)%nat.
Proof.
  induction pat as [|x pat IH]; intros l ext H1 H2; [discriminate|].
  destruct l as [|y l].
  - split; [reflexivity|cbn [length]; lia].
  - cbn [app is_prefix] in *. destruct (x =? y) eqn:E.
    + cbn [andb] in *. destruct (IH l ext H1 H2) as [P L]. apply N.eqb_eq in E. subst y.
      rewrite N.eqb_refl, P. split; [reflexivity|cbn [length]; lia].
    + discriminate.
Qed.

Lemma index_of_app_stable pat : forall l i ext,
  index_of pat l = Some i -> index_of pat (l ++ ext) = Some i.
Proof.
  induction l as [|x l IH]; intros i ext H.
  - cbn [index_of] in H. destruct (is_prefix pat []) eqn:E; [|discriminate]. inversion H; subst.
    destruct pat; [|discriminate]. destruct ext; reflexivity.
  - cbn [index_of] in H. cbn [app index_of]. destruct (is_prefix pat (x :: l)) eqn:E.
    + change (x :: l ++ ext) with ((x :: l) ++ ext). rewrite (is_prefix_app_r _ _ ext E). exact H.
    + destruct (index_of pat l) as [j|] eqn:Ej; [|discriminate]. inversion H; subst.
      destruct (is_prefix pat (x :: l ++ ext)) eqn:E2.
      * exfalso. change (x :: l ++ ext) with ((x :: l) ++ ext) in E2.
        destruct (is_prefix_app_new pat _ _ E E2) as [_ L].
        apply index_of_some in Ej. destruct Ej as (pre & post & Hl & _).
        rewrite Hl in L. cbn [length] in L. rewrite !app_length in L. lia.
      * rewrite (IH j ext eq_refl). reflexivity.
Qed.

Lemma span_app_stop f : forall l a x r ext,
  span f l = (a, x :: r) -> span f (l ++ ext) = (a, (x :: r) ++ ext).
Proof.
  induction l as [|y l IH]; intros a x r ext H; cbn [span] in H; [discriminate|].
  cbn [app span]. destruct (f y) eqn:E.
  - destruct (span f l) as [a' r'] eqn:Es. inversion H; subst.
    rewrite (IH _ _ _ ext eq_refl). reflexivity.
  - inversion H; subst. reflexivity.
Qed.

Lemma span_all f l a : span f l = (a, []) -> all_bytes f l = true.
Proof.
  intros H. apply span_app in H. destruct H as [-> H]. rewrite app_nil_r. exact H.
Qed.

Lemma all_bytes_app f a b : all_bytes f (a ++ b) = all_bytes f a && all_bytes f b.
Proof.
  induction a as [|x a IH]; cbn [app all_bytes]; [reflexivity|]. rewrite IH, andb_assoc. reflexivity.
Qed.

Lemma all_bytes_cons f x l : all_bytes f (x :: l) = f x && all_bytes f l.
Proof. reflexivity. Qed.

Lemma span_of_all f : forall l, all_bytes f l = true -> span f l = (l, []).
Proof.
  induction l as [|x l IH]; intros H; cbn [all_bytes span] in *; [reflexivity|].
  apply andb_true_iff in H. destruct H as [Hx Hl]. rewrite Hx, (IH Hl). reflexivity.
Qed.

Lemma all_bytes_weaken (f g : N -> bool) : (forall x, f x = true -> g x = true) ->
  forall l, all_bytes f l = true -> all_bytes g l = true.
Proof.
  intros Hfg. induction l as [|x l IH]; intros H; cbn [all_bytes] in *; [reflexivity|].
  apply andb_true_iff in H. destruct H as [Hx Hl]. rewrite (Hfg _ Hx), (IH Hl). reflexivity.
Qed.

(* ================================================================ UTF-8 under append *)

Lemma not_full_decode s : s <> [] -> full_rune s = false -> decode_rune s = (RuneError, 1%nat).
Proof.
  intros Hs H. destruct s as [|p0 r]; [congruence|].
  unfold full_rune in H. unfold decode_rune.
  destruct (first_byte p0) as [| |sz lo hi]; try discriminate.
  destruct sz as [|[|[|[|[|sz]]]]]; destruct r as [|b1 [|b2 [|b3 r]]];
    cbn [length Nat.leb] in H; try discriminate; reflexivity.
Qed.

Lemma full_decode_app s ext : full_rune s = true -> decode_rune (s ++ ext) = decode_rune s.
Proof.
  intros H. destruct s as [|p0 r]; [discriminate|].
  unfold full_rune in H. cbn [app]. unfold decode_rune.
  destruct (first_byte p0) as [| |sz lo hi]; try reflexivity.
  destruct sz as [|[|[|[|[|sz]]]]]; destruct r as [|b1 [|b2 [|b3 r]]];
    cbn [length Nat.leb app] in *; try discriminate; try reflexivity;
    repeat match goal with
           | |- context [in_range ?a ?b ?c] => destruct (in_range a b c) eqn:?
           | |- context [cont ?c] => destruct (cont c) eqn:?
           end; cbn [negb] in *; try discriminate; try reflexivity;
    destruct ext as [|e1 [|e2 ext]]; try reflexivity.
Qed.

(* the rune loop (no alt) that stopped at a full rune inside s runs identically on s ++ ext *)
Lemma rune_run_stable ext : forall fuel s rs n,
  rune_run fuel false s = (rs, n) -> (length s <= fuel)%nat ->
  full_rune (skipn n s) = true ->
  forall fuel', (length (s ++ ext) <= fuel')%nat -> rune_run fuel' false (s ++ ext) = (rs, n).
Proof.
  induction fuel as [|f IH]; intros s rs n H Hl Hf fuel' Hl'.
  - destruct s; [|cbn [length] in Hl; lia]. cbn in H. inversion H; subst. cbn in Hf. discriminate.
  - destruct s as [|x t].
    { cbn in H. inversion H; subst. cbn in Hf. discriminate. }
    destruct fuel' as [|f']; [cbn [app length] in Hl'; lia|].
    cbn [rune_run] in H. cbn [app rune_run].
    change (x :: t ++ ext) with ((x :: t) ++ ext).
    destruct (decode_rune (x :: t)) as [r w] eqn:D.
    pose proof (decode_rune_width (x :: t) r w ltac:(discriminate) D) as [Hw _].
    destruct (stops_run r w) eqn:St.
    + inversion H; subst. cbn [skipn] in Hf. rewrite (full_decode_app _ ext Hf), D, St. reflexivity.
    + assert (Hfull : full_rune (x :: t) = true).
      { destruct (full_rune (x :: t)) eqn:Fr; [reflexivity|].
        rewrite (not_full_decode (x :: t) ltac:(discriminate) Fr) in D. inversion D; subst.
        vm_compute in St. discriminate. }
      rewrite (full_decode_app _ ext Hfull), D, St.
      destruct (rune_run f false (skipn w (x :: t))) as [rs' n'] eqn:R. inversion H; subst.
      rewrite (skipn_app_le w (x :: t) ext) by lia.
      rewrite (IH (skipn w (x :: t)) rs' n' R); [reflexivity| | |].
      * rewrite skipn_length. cbn [length] in *. lia.
      * rewrite <- skipn_add. exact Hf.
      * rewrite app_length, skipn_length. cbn [app length] in *. rewrite app_length in Hl'. lia.
Qed.

(* ================================================================ may_be_incomplete, clause by clause *)

Definition key_prefix_proper (b : bytes) : bool :=
  existsb (fun e => is_prefix b (fst e) && negb (len_ge b (length (fst e)))) ext_sequences.

Lemma mbi_split b0 r : may_be_incomplete (b0 :: r) = false ->
  if b0 =? ESC
  then r <> [] /\ full_rune r = true /\ incomplete_csi (b0 :: r) = false /\
       (len_ge (b0 :: r) 6 = true \/ is_prefix [27; 91; 77] (b0 :: r) = false) /\
       key_prefix_proper (b0 :: r) = false
  else full_rune (b0 :: r) = true.
Proof.
  unfold may_be_incomplete. destruct (b0 =? ESC) eqn:E; cbn [negb].
  - intros H.
    destruct (match r with [] => false | _ => negb (full_rune r) end) eqn:C2; [discriminate|].
    destruct (incomplete_csi (b0 :: r)) eqn:C3; [discriminate|].
    destruct (negb (len_ge (b0 :: r) 6) && is_prefix [27; 91; 77] (b0 :: r)) eqn:C4; [discriminate|].
    change (key_prefix_proper (b0 :: r) = false) in H.
    destruct r as [|b1 r].
    + apply N.eqb_eq in E. unfold ESC in E. subst b0. vm_compute in H. discriminate.
    + split; [discriminate|]. split; [destruct (full_rune (b1 :: r)); [reflexivity|discriminate]|].
      split; [reflexivity|]. split; [|exact H].
      destruct (len_ge (b0 :: b1 :: r) 6); [left; reflexivity|right; exact C4].
  - intros H. destruct (full_rune (b0 :: r)); [reflexivity|discriminate].
Qed.

Lemma mbi_esc r : may_be_incomplete (27 :: r) = false ->
  r <> [] /\ full_rune r = true /\ incomplete_csi (27 :: r) = false /\
  (len_ge (27 :: r) 6 = true \/ is_prefix [27; 91; 77] (27 :: r) = false) /\
  key_prefix_proper (27 :: r) = false.
Proof. intros H. exact (mbi_split 27 r H). Qed.

Lemma incomplete_csi_br r :
  incomplete_csi (27 :: 91 :: r) =
  let '(_, r1) := span is_param r in
  let '(_, r2) := span is_inter r1 in
  match r2 with [] => true | _ => false end.
Proof. reflexivity. Qed.

Lemma incomplete_csi_params r : all_bytes is_param r = true -> incomplete_csi (27 :: 91 :: r) = true.
Proof. intros H. rewrite incomplete_csi_br, (span_of_all _ _ H). reflexivity. Qed.

(* ================================================================ mouse *)

Lemma detect_mouse_inv b w m : detect_mouse b = Some (w, m) ->
  exists b2 rest, b = 27 :: 91 :: b2 :: rest /\
   ((b2 = 77 /\ exists cb cx cy t, rest = cb :: cx :: cy :: t /\ w = 6%nat /\ m = parse_x10 cb cx cy) \/
    (b2 = 60 /\ exists d1 d2 d3 f n, match_sgr rest = Some (d1, d2, d3, f, n) /\
                                     w = (n + 3)%nat /\ m = parse_sgr d1 d2 d3 f)).
Proof.
  unfold detect_mouse. destruct (len_ge b x10_len); [|discriminate]. intros H.
  destruct b as [|b0 [|b1 [|b2 r]]]; try discriminate.
  destruct ((b0 =? 27) && (b1 =? 91)) eqn:E; [|discriminate].
  apply andb_true_iff in E. destruct E as [E0 E1]. apply N.eqb_eq in E0, E1. subst.
  exists b2, r. split; [reflexivity|].
  destruct (b2 =? 77) eqn:E2.
  - apply N.eqb_eq in E2. left. split; [exact E2|].
    destruct r as [|cb [|cx [|cy t]]]; try discriminate. inversion H; subst.
    exists cb, cx, cy, t. repeat split.
  - destruct (b2 =? 60) eqn:E3; [|discriminate]. apply N.eqb_eq in E3. right. split; [exact E3|].
    destruct (match_sgr r) as [[[[[d1 d2] d3] f] n]|] eqn:M; [|discriminate]. inversion H; subst.
    exists d1, d2, d3, f, n. repeat split.
Qed.

Lemma detect_mouse_x10 cb cx cy t :
  detect_mouse (27 :: 91 :: 77 :: cb :: cx :: cy :: t) = Some (6%nat, parse_x10 cb cx cy).
Proof. destruct t; reflexivity. Qed.

Lemma detect_mouse_sgr rest d1 d2 d3 f n : match_sgr rest = Some (d1, d2, d3, f, n) ->
  detect_mouse (27 :: 91 :: 60 :: rest) = Some ((n + 3)%nat, parse_sgr d1 d2 d3 f).
Proof.
  intros M. pose proof (match_sgr_len _ _ _ _ _ _ M) as L.
  unfold detect_mouse.
  assert (G : len_ge (27 :: 91 :: 60 :: rest) x10_len = true).
  { apply len_ge_iff. change x10_len with 6%nat. cbn [length]. lia. }
  rewrite G. cbv beta iota.
  change ((27 =? 27) && (91 =? 91)) with true. change (60 =? 77) with false.
  change (60 =? 60) with true. cbv beta iota. rewrite M. reflexivity.
Qed.

Lemma digit_is_param x : is_digit x = true -> is_param x = true.
Proof. unfold is_digit, is_param, in_range. lia. Qed.

(* appending either leaves the SGR match unchanged, or the match had run out of
   input while still inside digits and ';' *)
Lemma match_sgr_app s ext :
  match_sgr (s ++ ext) = match_sgr s \/ (match_sgr s = None /\ all_bytes is_param s = true).
Proof.
  unfold match_sgr.
  destruct (span is_digit s) as [d1 r1] eqn:E1.
  destruct r1 as [|c1 r1'].
  { right. split; [destruct d1; reflexivity|].
    apply (all_bytes_weaken _ _ digit_is_param). exact (span_all _ _ _ E1). }
  rewrite (span_app_stop _ _ _ _ _ ext E1). cbn [app].
  apply span_app in E1. destruct E1 as [Hs D1].
  destruct d1 as [|x1 d1]; [left; reflexivity|].
  destruct (c1 =? 59) eqn:C1; [|left; reflexivity].
  destruct (span is_digit r1') as [d2 r2] eqn:E2.
  destruct r2 as [|c2 r2'].
  { right. split; [destruct d2; reflexivity|].
    apply N.eqb_eq in C1. subst c1.
    rewrite Hs, all_bytes_app, (all_bytes_weaken _ _ digit_is_param _ D1), all_bytes_cons,
      (all_bytes_weaken _ _ digit_is_param _ (span_all _ _ _ E2)). reflexivity. }
  rewrite (span_app_stop _ _ _ _ _ ext E2). cbn [app].
  apply span_app in E2. destruct E2 as [Hs2 D2].
  destruct d2 as [|x2 d2]; [left; reflexivity|].
  destruct (c2 =? 59) eqn:C2; [|left; reflexivity].
  destruct (span is_digit r2') as [d3 r3] eqn:E3.
  destruct r3 as [|f r3'].
  { right. split; [destruct d3; reflexivity|].
    apply N.eqb_eq in C1. subst c1. apply N.eqb_eq in C2. subst c2.
    rewrite Hs, all_bytes_app, (all_bytes_weaken _ _ digit_is_param _ D1), all_bytes_cons,
      Hs2, all_bytes_app, (all_bytes_weaken _ _ digit_is_param _ D2), all_bytes_cons,
      (all_bytes_weaken _ _ digit_is_param _ (span_all _ _ _ E3)). reflexivity. }
  rewrite (span_app_stop _ _ _ _ _ ext E3). left. reflexivity.
Qed.

Lemma mouse_some p ext w m : detect_mouse p = Some (w, m) -> detect_mouse (p ++ ext) = Some (w, m).
Proof.
  intros H. apply detect_mouse_inv in H. destruct H as (b2 & rest & -> & [H|H]).
  - destruct H as (-> & cb & cx & cy & t & -> & -> & ->). cbn [app]. apply detect_mouse_x10.
  - destruct H as (-> & d1 & d2 & d3 & f & n & M & -> & ->). cbn [app].
    apply detect_mouse_sgr.
    destruct (match_sgr_app rest ext) as [E|[E _]]; congruence.
Qed.

Lemma mouse_none p ext : p <> [] -> may_be_incomplete p = false ->
  detect_mouse p = None -> detect_mouse (p ++ ext) = None.
Proof.
  intros Hp Hm Hn. destruct (detect_mouse (p ++ ext)) as [[w m]|] eqn:D; [exfalso|reflexivity].
  apply detect_mouse_inv in D. destruct D as (b2 & rest & Eq & D).
  destruct p as [|a0 [|a1 [|a2 pr]]]; [congruence| | |].
  - inversion Eq; subst. vm_compute in Hm. discriminate.
  - inversion Eq; subst. vm_compute in Hm. discriminate.
  - cbn [app] in Eq. inversion Eq; subst. clear Eq.
    apply mbi_esc in Hm. destruct Hm as (_ & _ & Hcsi & Hx10 & _).
    destruct D as [D|D].
    + destruct D as (-> & cb & cx & cy & t & Hr & _ & _).
      destruct Hx10 as [L|P]; [|cbn in P; discriminate].
      apply len_ge_iff in L. cbn [length] in L.
      destruct pr as [|p0 [|p1 [|p2 pr]]]; cbn [length] in L; try lia.
      rewrite detect_mouse_x10 in Hn. discriminate.
    + destruct D as (-> & d1 & d2 & d3 & f & n & M & _ & _).
      destruct (match_sgr_app pr ext) as [E|[_ A]].
      * rewrite M in E. symmetry in E. rewrite (detect_mouse_sgr _ _ _ _ _ _ E) in Hn. discriminate.
      * rewrite incomplete_csi_params in Hcsi; [discriminate|].
        cbn [all_bytes]. rewrite A. reflexivity.
Qed.

(* ================================================================ focus *)

Lemma focus_none p ext : p <> [] -> may_be_incomplete p = false ->
  detect_focus p = None -> detect_focus (p ++ ext) = None.
Proof.
  intros Hp Hm Hn. destruct (detect_focus (p ++ ext)) as [[w m]|] eqn:D; [exfalso|reflexivity].
  unfold detect_focus in D.
  assert (E : p ++ ext = focus_in \/ p ++ ext = focus_out).
  { destruct (bytes_eqb (p ++ ext) focus_in) eqn:E1; [left; apply bytes_eqb_eq; exact E1|].
    destruct (bytes_eqb (p ++ ext) focus_out) eqn:E2; [right; apply bytes_eqb_eq; exact E2|discriminate]. }
  unfold focus_in, focus_out in E.
  destruct p as [|a0 [|a1 [|a2 [|a3 pr]]]]; [congruence| | | |].
  - assert (a0 = 27) by (destruct E as [E|E]; inversion E; reflexivity). subst.
    vm_compute in Hm. discriminate.
  - assert (a0 = 27 /\ a1 = 91) as [-> ->] by (destruct E as [E|E]; inversion E; split; reflexivity).
    vm_compute in Hm. discriminate.
  - destruct E as [E|E]; inversion E; subst; vm_compute in Hn; discriminate.
  - destruct E as [E|E]; inversion E.
Qed.

(* ================================================================ paste *)

Lemma paste_stable p ext : p <> [] -> may_be_incomplete p = false ->
  detect_paste p <> PMore -> detect_paste (p ++ ext) = detect_paste p.
Proof.
  intros Hp Hm Hn. unfold detect_paste in *.
  destruct (is_prefix bp_start p) eqn:P.
  - rewrite (is_prefix_app_r _ _ ext P).
    pose proof (is_prefix_length _ _ P) as L.
    rewrite (skipn_app_le _ p ext L).
    destruct (index_of bp_end (skipn (length bp_start) p)) as [idx|] eqn:I; [|congruence].
    rewrite (index_of_app_stable _ _ _ ext I).
    apply index_of_some in I. destruct I as (pre & post & Hb & Hl).
    rewrite firstn_app_le; [reflexivity|]. rewrite Hb, app_length. lia.
  - destruct (is_prefix bp_start (p ++ ext)) eqn:P2; [exfalso|reflexivity].
    destruct (is_prefix_app_new _ _ _ P P2) as [Q L].
    change bp_start with [27; 91; 50; 48; 48; 126] in Q, L. cbn [length] in L.
    destruct p as [|a0 [|a1 [|a2 [|a3 [|a4 [|a5 pr]]]]]]; cbn [length] in L; try lia; try congruence;
      cbn [is_prefix] in Q;
      repeat (apply andb_true_iff in Q; let Q1 := fresh "Q" in destruct Q as [Q1 Q]; apply N.eqb_eq in Q1);
      subst; vm_compute in Hm; discriminate.
Qed.

(* ================================================================ sequences *)

Lemma assoc_bytes_in {A} k : forall (l : list (bytes * A)) v,
  assoc_bytes k l = Some v -> exists e, In e l /\ fst e = k.
Proof.
  induction l as [|[k' v'] l IH]; intros v H; cbn [assoc_bytes] in H; [discriminate|].
  destruct (bytes_eqb k k') eqn:E.
  - apply bytes_eqb_eq in E. exists (k', v'). split; [left; reflexivity|cbn; congruence].
  - destruct (IH v H) as (e & He & Hk). exists e. split; [right; exact He|exact Hk].
Qed.

Lemma detect_from_app p ext : key_prefix_proper p = false ->
  forall sz, detect_from sz (p ++ ext) = detect_from sz p.
Proof.
  intros K. induction sz as [|k IH]; [reflexivity|]. cbn [detect_from].
  destruct (len_ge p (S k)) eqn:L.
  - rewrite (len_ge_app _ ext _ L). apply len_ge_iff in L.
    rewrite (firstn_app_le (S k) p ext L), IH. reflexivity.
  - destruct (len_ge (p ++ ext) (S k)) eqn:L2; [|exact IH].
    destruct (assoc_bytes (firstn (S k) (p ++ ext)) ext_sequences) as [m|] eqn:A; [exfalso|exact IH].
    apply assoc_bytes_in in A. destruct A as (e & He & Hk).
    apply len_ge_false in L. apply len_ge_iff in L2.
    assert (X : key_prefix_proper p = true).
    { unfold key_prefix_proper. apply existsb_exists. exists e. split; [exact He|].
      rewrite Hk. apply andb_true_iff. split.
      - apply is_prefix_app. rewrite firstn_app. rewrite firstn_all2 by lia.
        eexists. reflexivity.
      - apply negb_true_iff. apply len_ge_false. rewrite firstn_length_le by exact L2. exact L. }
    congruence.
Qed.

Lemma unknown_csi_app p ext : incomplete_csi p = false -> (2 <= length p)%nat ->
  unknown_csi (p ++ ext) = unknown_csi p.
Proof.
  intros Hc Hl. destruct p as [|b0 [|b1 r]]; cbn [length] in Hl; try lia.
  cbn [app]. unfold unknown_csi.
  destruct ((b0 =? 27) && (b1 =? 91)) eqn:E; [|reflexivity].
  apply andb_true_iff in E. destruct E as [E0 E1]. apply N.eqb_eq in E0, E1. subst.
  rewrite incomplete_csi_br in Hc.
  destruct (span is_param r) as [ps r1] eqn:S1.
  destruct r1 as [|x r1']; [cbn in Hc; discriminate|].
  rewrite (span_app_stop _ _ _ _ _ ext S1).
  destruct (span is_inter (x :: r1')) as [is r2] eqn:S2.
  destruct r2 as [|f r2']; [discriminate|].
  rewrite (span_app_stop _ _ _ _ _ ext S2). reflexivity.
Qed.

Lemma sequence_stable p ext : p <> [] -> may_be_incomplete p = false ->
  detect_sequence (p ++ ext) = detect_sequence p.
Proof.
  intros Hp Hm. unfold detect_sequence.
  destruct p as [|b0 r]; [congruence|].
  destruct (b0 =? ESC) eqn:E.
  - apply N.eqb_eq in E. unfold ESC in E. subst b0.
    apply mbi_esc in Hm. destruct Hm as (Hr & _ & Hcsi & _ & K).
    rewrite (detect_from_app _ ext K).
    destruct (detect_from max_seq_len (27 :: r)); [reflexivity|].
    rewrite (unknown_csi_app _ ext Hcsi) by (destruct r; [congruence|cbn [length]; lia]).
    destruct (unknown_csi (27 :: r)) as [n|] eqn:U; [|reflexivity].
    apply unknown_csi_width in U. rewrite firstn_app_le by lia. reflexivity.
  - (* not an escape: no CSI; a longer key would have to start with b0 *)
    assert (U : forall l, unknown_csi (b0 :: l) = None).
    { intros l. unfold unknown_csi. destruct l as [|b1 l]; [reflexivity|].
      unfold ESC in E. rewrite E. reflexivity. }
    cbn [app]. rewrite !U.
    change (b0 :: r ++ ext) with ((b0 :: r) ++ ext).
    destruct (key_prefix_proper (b0 :: r)) eqn:K.
    + (* impossible: every key starting with a non-ESC byte has length 1 *)
      exfalso. unfold key_prefix_proper in K. apply existsb_exists in K.
      destruct K as (e & He & K). apply andb_true_iff in K. destruct K as [K1 K2].
      assert (F : forallb (fun e : bytes * msg => match fst e with
                                    | k0 :: _ :: _ => k0 =? 27
                                    | _ => true end) ext_sequences = true) by (vm_compute; reflexivity).
      pose proof (proj1 (forallb_forall _ _) F e He) as Fe.
      apply negb_true_iff in K2. apply len_ge_false in K2.
      destruct e as [ke ve]. cbn [fst] in *.
      destruct ke as [|k0 [|k1 kr]].
      * discriminate.
      * cbn [length] in K2. lia.
      * cbn [is_prefix] in K1. apply andb_true_iff in K1. destruct K1 as [K1 _].
        apply N.eqb_eq in K1. subst k0. unfold ESC in E. cbv beta iota in Fe. congruence.
    + rewrite (detect_from_app _ ext K). reflexivity.
Qed.

(* ================================================================ the rune tail *)

Lemma rune_run_alt fuel s : s <> [] ->
  rune_run (S fuel) true s =
  let '(r, w) := decode_rune s in if stops_run r w then ([], 0%nat) else ([r], w).
Proof. destruct s; [congruence|reflexivity]. Qed.

Lemma tail_stable p ext w m :
  detect_tail p true = DMsg w m -> detect_tail (p ++ ext) false = DMsg w m.
Proof.
  destruct p as [|b0 r]; [discriminate|]. cbn [app]. unfold detect_tail. cbv zeta.
  destruct (b0 =? ESC) eqn:A.
  - destruct r as [|s0 r']; [cbn; discriminate|].
    cbn [skipn app].
    destruct (s0 =? 0) eqn:Z; [intros H; exact H|].
    cbn [length]. rewrite !rune_run_alt by discriminate.
    assert (G1 : len_ge (b0 :: s0 :: r') 2 = true) by (apply len_ge_iff; cbn [length]; lia).
    assert (G2 : len_ge (b0 :: s0 :: r' ++ ext) 2 = true) by (apply len_ge_iff; cbn [length]; lia).
    rewrite G1, G2. cbn [andb negb].
    change (s0 :: r' ++ ext) with ((s0 :: r') ++ ext).
    destruct (decode_rune (s0 :: r')) as [rr ww] eqn:D.
    assert (Hfull : stops_run rr ww = false -> full_rune (s0 :: r') = true).
    { intros St. destruct (full_rune (s0 :: r')) eqn:Fr; [reflexivity|].
      rewrite (not_full_decode (s0 :: r') ltac:(discriminate) Fr) in D. inversion D; subst.
      vm_compute in St. discriminate. }
    destruct (stops_run rr ww) eqn:St.
    + cbn [Nat.add skipn].
      destruct (full_rune (s0 :: r')) eqn:Fr; cbn [negb]; [|discriminate].
      rewrite (full_decode_app _ ext Fr), D, St. intros H; exact H.
    + rewrite (full_decode_app _ ext (Hfull eq_refl)), D, St.
      destruct (full_rune (skipn (1 + ww) (b0 :: s0 :: r'))); cbn [negb]; [|discriminate].
      intros H; exact H.
  - cbn [skipn app].
    destruct (b0 =? 0) eqn:Z; [intros H; exact H|].
    destruct (rune_run (length (b0 :: r)) false (b0 :: r)) as [rs n] eqn:R.
    cbn [Nat.add andb].
    destruct (full_rune (skipn n (b0 :: r))) eqn:Fr; cbn [negb]; [|discriminate].
    change (b0 :: r ++ ext) with ((b0 :: r) ++ ext).
    rewrite (rune_run_stable ext _ _ _ _ R (le_n _) Fr _ (le_n _)).
    intros H; exact H.
Qed.

(* ================================================================ detect_one_msg *)

Lemma detect_one_msg_ne b more : b <> [] ->
  detect_one_msg b more =
  if more && may_be_incomplete b then DMore
  else match detect_mouse b with
       | Some (w, m) => DMsg w m
       | None =>
         match detect_focus b with
         | Some (w, m) => DMsg w m
         | None =>
           match detect_paste b with
           | PMore => DMore
           | PMsg w m => DMsg w m
           | PNone =>
             match detect_sequence b with
             | Some (w, m) => DMsg w m
             | None => detect_tail b more
             end
           end
         end
       end.
Proof. destruct b; [congruence|reflexivity]. Qed.

Lemma tail_more_refines b w m : detect_tail b true = DMsg w m -> detect_tail b false = DMsg w m.
Proof. intros H. rewrite <- (app_nil_r b). exact (tail_stable b [] w m H). Qed.

Lemma tail_more_cases b : detect_tail b true = DMore \/ detect_tail b true = detect_tail b false.
Proof.
  unfold detect_tail. destruct b as [|b0 r]; [right; reflexivity|]. cbv zeta.
  destruct (match skipn (if b0 =? ESC then 1%nat else 0%nat) (b0 :: r) with
            | [] => false | s0 :: _ => s0 =? 0 end); [right; reflexivity|].
  destruct (rune_run _ _ _) as [rs n]. cbn [andb].
  destruct (negb (full_rune (skipn ((if b0 =? ESC then 1%nat else 0%nat) + n) (b0 :: r))));
    [left; reflexivity|right; reflexivity].
Qed.

(* A1: canHaveMoreData only ever adds waiting *)
Lemma more_refines b w m : detect_one_msg b true = DMsg w m -> detect_one_msg b false = DMsg w m.
Proof.
  intros H. assert (Hb : b <> []) by (intros ->; discriminate).
  rewrite detect_one_msg_ne in * by exact Hb. cbn [andb] in *.
  destruct (may_be_incomplete b); [discriminate|].
  destruct (detect_mouse b) as [[w1 m1]|]; [exact H|].
  destruct (detect_focus b) as [[w1 m1]|]; [exact H|].
  destruct (detect_paste b); try exact H.
  destruct (detect_sequence b) as [[w1 m1]|]; [exact H|].
  apply tail_more_refines. exact H.
Qed.

Lemma more_cases b : detect_one_msg b true = DMore \/ detect_one_msg b true = detect_one_msg b false.
Proof.
  destruct b as [|b0 r] eqn:Eb; [right; reflexivity|]. rewrite <- Eb.
  assert (Hb : b <> []) by (subst; discriminate).
  rewrite !detect_one_msg_ne by exact Hb. cbn [andb].
  destruct (may_be_incomplete b); [left; reflexivity|].
  destruct (detect_mouse b) as [[w1 m1]|]; [right; reflexivity|].
  destruct (detect_focus b) as [[w1 m1]|]; [right; reflexivity|].
  destruct (detect_paste b); try (right; reflexivity).
  destruct (detect_sequence b) as [[w1 m1]|]; [right; reflexivity|].
  apply tail_more_cases.
Qed.

(* A2: a message emitted from a full buffer is the message the same bytes give
   whatever follows them (focus reports excepted: they are recognised by
   whole-buffer equality) *)
Theorem stable p w m : detect_one_msg p true = DMsg w m -> m <> MFocus -> m <> MBlur ->
  forall ext, detect_one_msg (p ++ ext) false = DMsg w m.
Proof.
  intros H Hf Hb ext.
  assert (Hp : p <> []) by (intros ->; discriminate).
  assert (Hpe : p ++ ext <> []) by (destruct p; [congruence|discriminate]).
  rewrite detect_one_msg_ne in H by exact Hp. rewrite detect_one_msg_ne by exact Hpe.
  cbn [andb] in *.
  destruct (may_be_incomplete p) eqn:M; [discriminate|].
  destruct (detect_mouse p) as [[w1 m1]|] eqn:Dm.
  { rewrite (mouse_some _ ext _ _ Dm). exact H. }
  rewrite (mouse_none _ ext Hp M Dm).
  destruct (detect_focus p) as [[w1 m1]|] eqn:Df.
  { exfalso. unfold detect_focus in Df.
    destruct (bytes_eqb p focus_in); [inversion Df; subst; inversion H; congruence|].
    destruct (bytes_eqb p focus_out); [|discriminate]. inversion Df; subst; inversion H; congruence. }
  rewrite (focus_none _ ext Hp M Df).
  assert (Dp : detect_paste p <> PMore) by (intros Dp; rewrite Dp in H; discriminate).
  rewrite (paste_stable _ ext Hp M Dp).
  destruct (detect_paste p) as [| |w1 m1]; [|congruence|exact H].
  rewrite (sequence_stable _ ext Hp M).
  destruct (detect_sequence p) as [[w1 m1]|]; [exact H|].
  exact (tail_stable _ ext _ _ H).
Qed.

(* with canHaveMoreData still set the extended buffer gives the same message or waits *)
Corollary stable_true p w m : detect_one_msg p true = DMsg w m -> m <> MFocus -> m <> MBlur ->
  forall ext, detect_one_msg (p ++ ext) true = DMsg w m \/ detect_one_msg (p ++ ext) true = DMore.
Proof.
  intros H Hf Hb ext. destruct (more_cases (p ++ ext)) as [E|E]; [right; exact E|].
  left. rewrite E. exact (stable p w m H Hf Hb ext).
Qed.

(* ================================================================ the inner loop *)

Definition push (e : msg * bytes) (r : inner_res) : inner_res :=
  match r with
  | IDone o s => IDone (e :: o) s
  | ILeft o s r => ILeft (e :: o) s r
  | ICancel o => ICancel (e :: o)
  | IPanic o => IPanic (e :: o)
  | IFuel => IFuel
  end.

Definition prepend (o : list (msg * bytes)) (r : inner_res) : inner_res := fold_right push r o.

Lemma inner_unfold f b more sent cancel : b <> [] ->
  inner (S f) b more sent cancel =
  match detect_one_msg b more with
  | DPanic => IPanic []
  | DMore => ILeft [] sent b
  | DMsg O _ => ILeft [] sent b
  | DMsg w m =>
    if cancelled_at cancel sent then ICancel []
    else push (m, firstn w b) (inner f (skipn w b) more (S sent) cancel)
  end.
Proof. destruct b; [congruence|reflexivity]. Qed.

(* the fuel is irrelevant once it covers the buffer *)
Lemma inner_fuel more cancel : forall f1 f2 b sent, (length b <= f1)%nat -> (length b <= f2)%nat ->
  inner f1 b more sent cancel = inner f2 b more sent cancel.
Proof.
  induction f1 as [|f1 IH]; intros f2 b sent H1 H2.
  - destruct b; [|cbn [length] in H1; lia]. destruct f2; reflexivity.
  - destruct b as [|b0 r] eqn:Eb; [destruct f2; reflexivity|]. rewrite <- Eb in *.
    assert (Hne : b <> []) by (subst; discriminate).
    destruct f2 as [|f2]; [subst b; cbn [length] in H2; lia|].
    rewrite !inner_unfold by exact Hne.
    pose proof (detect_width b more Hne) as W.
    destruct (detect_one_msg b more) as [w m| |]; try reflexivity.
    destruct w as [|w]; [reflexivity|].
    destruct (cancelled_at cancel sent); [reflexivity|].
    rewrite (IH f2 (skipn (S w) b) (S sent)); [reflexivity| |]; rewrite skipn_length; lia.
Qed.

Definition is_focus_msg (m : msg) : bool :=
  match m with MFocus | MBlur => true | _ => false end.

Definition no_focusb (o : list (msg * bytes)) : bool :=
  forallb (fun mc => negb (is_focus_msg (fst mc))) o.

Lemma not_focus_msg m : negb (is_focus_msg m) = true -> m <> MFocus /\ m <> MBlur.
Proof. destruct m; cbn; intros H; split; congruence. Qed.

Lemma no_focusb_app a b : no_focusb (a ++ b) = no_focusb a && no_focusb b.
Proof. apply forallb_app. Qed.

(* what a pass over one buffer hands on: messages, count, unconsumed rest *)
Definition hands_on (r : inner_res) (o : list (msg * bytes)) (s : nat) (rest : bytes) : Prop :=
  r = ILeft o s rest \/ (r = IDone o s /\ rest = []).

(* A pass over p with canHaveMoreData set, followed by a flush pass over what
   it left plus ext, is a single flush pass over p ++ ext. *)
Lemma inner_stable ext : forall fuel p sent o s r,
  (length p <= fuel)%nat ->
  hands_on (inner fuel p true sent None) o s r -> no_focusb o = true ->
  inner (length (p ++ ext)) (p ++ ext) false sent None =
  prepend o (inner (length (r ++ ext)) (r ++ ext) false s None).
Proof.
  induction fuel as [|f IH]; intros p sent o s r Hl H Hnf.
  - destruct p; [|cbn [length] in Hl; lia]. cbn [inner] in H.
    destruct H as [H|[H ->]]; [discriminate|]. inversion H; subst. reflexivity.
  - destruct p as [|b0 t] eqn:Ep.
    { cbn [inner] in H. destruct H as [H|[H ->]]; [discriminate|]. inversion H; subst. reflexivity. }
    rewrite <- Ep in *. assert (Hne : p <> []) by (subst; discriminate).
    rewrite inner_unfold in H by exact Hne.
    pose proof (detect_width p true Hne) as W.
    destruct (detect_one_msg p true) as [w m| |] eqn:D.
    + destruct w as [|w']; [lia|].
      cbn [cancelled_at] in H.
      assert (Hsk : (length (skipn (S w') p) <= f)%nat) by (rewrite skipn_length; lia).
      assert (X : exists o1, o = (m, firstn (S w') p) :: o1 /\
                             hands_on (inner f (skipn (S w') p) true (S sent) None) o1 s r).
      { destruct (inner f (skipn (S w') p) true (S sent) None) as [o1 s1|o1 s1 r1|o1|o1|];
          cbn [push] in H; destruct H as [H|[H Hr]]; try discriminate; inversion H; subst;
          exists o1; (split; [reflexivity|]); [right; split; reflexivity|left; reflexivity]. }
      destruct X as (o1 & -> & H1).
      unfold no_focusb in Hnf. cbn [forallb fst] in Hnf. apply andb_true_iff in Hnf.
      destruct Hnf as [Hm Hnf1]. apply not_focus_msg in Hm. destruct Hm as [Hm1 Hm2].
      pose proof (stable p (S w') m D Hm1 Hm2 ext) as St.
      assert (Hpe : p ++ ext <> []) by (subst p; discriminate).
      rewrite (inner_fuel false None (length (p ++ ext)) (S (length (p ++ ext)))) by lia.
      rewrite inner_unfold by exact Hpe. rewrite St. cbn [cancelled_at].
      rewrite (skipn_app_le (S w') p ext) by lia.
      rewrite (firstn_app_le (S w') p ext) by lia.
      rewrite (inner_fuel false None (length (p ++ ext)) (length (skipn (S w') p ++ ext))).
      * rewrite (IH (skipn (S w') p) (S sent) o1 s r Hsk H1 Hnf1). reflexivity.
      * rewrite !app_length, skipn_length. lia.
      * lia.
    + destruct H as [H|[H _]]; [|discriminate]. inversion H; subst. reflexivity.
    + destruct H as [H|[H _]]; discriminate.
Qed.

(* ================================================================ the reader *)

Definition cons_out (o : list (msg * bytes)) (r : rd_result) : rd_result :=
  {| rd_out := o ++ rd_out r; rd_left := rd_left r; rd_why := rd_why r |}.

Definition after_inner (res : inner_res) (rest : list chunk) (cancel : option nat) : rd_result :=
  match res with
  | IDone o s => cons_out o (reader_from rest [] s cancel)
  | ILeft o s r => cons_out o (reader_from rest r s cancel)
  | ICancel o => {| rd_out := o; rd_left := []; rd_why := StopCancelled |}
  | IPanic o => {| rd_out := o; rd_left := []; rd_why := StopPanic |}
  | IFuel => {| rd_out := []; rd_left := []; rd_why := StopFuel |}
  end.

Lemma reader_from_chunk bs rest left sent cancel :
  reader_from (Chunk bs :: rest) left sent cancel =
  after_inner (inner (length (left ++ bs)) (left ++ bs) (Nat.eqb (length bs) buf_size) sent cancel)
              rest cancel.
Proof. reflexivity. Qed.

Lemma cons_out_nil r : cons_out [] r = r.
Proof. destruct r; reflexivity. Qed.

Lemma cons_out_cons e o r : cons_out (e :: o) r = cons_out [e] (cons_out o r).
Proof. reflexivity. Qed.

Lemma after_inner_push e res rest cancel : res <> IFuel ->
  after_inner (push e res) rest cancel = cons_out [e] (after_inner res rest cancel).
Proof. intros H. destruct res; try reflexivity. congruence. Qed.

Lemma push_not_fuel e res : res <> IFuel -> push e res <> IFuel.
Proof. destruct res; cbn; congruence. Qed.

Lemma prepend_not_fuel o res : res <> IFuel -> prepend o res <> IFuel.
Proof. intros H. induction o as [|e o IH]; [exact H|]. cbn [prepend fold_right]. apply push_not_fuel. exact IH. Qed.

Lemma after_inner_prepend o res rest cancel : res <> IFuel ->
  after_inner (prepend o res) rest cancel = cons_out o (after_inner res rest cancel).
Proof.
  intros H. induction o as [|e o IH].
  - cbn [prepend fold_right]. symmetry. apply cons_out_nil.
  - cbn [prepend fold_right]. rewrite after_inner_push by (apply prepend_not_fuel; exact H).
    fold (prepend o res). rewrite IH. reflexivity.
Qed.

Lemma inner_not_fuel b more sent cancel : inner (length b) b more sent cancel <> IFuel.
Proof.
  pose proof (inner_account more cancel (length b) b sent (le_n _)) as A.
  intros E. rewrite E in A. exact A.
Qed.

(* a single read that is known to be the last: leftover ++ bytes decoded with canHaveMoreData off *)
Definition flush (b : bytes) (sent : nat) : rd_result :=
  after_inner (inner (length b) b false sent None) [] None.

Lemma reader_from_last bs left sent : length bs <> buf_size ->
  reader_from [Chunk bs] left sent None = flush (left ++ bs) sent.
Proof.
  intros H. rewrite reader_from_chunk. apply Nat.eqb_neq in H. rewrite H. reflexivity.
Qed.

Lemma chunk_invariance_gen last : length last <> buf_size ->
  forall fulls left sent,
  Forall (fun f => length f = buf_size) fulls ->
  no_focusb (rd_out (reader_from (map Chunk fulls) left sent None)) = true ->
  reader_from (map Chunk (fulls ++ [last])) left sent None = flush (left ++ concat fulls ++ last) sent.
Proof.
  intros Hlast. induction fulls as [|f fs IH]; intros left sent Hfull Hnf.
  - cbn [app map concat]. apply reader_from_last. exact Hlast.
  - inversion Hfull as [|f' fs' Hf Hfs]; subst.
    cbn [app map] in *. rewrite reader_from_chunk in *.
    apply Nat.eqb_eq in Hf. rewrite Hf in *.
    pose proof (inner_account true None (length (left ++ f)) (left ++ f) sent (le_n _)) as A.
    replace (left ++ concat (f :: fs) ++ last) with ((left ++ f) ++ (concat fs ++ last))
      by (cbn [concat]; rewrite <- !app_assoc; reflexivity).
    unfold flush at 1.
    destruct (inner (length (left ++ f)) (left ++ f) true sent None) as [o s|o s r|o|o|] eqn:ER.
    + cbn [after_inner cons_out rd_out] in Hnf. rewrite no_focusb_app in Hnf.
      apply andb_true_iff in Hnf. destruct Hnf as [Hn1 Hn2].
      cbn [after_inner]. rewrite (IH [] s Hfs Hn2).
      rewrite (inner_stable (concat fs ++ last) _ (left ++ f) sent o s [] (le_n _)
                 ltac:(right; split; [exact ER|reflexivity]) Hn1).
      rewrite after_inner_prepend by apply inner_not_fuel. reflexivity.
    + cbn [after_inner cons_out rd_out] in Hnf. rewrite no_focusb_app in Hnf.
      apply andb_true_iff in Hnf. destruct Hnf as [Hn1 Hn2].
      cbn [after_inner]. rewrite (IH r s Hfs Hn2).
      rewrite (inner_stable (concat fs ++ last) _ (left ++ f) sent o s r (le_n _)
                 ltac:(left; exact ER) Hn1).
      rewrite after_inner_prepend by apply inner_not_fuel. reflexivity.
    + destruct A as (_ & _ & A). cbn in A. discriminate.
    + contradiction.
    + contradiction.
Qed.

Lemma buf_size_val : buf_size = 256%nat.
Proof. reflexivity. Qed.

(* A3 *)
Theorem chunk_invariance_flush fulls last :
  Forall (fun f => length f = 256%nat) fulls -> length last <> 256%nat ->
  no_focusb (rd_out (reader (map Chunk fulls) None)) = true ->
  reader (map Chunk (fulls ++ [last])) None = flush (concat fulls ++ last) 0.
Proof.
  intros Hf Hl Hn. unfold reader.
  exact (chunk_invariance_gen last Hl fulls [] 0%nat Hf Hn).
Qed.

Theorem chunk_invariance fulls last :
  Forall (fun f => length f = 256%nat) fulls -> length last <> 256%nat ->
  length (concat fulls ++ last) <> 256%nat ->
  no_focusb (rd_out (reader (map Chunk fulls) None)) = true ->
  reader (map Chunk (fulls ++ [last])) None = reader [Chunk (concat fulls ++ last)] None.
Proof.
  intros Hf Hl Hb Hn. rewrite (chunk_invariance_flush fulls last Hf Hl Hn).
  unfold reader. rewrite (reader_from_last _ [] 0%nat Hb). reflexivity.
Qed.

(* ================================================================ cutting an input into reads *)

(* full reads of n bytes, then the short (possibly empty) last read *)
Fixpoint chunks_fuel (fuel n : nat) (B : bytes) : list bytes * bytes :=
  match fuel with
  | O => ([], B)
  | S f => if Nat.ltb (length B) n then ([], B)
           else let '(fs, l) := chunks_fuel f n (skipn n B) in (firstn n B :: fs, l)
  end.

Definition chunks_of (n : nat) (B : bytes) : list bytes * bytes := chunks_fuel (length B) n B.

Lemma chunks_fuel_spec n : (1 <= n)%nat -> forall fuel B fs l,
  (length B <= fuel)%nat -> chunks_fuel fuel n B = (fs, l) ->
  Forall (fun f => length f = n) fs /\ (length l < n)%nat /\ concat fs ++ l = B.
Proof.
  intros Hn. induction fuel as [|f IH]; intros B fs l Hl H; cbn [chunks_fuel] in H.
  - inversion H; subst. destruct l; [|cbn [length] in Hl; lia].
    split; [constructor|]. split; [cbn [length]; lia|reflexivity].
  - destruct (Nat.ltb (length B) n) eqn:L.
    + inversion H; subst. apply Nat.ltb_lt in L. split; [constructor|]. split; [exact L|reflexivity].
    + apply Nat.ltb_ge in L.
      destruct (chunks_fuel f n (skipn n B)) as [fs' l'] eqn:R. inversion H; subst.
      destruct (IH (skipn n B) fs' l ltac:(rewrite skipn_length; lia) R) as (F & Ll & C).
      split; [constructor; [apply firstn_length_le; exact L|exact F]|].
      split; [exact Ll|]. cbn [concat]. rewrite <- app_assoc, C. apply firstn_skipn.
Qed.

Lemma chunks_of_spec B fulls last : chunks_of 256 B = (fulls, last) ->
  Forall (fun f => length f = 256%nat) fulls /\ (length last < 256)%nat /\ concat fulls ++ last = B.
Proof. intros H. exact (chunks_fuel_spec 256 ltac:(lia) (length B) B fulls last (le_n _) H). Qed.

(* any input, cut into 256-byte reads followed by the short remainder, decodes
   like the whole input handed over in one flushing read *)
Theorem chunked_input B fulls last : chunks_of 256 B = (fulls, last) ->
  no_focusb (rd_out (reader (map Chunk fulls) None)) = true ->
  reader (map Chunk (fulls ++ [last])) None = flush B 0 /\
  (length B <> 256%nat -> reader (map Chunk (fulls ++ [last])) None = reader [Chunk B] None).
Proof.
  intros H Hn. destruct (chunks_of_spec B fulls last H) as (F & L & C).
  assert (E : reader (map Chunk (fulls ++ [last])) None = flush B 0).
  { rewrite <- C. apply chunk_invariance_flush; [exact F|lia|exact Hn]. }
  split; [exact E|]. intros Hb. rewrite E. unfold reader.
  rewrite (reader_from_last B [] 0%nat Hb). reflexivity.
Qed.

(* ================================================================ the property, spelled out *)

Definition msgs (r : rd_result) : list msg := map fst (rd_out r).

Theorem chunk_invariance_fields fulls last :
  Forall (fun f => length f = 256%nat) fulls -> length last <> 256%nat ->
  length (concat fulls ++ last) <> 256%nat ->
  no_focusb (rd_out (reader (map Chunk fulls) None)) = true ->
  let r := reader (map Chunk (fulls ++ [last])) None in
  let r1 := reader [Chunk (concat fulls ++ last)] None in
  msgs r = msgs r1 /\ rd_out r = rd_out r1 /\ rd_left r = rd_left r1 /\ rd_why r = rd_why r1.
Proof.
  intros Hf Hl Hb Hn r r1. unfold r, r1, msgs.
  rewrite (chunk_invariance fulls last Hf Hl Hb Hn). repeat split.
Qed.
