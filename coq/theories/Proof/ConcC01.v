(* Proofs for C01 over the L1 interleaving model (Model/Conc.v):
   "Run is a sequential, lossless, per-sender-ordered fold of Update over
   messages", for every program (M, upd, cres), every initial command, every
   set of sender scripts and EVERY schedule.

   Method: one classification lemma (`step_lstep`) says what any enabled step
   does to the part of the state the C01 predicates talk about (loop pc,
   model, ghost lists, sender scripts, the events appended to the log); every
   invariant is then preserved case by case over that classification and
   lifted over `fold_left run1`.  The property theorems are restated in
   Props/C01.v. *)
From Coq Require Import List Bool Arith Lia PeanoNat.
Import ListNotations.
From BT Require Import Model.Conc Spec.ConcSpec.

(* ------------------------------------------------------------------ *)
(* equality tests are reflexive                                        *)

Lemma ocmd_eqb_refl : forall a, ocmd_eqb a a = true.
Proof. intros [x|]; simpl; auto using Nat.eqb_refl. Qed.

Lemma ocmds_eqb_refl : forall a, ocmds_eqb a a = true.
Proof. induction a as [|x a IH]; simpl; auto. rewrite ocmd_eqb_refl; auto. Qed.

Lemma msg_eqb_refl : forall m, msg_eqb m m = true.
Proof. intros [| t | | cs | cs]; simpl; auto using Nat.eqb_refl, ocmds_eqb_refl. Qed.

Lemma list_eqb_refl : forall {A} (e : A -> A -> bool), (forall x, e x x = true) ->
  forall l, list_eqb e l l = true.
Proof. intros A e He; induction l as [|x l IH]; simpl; auto. rewrite He; auto. Qed.

(* ------------------------------------------------------------------ *)
(* set_nth                                                             *)

Lemma set_nth_length : forall {A} (l : list A) n x, length (set_nth l n x) = length l.
Proof. induction l as [|h t IH]; intros [|n] x; simpl; auto. Qed.

Lemma nth_set_nth_eq : forall {A} (l : list A) n x d, n < length l -> nth n (set_nth l n x) d = x.
Proof.
  induction l as [|h t IH]; intros [|n] x d Hlt; simpl in *; try lia; auto.
  apply IH; lia.
Qed.

Lemma nth_set_nth_neq : forall {A} (l : list A) n i x d, i <> n -> nth i (set_nth l n x) d = nth i l d.
Proof.
  induction l as [|h t IH]; intros [|n] [|i] x d Hne; simpl; auto; try congruence.
Qed.

Lemma nth_error_lt : forall {A} (l : list A) n x, nth_error l n = Some x -> n < length l.
Proof. intros A l n x Hn. apply nth_error_Some. congruence. Qed.

(* ------------------------------------------------------------------ *)
(* events that the C01 predicates ignore: those of goroutines other    *)
(* than the event loop, and the hand-over to the dispatcher             *)

Definition thread_ev (e : ev) : Prop := match e with EStart _ _ | EEnd _ _ | EHand _ => True | _ => False end.

Lemma thread_ev_starts : forall (f : nat * cmdid -> who) (l : list (nat * cmdid)),
  Forall thread_ev (map (fun jc => EStart (f jc) (snd jc)) l).
Proof. intros f l; induction l as [|x l IH]; simpl; constructor; simpl; auto. Qed.

(* ------------------------------------------------------------------ *)
(* updates_follow as a walk that returns its final state               *)

Fixpoint uf_state (held : option msg) (log : list ev) : option (option msg) :=
  match log with
  | [] => Some held
  | ERecv _ m :: rest =>
    match held with
    | Some m' => if negb (updatable m') then uf_state (Some m) rest else None
    | None => uf_state (Some m) rest
    end
  | EUpdate m _ :: rest =>
    match held with
    | Some m' => if msg_eqb m m' && updatable m then uf_state None rest else None
    | None => None
    end
  | EExit :: rest | EFail :: rest => uf_state None rest
  | EView :: rest =>
    match held with
    | Some m' => if negb (updatable m') then uf_state None rest else None
    | None => uf_state None rest
    end
  | _ :: rest => uf_state held rest
  end.

Lemma uf_state_sound : forall log h h', uf_state h log = Some h' -> updates_follow h log = true.
Proof.
  induction log as [|e log IH]; intros h h' Hw; simpl in *; auto.
  destruct e as [w m | m c | | c | w c | w c | | w m | | ]; destruct h as [m'|]; simpl in *;
    try (eapply IH; eassumption); try discriminate.
  - destruct (negb (updatable m')); try discriminate; simpl; eapply IH; eassumption.
  - destruct (msg_eqb m m'); simpl in *; try discriminate.
    destruct (updatable m); simpl in *; try discriminate. eapply IH; eassumption.
  - destruct (negb (updatable m')); try discriminate; simpl; eapply IH; eassumption.
Qed.

Lemma uf_state_complete : forall log h, updates_follow h log = true -> exists h', uf_state h log = Some h'.
Proof.
  induction log as [|e log IH]; intros h Hw; simpl in *; eauto.
  destruct e as [w m | m c | | c | w c | w c | | w m | | ]; destruct h as [m'|]; simpl in *;
    try (apply IH; assumption); try discriminate.
  - destruct (negb (updatable m')); simpl in *; try discriminate; apply IH; assumption.
  - destruct (msg_eqb m m'); simpl in *; try discriminate.
    destruct (updatable m); simpl in *; try discriminate. apply IH; assumption.
  - destruct (negb (updatable m')); simpl in *; try discriminate; apply IH; assumption.
Qed.

Lemma uf_state_iff : forall log h, updates_follow h log = true <-> exists h', uf_state h log = Some h'.
Proof.
  intros log h; split; [apply uf_state_complete | intros [h' Hw]; eapply uf_state_sound; eassumption].
Qed.

Lemma uf_state_app : forall l1 l2 h,
  uf_state h (l1 ++ l2) = match uf_state h l1 with Some h' => uf_state h' l2 | None => None end.
Proof.
  induction l1 as [|e l1 IH]; intros l2 h; simpl; auto.
  destruct e as [w m | m c | | c | w c | w c | | w m | | ]; destruct h as [m'|]; simpl; auto.
  - destruct (negb (updatable m')); auto.
  - destruct (msg_eqb m m' && updatable m); auto.
  - destruct (negb (updatable m')); auto.
Qed.

Lemma uf_state_thread : forall e h, Forall thread_ev e -> uf_state h e = Some h.
Proof.
  induction e as [|x e IH]; intros h Hf; simpl; auto.
  inversion Hf as [|x' e' Hx He]; subst.
  destruct x; simpl in Hx; try contradiction; auto.
Qed.

(* ------------------------------------------------------------------ *)
(* log projections                                                     *)

Definition upd_pairs (log : list ev) : list (msg * option cmdid) :=
  flat_map (fun e => match e with EUpdate m c => [(m, c)] | _ => [] end) log.
Definition upd_msgs (log : list ev) : list msg :=
  flat_map (fun e => match e with EUpdate m _ => [m] | _ => [] end) log.
Definition upd_cmds (log : list ev) : list (option cmdid) :=
  flat_map (fun e => match e with EUpdate _ c => [c] | _ => [] end) log.

Lemma upd_pairs_fst : forall log, map fst (upd_pairs log) = upd_msgs log.
Proof.
  induction log as [|e log IH]; simpl; auto.
  unfold upd_pairs, upd_msgs in *; simpl. rewrite map_app, IH. destruct e; simpl; auto.
Qed.

Lemma upd_pairs_snd : forall log, map snd (upd_pairs log) = upd_cmds log.
Proof.
  induction log as [|e log IH]; simpl; auto.
  unfold upd_pairs, upd_cmds in *; simpl. rewrite map_app, IH. destruct e; simpl; auto.
Qed.

Lemma upd_pairs_combine : forall log, upd_pairs log = combine (upd_msgs log) (upd_cmds log).
Proof.
  induction log as [|e log IH]; simpl; auto.
  unfold upd_pairs, upd_msgs, upd_cmds in *; simpl. destruct e; simpl; auto. rewrite IH; auto.
Qed.

Lemma upd_pairs_thread : forall e, Forall thread_ev e -> upd_pairs e = [].
Proof.
  induction e as [|x e IH]; intros Hf; auto. inversion Hf as [|x' e' Hx He]; subst.
  unfold upd_pairs in *; simpl. rewrite IH by assumption. destruct x; simpl in Hx; try contradiction; auto.
Qed.

Definition is_update (e : ev) : bool := match e with EUpdate _ _ => true | _ => false end.
Definition is_recv_upd (e : ev) : bool := match e with ERecv _ m => updatable m | _ => false end.

(* the loop was left through a failing callback / an error on p.errs *)
Definition is_fail (e : ev) : bool := match e with EFail => true | _ => false end.
Definition n_fails (log : list ev) : nat := length (filter is_fail log).
Definition is_cancel (e : ev) : bool := match e with ECancel => true | _ => false end.
Definition has_cancel (log : list ev) : bool := existsb is_cancel log.

Lemma n_updates_app : forall l1 l2, n_updates (l1 ++ l2) = n_updates l1 + n_updates l2.
Proof. intros l1 l2; unfold n_updates. rewrite filter_app, app_length; auto. Qed.

Lemma n_recv_app : forall l1 l2, n_received_updatable (l1 ++ l2) = n_received_updatable l1 + n_received_updatable l2.
Proof. intros l1 l2; unfold n_received_updatable. rewrite filter_app, app_length; auto. Qed.

Lemma n_fails_app : forall l1 l2, n_fails (l1 ++ l2) = n_fails l1 + n_fails l2.
Proof. intros l1 l2; unfold n_fails. rewrite filter_app, app_length; auto. Qed.

Lemma n_updates_thread : forall e, Forall thread_ev e -> n_updates e = 0.
Proof.
  induction e as [|x e IH]; intros Hf; auto. inversion Hf as [|x' e' Hx He]; subst.
  unfold n_updates in *; simpl. destruct x; simpl in Hx; try contradiction; auto.
Qed.

Lemma n_recv_thread : forall e, Forall thread_ev e -> n_received_updatable e = 0.
Proof.
  induction e as [|x e IH]; intros Hf; auto. inversion Hf as [|x' e' Hx He]; subst.
  unfold n_received_updatable in *; simpl. destruct x; simpl in Hx; try contradiction; auto.
Qed.

Lemma n_fails_thread : forall e, Forall thread_ev e -> n_fails e = 0.
Proof.
  induction e as [|x e IH]; intros Hf; auto. inversion Hf as [|x' e' Hx He]; subst.
  unfold n_fails in *; simpl. destruct x; simpl in Hx; try contradiction; auto.
Qed.

Lemma n_fails_notin : forall l, ~ In EFail l -> n_fails l = 0.
Proof.
  induction l as [|x l IH]; intros Hn; auto.
  unfold n_fails in *; simpl. destruct x; simpl; try (apply IH; intros Hin; apply Hn; right; exact Hin).
  exfalso; apply Hn; left; reflexivity.
Qed.

Lemma recv_from_app : forall w l1 l2, recv_from w (l1 ++ l2) = recv_from w l1 ++ recv_from w l2.
Proof. intros w l1 l2; unfold recv_from. apply flat_map_app. Qed.

Lemma recv_from_thread : forall w e, Forall thread_ev e -> recv_from w e = [].
Proof.
  induction e as [|x e IH]; intros Hf; auto. inversion Hf as [|x' e' Hx He]; subst.
  unfold recv_from in *; simpl. rewrite IH by assumption. destruct x; simpl in Hx; try contradiction; auto.
Qed.

Lemma sent_from_app : forall w l1 l2, sent_from w (l1 ++ l2) = sent_from w l1 ++ sent_from w l2.
Proof. intros w l1 l2; unfold sent_from. apply flat_map_app. Qed.

Lemma sent_from_thread : forall w e, Forall thread_ev e -> sent_from w e = [].
Proof.
  induction e as [|x e IH]; intros Hf; auto. inversion Hf as [|x' e' Hx He]; subst.
  unfold sent_from in *; simpl. rewrite IH by assumption. destruct x; simpl in Hx; try contradiction; auto.
Qed.

Lemma has_cancel_app : forall l1 l2, has_cancel (l1 ++ l2) = has_cancel l1 || has_cancel l2.
Proof. intros l1 l2; unfold has_cancel. apply existsb_app. Qed.

Lemma has_cancel_thread : forall e, Forall thread_ev e -> has_cancel e = false.
Proof.
  induction e as [|x e IH]; intros Hf; auto. inversion Hf as [|x' e' Hx He]; subst.
  unfold has_cancel in *; simpl. rewrite IH by assumption. destruct x; simpl in Hx; try contradiction; auto.
Qed.

Lemma has_cancel_In : forall l, has_cancel l = true <-> In ECancel l.
Proof.
  intros l; unfold has_cancel; rewrite existsb_exists; split.
  - intros (x & Hin & Hx). destruct x; simpl in Hx; try discriminate. exact Hin.
  - intros Hin. exists ECancel; split; auto.
Qed.

Lemma has_cancel_notin : forall l, ~ In ECancel l -> has_cancel l = false.
Proof.
  intros l Hn. destruct (has_cancel l) eqn:Hc; auto. exfalso; apply Hn, has_cancel_In; exact Hc.
Qed.

(* no_drop_before_cancel over an extended log *)
Lemma ndbc_app : forall l1 l2,
  no_drop_before_cancel (l1 ++ l2) = no_drop_before_cancel l1 && (has_cancel l1 || no_drop_before_cancel l2).
Proof.
  induction l1 as [|x l1 IH]; intros l2; simpl.
  - reflexivity.
  - destruct x; simpl; auto.
Qed.

Lemma ndbc_snoc : forall l e,
  no_drop_before_cancel (l ++ [e]) =
  no_drop_before_cancel l && (has_cancel l || match e with EDrop _ _ => false | _ => true end).
Proof. intros l e; rewrite ndbc_app. destruct e; reflexivity. Qed.

Lemma ndbc_thread : forall e, Forall thread_ev e -> no_drop_before_cancel e = true.
Proof.
  induction e as [|x e IH]; intros Hf; auto. inversion Hf as [|x' e' Hx He]; subst.
  destruct x; simpl in Hx; try contradiction; simpl; auto.
Qed.

(* before the cancellation nothing is dropped: what a sender got rid of is what the loop took *)
Lemma sent_recv_eq : forall w l, no_drop_before_cancel l = true -> has_cancel l = false ->
  sent_from w l = recv_from w l.
Proof.
  induction l as [|x l IH]; intros Hn Hc; auto.
  unfold sent_from, recv_from, has_cancel in *; simpl in *.
  destruct x; simpl in *; try discriminate; try (rewrite IH by assumption; reflexivity).
Qed.

(* ------------------------------------------------------------------ *)

Section C01.
  Variable M : Type.
  Variable upd : M -> msg -> M * option cmdid.
  Variable cres : cmdid -> msg.

  (* the model is threaded through the Updates and nothing else changes it *)
  Fixpoint threaded (m : M) (us : list (M * msg * M)) (final : M) : Prop :=
    match us with
    | [] => final = m
    | (a, x, b) :: t => a = m /\ fst (upd a x) = b /\ threaded b t final
    end.

  Lemma threaded_snoc : forall us m f x,
    threaded m us f -> threaded m (us ++ [(f, x, fst (upd f x))]) (fst (upd f x)).
  Proof.
    induction us as [|[[a y] b] us IH]; intros m f x Ht; simpl in *.
    - subst; auto.
    - destruct Ht as (Ha & Hb & Ht). repeat split; auto.
  Qed.

  Lemma threaded_fold : forall us m f, threaded m us f ->
    f = fold_left (fun m x => fst (upd m x)) (map (fun u => snd (fst u)) us) m.
  Proof.
    induction us as [|[[a y] b] us IH]; intros m f Ht; simpl in *; auto.
    destruct Ht as (Ha & Hb & Ht). subst. apply IH; assumption.
  Qed.

  (* ---------------------------------------------------------------- *)
  (* what a step does, as far as C01 is concerned                      *)

  Definition not_got (p : looppc) : Prop := match p with LGot _ => False | _ => True end.
  Definition frame (s s' : cstate M) : Prop := c_model s' = c_model s /\ c_upds s' = c_upds s.

  Inductive lstep (s : cstate M) (l : label) (s' : cstate M) (e : list ev) : Prop :=
  | LSrecv : forall w m, l = LbRecv w -> c_loop s = LIdle -> offer M s w = Some m -> c_loop s' = LGot m ->
      e = [ERecv w m] -> frame s s' -> c_senders s' = c_senders (took M s w) -> lstep s l s' e
  | LSupd : forall m, l = LbProcess -> c_loop s = LGot m -> updatable m = true ->
      c_loop s' = LCmdSend (snd (upd (c_model s) m)) -> e = [EUpdate m (snd (upd (c_model s) m))] ->
      c_model s' = fst (upd (c_model s) m) ->
      c_upds s' = c_upds s ++ [(c_model s, m, fst (upd (c_model s) m))] ->
      c_senders s' = c_senders s -> lstep s l s' e
  | LSdrop : forall m, l = LbProcess -> c_loop s = LGot m -> updatable m = false -> not_got (c_loop s') ->
      (e = [] \/ e = [EExit]) -> frame s s' -> c_senders s' = c_senders s -> lstep s l s' e
  | LShand : l = LbHand -> not_got (c_loop s) -> c_loop s <> LExited -> not_got (c_loop s') ->
      (e = [] \/ exists c w, e = [EHand c; EStart w c]) -> frame s s' -> c_senders s' = c_senders s -> lstep s l s' e
  | LSview : l = LbView -> c_loop s = LView -> c_loop s' = LIdle -> e = [EView] ->
      frame s s' -> c_senders s' = c_senders s -> lstep s l s' e
  | LSexit : l = LbLoopExit -> not_got (c_loop s) -> c_loop s' = LExited -> e = [EExit] ->
      frame s s' -> c_senders s' = c_senders s -> lstep s l s' e
  | LSfail : l = LbLoopFail -> c_loop s <> LExited -> c_loop s' = LExited -> e = [EFail; EExit] ->
      frame s s' -> c_senders s' = c_senders s -> lstep s l s' e
  | LSgiveup : forall w m, l = LbGiveUp w -> c_ctx s = true -> offer M s w = Some m -> c_loop s' = c_loop s ->
      e = [EDrop w m] -> frame s s' -> c_senders s' = c_senders (took M s w) -> lstep s l s' e
  | LScancel : l = LbCancel -> c_ctx s = false -> c_ctx s' = true -> c_loop s' = c_loop s -> e = [ECancel] ->
      frame s s' -> c_senders s' = c_senders s -> lstep s l s' e
  | LSother : c_loop s' = c_loop s -> Forall thread_ev e -> c_ctx s' = c_ctx s ->
      frame s s' -> c_senders s' = c_senders s -> lstep s l s' e.

  Ltac cases Hst :=
    destruct Hst as [w m Hl Hp Ho Hp' He Hfr Hs | m Hl Hp Hu Hp' He Hm' Hu' Hs | m Hl Hp Hu Hp' He Hfr Hs
                    | Hl Hp Hx Hp' He Hfr Hs | Hl Hp Hp' He Hfr Hs | Hl Hp Hp' He Hfr Hs
                    | Hl Hx Hp' He Hfr Hs | w m Hl Hc Ho Hp' He Hfr Hs | Hl Hc Hc' Hp' He Hfr Hs
                    | Hp' He Hc Hfr Hs].

  Lemma took_frame : forall s w,
    c_log (took M s w) = c_log s /\ c_model (took M s w) = c_model s /\
    c_upds (took M s w) = c_upds s /\ c_loop (took M s w) = c_loop s.
  Proof.
    intros s w; destruct w; unfold took;
      repeat match goal with |- context[match ?x with _ => _ end] => destruct x end;
      simpl; rewrite ?app_nil_r; auto.
  Qed.

  Lemma took_ctx : forall s w, c_ctx (took M s w) = c_ctx s.
  Proof.
    intros s w; destruct w; unfold took;
      repeat match goal with |- context[match ?x with _ => _ end] => destruct x end;
      simpl; auto.
  Qed.

  Lemma took_senders_other : forall s w, (forall i, w <> WSender i) -> c_senders (took M s w) = c_senders s.
  Proof.
    intros s w Hw; destruct w as [i | j | k | k j]; [exfalso; eapply Hw; reflexivity | | |]; unfold took;
      repeat match goal with |- context[match ?x with _ => _ end] => destruct x end; simpl; auto.
  Qed.

  Lemma took_senders_sender : forall s i m, offer M s (WSender i) = Some m ->
    exists rest, nth_error (c_senders s) i = Some (m :: rest) /\
                 c_senders (took M s (WSender i)) = set_nth (c_senders s) i rest.
  Proof.
    intros s i m Ho; unfold offer, took in *.
    destruct (nth_error (c_senders s) i) as [[|x rest]|]; try discriminate.
    inversion Ho; subst. exists rest; split; auto.
  Qed.

  Ltac brk H :=
    repeat match type of H with
           | context[match ?x with _ => _ end] => destruct x eqn:?; try discriminate
           end.

  Ltac other_step :=
    eexists; split; [simpl; reflexivity |
      apply LSother; [reflexivity | repeat constructor; simpl; auto | reflexivity | split; reflexivity | reflexivity]].

  Lemma step_lstep : forall s l s', step M upd cres s l = Some s' ->
    exists e, c_log s' = c_log s ++ e /\ lstep s l s' e.
  Proof.
    intros s l s' H; destruct l as [w | | | | j | k | k | k j | | | | w | | | ]; unfold step in H.
    - (* LbRecv *)
      destruct (c_loop s) eqn:Hl; try discriminate.
      destruct (offer M s w) as [m|] eqn:Ho; try discriminate.
      inversion H; subst; clear H.
      destruct (took_frame s w) as (Hlog & Hm & Hu & Hlp).
      exists [ERecv w m]; split; [simpl; rewrite Hlog; reflexivity|].
      eapply LSrecv; eauto; simpl; unfold frame; auto.
    - (* LbProcess *)
      destruct (c_loop s) as [|m| | | |] eqn:Hl; try discriminate.
      destruct m as [| t | | cs | cs].
      + inversion H; subst; clear H. exists []; split; [reflexivity|].
        eapply LSdrop with (m := MNil); simpl; unfold frame; auto.
      + destruct (upd (c_model s) (MUser t)) as [m' c] eqn:Hu. inversion H; subst; clear H.
        exists [EUpdate (MUser t) c]; split; [reflexivity|].
        eapply LSupd with (m := MUser t); simpl; rewrite ?Hu; simpl; auto.
      + inversion H; subst; clear H. exists [EExit]; split; [reflexivity|].
        eapply LSdrop with (m := MQuit); simpl; unfold frame; auto.
      + inversion H; subst; clear H. exists []; split; [reflexivity|].
        eapply LSdrop with (m := MBatch cs); simpl; unfold frame; auto.
      + destruct (upd (c_model s) (MSeq cs)) as [m' c] eqn:Hu. inversion H; subst; clear H.
        exists [EUpdate (MSeq cs) c]; split; [simpl; rewrite app_nil_r; reflexivity|].
        eapply LSupd with (m := MSeq cs); simpl; rewrite ?Hu; simpl; auto.
    - (* LbHand *)
      brk H; inversion H; subst; clear H;
        (eexists; split; [simpl; rewrite <- ?app_assoc; simpl; reflexivity |
           apply LShand; simpl; unfold frame; auto;
           try (match goal with Hl : c_loop s = _ |- _ => rewrite Hl; simpl; auto; try discriminate end); eauto]).
    - (* LbView *)
      brk H; inversion H; subst; clear H.
      exists [EView]; split; [reflexivity|]. apply LSview; simpl; unfold frame; auto.
    - (* LbCmdFinish *) brk H; inversion H; subst; clear H; other_step.
    - (* LbSeqStep *) brk H; inversion H; subst; clear H; other_step.
    - (* LbSeqFinish *)
      brk H; inversion H; subst; clear H; other_step.
      apply thread_ev_starts with (f := fun jc => WGrp k (fst jc)).
    - (* LbGrpFinish *) brk H; inversion H; subst; clear H; other_step.
    - (* LbCancel *)
      brk H; inversion H; subst; clear H.
      exists [ECancel]; split; [reflexivity|].
      apply LScancel; simpl; unfold frame; auto.
    - (* LbDispExit *)
      brk H; inversion H; subst; clear H.
      exists []; split; [simpl; rewrite app_nil_r; reflexivity|].
      apply LSother; [reflexivity | constructor | simpl | split; reflexivity | reflexivity].
      match goal with Hb : _ && _ = true |- _ => apply andb_prop in Hb; destruct Hb as (Hb & _); rewrite Hb; reflexivity end.
    - (* LbLoopExit *)
      brk H; inversion H; subst; clear H;
        (exists [EExit]; split; [reflexivity|]; apply LSexit; simpl; unfold frame; auto;
         match goal with Hl : c_loop s = _ |- _ => rewrite Hl; simpl; auto end).
    - (* LbGiveUp *)
      destruct (c_ctx s) eqn:Hc; try discriminate.
      destruct (offer M s w) as [m|] eqn:Ho; try discriminate.
      inversion H; subst; clear H.
      destruct (took_frame s w) as (Hlog & Hm & Hu & Hlp).
      exists [EDrop w m]; split; [simpl; rewrite Hlog; reflexivity|].
      eapply LSgiveup; eauto; simpl; unfold frame; auto.
    - (* LbHandInit *) brk H; inversion H; subst; clear H; other_step.
    - (* LbIfwGiveUp *)
      brk H; inversion H; subst; clear H.
      exists []; split; [simpl; rewrite app_nil_r; reflexivity|].
      apply LSother; [reflexivity | constructor | simpl; congruence | split; reflexivity | reflexivity].
    - (* LbLoopFail *)
      brk H; inversion H; subst; clear H;
        (exists [EFail; EExit]; split; [reflexivity|]; apply LSfail; simpl; unfold frame; auto;
         match goal with Hl : c_loop s = _ |- _ => rewrite Hl; discriminate end).
  Qed.

  (* only LbCancel changes the cancellation flag *)
  Lemma step_ctx : forall s l s', step M upd cres s l = Some s' -> c_ctx s' = c_ctx s \/ l = LbCancel.
  Proof.
    intros s l s' H; destruct l as [w | | | | j | k | k | k j | | | | w | | | ]; unfold step in H;
      try (right; reflexivity); left;
      brk H; inversion H; subst; clear H; simpl; rewrite ?took_ctx; auto; try congruence.
    match goal with Hb : _ && _ = true |- _ => apply andb_prop in Hb; destruct Hb as (Hb & _); rewrite Hb; reflexivity end.
  Qed.

  (* ---------------------------------------------------------------- *)
  (* 6. Update and View are called from the event loop's own steps      *)
  (* The callbacks are program counters of the single event-loop thread:
     an EUpdate can only be appended by LbProcess (from LGot), an EView
     only by LbView (from LView); no other thread's label produces them
     (the new labels LbGiveUp, LbHandInit, LbIfwGiveUp, LbLoopFail and
     LbCancel append EDrop / EHand EStart / nothing / EFail EExit /
     ECancel).
     This is a statement about the MODEL's structure (one thread owns
     Update/View); it cannot exhibit a Go data race - the model has no
     shared memory that two goroutines could touch unsynchronised. *)

  Ltac noin :=
    simpl; intros;
    repeat match goal with
           | Hor : _ \/ _ |- _ => destruct Hor
           | Hf : False |- _ => contradiction
           | Heq : @eq ev _ _ |- _ => discriminate Heq
           end.

  Lemma single_loop : forall s l s', step M upd cres s l = Some s' ->
    exists e, c_log s' = c_log s ++ e /\
      (forall m c, In (EUpdate m c) e ->
         l = LbProcess /\ c_loop s = LGot m /\ updatable m = true /\ c = snd (upd (c_model s) m) /\
         c_model s' = fst (upd (c_model s) m) /\ e = [EUpdate m c]) /\
      (In EView e -> l = LbView /\ c_loop s = LView /\ e = [EView]) /\
      ((forall m c, ~ In (EUpdate m c) e) -> c_model s' = c_model s /\ c_upds s' = c_upds s).
  Proof.
    intros s l s' H. destruct (step_lstep _ _ _ H) as (e & Hlog & Hst).
    exists e; split; auto.
    assert (Hth : forall x, Forall thread_ev e -> In x e -> thread_ev x)
      by (intros x Hf Hin; rewrite Forall_forall in Hf; auto).
    cases Hst.
    - subst e; split; [|split]; [noin | noin | intros _; exact Hfr].
    - subst e; split; [|split].
      + intros m1 c1 [Hin|[]]. inversion Hin; subst. repeat split; auto.
      + noin.
      + intros Hno. exfalso. eapply Hno. left; reflexivity.
    - destruct He; subst e; (split; [|split]; [noin | noin | intros _; exact Hfr]).
    - destruct He as [He | (c & w & He)]; subst e; (split; [|split]; [noin | noin | intros _; exact Hfr]).
    - subst e; split; [|split]; [noin | intros _; auto | intros _; exact Hfr].
    - subst e; split; [|split]; [noin | noin | intros _; exact Hfr].
    - subst e; split; [|split]; [noin | noin | intros _; exact Hfr].
    - subst e; split; [|split]; [noin | noin | intros _; exact Hfr].
    - subst e; split; [|split]; [noin | noin | intros _; exact Hfr].
    - split; [|split]; [| | intros _; exact Hfr].
      + intros m c Hin. exfalso. apply (Hth _ He Hin).
      + intros Hin. exfalso. apply (Hth _ He Hin).
  Qed.

  (* ---------------------------------------------------------------- *)
  (* the invariants                                                    *)

  Variable m0 : M.
  Variable init_cmd : option cmdid.
  Variable scripts : list (list msg).

  Definition pair_of (u : M * msg * M) : msg * option cmdid :=
    (snd (fst u), snd (upd (fst (fst u)) (snd (fst u)))).

  Definition held_ok (p : looppc) (h : option msg) : Prop :=
    match p with
    | LGot m => h = Some m
    | _ => match h with Some m' => updatable m' = false | None => True end
    end.

  Definition inflight (p : looppc) : nat :=
    match p with LGot m => if updatable m then 1 else 0 | _ => 0 end.

  (* counting: every updatable receipt is an Update, or the message in flight, or the one message a failing
     callback lost; the loop fails at most once, and is then exited *)
  Definition cnt_inv (s : cstate M) : Prop :=
    n_updates (c_log s) + inflight (c_loop s) <= n_received_updatable (c_log s) /\
    n_received_updatable (c_log s) <= n_updates (c_log s) + inflight (c_loop s) + n_fails (c_log s) /\
    n_fails (c_log s) <= 1 /\
    (n_fails (c_log s) = 0 \/ c_loop s = LExited).

  Definition snd_inv (s : cstate M) : Prop :=
    (forall i, sent_from (WSender i) (c_log s) ++ nth i (c_senders s) [] = nth i scripts []) /\
    length (c_senders s) = length scripts.

  Definition ctx_inv (s : cstate M) : Prop :=
    c_ctx s = has_cancel (c_log s) /\ no_drop_before_cancel (c_log s) = true.

  Record Inv (s : cstate M) : Prop := {
    inv_thr : threaded m0 (c_upds s) (c_model s);
    inv_pairs : upd_pairs (c_log s) = map pair_of (c_upds s);
    inv_uf : exists h, uf_state None (c_log s) = Some h /\ held_ok (c_loop s) h;
    inv_cnt : cnt_inv s;
    inv_snd : snd_inv s;
    inv_ctx : ctx_inv s
  }.

  Lemma Inv_init : Inv (init_state M m0 init_cmd scripts).
  Proof.
    constructor; simpl; auto.
    - exists None; split; simpl; auto.
    - unfold cnt_inv; simpl. repeat split; auto.
    - unfold snd_inv; simpl; auto.
    - unfold ctx_inv; simpl; auto.
  Qed.

  (* each component, preserved by a classified step *)

  Lemma thr_pres : forall s l s' e, lstep s l s' e ->
    threaded m0 (c_upds s) (c_model s) -> threaded m0 (c_upds s') (c_model s').
  Proof.
    intros s l s' e Hst Ht.
    cases Hst; try (destruct Hfr as (Hm1 & Hu1); rewrite Hm1, Hu1; exact Ht).
    rewrite Hm', Hu'. apply threaded_snoc; assumption.
  Qed.

  Lemma pairs_pres : forall s l s' e, lstep s l s' e -> c_log s' = c_log s ++ e ->
    upd_pairs (c_log s) = map pair_of (c_upds s) -> upd_pairs (c_log s') = map pair_of (c_upds s').
  Proof.
    intros s l s' e Hst Hlog Hp0. rewrite Hlog. unfold upd_pairs in *. rewrite flat_map_app, Hp0.
    cases Hst; try (destruct Hfr as (Hm1 & Hu1); rewrite Hu1).
    - subst e; simpl; apply app_nil_r.
    - subst e; rewrite Hu', map_app; simpl. reflexivity.
    - destruct He; subst e; simpl; apply app_nil_r.
    - destruct He as [He | (c & w & He)]; subst e; simpl; apply app_nil_r.
    - subst e; simpl; apply app_nil_r.
    - subst e; simpl; apply app_nil_r.
    - subst e; simpl; apply app_nil_r.
    - subst e; simpl; apply app_nil_r.
    - subst e; simpl; apply app_nil_r.
    - fold (upd_pairs e). rewrite (upd_pairs_thread e He). apply app_nil_r.
  Qed.

  Lemma not_got_held : forall p h, not_got p -> held_ok p h ->
    match h with Some m' => updatable m' = false | None => True end.
  Proof. intros p h Hn Hh; destruct p; simpl in *; try contradiction; auto. Qed.

  Lemma held_not_got : forall p h, not_got p ->
    match h with Some m' => updatable m' = false | None => True end -> held_ok p h.
  Proof. intros p h Hn Hh; destruct p; simpl in *; try contradiction; auto. Qed.

  Lemma uf_pres : forall s l s' e, lstep s l s' e -> c_log s' = c_log s ++ e ->
    (exists h, uf_state None (c_log s) = Some h /\ held_ok (c_loop s) h) ->
    (exists h, uf_state None (c_log s') = Some h /\ held_ok (c_loop s') h).
  Proof.
    intros s l s' e Hst Hlog (h & Hw & Hh). rewrite Hlog, uf_state_app, Hw.
    cases Hst.
    - (* recv *)
      subst e. rewrite Hp in Hh; simpl in Hh. rewrite Hp'. exists (Some m); simpl.
      destruct h as [m'|]; [rewrite Hh|]; simpl; auto.
    - (* update *)
      subst e. rewrite Hp in Hh; simpl in Hh; subst h. rewrite Hp'. exists None; simpl.
      rewrite msg_eqb_refl, Hu; simpl; auto.
    - (* a message that does not reach Update *)
      rewrite Hp in Hh; simpl in Hh; subst h.
      destruct He; subst e; simpl.
      + exists (Some m); split; auto. apply held_not_got; auto.
      + exists None; split; auto. apply held_not_got; simpl; auto.
    - (* hand-over *)
      pose proof (not_got_held _ _ Hp Hh) as Hh'.
      destruct He as [He | (c & w & He)]; subst e; simpl;
        (exists h; split; auto; apply held_not_got; auto).
    - (* view *)
      subst e. rewrite Hp in Hh; simpl in Hh. rewrite Hp'. exists None; simpl.
      destruct h as [m'|]; [rewrite Hh|]; simpl; auto.
    - (* loop exit *)
      subst e. rewrite Hp'. exists None; simpl; auto.
    - (* loop failure: the held message, if any, is lost *)
      subst e. rewrite Hp'. exists None; simpl; auto.
    - (* a Send gives up *)
      subst e. rewrite Hp'. exists h; simpl; auto.
    - (* cancellation *)
      subst e. rewrite Hp'. exists h; simpl; auto.
    - (* other goroutines *)
      rewrite (uf_state_thread e h He). rewrite Hp'. exists h; auto.
  Qed.

  Lemma inflight_not_got : forall p, not_got p -> inflight p = 0.
  Proof. intros p Hn; destruct p; simpl in *; try contradiction; auto. Qed.

  Lemma cnt_pres : forall s l s' e, lstep s l s' e -> c_log s' = c_log s ++ e -> cnt_inv s -> cnt_inv s'.
  Proof.
    intros s l s' e Hst Hlog (H1 & H2 & H3 & H4). unfold cnt_inv.
    rewrite Hlog, n_recv_app, n_updates_app, n_fails_app.
    cases Hst.
    - (* recv *)
      subst e. rewrite Hp in *. rewrite Hp'. destruct H4 as [H4|H4]; [|discriminate H4].
      unfold n_received_updatable, n_updates, n_fails in *; simpl in *.
      destruct (updatable m); simpl; repeat split; try lia; left; lia.
    - (* update *)
      subst e. rewrite Hp in *. rewrite Hp'. destruct H4 as [H4|H4]; [|discriminate H4].
      unfold n_received_updatable, n_updates, n_fails in *; simpl in *. rewrite Hu in *.
      simpl; repeat split; try lia; left; lia.
    - (* a message that does not reach Update *)
      rewrite Hp in *. rewrite (inflight_not_got _ Hp'). destruct H4 as [H4|H4]; [|discriminate H4].
      simpl in *. rewrite Hu in *.
      destruct He; subst e; unfold n_received_updatable, n_updates, n_fails in *; simpl in *;
        repeat split; try lia; left; lia.
    - (* hand-over *)
      rewrite (inflight_not_got _ Hp) in *. rewrite (inflight_not_got _ Hp').
      destruct H4 as [H4|H4]; [|contradiction].
      destruct He as [He | (c & w & He)]; subst e; unfold n_received_updatable, n_updates, n_fails in *; simpl in *;
        repeat split; try lia; left; lia.
    - (* view *)
      subst e. rewrite Hp in *. rewrite Hp'. destruct H4 as [H4|H4]; [|discriminate H4].
      unfold n_received_updatable, n_updates, n_fails in *; simpl in *.
      repeat split; try lia; left; lia.
    - (* loop exit *)
      subst e. rewrite (inflight_not_got _ Hp) in *. rewrite Hp'.
      unfold n_received_updatable, n_updates, n_fails in *; simpl in *.
      repeat split; try lia; right; reflexivity.
    - (* loop failure *)
      subst e. rewrite Hp'. destruct H4 as [H4|H4]; [|contradiction].
      assert (Hi : inflight (c_loop s) <= 1) by (destruct (c_loop s) as [|x| | | |]; simpl; try lia; destruct (updatable x); lia).
      unfold n_received_updatable, n_updates, n_fails in *; simpl in *.
      repeat split; try lia; right; reflexivity.
    - (* a Send gives up *)
      subst e. rewrite Hp'.
      unfold n_received_updatable, n_updates, n_fails in *; simpl in *.
      repeat split; try lia. destruct H4 as [H4|H4]; [left; lia | right; exact H4].
    - (* cancellation *)
      subst e. rewrite Hp'.
      unfold n_received_updatable, n_updates, n_fails in *; simpl in *.
      repeat split; try lia. destruct H4 as [H4|H4]; [left; lia | right; exact H4].
    - (* other goroutines *)
      rewrite (n_recv_thread e He), (n_updates_thread e He), (n_fails_thread e He). rewrite Hp'.
      repeat split; try lia. destruct H4 as [H4|H4]; [left; lia | right; exact H4].
  Qed.

  Lemma who_eqb_sender : forall i j, who_eqb (WSender i) (WSender j) = Nat.eqb i j.
  Proof. reflexivity. Qed.

  (* a step that neither makes a scripted sender advance nor logs a receipt / drop of one *)
  Lemma snd_quiet : forall s s' e, c_log s' = c_log s ++ e ->
    (forall i, sent_from (WSender i) e = []) -> c_senders s' = c_senders s -> snd_inv s -> snd_inv s'.
  Proof.
    intros s s' e Hlog Hnil Hs (Hi & Hlen). unfold snd_inv. rewrite Hs; split; auto.
    intros i. rewrite Hlog, sent_from_app, Hnil, app_nil_r. apply Hi.
  Qed.

  (* w's Send completes: taken by the loop, or given up *)
  Lemma snd_took : forall s s' w m e, c_log s' = c_log s ++ e -> offer M s w = Some m ->
    c_senders s' = c_senders (took M s w) ->
    (forall i, sent_from (WSender i) e = if who_eqb (WSender i) w then [m] else []) ->
    snd_inv s -> snd_inv s'.
  Proof.
    intros s s' w m e Hlog Ho Hs He HI.
    destruct w as [j | j | k | k j];
      try (apply snd_quiet with (s := s) (e := e);
           [exact Hlog | intros i; rewrite He; reflexivity
            | rewrite Hs; apply took_senders_other; intros i; discriminate | exact HI]).
    destruct HI as (Hi & Hlen).
    destruct (took_senders_sender _ _ _ Ho) as (rest & Hn & Hs2). unfold snd_inv. rewrite Hs, Hs2.
    split; [|rewrite set_nth_length; exact Hlen].
    intros i. rewrite Hlog, sent_from_app, He, who_eqb_sender.
    destruct (Nat.eqb i j) eqn:Hij.
    - apply Nat.eqb_eq in Hij; subst i.
      rewrite nth_set_nth_eq by (eapply nth_error_lt; eassumption).
      rewrite <- (Hi j). rewrite (nth_error_nth _ _ [] Hn). rewrite <- app_assoc. reflexivity.
    - apply Nat.eqb_neq in Hij. rewrite nth_set_nth_neq by assumption. rewrite app_nil_r. apply Hi.
  Qed.

  Lemma snd_pres : forall s l s' e, lstep s l s' e -> c_log s' = c_log s ++ e -> snd_inv s -> snd_inv s'.
  Proof.
    intros s l s' e Hst Hlog HI.
    cases Hst;
      try (apply snd_quiet with (s := s) (e := e); auto; subst e; reflexivity);
      try (apply snd_quiet with (s := s) (e := e); auto; destruct He; subst e; reflexivity).
    - (* recv *)
      apply snd_took with (s := s) (w := w) (m := m) (e := e); auto.
      intros i; subst e; unfold sent_from; simpl; apply app_nil_r.
    - (* hand-over *)
      apply snd_quiet with (s := s) (e := e); auto; destruct He as [He | (c & w & He)]; subst e; reflexivity.
    - (* a Send gives up *)
      apply snd_took with (s := s) (w := w) (m := m) (e := e); auto.
      intros i; subst e; unfold sent_from; simpl; apply app_nil_r.
    - (* other goroutines *)
      apply snd_quiet with (s := s) (e := e); auto; intros; apply sent_from_thread; assumption.
  Qed.

  (* the cancellation flag is "ECancel is in the log"; a Send gives up only when it is set *)
  Lemma ctx_pres : forall s l s' e, lstep s l s' e -> step M upd cres s l = Some s' ->
    c_log s' = c_log s ++ e -> ctx_inv s -> ctx_inv s'.
  Proof.
    intros s l s' e Hst Hstep Hlog (Hc0 & Hn0). unfold ctx_inv.
    rewrite Hlog, has_cancel_app, ndbc_app, Hn0, <- Hc0. simpl.
    assert (Hquiet : has_cancel e = false -> no_drop_before_cancel e = true -> c_ctx s' = c_ctx s ->
                     c_ctx s' = c_ctx s || has_cancel e /\ c_ctx s || no_drop_before_cancel e = true).
    { intros Ha Hb Hc'. rewrite Ha, Hb, Hc', orb_false_r, orb_true_r. auto. }
    assert (Hsame : l <> LbCancel -> c_ctx s' = c_ctx s).
    { intros Hne. destruct (step_ctx _ _ _ Hstep) as [Hx|Hx]; [exact Hx | contradiction]. }
    cases Hst;
      try (apply Hquiet; [subst e; reflexivity | subst e; reflexivity | apply Hsame; rewrite Hl; discriminate]);
      try (apply Hquiet; [destruct He; subst e; reflexivity | destruct He; subst e; reflexivity
                          | apply Hsame; rewrite Hl; discriminate]).
    - (* hand-over *)
      apply Hquiet; [destruct He as [He | (c & w & He)]; subst e; reflexivity
                    | destruct He as [He | (c & w & He)]; subst e; reflexivity
                    | apply Hsame; rewrite Hl; discriminate].
    - (* a Send gives up: only under a cancelled context *)
      subst e. rewrite (Hsame ltac:(rewrite Hl; discriminate)), Hc. simpl. auto.
    - (* cancellation *)
      subst e. rewrite Hc', Hc. simpl. auto.
    - (* other goroutines *)
      apply Hquiet; [apply has_cancel_thread; assumption | apply ndbc_thread; assumption | exact Hc].
  Qed.

  Lemma Inv_step : forall s l s', Inv s -> step M upd cres s l = Some s' -> Inv s'.
  Proof.
    intros s l s' HI Hs. destruct (step_lstep _ _ _ Hs) as (e & Hlog & Hst).
    destruct HI as [H1 H2 H3 H4 H5 H6].
    constructor.
    - eapply thr_pres; eassumption.
    - eapply pairs_pres; eassumption.
    - eapply uf_pres; eassumption.
    - eapply cnt_pres; eassumption.
    - eapply snd_pres; eassumption.
    - eapply ctx_pres; eassumption.
  Qed.

  Lemma Inv_fold : forall sched s, Inv s -> Inv (fold_left (run1 M upd cres) sched s).
  Proof.
    induction sched as [|l sched IH]; intros s HI; simpl; auto.
    apply IH. unfold run1. destruct (step M upd cres s l) as [s'|] eqn:Hs; auto.
    eapply Inv_step; eassumption.
  Qed.

  Definition reach (s : cstate M) : Prop :=
    exists sched, s = run M upd cres (init_state M m0 init_cmd scripts) sched.

  Lemma Inv_run : forall sched, Inv (run M upd cres (init_state M m0 init_cmd scripts) sched).
  Proof. intros sched; unfold run. apply Inv_fold, Inv_init. Qed.

  Lemma Inv_reach : forall s, reach s -> Inv s.
  Proof. intros s (sched & Hs); subst; apply Inv_run. Qed.

  (* ---------------------------------------------------------------- *)
  (* the C01 statements                                                *)

  Local Notation final sched := (run M upd cres (init_state M m0 init_cmd scripts) sched).

  (* 1 *)
  Lemma model_threaded : forall sched, let s := final sched in
    threaded m0 (c_upds s) (c_model s).
  Proof. intros sched s. apply (inv_thr _ (Inv_run sched)). Qed.

  Lemma model_fold : forall sched, let s := final sched in
    c_model s = fold_left (fun m x => fst (upd m x)) (map (fun u => snd (fst u)) (c_upds s)) m0.
  Proof. intros sched s. apply threaded_fold. apply model_threaded. Qed.

  (* 2 *)
  Lemma upds_match_log_pairs : forall sched, let s := final sched in
    flat_map (fun e => match e with EUpdate m c => [(m, c)] | _ => [] end) (c_log s) =
    map (fun u => (snd (fst u), snd (upd (fst (fst u)) (snd (fst u))))) (c_upds s).
  Proof. intros sched s. apply (inv_pairs _ (Inv_run sched)). Qed.

  Lemma upds_match_log : forall sched, let s := final sched in
    map (fun u => snd (fst u)) (c_upds s) =
      flat_map (fun e => match e with EUpdate m _ => [m] | _ => [] end) (c_log s) /\
    map (fun u => snd (upd (fst (fst u)) (snd (fst u)))) (c_upds s) =
      flat_map (fun e => match e with EUpdate _ c => [c] | _ => [] end) (c_log s) /\
    flat_map (fun e => match e with EUpdate m c => [(m, c)] | _ => [] end) (c_log s) =
      combine (map (fun u => snd (fst u)) (c_upds s))
              (map (fun u => snd (upd (fst (fst u)) (snd (fst u)))) (c_upds s)).
  Proof.
    intros sched s. pose proof (inv_pairs _ (Inv_run sched)) as Hp. fold s in Hp.
    assert (H1 : map (fun u => snd (fst u)) (c_upds s) = upd_msgs (c_log s)).
    { rewrite <- upd_pairs_fst, Hp, map_map. reflexivity. }
    assert (H2 : map (fun u => snd (upd (fst (fst u)) (snd (fst u)))) (c_upds s) = upd_cmds (c_log s)).
    { rewrite <- upd_pairs_snd, Hp, map_map. reflexivity. }
    split; [exact H1 | split; [exact H2|]].
    rewrite H1, H2. apply upd_pairs_combine.
  Qed.

  (* 3 *)
  Lemma updates_are_receipts : forall sched, let s := final sched in updates_ok (c_log s) = true.
  Proof.
    intros sched s. destruct (inv_uf _ (Inv_run sched)) as (h & Hw & _).
    unfold updates_ok. eapply uf_state_sound; eassumption.
  Qed.

  (* and the walk ends holding exactly the message the loop holds *)
  Lemma updates_walk_end : forall sched, let s := final sched in
    exists h, uf_state None (c_log s) = Some h /\
      match c_loop s with
      | LGot m => h = Some m
      | _ => match h with Some m' => updatable m' = false | None => True end
      end.
  Proof. intros sched s. apply (inv_uf _ (Inv_run sched)). Qed.

  (* 4 *)
  (* the tightest form: a received updatable message is an Update, or the one in flight, or the one lost by the
     (at most one) failure of the loop, after which the loop is exited *)
  Lemma lossless_bounds : forall sched, let s := final sched in
    let inflight := match c_loop s with LGot m => if updatable m then 1 else 0 | _ => 0 end in
    let fails := length (filter (fun e => match e with EFail => true | _ => false end) (c_log s)) in
    n_updates (c_log s) + inflight <= n_received_updatable (c_log s) /\
    n_received_updatable (c_log s) <= n_updates (c_log s) + inflight + fails /\
    fails <= 1 /\
    (fails = 0 \/ c_loop s = LExited).
  Proof. intros sched s. apply (inv_cnt _ (Inv_run sched)). Qed.

  Lemma lossless_le : forall sched, let s := final sched in
    n_updates (c_log s) <= n_received_updatable (c_log s) /\
    n_received_updatable (c_log s) <= n_updates (c_log s) + 1.
  Proof.
    intros sched s. destruct (lossless_bounds sched) as (H1 & H2 & H3 & H4). fold s in H1, H2, H3, H4.
    split; [lia|]. destruct H4 as [H4|H4].
    - assert (Hi : match c_loop s with LGot m => if updatable m then 1 else 0 | _ => 0 end <= 1)
        by (destruct (c_loop s) as [|x| | | |]; try lia; destruct (updatable x); lia).
      lia.
    - rewrite H4 in H2. lia.
  Qed.

  Lemma lossless_general : forall sched, let s := final sched in
    ~ In EFail (c_log s) ->
    n_received_updatable (c_log s) =
    n_updates (c_log s) + (match c_loop s with LGot m => if updatable m then 1 else 0 | _ => 0 end).
  Proof.
    intros sched s Hn. destruct (lossless_bounds sched) as (H1 & H2 & _). fold s in H1, H2.
    pose proof (n_fails_notin _ Hn) as Hf. unfold n_fails, is_fail in Hf. rewrite Hf in H2. lia.
  Qed.

  Lemma lossless : forall sched, let s := final sched in
    ~ In EFail (c_log s) ->
    match c_loop s with LGot _ => False | _ => True end ->
    n_updates (c_log s) = n_received_updatable (c_log s).
  Proof.
    intros sched s Hf Hn. pose proof (lossless_general sched Hf) as Hc. fold s in Hc. simpl in Hc.
    destruct (c_loop s); try contradiction; lia.
  Qed.

  (* 5 *)
  (* the Prop form: got-rid-of-by-i (taken by the loop or dropped) ++ still-held-by-i = script i, for every i *)
  Lemma per_sender_eq : forall sched i, let s := final sched in
    sent_from (WSender i) (c_log s) ++ nth i (c_senders s) [] = nth i scripts [].
  Proof. intros sched i s. apply (inv_snd _ (Inv_run sched)). Qed.

  Lemma ctx_is_cancel : forall sched, let s := final sched in
    c_ctx s = true <-> In ECancel (c_log s).
  Proof.
    intros sched s. destruct (inv_ctx _ (Inv_run sched)) as (Hc & _). fold s in Hc.
    rewrite Hc. apply has_cancel_In.
  Qed.

  Lemma per_sender : forall sched, let s := final sched in
    per_sender_ok scripts (c_senders s) (c_log s) = true /\ length (c_senders s) = length scripts /\
    no_drop_before_cancel (c_log s) = true.
  Proof.
    intros sched s. pose proof (Inv_run sched) as HI. fold s in HI.
    split; [|split; [apply (inv_snd _ HI) | apply (inv_ctx _ HI)]].
    unfold per_sender_ok. apply forallb_forall. intros i _.
    rewrite (proj1 (inv_snd _ HI)). apply list_eqb_refl. apply msg_eqb_refl.
  Qed.

  (* until the context is cancelled nothing is dropped *)
  Lemma per_sender_prefix_eq : forall sched, let s := final sched in
    ~ In ECancel (c_log s) ->
    forall i, recv_from (WSender i) (c_log s) ++ nth i (c_senders s) [] = nth i scripts [].
  Proof.
    intros sched s Hn i. pose proof (Inv_run sched) as HI. fold s in HI.
    rewrite <- (sent_recv_eq (WSender i) (c_log s)).
    - apply (proj1 (inv_snd _ HI)).
    - apply (inv_ctx _ HI).
    - apply has_cancel_notin; exact Hn.
  Qed.

  Lemma per_sender_prefix : forall sched, let s := final sched in
    ~ In ECancel (c_log s) ->
    forall i, list_eqb msg_eqb (recv_from (WSender i) (c_log s) ++ nth i (c_senders s) []) (nth i scripts []) = true.
  Proof.
    intros sched s Hn i. subst s. rewrite (per_sender_prefix_eq sched Hn i). apply list_eqb_refl. apply msg_eqb_refl.
  Qed.

End C01.
