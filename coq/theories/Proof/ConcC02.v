(* C02: "Every command runs exactly once, off the event loop; its result
   arrives once" proved of the interleaving model Model/Conc.v for EVERY
   schedule.

   Method: `step_eff` abstracts one step of the transition system to its effect
   on the components C02 talks about (loop pc, dispatcher goroutines, Init
   forwarder, cancellation flag, ghost log): the relation `eff`, one
   constructor per kind of step.  Five invariants over these components are
   shown preserved by `eff`:
     I_owed     counting: handed + pending(pc) + pending(forwarder) <= owed, with
                equality while the context is not cancelled and the loop runs
     I_started  starts on dispatcher goroutines = the hand-overs, numbered
     I_res      per goroutine: state of the delivered_after_end walk + what it
                got rid of (delivered or dropped)
     I_upd      only updatable messages reach Update
     I_ndc      no EDrop before the first ECancel; cancelled -> ECancel logged
   and lifted over `run` by induction on the schedule. *)
From Coq Require Import List Bool Arith Lia PeanoNat.
Import ListNotations.
From BT Require Import Model.Conc Spec.ConcSpec.

Ltac inv H := inversion H; subst; clear H.

(* ------------------------------------------------------------------ *)
(* counting / multisets                                                *)

Fixpoint cnt (x : nat) (l : list nat) : nat :=
  match l with [] => 0 | y :: t => (if Nat.eqb x y then 1 else 0) + cnt x t end.

Lemma cnt_app x a b : cnt x (a ++ b) = cnt x a + cnt x b.
Proof. induction a as [|h a IH]; simpl; [reflexivity|]. rewrite IH. lia. Qed.

Lemma cnt_nil_all l : (forall x, cnt x l = 0) -> l = [].
Proof.
  destruct l as [|n l]; [reflexivity|]. intro H. specialize (H n). simpl in H.
  rewrite Nat.eqb_refl in H. discriminate.
Qed.

Lemma cnt_single_all c l : (forall x, cnt x l = cnt x [c]) -> l = [c].
Proof.
  intro H. destruct l as [|h t].
  - specialize (H c). simpl in H. rewrite Nat.eqb_refl in H. discriminate.
  - assert (h = c) as E.
    { pose proof (H h) as Hh. simpl in Hh. rewrite Nat.eqb_refl in Hh.
      destruct (Nat.eqb h c) eqn:E; [apply Nat.eqb_eq; exact E|lia]. }
    subst h. f_equal. apply cnt_nil_all. intro x. specialize (H x). simpl in H. lia.
Qed.

Lemma cnt_In x l : 1 <= cnt x l <-> In x l.
Proof.
  induction l as [|y l IH]; simpl; [split; [lia|tauto]|].
  destruct (Nat.eqb x y) eqn:E.
  - apply Nat.eqb_eq in E. subst. split; [auto|lia].
  - apply Nat.eqb_neq in E. simpl. rewrite IH. split; [auto|]. intros [H|H]; [congruence|exact H].
Qed.

Lemma remove_one_cnt x : forall b, 1 <= cnt x b ->
  exists b', remove_one x b = Some b' /\ forall y, cnt y b = (if Nat.eqb y x then 1 else 0) + cnt y b'.
Proof.
  induction b as [|a b IH]; simpl; intro H; [lia|].
  destruct (Nat.eqb x a) eqn:E.
  - exists b. split; [reflexivity|]. intro y. apply Nat.eqb_eq in E. subst. reflexivity.
  - destruct IH as [b' [Hr Hc]]; [lia|]. rewrite Hr. exists (a :: b'). split; [reflexivity|].
    intro y. simpl. rewrite Hc. lia.
Qed.

Lemma sub_multiset_cnt : forall a b, (forall x, cnt x a <= cnt x b) ->
  exists r, sub_multiset a b = Some r /\ forall x, cnt x b = cnt x a + cnt x r.
Proof.
  induction a as [|h a IH]; simpl; intros b H.
  - exists b. split; [reflexivity|]. intro; reflexivity.
  - destruct (remove_one_cnt h b) as [b' [Hr Hc]].
    { specialize (H h). rewrite Nat.eqb_refl in H. lia. }
    rewrite Hr. destruct (IH b') as [r [Hs Hcr]].
    { intro x. specialize (H x). specialize (Hc x). rewrite Hc in H. destruct (Nat.eqb x h); lia. }
    exists r. split; [exact Hs|]. intro x. rewrite Hc, Hcr. lia.
Qed.

(* ------------------------------------------------------------------ *)
(* reflexivity of the boolean equalities                               *)

Lemma ocmd_eqb_refl a : ocmd_eqb a a = true.
Proof. destruct a; simpl; [apply Nat.eqb_refl|reflexivity]. Qed.
Lemma ocmds_eqb_refl a : ocmds_eqb a a = true.
Proof. induction a as [|x a IH]; simpl; [reflexivity|]. rewrite ocmd_eqb_refl, IH. reflexivity. Qed.
Lemma msg_eqb_refl m : msg_eqb m m = true.
Proof. destruct m; simpl; auto using Nat.eqb_refl, ocmds_eqb_refl. Qed.
Lemma list_eqb_refl {A} (e : A -> A -> bool) : (forall x, e x x = true) -> forall l, list_eqb e l l = true.
Proof. intros He l. induction l as [|x l IH]; simpl; [reflexivity|]. rewrite He, IH. reflexivity. Qed.

(* ------------------------------------------------------------------ *)
(* list helpers: set_nth, snoc                                         *)

Lemma set_nth_length {A} (x : A) : forall l n, length (set_nth l n x) = length l.
Proof. induction l as [|h l IH]; intros [|n]; simpl; auto. Qed.

Lemma nth_error_set_nth_eq {A} (x : A) : forall l n y, nth_error l n = Some y -> nth_error (set_nth l n x) n = Some x.
Proof. induction l as [|h l IH]; intros [|n] y; simpl; try discriminate; eauto. Qed.

Lemma nth_error_set_nth_neq {A} (x : A) : forall l n n', n <> n' -> nth_error (set_nth l n x) n' = nth_error l n'.
Proof.
  induction l as [|h l IH]; intros [|n] [|n'] Hn; simpl; try reflexivity; try congruence.
  apply IH. congruence.
Qed.

Lemma map_set_nth {A B} (f : A -> B) (x : A) : forall l n y, nth_error l n = Some y -> f x = f y -> map f (set_nth l n x) = map f l.
Proof.
  induction l as [|h l IH]; intros [|n] y; simpl; try discriminate.
  - intros E Hf. inv E. rewrite Hf. reflexivity.
  - intros E Hf. rewrite (IH n y E Hf). reflexivity.
Qed.

Lemma combine_seq_snoc {A} (x : A) : forall l a,
  combine (seq a (length (l ++ [x]))) (l ++ [x]) = combine (seq a (length l)) l ++ [(a + length l, x)].
Proof.
  induction l as [|h l IH]; intro a; simpl.
  - rewrite Nat.add_0_r. reflexivity.
  - rewrite IH. rewrite Nat.add_succ_r. reflexivity.
Qed.

(* ------------------------------------------------------------------ *)
(* log projections: append lemmas                                      *)

Lemma hands_app a b : hands (a ++ b) = hands a ++ hands b.
Proof. apply flat_map_app. Qed.
Lemma returned_app a b : returned (a ++ b) = returned a ++ returned b.
Proof. apply flat_map_app. Qed.
Lemma starts_app a b : starts_of_cmds (a ++ b) = starts_of_cmds a ++ starts_of_cmds b.
Proof. apply flat_map_app. Qed.
Lemma recv_from_app w a b : recv_from w (a ++ b) = recv_from w a ++ recv_from w b.
Proof. apply flat_map_app. Qed.
Lemma sent_from_app w a b : sent_from w (a ++ b) = sent_from w a ++ sent_from w b.
Proof. apply flat_map_app. Qed.

Lemma recv_le_sent w : forall log, length (recv_from w log) <= length (sent_from w log).
Proof.
  induction log as [|e log IH]; simpl; [lia|]. rewrite !app_length.
  destruct e; simpl; try lia; destruct (who_eqb w w0); simpl; lia.
Qed.

(* until the context is cancelled nothing is dropped: what a sender got rid of is what the loop took *)
Lemma sent_eq_recv w : forall log, no_drop_before_cancel log = true -> ~ In ECancel log ->
  sent_from w log = recv_from w log.
Proof.
  induction log as [|e log IH]; simpl; intros H Hn; [reflexivity|].
  destruct e; simpl in *; try discriminate; try (apply IH; tauto).
  f_equal. apply IH; tauto.
Qed.

Definition nodrop (e : ev) : bool := match e with EDrop _ _ => false | _ => true end.

Lemma nodrop_ndc : forall es, forallb nodrop es = true -> no_drop_before_cancel es = true.
Proof.
  induction es as [|e es IH]; simpl; intro H; [reflexivity|].
  apply andb_prop in H. destruct H as [H1 H2]. destruct e; try discriminate; auto.
Qed.

Lemma ndc_app_nodrop : forall log es, no_drop_before_cancel log = true -> forallb nodrop es = true ->
  no_drop_before_cancel (log ++ es) = true.
Proof.
  induction log as [|e log IH]; simpl; intros es H He; [apply nodrop_ndc; exact He|].
  destruct e; try discriminate; auto.
Qed.

Lemma ndc_app_cancelled : forall log es, no_drop_before_cancel log = true -> In ECancel log ->
  no_drop_before_cancel (log ++ es) = true.
Proof.
  induction log as [|e log IH]; simpl; intros es H Hi; [contradiction|].
  destruct Hi as [E|Hi]; [subst e; reflexivity|].
  destruct e; try discriminate; auto.
Qed.
Lemma batches_app a b : batches (a ++ b) = batches a ++ batches b.
Proof.
  induction a as [|e a IH]; simpl; [reflexivity|].
  destruct e as [w m| | | | | | | | |]; try exact IH. destruct m; try exact IH.
  rewrite IH, app_assoc. reflexivity.
Qed.

Lemma owed_app ic x log es :
  cnt x (owed ic (log ++ es)) = cnt x (owed ic log) + cnt x (returned es) + cnt x (batches es).
Proof. unfold owed. rewrite returned_app, batches_app, !cnt_app. lia. Qed.

(* events of sequence goroutines and their errgroup members: invisible to C02 *)
Definition quiet (e : ev) : bool :=
  match e with
  | EStart (WSeq _) _ | EStart (WGrp _ _) _ | EEnd (WSeq _) _ | EEnd (WGrp _ _) _ => true
  | _ => false
  end.

Ltac quiet_tac es :=
  let e := fresh "e" in let IH := fresh "IH" in let H := fresh "H" in
  induction es as [|e es IH]; simpl; intro H; [reflexivity|];
  apply andb_prop in H; destruct H as [H1 H2];
  destruct e as [w ?|? ?| |?|w ?|w ?| |w ?| |]; try discriminate; destruct w; try discriminate; simpl; auto.

Lemma quiet_hands es : forallb quiet es = true -> hands es = [].
Proof. quiet_tac es. Qed.
Lemma quiet_returned es : forallb quiet es = true -> returned es = [].
Proof. quiet_tac es. Qed.
Lemma quiet_batches es : forallb quiet es = true -> batches es = [].
Proof. quiet_tac es. Qed.
Lemma quiet_starts es : forallb quiet es = true -> starts_of_cmds es = [].
Proof. quiet_tac es. Qed.

Lemma quiet_nodrop es : forallb quiet es = true -> forallb nodrop es = true.
Proof.
  induction es as [|e es IH]; simpl; intro H; [reflexivity|].
  apply andb_prop in H. destruct H as [H1 H2]. rewrite (IH H2), andb_true_r.
  destruct e; try discriminate; reflexivity.
Qed.

Lemma quiet_grp_starts k (l : list (nat * cmdid)) :
  forallb quiet (map (fun jc => EStart (WGrp k (fst jc)) (snd jc)) l) = true.
Proof. induction l as [|x l IH]; simpl; auto. Qed.

(* ------------------------------------------------------------------ *)
(* the delivered_after_end walk, returning its final state              *)

Section Walk.
  Variable cres : cmdid -> msg.

  Definition dae_ev (w : who) (st : option cmdid) (e : ev) : option (option cmdid) :=
    match e with
    | EEnd w' c => if who_eqb w w' then match st with None => Some (Some c) | Some _ => None end else Some st
    | ERecv w' m | EDrop w' m =>
      if who_eqb w w' then match st with Some c => if msg_eqb m (cres c) then Some None else None | None => None end
      else Some st
    | _ => Some st
    end.
  Fixpoint dae (w : who) (st : option cmdid) (log : list ev) : option (option cmdid) :=
    match log with
    | [] => Some st
    | e :: r => match dae_ev w st e with Some st' => dae w st' r | None => None end
    end.

  Lemma dae_app w : forall a b st,
    dae w st (a ++ b) = match dae w st a with Some st' => dae w st' b | None => None end.
  Proof.
    induction a as [|e a IH]; intros b st; simpl; [reflexivity|].
    destruct (dae_ev w st e); [apply IH|reflexivity].
  Qed.

  Lemma dae_sound w : forall log st, dae w st log <> None -> delivered_after_end cres w st log = true.
  Proof.
    induction log as [|e log IH]; intros st H; simpl in *; [reflexivity|].
    destruct e as [w' m|? ?| |?|w' c|w' c| |w' m| |]; simpl in H; try (apply IH; exact H).
    - destruct (who_eqb w w'); [|apply IH; exact H].
      destruct st as [c|]; [|congruence].
      destruct (msg_eqb m (cres c)); [|congruence]. simpl. apply IH; exact H.
    - destruct (who_eqb w w'); [|apply IH; exact H].
      destruct st as [c'|]; [congruence|]. apply IH; exact H.
    - destruct (who_eqb w w'); [|apply IH; exact H].
      destruct st as [c|]; [|congruence].
      destruct (msg_eqb m (cres c)); [|congruence]. simpl. apply IH; exact H.
  Qed.

  (* events that do not concern dispatcher goroutine j *)
  Definition touch (j : nat) (e : ev) : bool :=
    match e with ERecv (WCmd j') _ | EEnd (WCmd j') _ | EDrop (WCmd j') _ => Nat.eqb j j' | _ => false end.
  Definition notouch (j : nat) (es : list ev) : bool := forallb (fun e => negb (touch j e)) es.

  Lemma notouch_dae j : forall es st, notouch j es = true -> dae (WCmd j) st es = Some st.
  Proof.
    induction es as [|e es IH]; intros st H; simpl in *; [reflexivity|].
    apply andb_prop in H. destruct H as [H1 H2].
    assert (dae_ev (WCmd j) st e = Some st) as E.
    { destruct e as [w ?|? ?| |?|w ?|w ?| |w ?| |]; simpl; try reflexivity; destruct w; simpl in *; try reflexivity;
        apply negb_true_iff in H1; rewrite H1; reflexivity. }
    rewrite E. apply IH. exact H2.
  Qed.

  Lemma notouch_sent j : forall es, notouch j es = true -> sent_from (WCmd j) es = [].
  Proof.
    induction es as [|e es IH]; intros H; simpl in *; [reflexivity|].
    apply andb_prop in H. destruct H as [H1 H2]. rewrite (IH H2), app_nil_r.
    destruct e as [w ?|? ?| |?|w ?|w ?| |w ?| |]; simpl; try reflexivity; destruct w; simpl in *; try reflexivity;
      apply negb_true_iff in H1; rewrite H1; reflexivity.
  Qed.

  Lemma quiet_notouch j es : forallb quiet es = true -> notouch j es = true.
  Proof.
    induction es as [|e es IH]; simpl; intro H; [reflexivity|].
    apply andb_prop in H. destruct H as [H1 H2]. rewrite (IH H2), andb_true_r.
    destruct e as [w ?|? ?| |?|w ?|w ?| |w ?| |]; try discriminate; destruct w; try discriminate; reflexivity.
  Qed.

  (* what the log says about dispatcher goroutine j, given its thread state *)
  Definition thr_ok (j : nat) (t : option cthread) (log : list ev) : Prop :=
    match t with
    | Some (CRunning c) => dae (WCmd j) None log = Some None /\ sent_from (WCmd j) log = []
    | Some (CSending c m) => dae (WCmd j) None log = Some (Some c) /\ sent_from (WCmd j) log = [] /\ m = cres c
    | Some (CDone c) => dae (WCmd j) None log = Some None /\ length (sent_from (WCmd j) log) = 1
    | None => dae (WCmd j) None log = Some None /\ sent_from (WCmd j) log = []
    end.

  Lemma thr_ok_frame j t log es : notouch j es = true -> thr_ok j t log -> thr_ok j t (log ++ es).
  Proof.
    intros Hn H. unfold thr_ok in *.
    destruct t as [[c|c m|c]|]; rewrite dae_app, sent_from_app, (notouch_sent _ _ Hn), app_nil_r.
    - destruct H as [Hd Hr]. rewrite Hd, notouch_dae by exact Hn. auto.
    - destruct H as [Hd [Hr Hm]]. rewrite Hd, notouch_dae by exact Hn. auto.
    - destruct H as [Hd Hr]. rewrite Hd, notouch_dae by exact Hn. auto.
    - destruct H as [Hd Hr]. rewrite Hd, notouch_dae by exact Hn. auto.
  Qed.
End Walk.

(* ------------------------------------------------------------------ *)

Definition cmd_of (t : cthread) : cmdid := match t with CRunning c | CSending c _ | CDone c => c end.

Definition loop_label (l : label) : bool := match l with LbProcess | LbHand | LbView => true | _ => false end.

Section C02.
  Variable M : Type.
  Variable upd : M -> msg -> M * option cmdid.
  Variable cres : cmdid -> msg.

  (* ---------------------------------------------------------------- *)
  (* the effect of one step on (loop pc, dispatcher goroutines, Init    *)
  (* forwarder, cancellation flag, log)                                  *)

  Inductive eff (lp : looppc) (cmds : list cthread) (ifw : option cmdid) (ctx : bool)
    : looppc -> list cthread -> option cmdid -> bool -> list ev -> Prop :=
  | eff_recv_other w m : lp = LIdle -> (forall j, w <> WCmd j) -> eff lp cmds ifw ctx (LGot m) cmds ifw ctx [ERecv w m]
  | eff_recv_cmd j c m : lp = LIdle -> nth_error cmds j = Some (CSending c m) ->
                         eff lp cmds ifw ctx (LGot m) (set_nth cmds j (CDone c)) ifw ctx [ERecv (WCmd j) m]
  | eff_nil : lp = LGot MNil -> eff lp cmds ifw ctx LIdle cmds ifw ctx []
  | eff_batch cs : lp = LGot (MBatch cs) -> eff lp cmds ifw ctx (LBatch cs) cmds ifw ctx []
  | eff_upd m c : lp = LGot m -> updatable m = true -> eff lp cmds ifw ctx (LCmdSend c) cmds ifw ctx [EUpdate m c]
  | eff_hand_none : lp = LCmdSend None -> eff lp cmds ifw ctx LView cmds ifw ctx []
  | eff_hand_some c : lp = LCmdSend (Some c) ->
                      eff lp cmds ifw ctx LView (cmds ++ [CRunning c]) ifw ctx [EHand c; EStart (WCmd (length cmds)) c]
  | eff_bend : lp = LBatch [] -> eff lp cmds ifw ctx LIdle cmds ifw ctx []
  | eff_bnone cs : lp = LBatch (None :: cs) -> eff lp cmds ifw ctx (LBatch cs) cmds ifw ctx []
  | eff_bsome c cs : lp = LBatch (Some c :: cs) ->
                     eff lp cmds ifw ctx (LBatch cs) (cmds ++ [CRunning c]) ifw ctx [EHand c; EStart (WCmd (length cmds)) c]
  | eff_view : lp = LView -> eff lp cmds ifw ctx LIdle cmds ifw ctx [EView]
  | eff_finish j c : nth_error cmds j = Some (CRunning c) ->
                     eff lp cmds ifw ctx lp (set_nth cmds j (CSending c (cres c))) ifw ctx [EEnd (WCmd j) c]
  | eff_quiet es : forallb quiet es = true -> eff lp cmds ifw ctx lp cmds ifw ctx es
  | eff_exit : eff lp cmds ifw ctx LExited cmds ifw ctx [EExit]
  | eff_fail : eff lp cmds ifw ctx LExited cmds ifw ctx [EFail; EExit]
  | eff_cancel : ctx = false -> eff lp cmds ifw ctx lp cmds ifw true [ECancel]
  | eff_drop_other w m : ctx = true -> (forall j, w <> WCmd j) -> eff lp cmds ifw ctx lp cmds ifw ctx [EDrop w m]
  | eff_drop_cmd j c m : ctx = true -> nth_error cmds j = Some (CSending c m) ->
                         eff lp cmds ifw ctx lp (set_nth cmds j (CDone c)) ifw ctx [EDrop (WCmd j) m]
  | eff_handinit c : ifw = Some c ->
                     eff lp cmds ifw ctx lp (cmds ++ [CRunning c]) None ctx [EHand c; EStart (WCmd (length cmds)) c]
  | eff_ifwgiveup c : ifw = Some c -> ctx = true -> eff lp cmds ifw ctx lp cmds None ctx [].

  Lemma step_eff s l s' : step M upd cres s l = Some s' ->
    exists es, c_log s' = c_log s ++ es /\
               eff (c_loop s) (c_cmds s) (c_ifw s) (c_ctx s) (c_loop s') (c_cmds s') (c_ifw s') (c_ctx s') es.
  Proof.
    intro H. destruct l as [w| | | |j|k|k|k j| | | |w| | |]; simpl in H.
    - (* LbRecv *)
      destruct (c_loop s) eqn:El; try discriminate.
      destruct (offer M s w) as [m|] eqn:Eo; try discriminate. inv H.
      destruct w as [i|j|k|k j]; simpl in Eo; simpl.
      + destruct (nth_error (c_senders s) i) as [[|m' r]|]; try discriminate. inv Eo. simpl.
        eexists; split; [reflexivity|]. apply eff_recv_other; [reflexivity|intros j; discriminate].
      + destruct (nth_error (c_cmds s) j) as [[c|c m'|c]|] eqn:En; try discriminate. inv Eo. simpl.
        rewrite app_nil_r. eexists; split; [reflexivity|]. apply eff_recv_cmd; [reflexivity|exact En].
      + destruct (nth_error (c_seqs s) k) as [t|]; try discriminate.
        destruct (s_phase t); try discriminate. inv Eo. simpl. rewrite app_nil_r.
        eexists; split; [reflexivity|]. apply eff_recv_other; [reflexivity|intros j; discriminate].
      + destruct (nth_error (c_seqs s) k) as [t|]; try discriminate.
        destruct (s_phase t) as [| | |c ms]; try discriminate.
        destruct (nth_error ms j) as [[c'|c' m'|c']|]; try discriminate. inv Eo. simpl. rewrite app_nil_r.
        eexists; split; [reflexivity|]. apply eff_recv_other; [reflexivity|intros j'; discriminate].
    - (* LbProcess *)
      destruct (c_loop s) as [|m| | | |] eqn:El; try discriminate.
      destruct m as [|t| |cs|cs].
      + inv H. simpl. exists []. split; [reflexivity|]. apply eff_nil. reflexivity.
      + destruct (upd (c_model s) (MUser t)) as [m' c]. inv H. simpl.
        eexists; split; [reflexivity|]. apply eff_upd; reflexivity.
      + inv H. simpl. eexists; split; [reflexivity|]. apply eff_exit.
      + inv H. simpl. exists []. split; [reflexivity|]. apply eff_batch. reflexivity.
      + destruct (upd (c_model s) (MSeq cs)) as [m' c]. inv H. simpl. rewrite app_nil_r.
        eexists; split; [reflexivity|]. apply eff_upd; reflexivity.
    - (* LbHand *)
      destruct (c_disp s).
      + destruct (c_loop s) as [| |[c|]|[|[c|] cs]| |] eqn:El; try discriminate; inv H; simpl.
        * rewrite app_nil_r. eexists; split; [reflexivity|]. apply eff_hand_some. reflexivity.
        * exists []. split; [reflexivity|]. apply eff_hand_none. reflexivity.
        * exists []. split; [reflexivity|]. apply eff_bend. reflexivity.
        * rewrite app_nil_r. eexists; split; [reflexivity|]. apply eff_bsome. reflexivity.
        * exists []. split; [reflexivity|]. apply eff_bnone. reflexivity.
      + destruct (c_loop s) as [| | |[|o cs]| |] eqn:El; try discriminate; inv H; simpl.
        exists []. split; [reflexivity|]. apply eff_bend. reflexivity.
    - (* LbView *)
      destruct (c_loop s) eqn:El; try discriminate. inv H. simpl.
      eexists; split; [reflexivity|]. apply eff_view. reflexivity.
    - (* LbCmdFinish *)
      destruct (nth_error (c_cmds s) j) as [[c|c m|c]|] eqn:En; try discriminate. inv H. simpl.
      eexists; split; [reflexivity|]. apply eff_finish. exact En.
    - (* LbSeqStep *)
      destruct (nth_error (c_seqs s) k) as [t|]; try discriminate.
      destruct (s_done t); try discriminate.
      destruct (s_phase t) as [| | |c ms]; try discriminate.
      + destruct (s_rest t) as [|[c|] r]; inv H; simpl; eexists; (split; [reflexivity|]); apply eff_quiet; reflexivity.
      + destruct (all_done ms); try discriminate. inv H. simpl.
        eexists; split; [reflexivity|]. apply eff_quiet. reflexivity.
    - (* LbSeqFinish *)
      destruct (nth_error (c_seqs s) k) as [t|]; try discriminate.
      destruct (s_phase t) as [|c| |]; try discriminate.
      destruct (cres c); inv H; simpl; eexists; (split; [reflexivity|]); apply eff_quiet; simpl; try reflexivity.
      apply quiet_grp_starts.
    - (* LbGrpFinish *)
      destruct (nth_error (c_seqs s) k) as [t|]; try discriminate.
      destruct (s_phase t) as [| | |c ms]; try discriminate.
      destruct (nth_error ms j) as [[cj|cj m|cj]|]; try discriminate. inv H. simpl.
      eexists; split; [reflexivity|]. apply eff_quiet. reflexivity.
    - (* LbCancel *)
      assert (c_ctx s = false) as Ec by (destruct (c_ctx s); [discriminate|reflexivity]).
      rewrite Ec in H. inv H. simpl.
      eexists; split; [reflexivity|]. apply eff_cancel. exact Ec.
    - (* LbDispExit *)
      assert (c_ctx s = true) as Ec by (destruct (c_ctx s); [reflexivity|discriminate]).
      rewrite Ec in H. destruct (c_disp s); try discriminate. inv H. simpl. rewrite Ec.
      exists []. split; [symmetry; apply app_nil_r|]. apply eff_quiet. reflexivity.
    - (* LbLoopExit *)
      destruct (c_ctx s) eqn:Ec; try discriminate.
      destruct (c_loop s); try discriminate; inv H; simpl; rewrite Ec; eexists; (split; [reflexivity|]); apply eff_exit.
    - (* LbGiveUp *)
      assert (c_ctx s = true) as Ec by (destruct (c_ctx s); [reflexivity|discriminate]).
      rewrite Ec in H.
      destruct (offer M s w) as [m|] eqn:Eo; try discriminate. inv H.
      destruct w as [i|j|k|k j]; simpl in Eo; simpl.
      + destruct (nth_error (c_senders s) i) as [[|m' r]|]; try discriminate. inv Eo. simpl.
        eexists; split; [reflexivity|]. apply eff_drop_other; [exact Ec|intros j; discriminate].
      + destruct (nth_error (c_cmds s) j) as [[c|c m'|c]|] eqn:En; try discriminate. inv Eo. simpl.
        rewrite app_nil_r. eexists; split; [reflexivity|]. apply eff_drop_cmd; [exact Ec|exact En].
      + destruct (nth_error (c_seqs s) k) as [t|]; try discriminate.
        destruct (s_phase t); try discriminate. inv Eo. simpl. rewrite app_nil_r.
        eexists; split; [reflexivity|]. apply eff_drop_other; [exact Ec|intros j; discriminate].
      + destruct (nth_error (c_seqs s) k) as [t|]; try discriminate.
        destruct (s_phase t) as [| | |c ms]; try discriminate.
        destruct (nth_error ms j) as [[c'|c' m'|c']|]; try discriminate. inv Eo. simpl. rewrite app_nil_r.
        eexists; split; [reflexivity|]. apply eff_drop_other; [exact Ec|intros j'; discriminate].
    - (* LbHandInit *)
      destruct (c_ifw s) as [c|] eqn:Ei; try discriminate.
      destruct (c_disp s); try discriminate. inv H. simpl.
      eexists; split; [reflexivity|]. apply eff_handinit. reflexivity.
    - (* LbIfwGiveUp *)
      destruct (c_ifw s) as [c|] eqn:Ei; try discriminate.
      assert (c_ctx s = true) as Ec by (destruct (c_ctx s); [reflexivity|discriminate]).
      rewrite Ec in H. inv H. simpl. rewrite Ec.
      exists []. split; [symmetry; apply app_nil_r|]. eapply eff_ifwgiveup; reflexivity.
    - (* LbLoopFail *)
      destruct (c_loop s); try discriminate; inv H; simpl; eexists; (split; [reflexivity|]); apply eff_fail.
  Qed.

  (* ---------------------------------------------------------------- *)
  (* I_owed                                                            *)

  Definition pending (lp : looppc) : list cmdid :=
    match lp with
    | LGot (MBatch cs) => ConcSpec.somes cs
    | LCmdSend (Some c) => [c]
    | LBatch cs => ConcSpec.somes cs
    | _ => []
    end.

  (* the Init forwarder's command, while it waits *)
  Definition ifwl (o : option cmdid) : list cmdid := match o with Some c => [c] | None => [] end.

  (* the counting is exact while the loop runs and the context is not cancelled (nobody can have given up) *)
  Definition strict (lp : looppc) (ctx : bool) : bool := match lp with LExited => false | _ => negb ctx end.

  Definition I_owed (ic : option cmdid) (lp : looppc) (ifw : option cmdid) (ctx : bool) (log : list ev) : Prop :=
    forall x,
      cnt x (hands log) + cnt x (pending lp) + cnt x (ifwl ifw) <= cnt x (owed ic log) /\
      (strict lp ctx = true -> cnt x (owed ic log) = cnt x (hands log) + cnt x (pending lp) + cnt x (ifwl ifw)).

  Lemma strict_true lp : strict lp true = false.
  Proof. destruct lp; reflexivity. Qed.

  Lemma I_owed_eff ic lp cmds ifw ctx lp' cmds' ifw' ctx' es log :
    eff lp cmds ifw ctx lp' cmds' ifw' ctx' es -> I_owed ic lp ifw ctx log -> I_owed ic lp' ifw' ctx' (log ++ es).
  Proof.
    intros He H x. destruct (H x) as [Hle Heq]. clear H.
    inversion He; subst; rewrite owed_app, hands_app, cnt_app.
    - (* recv other *) destruct m; simpl in *; rewrite ?app_nil_r; split; try intro Hs; try specialize (Heq Hs); lia.
    - destruct m; simpl in *; rewrite ?app_nil_r; split; try intro Hs; try specialize (Heq Hs); lia.
    - simpl in *; split; try intro Hs; try specialize (Heq Hs); lia.
    - simpl in *; split; try intro Hs; try specialize (Heq Hs); lia.
    - destruct m; try discriminate; destruct c; simpl in *; split; try intro Hs; try specialize (Heq Hs); lia.
    - simpl in *; split; try intro Hs; try specialize (Heq Hs); lia.
    - simpl in *; split; try intro Hs; try specialize (Heq Hs); lia.
    - simpl in *; split; try intro Hs; try specialize (Heq Hs); lia.
    - simpl in *; split; try intro Hs; try specialize (Heq Hs); lia.
    - unfold pending, ConcSpec.somes in *. simpl in *. split; try intro Hs; try specialize (Heq Hs); lia.
    - simpl in *; split; try intro Hs; try specialize (Heq Hs); lia.
    - (* finish *) simpl; split; try intro Hs; try specialize (Heq Hs); lia.
    - (* quiet *) rewrite (quiet_returned es), (quiet_batches es), (quiet_hands es) by assumption.
      simpl; split; try intro Hs; try specialize (Heq Hs); lia.
    - (* exit *) simpl; split; [lia|discriminate].
    - (* fail *) simpl; split; [lia|discriminate].
    - (* cancel *) rewrite strict_true. simpl; split; [lia|discriminate].
    - (* drop *) rewrite strict_true. simpl; split; [lia|discriminate].
    - rewrite strict_true. simpl; split; [lia|discriminate].
    - (* handinit *) simpl in *; split; try intro Hs; try specialize (Heq Hs); lia.
    - (* ifwgiveup *) rewrite strict_true. simpl in *; split; [lia|discriminate].
  Qed.

  (* ---------------------------------------------------------------- *)
  (* I_started                                                         *)

  Definition I_started (cmds : list cthread) (log : list ev) : Prop :=
    starts_of_cmds log = combine (seq 0 (length (hands log))) (hands log) /\ map cmd_of cmds = hands log.

  Lemma I_started_eff lp cmds ifw ctx lp' cmds' ifw' ctx' es log :
    eff lp cmds ifw ctx lp' cmds' ifw' ctx' es -> I_started cmds log -> I_started cmds' (log ++ es).
  Proof.
    intros He [H1 H2]. unfold I_started.
    assert (length cmds = length (hands log)) as Hlen by (rewrite <- H2, map_length; reflexivity).
    inversion He; subst; rewrite starts_app, hands_app; simpl; rewrite ?app_nil_r; try (split; assumption).
    - split; [assumption|]. rewrite <- H2. eapply map_set_nth; [eassumption|reflexivity].
    - rewrite combine_seq_snoc, map_app, H1, H2, Hlen. simpl. auto.
    - rewrite combine_seq_snoc, map_app, H1, H2, Hlen. simpl. auto.
    - split; [assumption|]. rewrite <- H2. eapply map_set_nth; [eassumption|reflexivity].
    - rewrite (quiet_starts es), (quiet_hands es), !app_nil_r by assumption. split; assumption.
    - split; [assumption|]. rewrite <- H2. eapply map_set_nth; [eassumption|reflexivity].
    - rewrite combine_seq_snoc, map_app, H1, H2, Hlen. simpl. auto.
  Qed.

  (* ---------------------------------------------------------------- *)
  (* I_res                                                             *)

  Definition I_res (cmds : list cthread) (log : list ev) : Prop :=
    forall j, thr_ok cres j (nth_error cmds j) log.

  Lemma I_res_snoc cmds log c es :
    (forall j, notouch j es = true) -> I_res cmds log -> I_res (cmds ++ [CRunning c]) (log ++ es).
  Proof.
    intros Hn H j. destruct (lt_eq_lt_dec j (length cmds)) as [[Hlt|Heq]|Hgt].
    - rewrite nth_error_app1 by exact Hlt. apply thr_ok_frame; [apply Hn|apply H].
    - subst j. rewrite nth_error_app2, Nat.sub_diag by lia. simpl nth_error.
      pose proof (H (length cmds)) as Hj. rewrite (proj2 (nth_error_None _ _)) in Hj by lia.
      exact (thr_ok_frame cres _ None _ _ (Hn _) Hj).
    - rewrite (proj2 (nth_error_None _ _)) by (rewrite app_length; simpl; lia).
      pose proof (H j) as Hj. rewrite (proj2 (nth_error_None _ _)) in Hj by lia.
      apply thr_ok_frame; [apply Hn|exact Hj].
  Qed.

  (* a Send of dispatcher goroutine j completes: its result is taken (e = ERecv) or dropped (e = EDrop) *)
  Lemma I_res_sent cmds log j c m e :
    (e = ERecv (WCmd j) m \/ e = EDrop (WCmd j) m) ->
    nth_error cmds j = Some (CSending c m) -> I_res cmds log -> I_res (set_nth cmds j (CDone c)) (log ++ [e]).
  Proof.
    intros He Hn H j'. destruct (Nat.eq_dec j j') as [E|E].
    - subst j'. rewrite (nth_error_set_nth_eq _ _ _ _ Hn).
      pose proof (H j) as Hj. rewrite Hn in Hj. simpl in Hj. destruct Hj as [Hd [Hr Hm]].
      simpl. rewrite dae_app, Hd, sent_from_app, Hr. subst m.
      destruct He; subst e; simpl; rewrite Nat.eqb_refl, msg_eqb_refl; split; reflexivity.
    - rewrite nth_error_set_nth_neq by exact E. apply thr_ok_frame; [|apply H].
      unfold notouch. destruct He; subst e; simpl; rewrite (proj2 (Nat.eqb_neq j' j)) by congruence; reflexivity.
  Qed.

  Lemma I_res_eff lp cmds ifw ctx lp' cmds' ifw' ctx' es log :
    eff lp cmds ifw ctx lp' cmds' ifw' ctx' es -> I_res cmds log -> I_res cmds' (log ++ es).
  Proof.
    intros He H.
    inversion He; subst; try (intro j'; apply thr_ok_frame; [reflexivity|apply H]).
    - (* recv other *)
      intro j'. apply thr_ok_frame; [|apply H]. unfold notouch. simpl.
      destruct w; try reflexivity. exfalso. eapply H1. reflexivity.
    - (* recv cmd *)
      eapply I_res_sent; [left; reflexivity|eassumption|exact H].
    - apply I_res_snoc; [intro; reflexivity|exact H].
    - apply I_res_snoc; [intro; reflexivity|exact H].
    - (* finish *)
      intro j'. destruct (Nat.eq_dec j j') as [E|E].
      + subst j'. rewrite (nth_error_set_nth_eq _ _ _ _ H0).
        pose proof (H j) as Hj. rewrite H0 in Hj. simpl in Hj. destruct Hj as [Hd Hr].
        simpl. rewrite dae_app, Hd, sent_from_app, Hr. simpl. rewrite Nat.eqb_refl. auto.
      + rewrite nth_error_set_nth_neq by exact E. apply thr_ok_frame; [|apply H].
        unfold notouch. simpl. rewrite (proj2 (Nat.eqb_neq j' j)) by congruence. reflexivity.
    - intro j'. apply thr_ok_frame; [apply quiet_notouch; assumption|apply H].
    - (* drop other *)
      intro j'. apply thr_ok_frame; [|apply H]. unfold notouch. simpl.
      destruct w; try reflexivity. exfalso. eapply H1. reflexivity.
    - (* drop cmd *)
      eapply I_res_sent; [right; reflexivity|eassumption|exact H].
    - (* handinit *) apply I_res_snoc; [intro; reflexivity|exact H].
  Qed.

  (* ---------------------------------------------------------------- *)
  (* I_upd                                                             *)

  Definition upd_ok (e : ev) : bool := match e with EUpdate m _ => updatable m | _ => true end.
  Definition I_upd (log : list ev) : Prop := forallb upd_ok log = true.

  Lemma quiet_upd_ok es : forallb quiet es = true -> forallb upd_ok es = true.
  Proof.
    induction es as [|e es IH]; simpl; intro H; [reflexivity|].
    apply andb_prop in H. destruct H as [H1 H2]. rewrite (IH H2), andb_true_r.
    destruct e; try discriminate; reflexivity.
  Qed.

  Lemma I_upd_eff lp cmds ifw ctx lp' cmds' ifw' ctx' es log :
    eff lp cmds ifw ctx lp' cmds' ifw' ctx' es -> I_upd log -> I_upd (log ++ es).
  Proof.
    intros He H. unfold I_upd in *. rewrite forallb_app, H. simpl.
    inversion He; subst; simpl; try reflexivity.
    - rewrite H1. reflexivity.
    - apply quiet_upd_ok. assumption.
  Qed.

  (* ---------------------------------------------------------------- *)
  (* I_ndc: a Send gives up only after the cancellation                *)

  Definition I_ndc (ctx : bool) (log : list ev) : Prop :=
    no_drop_before_cancel log = true /\ (ctx = true -> In ECancel log).

  Lemma I_ndc_eff lp cmds ifw ctx lp' cmds' ifw' ctx' es log :
    eff lp cmds ifw ctx lp' cmds' ifw' ctx' es -> I_ndc ctx log -> I_ndc ctx' (log ++ es).
  Proof.
    intros He [H1 H2]. unfold I_ndc.
    inversion He; subst;
      try (split; [apply ndc_app_nodrop; [exact H1|reflexivity]|intro Hc; apply in_or_app; left; apply H2; exact Hc]).
    - (* quiet *) split; [apply ndc_app_nodrop; [exact H1|apply quiet_nodrop; assumption]|].
      intro Hc; apply in_or_app; left; apply H2; exact Hc.
    - (* cancel *) split; [apply ndc_app_nodrop; [exact H1|reflexivity]|].
      intros _. apply in_or_app. right. left. reflexivity.
    - (* drop *) split; [apply ndc_app_cancelled; [exact H1|apply H2; reflexivity]|].
      intro Hc; apply in_or_app; left; apply H2; exact Hc.
    - split; [apply ndc_app_cancelled; [exact H1|apply H2; reflexivity]|].
      intro Hc; apply in_or_app; left; apply H2; exact Hc.
  Qed.

  (* ---------------------------------------------------------------- *)
  (* the invariant on states, lifted over run                          *)

  Definition Inv (ic : option cmdid) (s : cstate M) : Prop :=
    I_owed ic (c_loop s) (c_ifw s) (c_ctx s) (c_log s) /\ I_started (c_cmds s) (c_log s) /\
    I_res (c_cmds s) (c_log s) /\ I_upd (c_log s) /\ I_ndc (c_ctx s) (c_log s).

  Lemma Inv_step ic s l s' : Inv ic s -> step M upd cres s l = Some s' -> Inv ic s'.
  Proof.
    intros [Ho [Hs [Hr [Hu Hn]]]] Hstep. destruct (step_eff _ _ _ Hstep) as [es [Hlog He]].
    unfold Inv. rewrite Hlog. repeat split.
    - eapply I_owed_eff; eassumption.
    - eapply I_owed_eff; eassumption.
    - eapply I_started_eff; eassumption.
    - eapply I_started_eff; eassumption.
    - eapply I_res_eff; eassumption.
    - eapply I_upd_eff; eassumption.
    - eapply I_ndc_eff; eassumption.
    - eapply I_ndc_eff; eassumption.
  Qed.

  Lemma Inv_run ic : forall sched s, Inv ic s -> Inv ic (run M upd cres s sched).
  Proof.
    induction sched as [|l sched IH]; intros s H; simpl; [exact H|].
    apply IH. unfold run1. destruct (step M upd cres s l) eqn:E; [eapply Inv_step; eassumption|exact H].
  Qed.

  Variable m0 : M.
  Variable init_cmd : option cmdid.
  Variable scripts : list (list msg).

  Lemma Inv_init : Inv init_cmd (init_state M m0 init_cmd scripts).
  Proof.
    unfold Inv, init_state; simpl. repeat split; try discriminate.
    - unfold owed. destruct init_cmd; simpl; lia.
    - unfold owed. destruct init_cmd; simpl; lia.
    - intro j. destruct j; simpl; auto.
  Qed.

  Definition reach (s : cstate M) : Prop := exists sched, s = run M upd cres (init_state M m0 init_cmd scripts) sched.

  Lemma Inv_reach sched : Inv init_cmd (run M upd cres (init_state M m0 init_cmd scripts) sched).
  Proof. apply Inv_run, Inv_init. Qed.

  (* ---------------------------------------------------------------- *)
  (* the theorems                                                      *)

  Lemma handed_are_owed : forall sched,
    let s := run M upd cres (init_state M m0 init_cmd scripts) sched in
    handed_owed init_cmd (c_log s) = true.
  Proof.
    intros sched s. destruct (Inv_reach sched) as [Ho _]. fold s in Ho.
    unfold handed_owed.
    destruct (sub_multiset_cnt (hands (c_log s)) (owed init_cmd (c_log s))) as [r [Hr _]].
    { intro x. destruct (Ho x) as [Hle _]. lia. }
    rewrite Hr. reflexivity.
  Qed.

  (* at the select, the context not cancelled: everything owed has been handed over, except Init's command while
     its forwarder goroutine still waits for the dispatcher *)
  Lemma all_handed_when_idle : forall sched,
    let s := run M upd cres (init_state M m0 init_cmd scripts) sched in
    c_loop s = LIdle -> c_ctx s = false -> all_handed init_cmd (c_ifw s) (c_log s) = true.
  Proof.
    intros sched s Hidle Hctx. destruct (Inv_reach sched) as [Ho _]. fold s in Ho.
    unfold all_handed. unfold I_owed in Ho. rewrite Hidle, Hctx in Ho. simpl in Ho.
    destruct (sub_multiset_cnt (hands (c_log s)) (owed init_cmd (c_log s))) as [r [Hr Hc]].
    { intro x. destruct (Ho x) as [Hle _]. lia. }
    rewrite Hr. destruct (c_ifw s) as [c|]; simpl in Ho.
    - rewrite (cnt_single_all c r); [apply Nat.eqb_refl|].
      intro x. destruct (Ho x) as [_ Heq]. specialize (Heq eq_refl). specialize (Hc x). simpl. lia.
    - rewrite (cnt_nil_all r); [reflexivity|].
      intro x. destruct (Ho x) as [_ Heq]. specialize (Heq eq_refl). specialize (Hc x). lia.
  Qed.

  Lemma started_once_thm : forall sched,
    let s := run M upd cres (init_state M m0 init_cmd scripts) sched in
    started_once (c_log s) = true /\
    length (c_cmds s) = length (hands (c_log s)) /\
    forall j t, nth_error (c_cmds s) j = Some t -> cmd_of t = nth j (hands (c_log s)) 0.
  Proof.
    intros sched s. destruct (Inv_reach sched) as [_ [[H1 H2] _]]. fold s in H1, H2.
    split; [|split].
    - unfold started_once. rewrite H1. apply list_eqb_refl. intros [a b]. simpl. rewrite !Nat.eqb_refl. reflexivity.
    - rewrite <- H2, map_length. reflexivity.
    - intros j t Hn. rewrite <- H2.
      change 0 with (cmd_of (CRunning 0)). rewrite map_nth. erewrite nth_error_nth; [reflexivity|exact Hn].
  Qed.

  Lemma results_once_thm : forall sched,
    let s := run M upd cres (init_state M m0 init_cmd scripts) sched in
    results_once cres (c_log s) = true /\
    (forall j c, nth_error (c_cmds s) j = Some (CDone c) -> length (sent_from (WCmd j) (c_log s)) = 1) /\
    (forall j c m, nth_error (c_cmds s) j = Some (CRunning c) \/ nth_error (c_cmds s) j = Some (CSending c m) ->
                   sent_from (WCmd j) (c_log s) = []) /\
    no_drop_before_cancel (c_log s) = true.
  Proof.
    intros sched s. destruct (Inv_reach sched) as [_ [_ [Hr [_ [Hn _]]]]]. fold s in Hr, Hn.
    split; [|split; [|split]].
    - unfold results_once. apply forallb_forall. intros j _. specialize (Hr j).
      apply andb_true_intro. unfold thr_ok in Hr.
      pose proof (recv_le_sent (WCmd j) (c_log s)) as Hle.
      destruct (nth_error (c_cmds s) j) as [[c|c m|c]|].
      + destruct Hr as [Hd Hrc]. split; [apply dae_sound; congruence|rewrite Hrc in Hle; apply Nat.leb_le; simpl in Hle; lia].
      + destruct Hr as [Hd [Hrc _]]. split; [apply dae_sound; congruence|rewrite Hrc in Hle; apply Nat.leb_le; simpl in Hle; lia].
      + destruct Hr as [Hd Hrc]. split; [apply dae_sound; congruence|apply Nat.leb_le; lia].
      + destruct Hr as [Hd Hrc]. split; [apply dae_sound; congruence|rewrite Hrc in Hle; apply Nat.leb_le; simpl in Hle; lia].
    - intros j c Hnth. specialize (Hr j). rewrite Hnth in Hr. apply Hr.
    - intros j c m [Hnth|Hnth]; specialize (Hr j); rewrite Hnth in Hr; apply Hr.
    - exact Hn.
  Qed.

  (* while the context is not cancelled no Send gives up: the result of a finished goroutine WAS delivered *)
  Lemma result_delivered_before_cancel : forall sched,
    let s := run M upd cres (init_state M m0 init_cmd scripts) sched in
    ~ In ECancel (c_log s) ->
    forall j c, nth_error (c_cmds s) j = Some (CDone c) -> length (recv_from (WCmd j) (c_log s)) = 1.
  Proof.
    intros sched s Hnc j c Hnth.
    destruct (results_once_thm sched) as [_ [Hd [_ Hn]]]. fold s in Hd, Hn.
    rewrite <- (sent_eq_recv (WCmd j) (c_log s) Hn Hnc). eapply Hd. exact Hnth.
  Qed.

  (* the cancellation flag is set only by LbCancel, which logs ECancel *)
  Lemma cancelled_is_logged : forall sched,
    let s := run M upd cres (init_state M m0 init_cmd scripts) sched in
    c_ctx s = true -> In ECancel (c_log s).
  Proof.
    intros sched s Hc. destruct (Inv_reach sched) as [_ [_ [_ [_ [_ Hn]]]]]. fold s in Hn. apply Hn. exact Hc.
  Qed.

  Lemma nil_never_reaches_update : forall sched,
    let s := run M upd cres (init_state M m0 init_cmd scripts) sched in
    forall m c, In (EUpdate m c) (c_log s) -> m <> MNil /\ updatable m = true.
  Proof.
    intros sched s m c Hin. destruct (Inv_reach sched) as [_ [_ [_ [Hu _]]]]. fold s in Hu.
    unfold I_upd in Hu. rewrite forallb_forall in Hu. specialize (Hu _ Hin). simpl in Hu.
    split; [|exact Hu]. intro E. subst m. discriminate.
  Qed.

  (* a hand-over is always of a non-nil command (by the type of EHand) that is owed *)
  Lemma hand_is_owed : forall sched,
    let s := run M upd cres (init_state M m0 init_cmd scripts) sched in
    forall c, In (EHand c) (c_log s) -> In c (owed init_cmd (c_log s)).
  Proof.
    intros sched s c Hin. destruct (Inv_reach sched) as [Ho _]. fold s in Ho.
    apply cnt_In. destruct (Ho c) as [Hle _].
    assert (1 <= cnt c (hands (c_log s))) as Hh.
    { apply cnt_In. unfold hands. apply in_flat_map. exists (EHand c). split; [exact Hin|left; reflexivity]. }
    lia.
  Qed.

  (* ---------------------------------------------------------------- *)
  (* non-interference: from any state the loop reaches its select by   *)
  (* its own steps alone                                                *)

  Fixpoint steps_enabled (s : cstate M) (ls : list label) : Prop :=
    match ls with
    | [] => True
    | l :: r => exists s', step M upd cres s l = Some s' /\ steps_enabled s' r
    end.

  Inductive exec : cstate M -> list label -> cstate M -> Prop :=
  | exec_nil s : exec s [] s
  | exec_cons s l s1 r s' : step M upd cres s l = Some s1 -> exec s1 r s' -> exec s (l :: r) s'.

  Lemma exec_run s ls s' : exec s ls s' -> steps_enabled s ls /\ run M upd cres s ls = s'.
  Proof.
    induction 1 as [s|s l s1 r s' Hs He [IH1 IH2]]; simpl; [auto|].
    split; [exists s1; auto|]. unfold run1. rewrite Hs. exact IH2.
  Qed.

  (* the other goroutines' parts of the state only grow at the end *)
  Definition ext (s s' : cstate M) : Prop :=
    c_disp s' = c_disp s /\ c_senders s' = c_senders s /\ c_ifw s' = c_ifw s /\
    (exists a, c_cmds s' = c_cmds s ++ a) /\ (exists b, c_seqs s' = c_seqs s ++ b).

  Lemma ext_refl s : ext s s.
  Proof. repeat split; exists []; rewrite app_nil_r; reflexivity. Qed.

  Lemma ext_trans s1 s2 s3 : ext s1 s2 -> ext s2 s3 -> ext s1 s3.
  Proof.
    intros [A1 [A2 [A5 [[a A3] [b A4]]]]] [B1 [B2 [B5 [[a' B3] [b' B4]]]]]. repeat split; try congruence.
    - exists (a ++ a'). rewrite B3, A3, app_assoc. reflexivity.
    - exists (b ++ b'). rewrite B4, A4, app_assoc. reflexivity.
  Qed.

  Lemma ext_firstn s s' : ext s s' ->
    firstn (length (c_cmds s)) (c_cmds s') = c_cmds s /\
    firstn (length (c_seqs s)) (c_seqs s') = c_seqs s /\ c_senders s' = c_senders s /\ c_ifw s' = c_ifw s.
  Proof.
    intros [_ [A2 [A5 [[a A3] [b A4]]]]]. rewrite A3, A4.
    rewrite !firstn_app, !Nat.sub_diag, !firstn_all. simpl. rewrite !app_nil_r. auto.
  Qed.

  Lemma batch_drain : forall cs s, c_disp s = true -> c_loop s = LBatch cs ->
    exists s', exec s (repeat LbHand (S (length cs))) s' /\ c_loop s' = LIdle /\ ext s s'.
  Proof.
    induction cs as [|o cs IH]; intros s Hd Hl.
    - eexists. split; [|split].
      + eapply exec_cons; [|apply exec_nil]. simpl. rewrite Hd, Hl. reflexivity.
      + reflexivity.
      + repeat split; simpl; exists []; rewrite app_nil_r; reflexivity.
    - destruct o as [c|].
      + set (s1 := with_loop M (with_cmds M s (c_cmds s ++ [CRunning c]) [EHand c; EStart (WCmd (length (c_cmds s))) c]) (LBatch cs) []).
        destruct (IH s1) as [s' [He [Hi Hx]]]; [exact Hd|reflexivity|].
        exists s'. split; [|split; [exact Hi|]].
        * simpl. eapply exec_cons; [|exact He]. simpl. rewrite Hd, Hl. reflexivity.
        * eapply ext_trans; [|exact Hx]. repeat split; simpl; [eexists; reflexivity|exists []; rewrite app_nil_r; reflexivity].
      + set (s1 := with_loop M s (LBatch cs) []).
        destruct (IH s1) as [s' [He [Hi Hx]]]; [exact Hd|reflexivity|].
        exists s'. split; [|split; [exact Hi|]].
        * simpl. eapply exec_cons; [|exact He]. simpl. rewrite Hd, Hl. reflexivity.
        * eapply ext_trans; [|exact Hx]. repeat split; simpl; exists []; rewrite app_nil_r; reflexivity.
  Qed.

  Lemma cmdsend_drain : forall c s, c_disp s = true -> c_loop s = LCmdSend c ->
    exists s', exec s [LbHand; LbView] s' /\ c_loop s' = LIdle /\ ext s s'.
  Proof.
    intros c s Hd Hl. destruct c as [c|].
    - eexists. split; [|split].
      + eapply exec_cons; [simpl; rewrite Hd, Hl; reflexivity|].
        eapply exec_cons; [simpl; reflexivity|apply exec_nil].
      + reflexivity.
      + repeat split; simpl; [eexists; reflexivity|exists []; rewrite app_nil_r; reflexivity].
    - eexists. split; [|split].
      + eapply exec_cons; [simpl; rewrite Hd, Hl; reflexivity|].
        eapply exec_cons; [simpl; reflexivity|apply exec_nil].
      + reflexivity.
      + repeat split; simpl; exists []; rewrite app_nil_r; reflexivity.
  Qed.

  Lemma loop_label_repeat n : forallb loop_label (repeat LbHand n) = true.
  Proof. induction n; simpl; auto. Qed.

  Definition batch_len (lp : looppc) : nat :=
    match lp with LBatch cs => length cs | LGot (MBatch cs) => length cs | _ => 0 end.

  Lemma loop_alone : forall s, c_disp s = true -> c_loop s <> LExited ->
    exists ls s', exec s ls s' /\ forallb loop_label ls = true /\ length ls <= 4 + batch_len (c_loop s) /\
                  (c_loop s' = LIdle \/ c_loop s' = LExited) /\ ext s s'.
  Proof.
    intros s Hd Hne. destruct (c_loop s) as [|m|c|cs| |] eqn:El.
    - exists [], s. repeat split; try (exists []; rewrite app_nil_r; reflexivity); simpl; auto using exec_nil; lia.
    - destruct m as [|t| |cs|cs].
      + eexists [LbProcess], _. split; [|split; [reflexivity|split; [simpl; lia|split]]].
        * eapply exec_cons; [simpl; rewrite El; reflexivity|apply exec_nil].
        * left; reflexivity.
        * repeat split; simpl; exists []; rewrite app_nil_r; reflexivity.
      + destruct (upd (c_model s) (MUser t)) as [m' c] eqn:Eu.
        set (s1 := {| c_model := m'; c_loop := LCmdSend c; c_senders := c_senders s; c_cmds := c_cmds s; c_seqs := c_seqs s;
                      c_ctx := c_ctx s; c_disp := c_disp s; c_ifw := c_ifw s; c_log := c_log s ++ [EUpdate (MUser t) c];
                      c_upds := c_upds s ++ [(c_model s, MUser t, m')] |}).
        destruct (cmdsend_drain c s1) as [s' [He [Hi Hx]]]; [exact Hd|reflexivity|].
        exists (LbProcess :: [LbHand; LbView]), s'. split; [|split; [reflexivity|split; [simpl; lia|split]]].
        * eapply exec_cons; [|exact He]. simpl. rewrite El, Eu. reflexivity.
        * left; exact Hi.
        * eapply ext_trans; [|exact Hx]. repeat split; simpl; exists []; rewrite app_nil_r; reflexivity.
      + eexists [LbProcess], _. split; [|split; [reflexivity|split; [simpl; lia|split]]].
        * eapply exec_cons; [simpl; rewrite El; reflexivity|apply exec_nil].
        * right; reflexivity.
        * repeat split; simpl; exists []; rewrite app_nil_r; reflexivity.
      + set (s1 := with_loop M s (LBatch cs) []).
        destruct (batch_drain cs s1) as [s' [He [Hi Hx]]]; [exact Hd|reflexivity|].
        exists (LbProcess :: repeat LbHand (S (length cs))), s'.
        split; [|split; [|split; [|split]]].
        * eapply exec_cons; [|exact He]. simpl. rewrite El. reflexivity.
        * simpl. apply loop_label_repeat.
        * simpl. rewrite repeat_length. lia.
        * left; exact Hi.
        * eapply ext_trans; [|exact Hx]. repeat split; simpl; exists []; rewrite app_nil_r; reflexivity.
      + destruct (upd (c_model s) (MSeq cs)) as [m' c] eqn:Eu.
        set (s1 := {| c_model := m'; c_loop := LCmdSend c; c_senders := c_senders s; c_cmds := c_cmds s;
                      c_seqs := c_seqs s ++ [{| s_rest := cs; s_phase := SNext; s_done := false |}];
                      c_ctx := c_ctx s; c_disp := c_disp s; c_ifw := c_ifw s; c_log := (c_log s ++ []) ++ [EUpdate (MSeq cs) c];
                      c_upds := c_upds s ++ [(c_model s, MSeq cs, m')] |}).
        destruct (cmdsend_drain c s1) as [s' [He [Hi Hx]]]; [exact Hd|reflexivity|].
        exists (LbProcess :: [LbHand; LbView]), s'. split; [|split; [reflexivity|split; [simpl; lia|split]]].
        * eapply exec_cons; [|exact He]. simpl. rewrite El, Eu. reflexivity.
        * left; exact Hi.
        * eapply ext_trans; [|exact Hx]. repeat split; simpl; [exists []; rewrite app_nil_r; reflexivity|eexists; reflexivity].
    - destruct (cmdsend_drain c s Hd El) as [s' [He [Hi Hx]]].
      exists [LbHand; LbView], s'. repeat split; simpl; auto; try lia; apply Hx.
    - destruct (batch_drain cs s Hd El) as [s' [He [Hi Hx]]].
      exists (repeat LbHand (S (length cs))), s'. split; [exact He|]. split; [apply loop_label_repeat|].
      split; [rewrite repeat_length; simpl; lia|]. split; [left; exact Hi|exact Hx].
    - eexists [LbView], _. split; [|split; [reflexivity|split; [simpl; lia|split]]].
      + eapply exec_cons; [simpl; rewrite El; reflexivity|apply exec_nil].
      + left; reflexivity.
      + repeat split; simpl; exists []; rewrite app_nil_r; reflexivity.
    - congruence.
  Qed.

  Lemma noninterference : forall s : cstate M,
    (c_disp s = true -> c_loop s <> LExited ->
     exists ls, forallb loop_label ls = true /\
                length ls <= 4 + (match c_loop s with LBatch cs => length cs | LGot (MBatch cs) => length cs | _ => 0 end) /\
                steps_enabled s ls /\
                let s' := run M upd cres s ls in
                (c_loop s' = LIdle \/ c_loop s' = LExited) /\
                firstn (length (c_cmds s)) (c_cmds s') = c_cmds s /\
                firstn (length (c_seqs s)) (c_seqs s') = c_seqs s /\
                c_senders s' = c_senders s /\
                c_ifw s' = c_ifw s) /\
    (forall i m, c_loop s = LIdle -> offer M s (WSender i) = Some m ->
                 step M upd cres s (LbRecv (WSender i)) <> None).
  Proof.
    intro s. split.
    - intros Hd Hne. destruct (loop_alone s Hd Hne) as [ls [s' [He [Hl [Hlen [Hfin Hx]]]]]].
      destruct (exec_run _ _ _ He) as [Hen Hrun].
      exists ls. split; [exact Hl|]. split; [exact Hlen|]. split; [exact Hen|].
      simpl. rewrite Hrun. split; [exact Hfin|]. apply ext_firstn. exact Hx.
    - intros i m Hi Ho.
      change (step M upd cres s (LbRecv (WSender i)))
        with (match c_loop s, offer M s (WSender i) with
              | LIdle, Some m => Some (with_loop M (took M s (WSender i)) (LGot m) [ERecv (WSender i) m])
              | _, _ => None end).
      rewrite Hi, Ho. discriminate.
  Qed.
End C02.
