(* C03: a Sequence runs its commands strictly one after another, in order.
   Proofs over Model/Conc.v for ALL schedules: the log walk of Spec/ConcSpec.v
   (seq_walk / sq_step) is tied to the state of every sequence goroutine; a Send
   that gives up after the cancellation (EDrop) counts like a receipt for the
   walk, and happens only once ECancel has been logged. *)
From Coq Require Import List Bool Arith Lia PeanoNat.
Import ListNotations.
From BT Require Import Model.Conc Spec.ConcSpec.

(* ------------------------------------------------------------------ *)
(* generic list facts *)

Lemma set_nth_length : forall A (l : list A) n x, length (set_nth l n x) = length l.
Proof. induction l as [|h l IH]; intros [|n] x; simpl; auto. Qed.

Lemma nth_set_same : forall A (l : list A) n x t, nth_error l n = Some t -> nth_error (set_nth l n x) n = Some x.
Proof. induction l as [|h l IH]; intros [|n] x t H; simpl in *; try discriminate; eauto. Qed.

Lemma nth_set_other : forall A (l : list A) n n' x, n' <> n -> nth_error (set_nth l n x) n' = nth_error l n'.
Proof.
  induction l as [|h l IH]; intros [|n] [|n'] x H; simpl in *; auto; try congruence.
Qed.

Lemma Forall_set_nth : forall A (P : A -> Prop) (l : list A) n x, Forall P l -> P x -> Forall P (set_nth l n x).
Proof.
  induction l as [|h l IH]; intros [|n] x HF Hx; simpl; auto; inversion HF; subst; constructor; auto.
Qed.

Lemma Forall_nth_error : forall A (P : A -> Prop) (l : list A) n x, Forall P l -> nth_error l n = Some x -> P x.
Proof. intros A P l n x HF Hn. rewrite Forall_forall in HF. apply HF. eapply nth_error_In; eauto. Qed.

Lemma In_combine_seq : forall A (l : list A) a j x,
  nth_error l j = Some x -> In (a + j, x) (combine (seq a (length l)) l).
Proof.
  induction l as [|h l IH]; intros a [|j] x H; simpl in *; try discriminate.
  - injection H as ->. left. f_equal. lia.
  - right. replace (a + S j) with (S a + j) by lia. apply IH. exact H.
Qed.

Lemma In_combine_seq_inv : forall A (l : list A) a k x,
  In (k, x) (combine (seq a (length l)) l) -> exists j, k = a + j /\ nth_error l j = Some x.
Proof.
  induction l as [|h l IH]; intros a k x H; simpl in *; [contradiction|].
  destruct H as [H|H].
  - injection H as <- <-. exists 0. split; [lia|reflexivity].
  - apply IH in H. destruct H as (j & -> & Hj). exists (S j). split; [lia|exact Hj].
Qed.

(* ------------------------------------------------------------------ *)
(* decidable equalities of the spec are equalities *)

Lemma ocmd_eqb_refl : forall a, ocmd_eqb a a = true.
Proof. intros [x|]; simpl; auto using Nat.eqb_refl. Qed.
Lemma ocmds_eqb_refl : forall a, ocmds_eqb a a = true.
Proof. induction a as [|x a IH]; simpl; auto. rewrite ocmd_eqb_refl, IH. reflexivity. Qed.
Lemma msg_eqb_refl : forall m, msg_eqb m m = true.
Proof. intros [| t | | cs | cs]; simpl; auto using Nat.eqb_refl, ocmds_eqb_refl. Qed.

Lemma ocmd_eqb_eq : forall a b, ocmd_eqb a b = true -> a = b.
Proof. intros [x|] [y|] H; simpl in H; try discriminate; auto. apply Nat.eqb_eq in H. congruence. Qed.
Lemma ocmds_eqb_eq : forall a b, ocmds_eqb a b = true -> a = b.
Proof.
  induction a as [|x a IH]; intros [|y b] H; simpl in H; try discriminate; auto.
  apply andb_true_iff in H. destruct H as [H1 H2]. apply ocmd_eqb_eq in H1. apply IH in H2. congruence.
Qed.
Lemma msg_eqb_eq : forall a b, msg_eqb a b = true -> a = b.
Proof.
  intros [| t | | cs | cs] [| t' | | cs' | cs'] H; simpl in H; try discriminate; auto.
  - apply Nat.eqb_eq in H. congruence.
  - apply ocmds_eqb_eq in H. congruence.
  - apply ocmds_eqb_eq in H. congruence.
Qed.

Lemma somes_same : forall A (l : list (option A)), Conc.somes l = ConcSpec.somes l.
Proof. reflexivity. Qed.

Lemma seq_msgs_app : forall l1 l2, seq_msgs (l1 ++ l2) = seq_msgs l1 ++ seq_msgs l2.
Proof. intros. unfold seq_msgs. apply flat_map_app. Qed.

Lemma recv_from_app : forall w l1 l2, recv_from w (l1 ++ l2) = recv_from w l1 ++ recv_from w l2.
Proof. intros. unfold recv_from. apply flat_map_app. Qed.

Lemma sent_from_app : forall w l1 l2, sent_from w (l1 ++ l2) = sent_from w l1 ++ sent_from w l2.
Proof. intros. unfold sent_from. apply flat_map_app. Qed.

(* ------------------------------------------------------------------ *)
(* no Send gives up before the cancellation *)

Definition is_drop (e : ev) : bool := match e with EDrop _ _ => true | _ => false end.

(* extending a good log with events that are not drops *)
Lemma ndbc_app_nodrop : forall l es, no_drop_before_cancel l = true ->
  Forall (fun e => is_drop e = false) es -> no_drop_before_cancel (l ++ es) = true.
Proof.
  induction l as [|e l IH]; intros es Hl Hes; simpl.
  - induction es as [|e es IHes]; [reflexivity|]. inversion Hes as [|? ? He Hes']; subst.
    destruct e; simpl in *; try discriminate; auto.
  - destruct e; simpl in *; try discriminate; auto.
Qed.

(* extending a good log in which the cancellation has happened with anything *)
Lemma ndbc_app_cancelled : forall l es, no_drop_before_cancel l = true ->
  In ECancel l -> no_drop_before_cancel (l ++ es) = true.
Proof.
  induction l as [|e l IH]; intros es Hl Hin; simpl; [destruct Hin|].
  destruct Hin as [->|Hin]; [reflexivity|].
  destruct e; simpl in *; try discriminate; auto.
Qed.

Lemma ndbc_no_drop : forall l, no_drop_before_cancel l = true -> ~ In ECancel l ->
  forall w m, ~ In (EDrop w m) l.
Proof.
  induction l as [|e l IH]; intros Hl Hnc w m Hin; [destruct Hin|].
  assert (Hnc' : ~ In ECancel l) by (intros Hc; apply Hnc; right; exact Hc).
  destruct Hin as [->|Hin]; [simpl in Hl; discriminate|].
  destruct e; simpl in Hl; try discriminate; try (eapply IH; eauto; fail).
  apply Hnc. left. reflexivity.
Qed.

Lemma sent_recv_no_drop : forall w l, (forall w' m, ~ In (EDrop w' m) l) -> sent_from w l = recv_from w l.
Proof.
  induction l as [|e l IH]; intros Hno; [reflexivity|].
  assert (Hno' : forall w' m, ~ In (EDrop w' m) l) by (intros w' m Hc; apply (Hno w' m); right; exact Hc).
  change (e :: l) with ([e] ++ l). rewrite sent_from_app, recv_from_app, (IH Hno'). f_equal.
  destruct e; try reflexivity. exfalso. eapply Hno. left. reflexivity.
Qed.

(* ------------------------------------------------------------------ *)
(* the walk, returning its final state *)

Section Walk.
  Variable cres : cmdid -> msg.

  Fixpoint walk_st (k : nat) (rest : list (option cmdid)) (st : sq_state) (log : list ev)
    : option (list (option cmdid) * sq_state) :=
    match log with
    | [] => Some (rest, st)
    | e :: log' =>
      if of_seq k e then
        match sq_step cres rest st e with
        | Some (rest', st') => walk_st k rest' st' log'
        | None => None
        end
      else walk_st k rest st log'
    end.

  Lemma seq_walk_iff : forall k log rest st,
    seq_walk cres k rest st log = true <-> walk_st k rest st log <> None.
  Proof.
    induction log as [|e log IH]; intros rest st; simpl.
    - split; intros; [discriminate|reflexivity].
    - destruct (of_seq k e).
      + destruct (sq_step cres rest st e) as [[r' st']|].
        * apply IH.
        * split; [discriminate|congruence].
      + apply IH.
  Qed.

  Lemma walk_app : forall k l1 l2 rest st,
    walk_st k rest st (l1 ++ l2) =
    match walk_st k rest st l1 with Some (r, q) => walk_st k r q l2 | None => None end.
  Proof.
    induction l1 as [|e l1 IH]; intros l2 rest st; simpl; [reflexivity|].
    destruct (of_seq k e); [|apply IH].
    destruct (sq_step cres rest st e) as [[r' st']|]; [apply IH|reflexivity].
  Qed.

  Lemma walk_skip : forall k l rest st,
    Forall (fun e => of_seq k e = false) l -> walk_st k rest st l = Some (rest, st).
  Proof.
    induction l as [|e l IH]; intros rest st HF; simpl; [reflexivity|].
    inversion HF as [|? ? He Hl]; subst. rewrite He. apply IH. exact Hl.
  Qed.

  (* -------- the members of an errgroup as the walk sees them -------- *)

  Fixpoint open_from (a : nat) (ms : list cthread) : list (nat * cmdid * bool) :=
    match ms with
    | [] => []
    | CRunning c :: t => (a, c, false) :: open_from (S a) t
    | CSending c _ :: t => (a, c, true) :: open_from (S a) t
    | CDone _ :: t => open_from (S a) t
    end.

  Definition grp_ok (ms : list cthread) : Prop :=
    Forall (fun t => match t with CSending c m => m = cres c | _ => True end) ms.

  Definition qgroup (o : list (nat * cmdid * bool)) : sq_state :=
    match o with [] => QIdle | _ => QGroup o end.

  Lemma open_from_running : forall ids a,
    open_from a (map CRunning ids) =
    map (fun jc : nat * cmdid => (fst jc, snd jc, false)) (combine (seq a (length ids)) ids).
  Proof. induction ids as [|c ids IH]; intros a; simpl; [reflexivity|]. rewrite IH. reflexivity. Qed.

  Lemma grp_ok_running : forall ids, grp_ok (map CRunning ids).
  Proof. induction ids; simpl; constructor; auto. Qed.

  Lemma open_from_all_done : forall ms a, all_done ms = true -> open_from a ms = [].
  Proof.
    induction ms as [|h ms IH]; intros a H; simpl in *; [reflexivity|].
    destruct h; try discriminate. apply IH. exact H.
  Qed.

  Lemma eqb_Sadd : forall a j, Nat.eqb (S (a + j)) a = false.
  Proof. intros. apply Nat.eqb_neq. lia. Qed.

  Lemma upd_end : forall ms a j cj m f,
    nth_error ms j = Some (CRunning cj) -> f cj false = Some (Some true) ->
    upd_member (a + j) f (open_from a ms) = Some (open_from a (set_nth ms j (CSending cj m))).
  Proof.
    induction ms as [|h ms IH]; intros a [|j] cj m f Hn Hf; simpl in Hn; try discriminate.
    - injection Hn as ->. cbn [open_from set_nth upd_member].
      rewrite Nat.add_0_r, Nat.eqb_refl, Hf. reflexivity.
    - specialize (IH (S a) j cj m f Hn Hf).
      replace (a + S j) with (S (a + j)) by lia. replace (S a + j) with (S (a + j)) in IH by lia.
      destruct h; cbn [open_from set_nth upd_member]; rewrite ?eqb_Sadd, IH; reflexivity.
  Qed.

  Lemma upd_recv : forall ms a j cj m f,
    nth_error ms j = Some (CSending cj m) -> f cj true = Some None ->
    upd_member (a + j) f (open_from a ms) = Some (open_from a (set_nth ms j (CDone cj))).
  Proof.
    induction ms as [|h ms IH]; intros a [|j] cj m f Hn Hf; simpl in Hn; try discriminate.
    - injection Hn as ->. cbn [open_from set_nth upd_member].
      rewrite Nat.add_0_r, Nat.eqb_refl, Hf. reflexivity.
    - specialize (IH (S a) j cj m f Hn Hf).
      replace (a + S j) with (S (a + j)) by lia. replace (S a + j) with (S (a + j)) in IH by lia.
      destruct h; cbn [open_from set_nth upd_member]; rewrite ?eqb_Sadd, IH; reflexivity.
  Qed.

  Lemma walk_group_start : forall k todo all rest, todo <> [] ->
    walk_st k rest (QGroupStart todo all) (map (fun jc : nat * cmdid => EStart (WGrp k (fst jc)) (snd jc)) todo)
    = Some (rest, QGroup (map (fun jc : nat * cmdid => (fst jc, snd jc, false)) all)).
  Proof.
    induction todo as [|[j c] todo IH]; intros all rest Hne; [congruence|].
    cbn [map walk_st of_seq fst snd sq_step]. rewrite !Nat.eqb_refl. cbn [andb].
    destruct todo as [|jc todo]; [reflexivity|].
    apply IH. discriminate.
  Qed.

  (* -------- relation between a sequence goroutine and its walk state -------- *)

  Definition rel (t : sthread) (r : list (option cmdid)) (q : sq_state) : Prop :=
    next_elem r = next_elem (s_rest t) /\
    match s_phase t with
    | SNext => q = QIdle
    | SRunning c => q = QRunning c
    | SSending c m => q = QSending m /\ m = cres c
    | SGroup c ms => grp_ok ms /\ q = qgroup (open_from 0 ms)
    end.

  (* the transitions of sequence goroutine k (with its errgroup members) and the events they log *)
  Inductive seq_trans (k : nat) (t : sthread) : sthread -> list ev -> Prop :=
  | T_done : s_phase t = SNext -> s_rest t = [] ->
      seq_trans k t {| s_rest := []; s_phase := SNext; s_done := true |} []
  | T_skip : forall r, s_phase t = SNext -> s_rest t = None :: r ->
      seq_trans k t {| s_rest := r; s_phase := SNext; s_done := false |} []
  | T_start : forall c r, s_phase t = SNext -> s_rest t = Some c :: r ->
      seq_trans k t {| s_rest := r; s_phase := SRunning c; s_done := false |} [EStart (WSeq k) c]
  | T_grpdone : forall c ms, s_phase t = SGroup c ms -> all_done ms = true ->
      seq_trans k t {| s_rest := s_rest t; s_phase := SNext; s_done := false |} []
  | T_fin_batch : forall c cs, s_phase t = SRunning c -> cres c = MBatch cs ->
      seq_trans k t {| s_rest := s_rest t; s_phase := SGroup c (map CRunning (ConcSpec.somes cs)); s_done := false |}
                (EEnd (WSeq k) c :: map (fun jc : nat * cmdid => EStart (WGrp k (fst jc)) (snd jc))
                                        (combine (seq 0 (length (ConcSpec.somes cs))) (ConcSpec.somes cs)))
  | T_fin_plain : forall c, s_phase t = SRunning c -> (forall cs, cres c <> MBatch cs) ->
      seq_trans k t {| s_rest := s_rest t; s_phase := SSending c (cres c); s_done := false |} [EEnd (WSeq k) c]
  | T_grpfin : forall c ms j cj, s_phase t = SGroup c ms -> nth_error ms j = Some (CRunning cj) ->
      seq_trans k t {| s_rest := s_rest t; s_phase := SGroup c (set_nth ms j (CSending cj (cres cj))); s_done := false |}
                [EEnd (WGrp k j) cj]
  | T_recv : forall c m, s_phase t = SSending c m ->
      seq_trans k t {| s_rest := s_rest t; s_phase := SNext; s_done := false |} [ERecv (WSeq k) m]
  | T_grprecv : forall c ms j cj m, s_phase t = SGroup c ms -> nth_error ms j = Some (CSending cj m) ->
      seq_trans k t {| s_rest := s_rest t; s_phase := SGroup c (set_nth ms j (CDone cj)); s_done := false |}
                [ERecv (WGrp k j) m]
  (* after the cancellation: the blocked Send gives up, the message is dropped, the goroutine goes on *)
  | T_drop : forall c m, s_phase t = SSending c m ->
      seq_trans k t {| s_rest := s_rest t; s_phase := SNext; s_done := false |} [EDrop (WSeq k) m]
  | T_grpdrop : forall c ms j cj m, s_phase t = SGroup c ms -> nth_error ms j = Some (CSending cj m) ->
      seq_trans k t {| s_rest := s_rest t; s_phase := SGroup c (set_nth ms j (CDone cj)); s_done := false |}
                [EDrop (WGrp k j) m].

  Lemma seq_trans_others : forall k t t' es, seq_trans k t t' es ->
    forall k', k' <> k -> Forall (fun e => of_seq k' e = false) es.
  Proof.
    intros k t t' es H k' Hk. assert (E : Nat.eqb k' k = false) by (apply Nat.eqb_neq; exact Hk).
    inversion H; subst; repeat constructor; simpl; auto.
    apply Forall_forall. intros e He. apply in_map_iff in He. destruct He as (jc & <- & _). simpl. exact E.
  Qed.

  Lemma seq_trans_no_seqmsg : forall k t t' es, seq_trans k t t' es -> seq_msgs es = [].
  Proof.
    intros k t t' es H. inversion H; subst; try reflexivity.
    unfold seq_msgs. cbn [flat_map app]. generalize (combine (seq 0 (length (somes cs))) (somes cs)).
    induction l as [|x l IHl]; simpl; auto.
  Qed.

  Lemma seq_trans_rel : forall k t t' es r q, seq_trans k t t' es -> rel t r q ->
    exists r' q', walk_st k r q es = Some (r', q') /\ rel t' r' q'.
  Proof.
    intros k t t' es r q H [Hn Hp]. inversion H; subst; clear H.
    - (* done *) rewrite H0 in Hp. subst q. exists r, QIdle. split; [reflexivity|].
      split; simpl; [rewrite Hn, H1; reflexivity|reflexivity].
    - (* skip *) rewrite H0 in Hp. subst q. exists r, QIdle. split; [reflexivity|].
      split; simpl; [rewrite Hn, H1; reflexivity|reflexivity].
    - (* start *) rewrite H0 in Hp. subst q. rewrite H1 in Hn. simpl in Hn.
      exists r0, (QRunning c). split.
      + cbn [walk_st of_seq sq_step]. rewrite Nat.eqb_refl, Hn, Nat.eqb_refl. reflexivity.
      + split; reflexivity.
    - (* group done *) rewrite H0 in Hp. destruct Hp as [_ Hq]. rewrite open_from_all_done in Hq by assumption.
      simpl in Hq. subst q. exists r, QIdle. split; [reflexivity|]. split; [exact Hn|reflexivity].
    - (* finish, batch *) rewrite H0 in Hp. subst q.
      cbn [walk_st of_seq sq_step]. rewrite !Nat.eqb_refl, H1.
      destruct (ConcSpec.somes cs) as [|c1 ids] eqn:Eids.
      + exists r, QIdle. split; [reflexivity|]. split; [exact Hn|]. simpl. split; [constructor|reflexivity].
      + rewrite <- Eids.
        assert (Hne : combine (seq 0 (length (ConcSpec.somes cs))) (ConcSpec.somes cs) <> [])
          by (rewrite Eids; discriminate).
        destruct (combine (seq 0 (length (ConcSpec.somes cs))) (ConcSpec.somes cs)) as [|jc0 ms0] eqn:Ems; [congruence|].
        rewrite <- Ems. rewrite walk_group_start by (rewrite Ems; discriminate).
        eexists _, _. split; [reflexivity|]. split; [exact Hn|]. simpl.
        split; [apply grp_ok_running|]. rewrite open_from_running. rewrite Ems. reflexivity.
    - (* finish, plain *) rewrite H0 in Hp. subst q.
      exists r, (QSending (cres c)). split.
      + cbn [walk_st of_seq sq_step]. rewrite !Nat.eqb_refl.
        destruct (cres c) eqn:Ec; try reflexivity. exfalso. eapply H1. reflexivity.
      + split; [exact Hn|]. simpl. auto.
    - (* member returns *) rewrite H0 in Hp. destruct Hp as [Hok Hq].
      pose proof (upd_end ms 0 j cj (cres cj)
                   (fun c' b => if Nat.eqb cj c' && negb b then Some (Some true) else None) H1) as Hu.
      simpl in Hu. rewrite Nat.eqb_refl in Hu. specialize (Hu eq_refl).
      destruct (open_from 0 ms) as [|o0 os] eqn:Eo; [simpl in Hu; discriminate|].
      simpl in Hq. subst q.
      cbn [walk_st of_seq sq_step]. rewrite Nat.eqb_refl, Hu.
      eexists _, _. split; [reflexivity|]. split; [exact Hn|]. simpl. split.
      + apply Forall_set_nth; [exact Hok|reflexivity].
      + destruct (open_from 0 (set_nth ms j (CSending cj (cres cj)))) eqn:E2; [|reflexivity].
        (* the member is still open *) exfalso.
        clear - H1 E2. revert j H1 E2. generalize 0 as a. induction ms as [|h ms IH]; intros a [|j] Hn E; simpl in *; try discriminate.
        destruct h; try discriminate. eapply IH; eauto.
    - (* message of the element taken *) rewrite H0 in Hp. destruct Hp as [Hq _]. subst q.
      exists r, QIdle. split.
      + cbn [walk_st of_seq sq_step]. rewrite Nat.eqb_refl, msg_eqb_refl. reflexivity.
      + split; [exact Hn|reflexivity].
    - (* message of a member taken *) rewrite H0 in Hp. destruct Hp as [Hok Hq].
      assert (Hm : m = cres cj) by (exact (Forall_nth_error _ _ _ _ _ Hok H1)). subst m.
      pose proof (upd_recv ms 0 j cj (cres cj)
                   (fun c' b => if b && msg_eqb (cres cj) (cres c') then Some None else None) H1) as Hu.
      simpl in Hu. rewrite msg_eqb_refl in Hu. specialize (Hu eq_refl).
      destruct (open_from 0 ms) as [|o0 os] eqn:Eo; [simpl in Hu; discriminate|].
      simpl in Hq. subst q.
      cbn [walk_st of_seq sq_step]. rewrite Nat.eqb_refl, Hu.
      exists r, (qgroup (open_from 0 (set_nth ms j (CDone cj)))). split.
      + unfold qgroup. destruct (open_from 0 (set_nth ms j (CDone cj))); reflexivity.
      + split; [exact Hn|]. simpl. split; [|reflexivity].
        apply Forall_set_nth; [exact Hok|exact I].
    - (* message of the element dropped *) rewrite H0 in Hp. destruct Hp as [Hq _]. subst q.
      exists r, QIdle. split.
      + cbn [walk_st of_seq sq_step]. rewrite Nat.eqb_refl, msg_eqb_refl. reflexivity.
      + split; [exact Hn|reflexivity].
    - (* message of a member dropped *) rewrite H0 in Hp. destruct Hp as [Hok Hq].
      assert (Hm : m = cres cj) by (exact (Forall_nth_error _ _ _ _ _ Hok H1)). subst m.
      pose proof (upd_recv ms 0 j cj (cres cj)
                   (fun c' b => if b && msg_eqb (cres cj) (cres c') then Some None else None) H1) as Hu.
      simpl in Hu. rewrite msg_eqb_refl in Hu. specialize (Hu eq_refl).
      destruct (open_from 0 ms) as [|o0 os] eqn:Eo; [simpl in Hu; discriminate|].
      simpl in Hq. subst q.
      cbn [walk_st of_seq sq_step]. rewrite Nat.eqb_refl, Hu.
      exists r, (qgroup (open_from 0 (set_nth ms j (CDone cj)))). split.
      + unfold qgroup. destruct (open_from 0 (set_nth ms j (CDone cj))); reflexivity.
      + split; [exact Hn|]. simpl. split; [|reflexivity].
        apply Forall_set_nth; [exact Hok|exact I].
  Qed.

  (* ------------------------------------------------------------------ *)
  (* the invariant, over the two components of the state it talks about *)

  Definition Inv' (seqs : list sthread) (log : list ev) : Prop :=
    length (seq_msgs log) = length seqs /\
    (forall e, In e log -> forall k, of_seq k e = true -> k < length seqs) /\
    (forall k t, nth_error seqs k = Some t ->
       exists cs r q, nth_error (seq_msgs log) k = Some cs /\ walk_st k cs QIdle log = Some (r, q) /\ rel t r q).

  Lemma Inv_init : Inv' [] [].
  Proof.
    split; [reflexivity|]. split; [intros e []|]. intros [|k] t H; discriminate.
  Qed.

  (* a step of some other thread *)
  Lemma Inv_frame : forall seqs log es, Inv' seqs log ->
    Forall (fun e => forall k, of_seq k e = false) es -> seq_msgs es = [] -> Inv' seqs (log ++ es).
  Proof.
    intros seqs log es (I1 & I2 & I3) Hes Hsm. split; [|split].
    - rewrite seq_msgs_app, Hsm, app_nil_r. exact I1.
    - intros e He k Hk. apply in_app_or in He. destruct He as [He|He]; [eauto|].
      rewrite Forall_forall in Hes. rewrite (Hes _ He k) in Hk. discriminate.
    - intros k t Hn. destruct (I3 k t Hn) as (cs & r & q & H1 & H2 & H3). exists cs, r, q.
      split; [rewrite seq_msgs_app, Hsm, app_nil_r; exact H1|]. split; [|exact H3].
      rewrite walk_app, H2. apply walk_skip. eapply Forall_impl; [|exact Hes]. intros e He. apply He.
  Qed.

  (* a step of sequence goroutine k or one of its members *)
  Lemma Inv_seq : forall seqs log k t t' es, Inv' seqs log ->
    nth_error seqs k = Some t -> seq_trans k t t' es -> Inv' (set_nth seqs k t') (log ++ es).
  Proof.
    intros seqs log k t t' es (I1 & I2 & I3) Hn Ht.
    pose proof (seq_trans_no_seqmsg _ _ _ _ Ht) as Hsm.
    assert (Hk : k < length seqs) by (apply nth_error_Some; congruence).
    split; [|split].
    - rewrite seq_msgs_app, Hsm, app_nil_r, set_nth_length. exact I1.
    - intros e He k' Hk'. rewrite set_nth_length. apply in_app_or in He. destruct He as [He|He]; [eauto|].
      destruct (Nat.eq_dec k' k) as [->|Hne]; [exact Hk|].
      pose proof (seq_trans_others _ _ _ _ Ht k' Hne) as Ho. rewrite Forall_forall in Ho.
      rewrite (Ho _ He) in Hk'. discriminate.
    - intros k' t0 Hn'. destruct (Nat.eq_dec k' k) as [->|Hne].
      + rewrite (nth_set_same _ _ _ _ _ Hn) in Hn'. injection Hn' as <-.
        destruct (I3 k t Hn) as (cs & r & q & H1 & H2 & H3).
        destruct (seq_trans_rel _ _ _ _ _ _ Ht H3) as (r' & q' & H4 & H5).
        exists cs, r', q'. split; [rewrite seq_msgs_app, Hsm, app_nil_r; exact H1|].
        split; [|exact H5]. rewrite walk_app, H2. exact H4.
      + rewrite nth_set_other in Hn' by exact Hne.
        destruct (I3 k' t0 Hn') as (cs & r & q & H1 & H2 & H3). exists cs, r, q.
        split; [rewrite seq_msgs_app, Hsm, app_nil_r; exact H1|]. split; [|exact H3].
        rewrite walk_app, H2. apply walk_skip. eapply seq_trans_others; eauto.
  Qed.

  (* the loop processes a sequence message: a new sequence goroutine *)
  Lemma Inv_new : forall seqs log cs c, Inv' seqs log ->
    Inv' (seqs ++ [{| s_rest := cs; s_phase := SNext; s_done := false |}]) (log ++ [EUpdate (MSeq cs) c]).
  Proof.
    intros seqs log cs c (I1 & I2 & I3). split; [|split].
    - rewrite seq_msgs_app, !app_length. simpl. lia.
    - intros e He k Hk. rewrite app_length. simpl. apply in_app_or in He. destruct He as [He|[<-|[]]].
      + specialize (I2 e He k Hk). lia.
      + discriminate.
    - intros k t Hn. rewrite seq_msgs_app. simpl.
      destruct (Nat.lt_ge_cases k (length seqs)) as [Hlt|Hge].
      + rewrite nth_error_app1 in Hn by exact Hlt.
        destruct (I3 k t Hn) as (cs0 & r & q & H1 & H2 & H3). exists cs0, r, q.
        split; [rewrite nth_error_app1 by (rewrite I1; exact Hlt); exact H1|]. split; [|exact H3].
        rewrite walk_app, H2. reflexivity.
      + rewrite nth_error_app2 in Hn by exact Hge.
        destruct (k - length seqs) as [|d] eqn:Ed; [|destruct d; discriminate].
        injection Hn as <-. assert (k = length seqs) by lia. subst k.
        exists cs, cs, QIdle. split; [|split].
        * rewrite nth_error_app2 by (rewrite I1; lia). rewrite I1, Nat.sub_diag. reflexivity.
        * rewrite walk_app. rewrite walk_skip; [reflexivity|].
          apply Forall_forall. intros e He. destruct (of_seq (length seqs) e) eqn:E; [|reflexivity].
          specialize (I2 e He _ E). lia.
        * split; reflexivity.
  Qed.

  (* ------------------------------------------------------------------ *)
  (* pure consequences of a successful walk *)

  Definition is_batch (m : msg) : bool := match m with MBatch _ => true | _ => false end.
  (* the results that travel through the sequence goroutine's own Send *)
  Definition plain (cs : list cmdid) : list msg := filter (fun m => negb (is_batch m)) (map cres cs).
  Definition pend (q : sq_state) : list msg :=
    match q with QRunning c => plain [c] | QSending m => [m] | _ => [] end.
  (* the elements sequence goroutine k has started, in order *)
  Definition seq_starts (k : nat) (log : list ev) : list cmdid :=
    flat_map (fun e => match e with EStart (WSeq k') c => if Nat.eqb k k' then [c] else [] | _ => [] end) log.

  Lemma plain_app : forall a b, plain (a ++ b) = plain a ++ plain b.
  Proof. intros. unfold plain. rewrite map_app, filter_app. reflexivity. Qed.

  Lemma plain_cons : forall c l, plain (c :: l) = plain [c] ++ plain l.
  Proof. intros. apply (plain_app [c] l). Qed.

  Lemma next_elem_somes : forall rest c rest', next_elem rest = Some (c, rest') -> somes rest = c :: somes rest'.
  Proof.
    induction rest as [|[x|] rest IH]; intros c rest' H; simpl in H; try discriminate.
    - injection H as <- <-. reflexivity.
    - apply IH in H. exact H.
  Qed.

  Lemma sq_step_recv : forall k rest st e rest' st', of_seq k e = true ->
    sq_step cres rest st e = Some (rest', st') ->
    sent_from (WSeq k) [e] ++ pend st' ++ plain (somes rest') = pend st ++ plain (somes rest).
  Proof.
    intros k rest st e rest' st' Hk H.
    destruct st as [|c|m|[|[j0 c0] todo] all|open]; destruct e as [w m'|m' c'|  |c'|w c'|w c'| |w m'| | ]; simpl in H; try discriminate;
      destruct w as [i|i|k'|k' j]; try discriminate; simpl in Hk.
    - (* idle, start *) destruct (next_elem rest) as [[c0 r0]|] eqn:En; try discriminate.
      destruct (Nat.eqb c' c0) eqn:Ec; try discriminate. apply Nat.eqb_eq in Ec. subst c0.
      injection H as <- <-. rewrite (next_elem_somes _ _ _ En). simpl pend.
      rewrite (plain_cons c' (somes r0)). reflexivity.
    - (* running, end *) destruct (Nat.eqb c c') eqn:Ec; try discriminate.
      unfold pend at 2. unfold plain at 2. simpl map. simpl filter.
      destruct (cres c) as [| tg | | cs | cs] eqn:Er; simpl in H |- *.
      + injection H as <- <-. reflexivity.
      + injection H as <- <-. reflexivity.
      + injection H as <- <-. reflexivity.
      + destruct (combine _ _); injection H as <- <-; reflexivity.
      + injection H as <- <-. reflexivity.
    - (* sending, received *) destruct (msg_eqb m m') eqn:Em; try discriminate. apply msg_eqb_eq in Em. subst m'.
      injection H as <- <-. simpl. rewrite Hk. reflexivity.
    - (* sending, dropped *) destruct (msg_eqb m m') eqn:Em; try discriminate. apply msg_eqb_eq in Em. subst m'.
      injection H as <- <-. simpl. rewrite Hk. reflexivity.
    - (* group start *)
      destruct (Nat.eqb j0 j && Nat.eqb c0 c'); try discriminate.
      destruct todo; injection H as <- <-; reflexivity.
    - (* member received *) destruct (upd_member j _ open) as [[|o os]|]; try discriminate; injection H as <- <-; reflexivity.
    - (* member ended *) destruct (upd_member j _ open) as [os|]; try discriminate; injection H as <- <-; reflexivity.
    - (* member dropped *) destruct (upd_member j _ open) as [[|o os]|]; try discriminate; injection H as <- <-; reflexivity.
  Qed.

  Lemma sent_other : forall k e, of_seq k e = false -> sent_from (WSeq k) [e] = [].
  Proof.
    intros k e H. destruct e as [w m| | | |w c|w c| |w m| | ]; try reflexivity;
      destruct w; try reflexivity; simpl in *; rewrite H; reflexivity.
  Qed.

  Lemma walk_recv : forall k log rest st r q, walk_st k rest st log = Some (r, q) ->
    sent_from (WSeq k) log ++ pend q ++ plain (somes r) = pend st ++ plain (somes rest).
  Proof.
    induction log as [|e log IH]; intros rest st r q H; simpl in H.
    - injection H as <- <-. reflexivity.
    - change (e :: log) with ([e] ++ log). rewrite sent_from_app, <- app_assoc.
      destruct (of_seq k e) eqn:Ek.
      + destruct (sq_step cres rest st e) as [[r' st']|] eqn:Es; try discriminate.
        rewrite (IH _ _ _ _ H). eapply sq_step_recv; eauto.
      + rewrite (sent_other _ _ Ek). simpl. eapply IH; eauto.
  Qed.

  Lemma seq_starts_app : forall k l1 l2, seq_starts k (l1 ++ l2) = seq_starts k l1 ++ seq_starts k l2.
  Proof. intros. unfold seq_starts. apply flat_map_app. Qed.

  Lemma sq_step_starts : forall k rest st e rest' st', of_seq k e = true ->
    sq_step cres rest st e = Some (rest', st') ->
    seq_starts k [e] ++ somes rest' = somes rest.
  Proof.
    intros k rest st e rest' st' Hk H.
    destruct st as [|c|m|[|[j0 c0] todo] all|open]; destruct e as [w m'|m' c'|  |c'|w c'|w c'| |w m'| | ]; simpl in H; try discriminate;
      destruct w as [i|i|k'|k' j]; try discriminate; simpl in Hk.
    - destruct (next_elem rest) as [[c0 r0]|] eqn:En; try discriminate.
      destruct (Nat.eqb c' c0) eqn:Ec; try discriminate. apply Nat.eqb_eq in Ec. subst c0.
      injection H as <- <-. rewrite (next_elem_somes _ _ _ En). simpl. rewrite Hk. reflexivity.
    - destruct (Nat.eqb c c'); try discriminate.
      destruct (cres c) as [| tg | | cs | cs]; simpl in H; try (injection H as <- <-; reflexivity).
      destruct (combine _ _); injection H as <- <-; reflexivity.
    - destruct (msg_eqb m m'); try discriminate. injection H as <- <-. reflexivity.
    - destruct (msg_eqb m m'); try discriminate. injection H as <- <-. reflexivity.
    - destruct (Nat.eqb j0 j && Nat.eqb c0 c'); try discriminate.
      destruct todo; injection H as <- <-; reflexivity.
    - destruct (upd_member j _ open) as [[|o os]|]; try discriminate; injection H as <- <-; reflexivity.
    - destruct (upd_member j _ open) as [os|]; try discriminate; injection H as <- <-; reflexivity.
    - destruct (upd_member j _ open) as [[|o os]|]; try discriminate; injection H as <- <-; reflexivity.
  Qed.

  Lemma starts_other : forall k e, of_seq k e = false -> seq_starts k [e] = [].
  Proof.
    intros k e H. destruct e as [w m| | | |w c|w c| |w m| | ]; try reflexivity.
    destruct w; try reflexivity. simpl in *. rewrite H. reflexivity.
  Qed.

  Lemma walk_starts : forall k log rest st r q, walk_st k rest st log = Some (r, q) ->
    seq_starts k log ++ somes r = somes rest.
  Proof.
    induction log as [|e log IH]; intros rest st r q H; simpl in H.
    - injection H as <- <-. reflexivity.
    - change (e :: log) with ([e] ++ log). rewrite seq_starts_app, <- app_assoc.
      destruct (of_seq k e) eqn:Ek.
      + destruct (sq_step cres rest st e) as [[r' st']|] eqn:Es; try discriminate.
        rewrite (IH _ _ _ _ H). eapply sq_step_starts; eauto.
      + rewrite (starts_other _ _ Ek). simpl. eapply IH; eauto.
  Qed.

  Lemma pend_short : forall q, length (pend q) <= 1.
  Proof.
    intros [|c|m|todo all|open]; simpl; auto. unfold plain. simpl. destruct (negb (is_batch (cres c))); simpl; auto.
  Qed.

  (* what a successful walk says about order: the elements started are a prefix of the non-nil elements, and
     the messages the sequence goroutine itself got rid of (taken by the loop, or dropped after the cancellation)
     are the non-batch results of the started elements, in that order, all but possibly the last one *)
  Lemma walk_order : forall k cs log r q, walk_st k cs QIdle log = Some (r, q) ->
    seq_starts k log ++ somes r = somes cs /\
    sent_from (WSeq k) log ++ pend q = plain (seq_starts k log).
  Proof.
    intros k cs log r q H. pose proof (walk_starts _ _ _ _ _ _ H) as Hs. split; [exact Hs|].
    pose proof (walk_recv _ _ _ _ _ _ H) as Hr. simpl in Hr. rewrite <- Hs, plain_app in Hr.
    rewrite app_assoc in Hr. apply app_inv_tail in Hr. exact Hr.
  Qed.

  (* ---- what must have been received before the walk is back between elements ---- *)

  (* the message got through: the loop took it, or (after the cancellation) the Send gave up *)
  Definition thru (w : who) (m : msg) (l : list ev) : Prop := In (ERecv w m) l \/ In (EDrop w m) l.

  Lemma thru_mono : forall w m l l', (forall x, In x l -> In x l') -> thru w m l -> thru w m l'.
  Proof. intros w m l l' Hi [H|H]; [left|right]; auto. Qed.

  Lemma thru_cons : forall w m e l, thru w m l -> thru w m (e :: l).
  Proof. intros w m e l H. eapply thru_mono; [|exact H]. intros x Hx. right. exact Hx. Qed.

  Definition need (k : nat) (st : sq_state) (l : list ev) : Prop :=
    match st with
    | QIdle => True
    | QRunning c =>
      match cres c with
      | MBatch cs => forall j cj, nth_error (somes cs) j = Some cj -> thru (WGrp k j) (cres cj) l
      | m => thru (WSeq k) m l
      end
    | QSending m => thru (WSeq k) m l
    | QGroupStart _ all => forall j c, In (j, c) all -> thru (WGrp k j) (cres c) l
    | QGroup open => forall j c b, In (j, c, b) open -> thru (WGrp k j) (cres c) l
    end.

  Lemma need_mono : forall k st l l', (forall x, In x l -> In x l') -> need k st l -> need k st l'.
  Proof.
    intros k st l l' Hi H. destruct st as [|c|m|todo all|open]; simpl in *; auto;
      try destruct (cres c); intros; eapply thru_mono; eauto.
  Qed.

  Lemma upd_member_In : forall j f open open', upd_member j f open = Some open' ->
    forall j0 c0 b0, In (j0, c0, b0) open ->
      In (j0, c0, b0) open' \/
      (j0 = j /\ exists r, f c0 b0 = Some r /\ match r with None => True | Some b' => In (j0, c0, b') open' end).
  Proof.
    induction open as [|[[j1 c1] b1] open IH]; intros open' H j0 c0 b0 Hin; simpl in H; [discriminate|].
    destruct (Nat.eqb j j1) eqn:Ej.
    - apply Nat.eqb_eq in Ej. subst j1.
      destruct Hin as [Hin|Hin].
      + injection Hin as -> -> ->. right. split; [reflexivity|].
        destruct (f c0 b0) as [[b'|]|]; try discriminate; injection H as <-; eexists; split; try reflexivity; simpl; auto.
      + left. destruct (f c1 b1) as [[b'|]|]; try discriminate; injection H as <-; simpl; auto.
    - destruct (upd_member j f open) as [t'|] eqn:Eu; try discriminate. injection H as <-.
      destruct Hin as [Hin|Hin].
      + left. left. exact Hin.
      + destruct (IH _ eq_refl _ _ _ Hin) as [Hl|(-> & r & Hr & Hm)].
        * left. right. exact Hl.
        * right. split; [reflexivity|]. exists r. split; [exact Hr|]. destruct r; simpl; auto.
  Qed.

  Lemma sq_step_need : forall k rest st e rest' st' l, of_seq k e = true ->
    sq_step cres rest st e = Some (rest', st') -> need k st' l -> need k st (e :: l).
  Proof.
    intros k rest st e rest' st' l Hk H Hn.
    destruct st as [|c|m|[|[j0 c0] todo] all|open]; [exact I| | | | |];
      destruct e as [w m'|m' c'|  |c'|w c'|w c'| |w m'| | ]; simpl in H; try discriminate;
      destruct w as [i|i|k'|k' j]; try discriminate; simpl in Hk; apply Nat.eqb_eq in Hk; subst k'.
    - (* running, end *) destruct (Nat.eqb c c') eqn:Ec; try discriminate. simpl.
      destruct (cres c) as [| tg | | cs | cs] eqn:Er; simpl in H.
      + injection H as <- <-. apply thru_cons. exact Hn.
      + injection H as <- <-. apply thru_cons. exact Hn.
      + injection H as <- <-. apply thru_cons. exact Hn.
      + intros j cj Hj. apply thru_cons. pose proof (In_combine_seq _ _ 0 _ _ Hj) as Hin. simpl in Hin.
        destruct (combine (seq 0 (length (somes cs))) (somes cs)) as [|jc0 ms0] eqn:Ems; [destruct Hin|].
        injection H as <- <-. simpl in Hn. apply Hn. exact Hin.
      + injection H as <- <-. apply thru_cons. exact Hn.
    - (* sending, received *) destruct (msg_eqb m m') eqn:Em; try discriminate. apply msg_eqb_eq in Em. subst m'.
      left. left. reflexivity.
    - (* sending, dropped *) destruct (msg_eqb m m') eqn:Em; try discriminate. apply msg_eqb_eq in Em. subst m'.
      right. left. reflexivity.
    - (* group start *)
      destruct (Nat.eqb j0 j && Nat.eqb c0 c'); try discriminate.
      simpl. intros j1 c1 Hin. apply thru_cons.
      destruct todo; injection H as <- <-; simpl in Hn.
      + apply (Hn j1 c1 false). apply in_map_iff. exists (j1, c1). split; [reflexivity|exact Hin].
      + apply Hn. exact Hin.
    - (* member received *) simpl. intros j0 c0 b0 Hin.
      destruct (upd_member j _ open) as [open'|] eqn:Eu; try discriminate.
      destruct (upd_member_In _ _ _ _ Eu _ _ _ Hin) as [Hl|(-> & r & Hr & Hm)].
      + apply thru_cons. destruct open' as [|o os]; [destruct Hl|]. injection H as <- <-. simpl in Hn. eapply Hn. exact Hl.
      + left. left. destruct b0; simpl in Hr; try discriminate.
        destruct (msg_eqb m' (cres c0)) eqn:Em; try discriminate. apply msg_eqb_eq in Em. subst m'. reflexivity.
    - (* member ended *) simpl. intros j0 c0 b0 Hin. apply thru_cons.
      destruct (upd_member j _ open) as [open'|] eqn:Eu; try discriminate. injection H as <- <-. simpl in Hn.
      destruct (upd_member_In _ _ _ _ Eu _ _ _ Hin) as [Hl|(-> & r & Hr & Hm)].
      + eapply Hn. exact Hl.
      + destruct (Nat.eqb c' c0 && negb b0); try discriminate. injection Hr as <-. eapply Hn. exact Hm.
    - (* member dropped *) simpl. intros j0 c0 b0 Hin.
      destruct (upd_member j _ open) as [open'|] eqn:Eu; try discriminate.
      destruct (upd_member_In _ _ _ _ Eu _ _ _ Hin) as [Hl|(-> & r & Hr & Hm)].
      + apply thru_cons. destruct open' as [|o os]; [destruct Hl|]. injection H as <- <-. simpl in Hn. eapply Hn. exact Hl.
      + right. left. destruct b0; simpl in Hr; try discriminate.
        destruct (msg_eqb m' (cres c0)) eqn:Em; try discriminate. apply msg_eqb_eq in Em. subst m'. reflexivity.
  Qed.

  Lemma start_from_idle : forall k rest st c rest' st',
    sq_step cres rest st (EStart (WSeq k) c) = Some (rest', st') -> st = QIdle /\ st' = QRunning c.
  Proof.
    intros k rest st c rest' st' H. destruct st as [|c0|m|todo all|open]; simpl in H; try discriminate.
    - destruct (next_elem rest) as [[c1 r1]|]; try discriminate. destruct (Nat.eqb c c1); try discriminate.
      injection H as <- <-. auto.
    - destruct todo as [|[j0 c0] todo]; discriminate.
  Qed.

  Lemma walk_need : forall k l rest st r, walk_st k rest st l = Some (r, QIdle) ->
    (forall c, ~ In (EStart (WSeq k) c) l) -> need k st l.
  Proof.
    induction l as [|e l IH]; intros rest st r H Hno; simpl in H.
    - injection H as <- ->. exact I.
    - assert (Hno' : forall c, ~ In (EStart (WSeq k) c) l) by (intros c Hc; apply (Hno c); right; exact Hc).
      destruct (of_seq k e) eqn:Ek.
      + destruct (sq_step cres rest st e) as [[r' st']|] eqn:Es; try discriminate.
        eapply sq_step_need; eauto.
      + eapply need_mono; [|eapply IH; eauto]. intros x Hx. right. exact Hx.
  Qed.

  (* between two consecutive starts of sequence goroutine k, everything the first element produced got through *)
  Lemma walk_between_starts : forall k cs l1 c1 l1' c2 l2 r q,
    walk_st k cs QIdle (l1 ++ EStart (WSeq k) c1 :: l1' ++ EStart (WSeq k) c2 :: l2) = Some (r, q) ->
    (forall c, ~ In (EStart (WSeq k) c) l1') ->
    need k (QRunning c1) l1'.
  Proof.
    intros k cs l1 c1 l1' c2 l2 r q H Hno.
    rewrite walk_app in H. destruct (walk_st k cs QIdle l1) as [[r1 q1]|]; try discriminate.
    cbn [walk_st of_seq] in H. rewrite Nat.eqb_refl in H.
    destruct (sq_step cres r1 q1 (EStart (WSeq k) c1)) as [[r2 q2]|] eqn:E1; try discriminate.
    apply start_from_idle in E1. destruct E1 as [-> ->].
    rewrite walk_app in H. destruct (walk_st k r2 (QRunning c1) l1') as [[r3 q3]|] eqn:E2; try discriminate.
    cbn [walk_st of_seq] in H. rewrite Nat.eqb_refl in H.
    destruct (sq_step cres r3 q3 (EStart (WSeq k) c2)) as [[r4 q4]|] eqn:E3; try discriminate.
    apply start_from_idle in E3. destruct E3 as [-> ->].
    eapply walk_need; eauto.
  Qed.
End Walk.

(* ------------------------------------------------------------------ *)
(* the model *)

Section Model.
  Variable M : Type.
  Variable upd : M -> msg -> M * option cmdid.
  Variable cres : cmdid -> msg.
  Variable m0 : M.
  Variable init_cmd : option cmdid.
  Variable scripts : list (list msg).

  Definition reach (s : cstate M) : Prop :=
    exists sched, s = run M upd cres (init_state M m0 init_cmd scripts) sched.

  Definition Inv (s : cstate M) : Prop := Inv' cres (c_seqs s) (c_log s).

  (* every step is of one of three shapes, as far as sequences and the log are concerned *)
  Definition shapeA (s s' : cstate M) : Prop :=
    c_seqs s' = c_seqs s /\
    exists es, c_log s' = c_log s ++ es /\ Forall (fun e => forall k, of_seq k e = false) es /\ seq_msgs es = [].
  Definition shapeB (s s' : cstate M) : Prop :=
    exists k t t' es, nth_error (c_seqs s) k = Some t /\ c_seqs s' = set_nth (c_seqs s) k t' /\
                      c_log s' = c_log s ++ es /\ seq_trans cres k t t' es.
  Definition shapeC (s s' : cstate M) : Prop :=
    exists cs c, c_seqs s' = c_seqs s ++ [{| s_rest := cs; s_phase := SNext; s_done := false |}] /\
                 c_log s' = c_log s ++ [EUpdate (MSeq cs) c].

  Ltac shA es :=
    left; split; [reflexivity|]; exists es; split;
    [simpl; rewrite ?app_nil_r, <- ?app_assoc; reflexivity | split; [repeat constructor | reflexivity]].

  Ltac shB k t t' es :=
    right; left; exists k, t, t', es; split; [eassumption|]; split; [reflexivity|]; split;
    [simpl; rewrite ?app_nil_r, <- ?app_assoc; reflexivity | ].

  Lemma step_shape : forall s l s', step M upd cres s l = Some s' -> shapeA s s' \/ shapeB s s' \/ shapeC s s'.
  Proof.
    intros s l s' H. destruct l as [w| | | |j|k|k|k j| | | |w| | | ]; simpl in H.
    - (* LbRecv *)
      destruct (c_loop s) eqn:EL; try discriminate.
      destruct (offer M s w) as [m|] eqn:EO; try discriminate. injection H as <-.
      destruct w as [i|j|k|k j]; simpl in EO |- *.
      + destruct (nth_error (c_senders s) i) as [[|m1 rest]|]; try discriminate. shA [ERecv (WSender i) m].
      + destruct (nth_error (c_cmds s) j) as [[c|c m1|c]|]; try discriminate. shA [ERecv (WCmd j) m].
      + destruct (nth_error (c_seqs s) k) as [t|] eqn:En; try discriminate.
        destruct (s_phase t) as [|c|c m1|c ms] eqn:Ep; try discriminate. injection EO as ->.
        shB k t {| s_rest := s_rest t; s_phase := SNext; s_done := false |} [ERecv (WSeq k) m].
        eapply T_recv; eauto.
      + destruct (nth_error (c_seqs s) k) as [t|] eqn:En; try discriminate.
        destruct (s_phase t) as [|c|c m1|c ms] eqn:Ep; try discriminate.
        destruct (nth_error ms j) as [[cj|cj m1|cj]|] eqn:Ej; try discriminate. injection EO as ->.
        shB k t {| s_rest := s_rest t; s_phase := SGroup c (set_nth ms j (CDone cj)); s_done := false |} [ERecv (WGrp k j) m].
        eapply T_grprecv; eauto.
    - (* LbProcess *)
      destruct (c_loop s) as [|m|c|cs| |] eqn:EL; try discriminate.
      destruct m as [|tg| |cs|cs].
      + injection H as <-. shA (@nil ev).
      + destruct (upd (c_model s) (MUser tg)) as [m' c]. injection H as <-. shA [EUpdate (MUser tg) c].
      + injection H as <-. shA [EExit].
      + injection H as <-. shA (@nil ev).
      + destruct (upd (c_model s) (MSeq cs)) as [m' c]. injection H as <-.
        right; right. exists cs, c. split; [reflexivity|]. simpl. rewrite app_nil_r. reflexivity.
    - (* LbHand *)
      destruct (c_disp s).
      + destruct (c_loop s) as [|m|[c|]|[|[c|] cs]| |] eqn:EL; try discriminate; injection H as <-.
        * shA [EHand c; EStart (WCmd (length (c_cmds s))) c].
        * shA (@nil ev).
        * shA (@nil ev).
        * shA [EHand c; EStart (WCmd (length (c_cmds s))) c].
        * shA (@nil ev).
      + destruct (c_loop s) as [|m|c|[|c cs]| |] eqn:EL; try discriminate; injection H as <-. shA (@nil ev).
    - (* LbView *)
      destruct (c_loop s); try discriminate. injection H as <-. shA [EView].
    - (* LbCmdFinish *)
      destruct (nth_error (c_cmds s) j) as [[c|c m1|c]|]; try discriminate. injection H as <-. shA [EEnd (WCmd j) c].
    - (* LbSeqStep *)
      destruct (nth_error (c_seqs s) k) as [t|] eqn:En; try discriminate.
      destruct (s_done t); try discriminate.
      destruct (s_phase t) as [|c|c m1|c ms] eqn:Ep; try discriminate.
      + destruct (s_rest t) as [|[c|] r] eqn:Er; injection H as <-.
        * shB k t {| s_rest := @nil (option cmdid); s_phase := SNext; s_done := true |} (@nil ev). eapply T_done; eauto.
        * shB k t {| s_rest := r; s_phase := SRunning c; s_done := false |} [EStart (WSeq k) c]. eapply T_start; eauto.
        * shB k t {| s_rest := r; s_phase := SNext; s_done := false |} (@nil ev). eapply T_skip; eauto.
      + destruct (all_done ms) eqn:Ea; try discriminate. injection H as <-.
        shB k t {| s_rest := s_rest t; s_phase := SNext; s_done := false |} (@nil ev). eapply T_grpdone; eauto.
    - (* LbSeqFinish *)
      destruct (nth_error (c_seqs s) k) as [t|] eqn:En; try discriminate.
      destruct (s_phase t) as [|c|c m1|c ms] eqn:Ep; try discriminate.
      destruct (cres c) as [|tg| |cs|cs] eqn:Ec; injection H as <-.
      + shB k t {| s_rest := s_rest t; s_phase := SSending c MNil; s_done := false |} [EEnd (WSeq k) c].
        rewrite <- Ec. eapply T_fin_plain; eauto. congruence.
      + shB k t {| s_rest := s_rest t; s_phase := SSending c (MUser tg); s_done := false |} [EEnd (WSeq k) c].
        rewrite <- Ec. eapply T_fin_plain; eauto. congruence.
      + shB k t {| s_rest := s_rest t; s_phase := SSending c MQuit; s_done := false |} [EEnd (WSeq k) c].
        rewrite <- Ec. eapply T_fin_plain; eauto. congruence.
      + shB k t {| s_rest := s_rest t; s_phase := SGroup c (map CRunning (ConcSpec.somes cs)); s_done := false |}
            (EEnd (WSeq k) c :: map (fun jc : nat * cmdid => EStart (WGrp k (fst jc)) (snd jc))
                                    (combine (seq 0 (length (ConcSpec.somes cs))) (ConcSpec.somes cs))).
        eapply T_fin_batch; eauto.
      + shB k t {| s_rest := s_rest t; s_phase := SSending c (MSeq cs); s_done := false |} [EEnd (WSeq k) c].
        rewrite <- Ec. eapply T_fin_plain; eauto. congruence.
    - (* LbGrpFinish *)
      destruct (nth_error (c_seqs s) k) as [t|] eqn:En; try discriminate.
      destruct (s_phase t) as [|c|c m1|c ms] eqn:Ep; try discriminate.
      destruct (nth_error ms j) as [[cj|cj m1|cj]|] eqn:Ej; try discriminate. injection H as <-.
      shB k t {| s_rest := s_rest t; s_phase := SGroup c (set_nth ms j (CSending cj (cres cj))); s_done := false |} [EEnd (WGrp k j) cj].
      eapply T_grpfin; eauto.
    - (* LbCancel *) destruct (c_ctx s); try discriminate. injection H as <-. shA [ECancel].
    - (* LbDispExit *) destruct (c_ctx s && c_disp s); try discriminate. injection H as <-. shA (@nil ev).
    - (* LbLoopExit *)
      destruct (c_ctx s); try discriminate. destruct (c_loop s); try discriminate; injection H as <-; shA [EExit].
    - (* LbGiveUp *)
      destruct (c_ctx s); try discriminate.
      destruct (offer M s w) as [m|] eqn:EO; try discriminate. injection H as <-.
      destruct w as [i|j|k|k j]; simpl in EO |- *.
      + destruct (nth_error (c_senders s) i) as [[|m1 rest]|]; try discriminate. shA [EDrop (WSender i) m].
      + destruct (nth_error (c_cmds s) j) as [[c|c m1|c]|]; try discriminate. shA [EDrop (WCmd j) m].
      + destruct (nth_error (c_seqs s) k) as [t|] eqn:En; try discriminate.
        destruct (s_phase t) as [|c|c m1|c ms] eqn:Ep; try discriminate. injection EO as ->.
        shB k t {| s_rest := s_rest t; s_phase := SNext; s_done := false |} [EDrop (WSeq k) m].
        eapply T_drop; eauto.
      + destruct (nth_error (c_seqs s) k) as [t|] eqn:En; try discriminate.
        destruct (s_phase t) as [|c|c m1|c ms] eqn:Ep; try discriminate.
        destruct (nth_error ms j) as [[cj|cj m1|cj]|] eqn:Ej; try discriminate. injection EO as ->.
        shB k t {| s_rest := s_rest t; s_phase := SGroup c (set_nth ms j (CDone cj)); s_done := false |} [EDrop (WGrp k j) m].
        eapply T_grpdrop; eauto.
    - (* LbHandInit *)
      destruct (c_ifw s) as [c|]; try discriminate. destruct (c_disp s); try discriminate. injection H as <-.
      shA [EHand c; EStart (WCmd (length (c_cmds s))) c].
    - (* LbIfwGiveUp *)
      destruct (c_ifw s) as [c|]; try discriminate. destruct (c_ctx s); try discriminate. injection H as <-. shA (@nil ev).
    - (* LbLoopFail *)
      destruct (c_loop s); try discriminate; injection H as <-; shA [EFail; EExit].
  Qed.

  Lemma Inv_step : forall s l s', Inv s -> step M upd cres s l = Some s' -> Inv s'.
  Proof.
    intros s l s' HI H. unfold Inv in *.
    destruct (step_shape _ _ _ H) as [(E1 & es & E2 & Hes & Hsm)|[(k & t & t' & es & Hn & E1 & E2 & Ht)|(cs & c & E1 & E2)]];
      rewrite E1, E2.
    - apply Inv_frame; assumption.
    - eapply Inv_seq; eauto.
    - apply Inv_new; assumption.
  Qed.

  Lemma Inv_run : forall sched s, Inv s -> Inv (run M upd cres s sched).
  Proof.
    induction sched as [|l sched IH]; intros s HI; simpl; [exact HI|].
    apply IH. unfold run1. destruct (step M upd cres s l) as [s'|] eqn:E; [|exact HI].
    eapply Inv_step; eauto.
  Qed.

  Lemma Inv_reach : forall s, reach s -> Inv s.
  Proof. intros s [sched ->]. apply Inv_run. apply Inv_init. Qed.

  (* every sequence goroutine's events walk correctly *)
  Lemma reach_walk : forall s, reach s -> forall k cs, nth_error (seq_msgs (c_log s)) k = Some cs ->
    exists t r q, nth_error (c_seqs s) k = Some t /\ walk_st cres k cs QIdle (c_log s) = Some (r, q) /\ rel cres t r q.
  Proof.
    intros s Hr k cs Hk. destruct (Inv_reach s Hr) as (I1 & I2 & I3).
    assert (Hlt : k < length (c_seqs s)) by (rewrite <- I1; apply nth_error_Some; congruence).
    destruct (nth_error (c_seqs s) k) as [t|] eqn:En; [|apply nth_error_None in En; lia].
    destruct (I3 k t En) as (cs' & r & q & H1 & H2 & H3). rewrite Hk in H1. injection H1 as <-.
    exists t, r, q. auto.
  Qed.

  Lemma reach_event_seq : forall s, reach s -> forall e k, In e (c_log s) -> of_seq k e = true ->
    exists cs, nth_error (seq_msgs (c_log s)) k = Some cs.
  Proof.
    intros s Hr e k He Hk. destruct (Inv_reach s Hr) as (I1 & I2 & I3).
    specialize (I2 e He k Hk). rewrite <- I1 in I2.
    destruct (nth_error (seq_msgs (c_log s)) k) as [cs|] eqn:En; [eauto|apply nth_error_None in En; lia].
  Qed.

  (* 1 *)
  Lemma sequences_ok_reach : forall s, reach s -> sequences_ok cres (c_log s) = true.
  Proof.
    intros s Hr. unfold sequences_ok. apply forallb_forall. intros [k cs] Hin.
    apply In_combine_seq_inv in Hin. destruct Hin as (j & -> & Hj). simpl in *.
    destruct (reach_walk s Hr j cs Hj) as (t & r & q & _ & Hw & _).
    apply seq_walk_iff. rewrite Hw. discriminate.
  Qed.

  (* ---- the cancellation and the log: c_ctx holds exactly when ECancel has been logged, and a Send gives up
     (EDrop) only then ---- *)

  Lemma took_log : forall s w, c_log (took M s w) = c_log s.
  Proof.
    intros s w. destruct w; simpl;
      repeat match goal with |- context [match ?x with _ => _ end] => destruct x end;
      simpl; rewrite ?app_nil_r; reflexivity.
  Qed.

  Lemma took_ctx : forall s w, c_ctx (took M s w) = c_ctx s.
  Proof.
    intros s w. destruct w; simpl;
      repeat match goal with |- context [match ?x with _ => _ end] => destruct x end;
      reflexivity.
  Qed.

  Definition CInv (s : cstate M) : Prop :=
    no_drop_before_cancel (c_log s) = true /\ (c_ctx s = true <-> In ECancel (c_log s)).

  (* every step either leaves c_ctx alone, logs no ECancel, and logs an EDrop only if c_ctx holds,
     or it is the cancellation *)
  Definition ctx_shape (s s' : cstate M) : Prop :=
    exists es, c_log s' = c_log s ++ es /\
      ((c_ctx s' = c_ctx s /\ ~ In ECancel es /\ (c_ctx s = true \/ Forall (fun e => is_drop e = false) es))
       \/ (c_ctx s = false /\ c_ctx s' = true /\ es = [ECancel])).

  Lemma grp_starts_clean : forall k (l : list (nat * cmdid)),
    ~ In ECancel (map (fun jc : nat * cmdid => EStart (WGrp k (fst jc)) (snd jc)) l) /\
    Forall (fun e => is_drop e = false) (map (fun jc : nat * cmdid => EStart (WGrp k (fst jc)) (snd jc)) l).
  Proof.
    intros k l. induction l as [|x l [IH1 IH2]]; simpl; split; auto.
    intros [H|H]; [discriminate|auto].
  Qed.

  Ltac destr_in H :=
    repeat match type of H with
           | context [match ?x with _ => _ end] => destruct x eqn:?; try discriminate
           end.

  Ltac ctx_fin :=
    unfold ctx_shape; simpl; rewrite ?took_log, ?took_ctx, ?app_nil_r, <- ?app_assoc;
    eexists; split; [first [reflexivity | symmetry; apply app_nil_r]|];
    first [ left; split; [first [reflexivity | symmetry; assumption]|]; split; [simpl; intuition discriminate|];
            first [left; assumption | right; repeat constructor]
          | right; repeat split; first [assumption | reflexivity] ].

  Lemma step_ctx : forall s l s', step M upd cres s l = Some s' -> ctx_shape s s'.
  Proof.
    intros s l s' H. destruct l as [w| | | |j|k|k|k j| | | |w| | | ]; simpl in H.
    - destr_in H; injection H as <-; ctx_fin.
    - destr_in H; injection H as <-; ctx_fin.
    - destr_in H; injection H as <-; ctx_fin.
    - destr_in H; injection H as <-; ctx_fin.
    - destr_in H; injection H as <-; ctx_fin.
    - destr_in H; injection H as <-; ctx_fin.
    - (* LbSeqFinish *)
      destruct (nth_error (c_seqs s) k) as [t|]; try discriminate.
      destruct (s_phase t) as [|c|c m1|c ms]; try discriminate.
      destruct (cres c) as [|tg| |cs|cs]; injection H as <-; try ctx_fin.
      unfold ctx_shape; simpl. eexists; split; [reflexivity|]. left. split; [reflexivity|].
      destruct (grp_starts_clean k (combine (seq 0 (length (somes cs))) (somes cs))) as [G1 G2].
      split; [intros [Hc|Hc]; [discriminate|exact (G1 Hc)]|]. right. constructor; [reflexivity|exact G2].
    - destr_in H; injection H as <-; ctx_fin.
    - (* LbCancel *) destruct (c_ctx s) eqn:EC; try discriminate. injection H as <-.
      exists [ECancel]. split; [reflexivity|]. right. auto.
    - (* LbDispExit *) destruct (c_ctx s) eqn:EC; simpl in H; try discriminate.
      destruct (c_disp s); try discriminate. injection H as <-.
      exists []. split; [symmetry; apply app_nil_r|]. left. simpl. rewrite EC. auto.
    - destr_in H; injection H as <-; ctx_fin.
    - destr_in H; injection H as <-; ctx_fin.
    - destr_in H; injection H as <-; ctx_fin.
    - destr_in H; injection H as <-; ctx_fin.
    - destr_in H; injection H as <-; ctx_fin.
  Qed.

  Lemma CInv_step : forall s l s', CInv s -> step M upd cres s l = Some s' -> CInv s'.
  Proof.
    intros s l s' [I1 I2] H. destruct (step_ctx _ _ _ H) as (es & E & [(Ec & Hnc & Hd)|(Ec & Ec' & ->)]); unfold CInv; rewrite E.
    - split.
      + destruct Hd as [Hd|Hd]; [apply ndbc_app_cancelled; [exact I1|apply I2; exact Hd]|apply ndbc_app_nodrop; assumption].
      + rewrite Ec, I2. split; [intros Hi; apply in_or_app; left; exact Hi|].
        intros Hi. apply in_app_or in Hi. destruct Hi as [Hi|Hi]; [exact Hi|contradiction].
    - split.
      + apply ndbc_app_nodrop; [exact I1|repeat constructor].
      + split; [intros _; apply in_or_app; right; left; reflexivity|intros _; exact Ec'].
  Qed.

  Lemma CInv_reach : forall s, reach s -> CInv s.
  Proof.
    intros s [sched ->].
    assert (H0 : CInv (init_state M m0 init_cmd scripts)).
    { split; [reflexivity|]. simpl. split; [discriminate|intros []]. }
    revert H0. generalize (init_state M m0 init_cmd scripts).
    induction sched as [|l sched IH]; intros s HI; simpl; [exact HI|].
    apply IH. unfold run1. destruct (step M upd cres s l) as [s'|] eqn:E; [|exact HI]. eapply CInv_step; eauto.
  Qed.

  Lemma C03_sequences_ok_proof : forall sched,
    let s := run M upd cres (init_state M m0 init_cmd scripts) sched in
    sequences_ok cres (c_log s) = true /\ no_drop_before_cancel (c_log s) = true.
  Proof.
    intros sched s. assert (Hr : reach s) by (exists sched; reflexivity).
    split; [apply sequences_ok_reach; exact Hr|apply (CInv_reach s Hr)].
  Qed.

  (* the invariant behind no_drop_before_cancel *)
  Lemma C03_cancel_logged_proof : forall sched,
    let s := run M upd cres (init_state M m0 init_cmd scripts) sched in
    c_ctx s = true <-> In ECancel (c_log s).
  Proof. intros sched s. apply (CInv_reach s). exists sched. reflexivity. Qed.

  (* as long as the program has not begun terminating nothing is dropped *)
  Lemma running_no_drop : forall s, reach s -> ~ In ECancel (c_log s) -> forall w m, ~ In (EDrop w m) (c_log s).
  Proof. intros s Hr Hnc. apply ndbc_no_drop; [apply (CInv_reach s Hr)|exact Hnc]. Qed.

  (* the bookkeeping the statement of 1 rests on *)
  Lemma C03_seq_threads_proof : forall sched,
    let s := run M upd cres (init_state M m0 init_cmd scripts) sched in
    length (seq_msgs (c_log s)) = length (c_seqs s) /\
    forall k e, In e (c_log s) -> of_seq k e = true -> k < length (c_seqs s).
  Proof.
    intros sched s. destruct (Inv_reach s (ex_intro _ sched eq_refl)) as (I1 & I2 & _).
    split; [exact I1|]. intros k e He Hk. eapply I2; eauto.
  Qed.

  (* 2 *)
  Lemma C03_next_after_receipt_proof : forall sched,
    let s := run M upd cres (init_state M m0 init_cmd scripts) sched in
    forall k l1 c1 l1' c2 l2,
      c_log s = l1 ++ EStart (WSeq k) c1 :: l1' ++ EStart (WSeq k) c2 :: l2 ->
      (forall c, ~ In (EStart (WSeq k) c) l1') ->
      match cres c1 with
      | MBatch cs => forall j cj, nth_error (somes cs) j = Some cj ->
                       In (ERecv (WGrp k j) (cres cj)) l1' \/ In (EDrop (WGrp k j) (cres cj)) l1'
      | m => In (ERecv (WSeq k) m) l1' \/ In (EDrop (WSeq k) m) l1'
      end.
  Proof.
    intros sched s k l1 c1 l1' c2 l2 Hlog Hno.
    assert (Hr : reach s) by (exists sched; reflexivity).
    destruct (reach_event_seq s Hr (EStart (WSeq k) c1) k) as [cs Hcs].
    { rewrite Hlog. apply in_or_app. right. left. reflexivity. }
    { simpl. apply Nat.eqb_refl. }
    destruct (reach_walk s Hr k cs Hcs) as (t & r & q & _ & Hw & _).
    rewrite Hlog in Hw.
    exact (walk_between_starts cres k cs l1 c1 l1' c2 l2 r q Hw Hno).
  Qed.

  (* 2, while the program has not begun terminating: the next element starts only after the loop has RECEIVED
     the previous element's message (every message of its batch) *)
  Lemma C03_next_after_receipt_running_proof : forall sched,
    let s := run M upd cres (init_state M m0 init_cmd scripts) sched in
    ~ In ECancel (c_log s) ->
    forall k l1 c1 l1' c2 l2,
      c_log s = l1 ++ EStart (WSeq k) c1 :: l1' ++ EStart (WSeq k) c2 :: l2 ->
      (forall c, ~ In (EStart (WSeq k) c) l1') ->
      match cres c1 with
      | MBatch cs => forall j cj, nth_error (somes cs) j = Some cj -> In (ERecv (WGrp k j) (cres cj)) l1'
      | m => In (ERecv (WSeq k) m) l1'
      end.
  Proof.
    intros sched s Hnc k l1 c1 l1' c2 l2 Hlog Hno.
    assert (Hr : reach s) by (exists sched; reflexivity).
    pose proof (C03_next_after_receipt_proof sched k l1 c1 l1' c2 l2 Hlog Hno) as H.
    assert (Hnd : forall w m, ~ In (EDrop w m) l1').
    { intros w m Hin. apply (running_no_drop s Hr Hnc w m). fold s in Hlog. rewrite Hlog.
      apply in_or_app. right. right. apply in_or_app. left. exact Hin. }
    fold s in H. destruct (cres c1) as [|tg| |cs|cs].
    - destruct H as [H|H]; [exact H|destruct (Hnd _ _ H)].
    - destruct H as [H|H]; [exact H|destruct (Hnd _ _ H)].
    - destruct H as [H|H]; [exact H|destruct (Hnd _ _ H)].
    - intros j cj Hj. destruct (H j cj Hj) as [H'|H']; [exact H'|destruct (Hnd _ _ H')].
    - destruct H as [H|H]; [exact H|destruct (Hnd _ _ H)].
  Qed.

  (* 3 *)
  Lemma C03_update_order_proof : forall sched,
    let s := run M upd cres (init_state M m0 init_cmd scripts) sched in
    forall k cs, nth_error (seq_msgs (c_log s)) k = Some cs ->
      exists rest pending,
        seq_starts k (c_log s) ++ somes rest = somes cs /\
        sent_from (WSeq k) (c_log s) ++ pending = plain cres (seq_starts k (c_log s)) /\
        length pending <= 1.
  Proof.
    intros sched s k cs Hcs.
    assert (Hr : reach s) by (exists sched; reflexivity).
    destruct (reach_walk s Hr k cs Hcs) as (t & r & q & _ & Hw & _).
    destruct (walk_order cres _ _ _ _ _ Hw) as [H1 H2].
    exists r, (pend cres q). split; [exact H1|]. split; [exact H2|apply pend_short].
  Qed.

  (* 3, while the program has not begun terminating: all of them were received by the loop *)
  Lemma C03_update_order_running_proof : forall sched,
    let s := run M upd cres (init_state M m0 init_cmd scripts) sched in
    ~ In ECancel (c_log s) ->
    forall k cs, nth_error (seq_msgs (c_log s)) k = Some cs ->
      exists rest pending,
        seq_starts k (c_log s) ++ somes rest = somes cs /\
        recv_from (WSeq k) (c_log s) ++ pending = plain cres (seq_starts k (c_log s)) /\
        length pending <= 1.
  Proof.
    intros sched s Hnc k cs Hcs.
    assert (Hr : reach s) by (exists sched; reflexivity).
    destruct (C03_update_order_proof sched k cs Hcs) as (rest & pending & H1 & H2 & H3).
    exists rest, pending. split; [exact H1|]. split; [|exact H3].
    fold s in H2. rewrite <- (sent_recv_no_drop (WSeq k) (c_log s) (running_no_drop s Hr Hnc)). exact H2.
  Qed.

  (* a sequence goroutine that is done stays between elements: in every other phase it is not done *)
  Definition done_ok (seqs : list sthread) : Prop :=
    Forall (fun t => s_done t = true -> s_phase t = SNext) seqs.

  Lemma done_ok_step : forall s l s', done_ok (c_seqs s) -> step M upd cres s l = Some s' -> done_ok (c_seqs s').
  Proof.
    intros s l s' HI H. unfold done_ok in *.
    destruct (step_shape _ _ _ H) as [(E1 & _)|[(k & t & t' & es & Hn & E1 & E2 & Ht)|(cs & c & E1 & E2)]]; rewrite E1.
    - exact HI.
    - apply Forall_set_nth; [exact HI|]. inversion Ht; subst; simpl; intros; (reflexivity || discriminate).
    - apply Forall_app. split; [exact HI|]. constructor; [|constructor]. simpl. discriminate.
  Qed.

  Lemma done_ok_reach : forall s, reach s -> done_ok (c_seqs s).
  Proof.
    intros s [sched ->]. assert (H0 : done_ok (c_seqs (init_state M m0 init_cmd scripts))) by constructor.
    revert H0. generalize (init_state M m0 init_cmd scripts). induction sched as [|l sched IH]; intros s HI; simpl; [exact HI|].
    apply IH. unfold run1. destruct (step M upd cres s l) as [s'|] eqn:E; [|exact HI]. eapply done_ok_step; eauto.
  Qed.

  (* 4: holds in ANY state *)
  Lemma C03_nil_does_not_stall_proof : forall (s : cstate M) k t, nth_error (c_seqs s) k = Some t ->
    (s_phase t = SNext -> s_done t = false -> step M upd cres s (LbSeqStep k) <> None) /\
    (forall c, s_phase t = SRunning c -> step M upd cres s (LbSeqFinish k) <> None) /\
    (forall c m, s_phase t = SSending c m -> c_loop s = LIdle -> step M upd cres s (LbRecv (WSeq k)) <> None) /\
    (forall c ms, s_phase t = SGroup c ms -> s_done t = false -> all_done ms = true ->
                  step M upd cres s (LbSeqStep k) <> None) /\
    (forall c m, s_phase t = SSending c m -> c_ctx s = true -> step M upd cres s (LbGiveUp (WSeq k)) <> None).
  Proof.
    intros s k t Hn. repeat split.
    - intros Hp Hd. simpl. rewrite Hn, Hd, Hp. destruct (s_rest t) as [|[c|] r]; discriminate.
    - intros c Hp. simpl. rewrite Hn, Hp. destruct (cres c); discriminate.
    - intros c m Hp Hl. simpl. rewrite Hl, Hn, Hp. discriminate.
    - intros c ms Hp Hd Ha. simpl. rewrite Hn, Hd, Hp, Ha. discriminate.
    - intros c m Hp Hc. simpl. rewrite Hc, Hn, Hp. discriminate.
  Qed.

  (* 4(d) without the "not done" hypothesis, in every reachable state *)
  Lemma C03_group_done_steps_proof : forall sched,
    let s := run M upd cres (init_state M m0 init_cmd scripts) sched in
    forall k t c ms, nth_error (c_seqs s) k = Some t -> s_phase t = SGroup c ms -> all_done ms = true ->
      step M upd cres s (LbSeqStep k) <> None.
  Proof.
    intros sched s k t c ms Hn Hp Ha.
    pose proof (done_ok_reach s (ex_intro _ sched eq_refl)) as Hd.
    pose proof (Forall_nth_error _ _ _ _ _ Hd Hn) as Ht. simpl in Ht.
    destruct (s_done t) eqn:Ed; [rewrite Ht in Hp by reflexivity; discriminate|].
    simpl. rewrite Hn, Ed, Hp, Ha. discriminate.
  Qed.
End Model.
