(* Tie obligations (K1) for the input decoder: what the translator extracted
   from key.go / key_sequences.go / mouse.go today is what the model and the
   specifications assume. All by computation. *)
From Coq Require Import NArith ZArith List Bool.
Import ListNotations.
From BT Require Import Base.Bytes Model.Keys Model.Mouse Model.Decoder Model.Reader RefTable Spec.Events.
From BTGen Require KeyTable Consts.
Open Scope N_scope.

Definition entry_eqb (a b : bytes * (Z * bool)) : bool :=
  bytes_eqb (fst a) (fst b) && (fst (snd a) =? fst (snd b))%Z && Bool.eqb (snd (snd a)) (snd (snd b)).

Fixpoint table_eqb (a b : list (bytes * (Z * bool))) : bool :=
  match a, b with
  | [], [] => true
  | x :: a', y :: b' => entry_eqb x y && table_eqb a' b'
  | _, _ => false
  end.

(* the key table in the source is the documented one *)
Lemma Tie_KeyTable : table_eqb KeyTable.sequences RefTable.sequences = true.
Proof. vm_compute. reflexivity. Qed.

Lemma Tie_KeyTable_supported : KeyTable.unsupported = nil /\ Consts.unsupported = nil.
Proof. split; vm_compute; reflexivity. Qed.

Lemma Tie_KeyConsts :
  (KeyRunes = RefTable.KeyRunes /\ KeySpace = RefTable.KeySpace /\ KeyEscape = RefTable.KeyEscape /\
   keyNUL = RefTable.KeyNull /\ keyUS = 31 /\ keyDEL = 127 /\ keyESC = 27)%Z.
Proof. vm_compute. repeat split. Qed.

(* the regular expressions and markers the scanners of Model/Decoder.v mirror *)
Definition expect_unknownCSIRe : bytes :=
  [94;92;120;49;98;92;91;91;92;120;51;48;45;92;120;51;102;93;42;91;92;120;50;48;45;92;120;50;102;93;42;91;92;120;52;48;45;92;120;55;101;93].
  (* ^\x1b\[[\x30-\x3f]*[\x20-\x2f]*[\x40-\x7e] *)
Definition expect_mouseSGRRegex : bytes :=
  [94;40;92;100;43;41;59;40;92;100;43;41;59;40;92;100;43;41;40;91;77;109;93;41].
  (* ^(\d+);(\d+);(\d+)([Mm]) *)
Definition expect_incompleteCSIRe : bytes :=
  [94;92;120;49;98;92;120;49;98;63;92;91;91;92;120;51;48;45;92;120;51;102;93;42;91;92;120;50;48;45;92;120;50;102;93;42;36].
  (* ^\x1b\x1b?\[[\x30-\x3f]*[\x20-\x2f]*$ *)

Lemma Tie_Regexes :
  bytes_eqb Consts.re_unknownCSIRe expect_unknownCSIRe = true /\
  bytes_eqb Consts.re_mouseSGRRegex expect_mouseSGRRegex = true /\
  bytes_eqb Consts.re_incompleteCSIRe expect_incompleteCSIRe = true /\
  bytes_eqb Consts.s_bpStart [27;91;50;48;48;126] = true /\
  bytes_eqb Consts.s_bpEnd [27;91;50;48;49;126] = true.
Proof. vm_compute. repeat split. Qed.

Lemma Tie_ReaderConsts : (Consts.read_buf_size = 256 /\ Consts.c_mouseEventX10Len = 6)%Z.
Proof. vm_compute. split; reflexivity. Qed.

Lemma Tie_MouseConsts :
  (Consts.c_x10MouseByteOffset = 32 /\ Consts.c_bitShift = 4 /\ Consts.c_bitAlt = 8 /\ Consts.c_bitCtrl = 16 /\
   Consts.c_bitMotion = 32 /\ Consts.c_bitWheel = 64 /\ Consts.c_bitAdd = 128 /\ Consts.c_bitsMask = 3 /\
   Consts.c_MouseActionPress = 0 /\ Consts.c_MouseActionRelease = 1 /\ Consts.c_MouseActionMotion = 2 /\
   Consts.c_MouseButtonNone = 0 /\ Consts.c_MouseButtonLeft = 1 /\ Consts.c_MouseButtonMiddle = 2 /\
   Consts.c_MouseButtonRight = 3 /\ Consts.c_MouseButtonWheelUp = 4 /\ Consts.c_MouseButtonWheelDown = 5 /\
   Consts.c_MouseButtonWheelLeft = 6 /\ Consts.c_MouseButtonWheelRight = 7 /\ Consts.c_MouseButtonBackward = 8 /\
   Consts.c_MouseButtonForward = 9 /\ Consts.c_MouseButton10 = 10 /\ Consts.c_MouseButton11 = 11)%Z.
Proof. vm_compute. repeat split. Qed.

(* ---------------------------------------------------------------- table facts *)

Fixpoint nodup_keys {A} (l : list (bytes * A)) : bool :=
  match l with
  | [] => true
  | (k, _) :: t => negb (existsb (fun e => bytes_eqb k (fst e)) t) && nodup_keys t
  end.

(* map semantics of extSequences: no key is assigned twice, none is empty *)
Lemma ext_keys_distinct : nodup_keys ext_sequences = true.
Proof. vm_compute. reflexivity. Qed.

Lemma ext_keys_nonempty : forallb (fun e => negb (Nat.eqb (length (fst e)) 0)) ext_sequences = true.
Proof. vm_compute. reflexivity. Qed.

(* the model's extended table has exactly the documented keys *)
Lemma ext_keys_are_ref :
  forallb (fun k => existsb (fun e => bytes_eqb k (fst e)) ext_sequences) ref_ext_keys = true /\
  forallb (fun e => existsb (fun k => bytes_eqb k (fst e)) ref_ext_keys) ext_sequences = true.
Proof. split; vm_compute; reflexivity. Qed.

Lemma max_seq_len_val : max_seq_len = 8%nat.
Proof. vm_compute. reflexivity. Qed.
