(* C16: the message filter is consulted once per message with the current
   model, before anything else, and its verdict is obeyed: a run with a filter
   is observationally the run without filter over the messages the filter
   returned. *)
From Coq Require Import String List Bool NArith Arith Lia.
Import ListNotations.
From BT Require Import Base.Bytes Model.GenTypes Model.VT Model.Renderer Model.EvLoop.
Open Scope list_scope.
Open Scope nat_scope.

Section Filter.
  Context {M U : Type}.
  Variable table : list dcase.
  Variable dm : list string.
  Variable f : M -> rmsg U -> option (rmsg U).
  Variable upd : M -> rmsg U -> M * option cmdid.
  Variable view : M -> bytes.

  Notation stepF := (el_step table dm (Some f) upd view).
  Notation stepN := (el_step table dm None upd view).

  (* everything observable except the filter's own log *)
  Record same_obs (a b : elstate M U) : Prop := {
    so_model : el_model a = el_model b; so_r : el_r a = el_r b; so_out : el_out a = el_out b;
    so_upd : el_update_log a = el_update_log b; so_spawn : el_spawned a = el_spawned b;
    so_sides : el_sides a = el_sides b; so_exit : el_exit a = el_exit b
  }.

  Lemma same_obs_refl a : same_obs a a.
  Proof. constructor; reflexivity. Qed.

  Lemma same_obs_trans a b c : same_obs a b -> same_obs b c -> same_obs a c.
  Proof. intros [] []. constructor; congruence. Qed.

  (* the verdict nil: no trace of the message except in the filter log *)
  Lemma step_dropped s m : el_exit s = None -> f (el_model s) m = None ->
    same_obs (stepF s m) s /\ el_filter_log (stepF s m) = el_filter_log s ++ [(el_model s, m)].
  Proof.
    intros He Hf. unfold el_step. rewrite He, Hf. split; [constructor; cbn; try reflexivity; symmetry; exact He|reflexivity].
  Qed.

  (* the verdict m': exactly the behaviour of m' without a filter *)
  Lemma step_replaced s s0 m m' : el_exit s = None -> f (el_model s) m = Some m' -> same_obs s s0 ->
    same_obs (stepF s m) (stepN s0 m') /\ el_filter_log (stepF s m) = el_filter_log s ++ [(el_model s, m)].
  Proof.
    intros He Hf [Hm Hr Ho Hu Hsp Hsi Hex].
    unfold el_step. rewrite <- Hex, He, Hf. rewrite <- Hm, <- Hr, <- Ho, <- Hu, <- Hsp, <- Hsi. cbv zeta.
    destruct (kind_of m') as [k|].
    - destruct (find_case table k) as [c|].
      + destruct (run_calls _ _ _ _ _ _ _ _) as [[[r1 out1] sides1] ok1] eqn:E1.
        destruct (run_calls _ _ _ _ _ _ _ _) as [[[r2 out2] sides2] ok2] eqn:E2.
        inversion E1; subst r2 out2 sides2 ok2. clear E1 E2.
        destruct (dc_end c).
        * destruct (upd (el_model s) m') as [model' cmd]. split; [constructor|]; reflexivity.
        * split; [constructor|]; reflexivity.
        * split; [constructor|]; reflexivity.
      + destruct (upd (el_model s) m') as [model' cmd]. split; [constructor|]; reflexivity.
    - destruct (upd (el_model s) m') as [model' cmd]. split; [constructor|]; reflexivity.
  Qed.

  Lemma step_after_exit flt s m : el_exit s <> None -> el_step table dm flt upd view s m = s.
  Proof. intros H. unfold el_step. destruct (el_exit s); [reflexivity|congruence]. Qed.

  (* the messages the filter lets through, computed along the unfiltered run *)
  Fixpoint passed (s0 : elstate M U) (ms : list (rmsg U)) : list (rmsg U) :=
    match ms with
    | [] => []
    | m :: t =>
      match el_exit s0 with
      | Some _ => []
      | None => match f (el_model s0) m with
                | None => passed s0 t
                | Some m' => m' :: passed (stepN s0 m') t
                end
      end
    end.

  Theorem filter_simulation : forall ms s s0, same_obs s s0 ->
    same_obs (el_run table dm (Some f) upd view s ms) (el_run table dm None upd view s0 (passed s0 ms)).
  Proof.
    induction ms as [|m t IH]; intros s s0 H; [exact H|].
    cbn [el_run fold_left passed].
    destruct (el_exit s0) as [e|] eqn:Ex.
    - (* the loop has already returned: nothing more happens *)
      assert (Hs : el_exit s <> None) by (rewrite (so_exit _ _ H), Ex; discriminate).
      rewrite step_after_exit by exact Hs.
      specialize (IH s s0 H). cbn [el_run] in IH.
      assert (P : passed s0 t = []) by (destruct t; cbn; rewrite ?Ex; reflexivity).
      rewrite P in IH. exact IH.
    - assert (Hs : el_exit s = None) by (rewrite (so_exit _ _ H); exact Ex).
      rewrite <- (so_model _ _ H).
      destruct (f (el_model s) m) as [m'|] eqn:Hf.
      + destruct (step_replaced s s0 m m' Hs Hf H) as [Hobs _].
        cbn [fold_left]. apply (IH _ _ Hobs).
      + destruct (step_dropped s m Hs Hf) as [Hobs _].
        apply IH. eapply same_obs_trans; [exact Hobs|exact H].
  Qed.

  (* consulted exactly once per message processed, with the model current at that time *)
  Theorem filter_consulted_once s m : el_exit s = None ->
    el_filter_log (stepF s m) = el_filter_log s ++ [(el_model s, m)].
  Proof.
    intros He. destruct (f (el_model s) m) as [m'|] eqn:Hf.
    - exact (proj2 (step_replaced s s m m' He Hf (same_obs_refl s))).
    - exact (proj2 (step_dropped s m He Hf)).
  Qed.

  Theorem filter_log_length : forall ms s,
    length (el_filter_log (el_run table dm (Some f) upd view s ms)) <= length (el_filter_log s) + length ms.
  Proof.
    induction ms as [|m t IH]; intros s; [cbn; lia|].
    cbn [el_run fold_left length].
    assert (Hstep : length (el_filter_log (stepF s m)) <= S (length (el_filter_log s))).
    { destruct (el_exit s) eqn:Ex.
      - rewrite step_after_exit by (rewrite Ex; discriminate). lia.
      - rewrite (filter_consulted_once s m Ex), app_length. cbn. lia. }
    specialize (IH (stepF s m)). unfold el_run in IH. lia.
  Qed.

  (* without a filter nothing is logged and every message passes *)
  Theorem no_filter_log s m : el_filter_log (stepN s m) = el_filter_log s.
  Proof.
    unfold el_step. destruct (el_exit s); [reflexivity|]. cbv zeta.
    destruct (kind_of m) as [k|].
    - destruct (find_case table k) as [c|].
      + destruct (run_calls _ _ _ _ _ _ _ _) as [[[r' out'] sides'] okc].
        destruct (dc_end c); [destruct (upd (el_model s) m)| |]; reflexivity.
      + destruct (upd (el_model s) m); reflexivity.
    - destruct (upd (el_model s) m); reflexivity.
  Qed.
End Filter.
