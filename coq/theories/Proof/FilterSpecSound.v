(* C16: the statement evaluated on real callback logs (Spec/FilterSpec.filter_log_ok) is a consequence of the L0 model:
   for every filter, every message history and the harness's counting model, the interleaved filter/Update trace of the
   model's run over the GENERATED dispatch table satisfies it.  So a real log that fails the Spec is a behaviour the
   model does not have (the correspondence is broken), never an artefact of a Spec stricter than the model. *)
From Coq Require Import String List Bool NArith Arith Lia.
Import ListNotations.
From BT Require Import Base.Bytes Model.GenTypes Model.VT Model.Renderer Model.EvLoop Model.FilterPolicy Spec.FilterSpec
     Proof.EvLoopProofs.
From BTGen Require Dispatch.
Open Scope list_scope.

Section Sound.
  Variable dm : list string.
  Variable f : nat -> rmsg nat -> option (rmsg nat).
  Variable view : nat -> bytes.
  Notation step := (el_step Dispatch.dispatch dm (Some f) count_upd view).
  Notation run := (el_run Dispatch.dispatch dm (Some f) count_upd view).

  (* what one iteration appends to the model's two logs, filter consultation first (C16_tie: statement order) *)
  Definition tr_step (s : elstate nat nat) (m : rmsg nat) : list fev :=
    let s' := step s m in
    map (fun e => FFilter (fst e) (msg_code (snd e)) (option_map msg_code (f (fst e) (snd e))))
        (skipn (List.length (el_filter_log s)) (el_filter_log s')) ++
    map (fun e => FUpdate (fst e) (msg_code (snd e)))
        (skipn (List.length (el_update_log s)) (el_update_log s')).

  Fixpoint trace (s : elstate nat nat) (ms : list (rmsg nat)) : list fev :=
    match ms with
    | [] => []
    | m :: t => tr_step s m ++ trace (step s m) t
    end.

  Lemma skipn_len_app {A} (l x : list A) : skipn (List.length l) (l ++ x) = x.
  Proof. induction l as [|a l IH]; [reflexivity|exact IH]. Qed.
  Lemma skipn_len {A} (l : list A) : skipn (List.length l) l = [].
  Proof. induction l as [|a l IH]; [reflexivity|exact IH]. Qed.

  Lemma user_code n : ends_loop (msg_code (RUser n)) = false /\ no_update (msg_code (RUser n)) = false.
  Proof.
    unfold ends_loop, no_update, msg_code.
    assert (H0 : (1000 + N.of_nat n =? 0)%N = false) by (apply N.eqb_neq; lia).
    assert (H1 : (1000 + N.of_nat n =? 1)%N = false) by (apply N.eqb_neq; lia).
    assert (H16 : (1000 + N.of_nat n =? 16)%N = false) by (apply N.eqb_neq; lia).
    rewrite H0, H1, H16. split; reflexivity.
  Qed.

  (* the three behaviours of the loop body on a passed message, by its code *)
  Definition passed_shape (s s' : elstate nat nat) (m' : rmsg nat) : Prop :=
    if ends_loop (msg_code m') then el_exit s' <> None /\ el_update_log s' = el_update_log s
    else if no_update (msg_code m') then el_exit s' = None /\ el_model s' = el_model s /\ el_update_log s' = el_update_log s
    else el_exit s' = None /\ el_model s' = S (el_model s) /\ el_update_log s' = el_update_log s ++ [(el_model s, m')].

  Lemma step_passed s m m' : el_exit s = None -> f (el_model s) m = Some m' -> passed_shape s (step s m) m'.
  Proof.
    intros He Hf. unfold passed_shape.
    destruct m' as [u|k|cs|cs|t|b|w h|].
    - destruct (user_code u) as [E1 E2]. rewrite E1, E2. unfold el_step. rewrite He, Hf. cbn. repeat split.
    - destruct k; unfold el_step; rewrite He, Hf; cbn -[run_calls];
        repeat match goal with |- context [run_calls ?a ?b ?c ?d ?e ?g ?h ?i] => destruct (run_calls a b c d e g h i) as [[[? ?] ?] ?] end;
        cbn; repeat split; try discriminate.
    - unfold el_step; rewrite He, Hf; cbn -[run_calls].
      repeat match goal with |- context [run_calls ?a ?b ?c ?d ?e ?g ?h ?i] => destruct (run_calls a b c d e g h i) as [[[? ?] ?] ?] end.
      cbn. repeat split.
    - unfold el_step; rewrite He, Hf; cbn -[run_calls].
      repeat match goal with |- context [run_calls ?a ?b ?c ?d ?e ?g ?h ?i] => destruct (run_calls a b c d e g h i) as [[[? ?] ?] ?] end.
      cbn. repeat split.
    - unfold el_step; rewrite He, Hf; cbn -[run_calls].
      repeat match goal with |- context [run_calls ?a ?b ?c ?d ?e ?g ?h ?i] => destruct (run_calls a b c d e g h i) as [[[? ?] ?] ?] end.
      cbn. repeat split.
    - unfold el_step; rewrite He, Hf; cbn. repeat split.
    - unfold el_step; rewrite He, Hf; cbn. repeat split.
    - unfold el_step; rewrite He, Hf; cbn. repeat split.
  Qed.

  Lemma trace_after_exit : forall ms s, el_exit s <> None -> trace s ms = [].
  Proof.
    induction ms as [|m t IH]; intros s H; [reflexivity|].
    cbn [trace]. unfold tr_step. rewrite (step_after_exit Dispatch.dispatch dm count_upd view (Some f) s m H).
    rewrite !skipn_len. cbn. apply IH. exact H.
  Qed.

  Theorem filter_spec_sound : forall ms s, el_exit s = None ->
    filter_log_ok (map msg_code ms) (el_model s) (trace s ms) = true.
  Proof.
    induction ms as [|m t IH]; intros s He; [reflexivity|].
    cbn [trace map]. unfold tr_step.
    rewrite (filter_consulted_once Dispatch.dispatch dm f count_upd view s m He), skipn_len_app.
    cbn [map fst snd app].
    destruct (f (el_model s) m) as [m'|] eqn:Hf.
    - pose proof (step_passed s m m' He Hf) as Hp. unfold passed_shape in Hp.
      cbn [option_map filter_log_ok]. rewrite Nat.eqb_refl, N.eqb_refl. cbn [andb].
      destruct (ends_loop (msg_code m')) eqn:E1.
      + destruct Hp as [Hx Hu]. rewrite Hu, skipn_len. cbn [map app].
        rewrite (trace_after_exit t _ Hx). reflexivity.
      + destruct (no_update (msg_code m')) eqn:E2.
        * destruct Hp as [Hx [Hm Hu]]. rewrite Hu, skipn_len. cbn [map app].
          rewrite <- Hm. apply IH. exact Hx.
        * destruct Hp as [Hx [Hm Hu]]. rewrite Hu, skipn_len_app. cbn [map app fst snd].
          rewrite Nat.eqb_refl, N.eqb_refl. cbn [andb]. rewrite <- Hm. apply IH. exact Hx.
    - destruct (step_dropped Dispatch.dispatch dm f count_upd view s m He Hf) as [Hobs _].
      cbn [option_map filter_log_ok]. rewrite Nat.eqb_refl, N.eqb_refl. cbn [andb].
      rewrite (so_upd _ _ Hobs), skipn_len. cbn [map app].
      rewrite <- (so_model _ _ Hobs). apply IH. rewrite (so_exit _ _ Hobs). exact He.
  Qed.

  (* the trace is the model's own two logs, interleaved: its projections are the logs of the final state *)
  Definition tr_filters (l : list fev) : list (nat * N) :=
    flat_map (fun e => match e with FFilter v k _ => [(v, k)] | _ => [] end) l.
  Definition tr_updates (l : list fev) : list (nat * N) :=
    flat_map (fun e => match e with FUpdate v k => [(v, k)] | _ => [] end) l.

  Definition pf (e : nat * rmsg nat) : nat * N := (fst e, msg_code (snd e)).

  Lemma step_logs_extend s m : exists xf xu,
    el_filter_log (step s m) = el_filter_log s ++ xf /\ el_update_log (step s m) = el_update_log s ++ xu /\
    tr_filters (tr_step s m) = map pf xf /\ tr_updates (tr_step s m) = map pf xu.
  Proof.
    unfold tr_step.
    destruct (el_exit s) as [e|] eqn:He.
    - exists [], []. rewrite (step_after_exit Dispatch.dispatch dm count_upd view (Some f) s m) by (rewrite He; discriminate).
      rewrite !app_nil_r, !skipn_len. repeat split.
    - rewrite (filter_consulted_once Dispatch.dispatch dm f count_upd view s m He), skipn_len_app.
      destruct (f (el_model s) m) as [m'|] eqn:Hf.
      + pose proof (step_passed s m m' He Hf) as Hp. unfold passed_shape in Hp.
        destruct (ends_loop (msg_code m')); [|destruct (no_update (msg_code m'))].
        * destruct Hp as [_ Hu]. exists [(el_model s, m)], []. rewrite Hu, skipn_len, app_nil_r. repeat split.
        * destruct Hp as [_ [_ Hu]]. exists [(el_model s, m)], []. rewrite Hu, skipn_len, app_nil_r. repeat split.
        * destruct Hp as [_ [_ Hu]]. exists [(el_model s, m)], [(el_model s, m')]. rewrite Hu, skipn_len_app. repeat split.
      + destruct (step_dropped Dispatch.dispatch dm f count_upd view s m He Hf) as [Hobs _].
        exists [(el_model s, m)], []. rewrite (so_upd _ _ Hobs), skipn_len, app_nil_r. repeat split.
  Qed.

  Lemma flat_map_app' {A B} (g : A -> list B) l1 l2 : flat_map g (l1 ++ l2) = flat_map g l1 ++ flat_map g l2.
  Proof. induction l1 as [|a l IH]; cbn; [reflexivity|]. rewrite IH, app_assoc. reflexivity. Qed.

  (* the trace is the model's own two logs, interleaved *)
  Theorem trace_projects : forall ms s,
    map pf (el_filter_log (run s ms)) = map pf (el_filter_log s) ++ tr_filters (trace s ms) /\
    map pf (el_update_log (run s ms)) = map pf (el_update_log s) ++ tr_updates (trace s ms).
  Proof.
    induction ms as [|m t IH]; intros s; [cbn; rewrite !app_nil_r; split; reflexivity|].
    cbn [el_run fold_left trace]. destruct (step_logs_extend s m) as [xf [xu [Hf [Hu [Tf Tu]]]]].
    destruct (IH (step s m)) as [I1 I2]. unfold el_run in I1, I2.
    unfold tr_filters, tr_updates in *. rewrite !flat_map_app'.
    rewrite I1, I2, Hf, Hu, !map_app, Tf, Tu, <- !app_assoc. split; reflexivity.
  Qed.
End Sound.
