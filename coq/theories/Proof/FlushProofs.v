(* The paint loop of flush() on the terminal: the rows it covers end up holding
   exactly the painted lines, everything else is untouched. *)
From Coq Require Import NArith List Bool Arith Lia.
Import ListNotations.
From BT Require Import Base.Bytes Model.VT Model.Renderer Spec.Screen Proof.BytesLemmas Proof.VTLemmas.
Open Scope nat_scope.

Definition rows_w (w : nat) (rs : list row) : Prop := Forall (fun r => length r = w) rs.

Lemma blank_row_length w : length (blank_row w) = w.
Proof. apply repeat_length. Qed.

Lemma paint_row_length w l : length (paint_row w l) = w.
Proof.
  unfold paint_row. rewrite app_length, firstn_length, repeat_length. lia.
Qed.

Lemma next_rows_w w post : rows_w w post -> rows_w w (next_rows w post).
Proof.
  intros H. destruct post; cbn; [|exact H]. constructor; [apply blank_row_length|constructor].
Qed.

(* ------------------------------------------------------------ one painted line *)

Definition cut (w : nat) (l : bytes) : bytes := if Nat.ltb 0 w then firstn w l else l.

Definition line_toks (first ce : bool) (w : nat) (l : bytes) : list tok :=
  (if first && ce then [TCR] else []) ++
  (let l' := if Nat.ltb 0 w then firstn w l else l in
   chars l' ++ (if Nat.ltb (length l') w then [TELright] else [])).

Lemma paint_one w h pre r0 post l first ce : 0 < w -> length r0 = w ->
  exists c p, c < w /\
    buf_run w h (bz pre r0 post 0 false) (line_toks first ce w l) = bz pre (paint_row w l) post c p.
Proof.
  intros Hw Hr. unfold line_toks.
  replace (Nat.ltb 0 w) with true by (symmetry; apply Nat.ltb_lt; exact Hw).
  set (l' := firstn w l).
  assert (Hl' : length l' <= w) by (unfold l'; rewrite firstn_length; lia).
  rewrite buf_run_app.
  assert (E0 : buf_run w h (bz pre r0 post 0 false) (if first && ce then [TCR] else []) = bz pre r0 post 0 false).
  { destruct (first && ce); reflexivity. }
  rewrite E0. rewrite buf_run_app. unfold chars.
  assert (Hc0 : 0 + length l' <= w) by (cbn [Nat.add]; exact Hl').
  rewrite (write_chars w h pre post l' r0 0 Hr Hc0 (or_introl Hw)).
  destruct (Nat.ltb_spec (length l') w) as [Hlt|Hge].
  - (* shorter than the window: erase to the end of the line *)
    rewrite buf_run_cons, buf_run_nil, bz_elright.
    assert (Hll : length l < w).
    { unfold l' in Hlt. rewrite firstn_length in Hlt. lia. }
    assert (El : l' = l) by (unfold l'; apply firstn_all2; lia).
    exists (wc_col w 0 (length l')), (wc_pend w 0 (length l')).
    split; [apply wc_col_lt; assumption|].
    f_equal. rewrite wc_col_short by exact Hlt.
    unfold erase_right, write_row, paint_row. cbn [firstn Nat.add app].
    rewrite firstn_app, firstn_all, Nat.sub_diag. cbn [firstn]. rewrite app_nil_r.
    rewrite El. rewrite (firstn_all2 l) by lia. reflexivity.
  - (* exactly as wide as the window: no erase, the cursor stays on the last cell *)
    rewrite buf_run_nil.
    assert (Hlw : length l' = w) by lia.
    exists (wc_col w 0 (length l')), (wc_pend w 0 (length l')).
    split; [apply wc_col_lt; assumption|].
    f_equal. unfold write_row, paint_row. cbn [firstn Nat.add app].
    rewrite skipn_all2 by lia. rewrite app_nil_r.
    assert (w <= length l) by (unfold l' in Hlw; rewrite firstn_length in Hlw; lia).
    replace (w - length l) with 0 by lia. cbn [repeat]. rewrite app_nil_r. reflexivity.
Qed.

(* ------------------------------------------------------------ the loop *)

Fixpoint coherent (w : nat) (cs : bool) (lines last : list bytes) (rest : list row) : Prop :=
  match lines with
  | [] => True
  | l :: ls =>
    (cs = true -> match last with x :: _ => bytes_eqb x l = true | [] => False end ->
     match rest with r0 :: _ => r0 = paint_row w l | [] => False end) /\
    coherent w cs ls (tl last) (tl rest)
  end.

Lemma coherent_nil_any w cs : forall lines last rest, coherent w cs lines last [] -> coherent w cs lines last rest.
Proof.
  induction lines as [|l ls IH]; intros last rest H; [exact I|].
  cbn in *. destruct H as [H1 H2]. split.
  - intros C S. exfalso. exact (H1 C S).
  - apply IH. exact H2.
Qed.

Lemma coherent_next w cs lines last post :
  coherent w cs lines last post -> coherent w cs lines last (next_rows w post).
Proof. destruct post; [apply coherent_nil_any|auto]. Qed.

Lemma paint_lines_unfold first cs ce w l rest last :
  paint_lines first cs ce w (l :: rest) last =
  (if cs && (match last with x :: _ => bytes_eqb x l | [] => false end)
   then (match rest with [] => [] | _ => [TLF] end)
   else line_toks first ce w l ++ (match rest with [] => [] | _ => [TCR; TLF] end))
  ++ paint_lines false cs ce w rest (match last with _ :: t => t | [] => [] end).
Proof.
  cbn [paint_lines]. unfold line_toks.
  destruct (cs && match last with x :: _ => bytes_eqb x l | [] => false end); destruct rest; cbn [app];
    rewrite <- ?app_assoc; reflexivity.
Qed.

Lemma skipn_next_rows w k post : 1 <= k -> skipn k (next_rows w post) = skipn k post.
Proof.
  intros Hk. destruct post as [|x post]; [|reflexivity]. cbn [next_rows].
  destruct k; [lia|]. cbn. rewrite !skipn_nil. reflexivity.
Qed.

Theorem paint_lines_run w h : 0 < w -> forall lines first cs ce last pre r0 post,
  lines <> [] -> length r0 = w -> rows_w w post ->
  coherent w cs lines last (r0 :: post) ->
  exists c p, c < w /\
    buf_run w h (bz pre r0 post 0 false) (paint_lines first cs ce w lines last) =
    bz (pre ++ map (paint_row w) (removelast lines)) (paint_row w (List.last lines [])) (skipn (length lines) (r0 :: post)) c p.
Proof.
  intros Hw. induction lines as [|l ls IH]; intros first cs ce last pre r0 post Hne Hr Hp Hc; [congruence|].
  rewrite paint_lines_unfold. cbn [coherent] in Hc. destruct Hc as [Hc1 Hc2]. cbn [tl] in Hc2.
  set (same := match last with x :: _ => bytes_eqb x l | [] => false end) in *.
  destruct ls as [|l2 ls].
  - (* the last line: no line feed afterwards *)
    cbn [paint_lines removelast List.last map length skipn]. rewrite !app_nil_r.
    destruct (cs && same) eqn:Sk.
    + apply andb_true_iff in Sk. destruct Sk as [Scs Ssame].
      assert (R0 : r0 = paint_row w l).
      { apply (Hc1 Scs). unfold same in Ssame. destruct last; [discriminate|exact Ssame]. }
      exists 0, false. split; [exact Hw|]. rewrite buf_run_nil. subst r0. reflexivity.
    + destruct (paint_one w h pre r0 post l first ce Hw Hr) as (c & p & Hcw & E).
      exists c, p. split; [exact Hcw|]. exact E.
  - (* a line followed by others *)
    assert (Hne' : l2 :: ls <> []) by discriminate.
    destruct (cs && same) eqn:Sk.
    + apply andb_true_iff in Sk. destruct Sk as [Scs Ssame].
      assert (R0 : r0 = paint_row w l).
      { apply (Hc1 Scs). unfold same in Ssame. destruct last; [discriminate|exact Ssame]. }
      clear Hc1. subst r0.
      rewrite buf_run_app. rewrite buf_run_cons, buf_run_nil.
      destruct (bz_lf w h pre (paint_row w l) post 0 false) as (r1 & post1 & Hn & E). rewrite E.
      assert (Hp' : rows_w w (r1 :: post1)) by (rewrite <- Hn; apply next_rows_w; exact Hp).
      apply Forall_cons_iff in Hp'. destruct Hp' as [Hr1 Hp1].
      destruct (IH false cs ce (match last with _ :: t => t | [] => [] end) (pre ++ [paint_row w l]) r1 post1 Hne' Hr1 Hp1) as (c & p & Hcw & E2).
      { assert (C : coherent w cs (l2 :: ls) (match last with _ :: t => t | [] => [] end) (next_rows w post))
          by (apply coherent_next; destruct last; exact Hc2).
        rewrite Hn in C. exact C. }
      exists c, p. split; [exact Hcw|]. rewrite E2. f_equal.
      * rewrite <- app_assoc. reflexivity.
      * transitivity (skipn (length (l2 :: ls)) (next_rows w post)); [rewrite Hn; reflexivity|].
        rewrite skipn_next_rows by (cbn; lia). reflexivity.
    + rewrite buf_run_app, buf_run_app.
      destruct (paint_one w h pre r0 post l first ce Hw Hr) as (c0 & p0 & _ & E0). rewrite E0.
      rewrite buf_run_cons, bz_cr, buf_run_cons, buf_run_nil.
      destruct (bz_lf w h pre (paint_row w l) post 0 false) as (r1 & post1 & Hn & E). rewrite E.
      assert (Hp' : rows_w w (r1 :: post1)) by (rewrite <- Hn; apply next_rows_w; exact Hp).
      apply Forall_cons_iff in Hp'. destruct Hp' as [Hr1 Hp1].
      destruct (IH false cs ce (match last with _ :: t => t | [] => [] end) (pre ++ [paint_row w l]) r1 post1 Hne' Hr1 Hp1) as (c & p & Hcw & E2).
      { assert (C : coherent w cs (l2 :: ls) (match last with _ :: t => t | [] => [] end) (next_rows w post))
          by (apply coherent_next; destruct last; exact Hc2).
        rewrite Hn in C. exact C. }
      exists c, p. split; [exact Hcw|]. rewrite E2. f_equal.
      * rewrite <- app_assoc. reflexivity.
      * transitivity (skipn (length (l2 :: ls)) (next_rows w post)); [rewrite Hn; reflexivity|].
        rewrite skipn_next_rows by (cbn; lia). reflexivity.
Qed.
