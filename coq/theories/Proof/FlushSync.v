(* The coupling invariant between renderer state and terminal (inline mode),
   and its preservation by flush: after a render the rows the renderer covers
   hold exactly the new view, everything above is untouched, everything below
   is blank, the cursor is at column 0 of the view's last row. *)
From Coq Require Import NArith List Bool Arith Lia.
Import ListNotations.
From BT Require Import Base.Bytes Model.VT Model.Renderer Spec.Screen Proof.BytesLemmas Proof.VTLemmas Proof.FlushProofs.
Open Scope nat_scope.

Definition all_blank (w : nat) (rs : list row) : Prop := Forall (fun r => r = blank_row w) rs.

Lemma all_blank_rows_w w rs : all_blank w rs -> rows_w w rs.
Proof. intros H. eapply Forall_impl; [|exact H]. intros r ->. apply blank_row_length. Qed.

(* the buffer, as a zipper, for a region of L rows ending at the cursor row;
   L = 0 (nothing rendered yet): the cursor is on the first row below `above` *)
Definition at_region (b : buffer) (above region below : list row) : Prop :=
  match region with
  | [] => match below with
          | r0 :: below' => b = bz above r0 below' 0 false
          | [] => False
          end
  | _ => b = bz (above ++ removelast region) (List.last region []) below 0 false
  end.

Record sync_inline (w h : nat) (r : rstate) (b : buffer) (above region below : list row) : Prop := {
  si_w : 0 < w; si_h : 0 < h;
  si_rw : r_width r = w; si_rh : r_height r = h;
  si_alt : r_alt r = false;
  si_at : at_region b above region below;
  si_L : r_linesRendered r = length region;
  si_win : length above + length region + length below <= length above + h;   (* window top is not below the region *)
  si_minh : h <= length region + length below;                                (* the tape has a whole window *)
  si_wa : rows_w w above; si_wr : rows_w w region;
  si_below : all_blank w below;
  si_cache : r_lastRender r <> [] -> region = map (paint_row w) (r_lastLines r);
  si_nocache : r_lastRender r = [] -> r_lastLines r = []
}.

(* ------------------------------------------------------------ coherence from the cache *)

Lemma coherent_no_last w cs : forall lines rest, coherent w cs lines (@nil bytes) rest.
Proof.
  induction lines as [|l ls IH]; intros rest; [exact I|]. cbn. split; [intros _ F; contradiction|apply IH].
Qed.

Lemma coherent_of_cache w cs : forall lines last X,
  coherent w cs lines last (map (paint_row w) last ++ X).
Proof.
  induction lines as [|l ls IH]; intros last X; [exact I|].
  destruct last as [|x t].
  - apply coherent_no_last.
  - cbn [coherent map app tl]. split.
    + intros _ E. apply bytes_eqb_eq in E. subst. reflexivity.
    + apply IH.
Qed.

(* ------------------------------------------------------------ small list facts *)

Lemma removelast_last {A} (l : list A) d : l <> [] -> removelast l ++ [List.last l d] = l.
Proof. intros H. symmetry. apply app_removelast_last. exact H. Qed.

Lemma removelast_length {A} (l : list A) : length (removelast l) = length l - 1.
Proof.
  induction l as [|x l IH]; [reflexivity|]. destruct l as [|y l]; [reflexivity|].
  cbn [removelast length] in *. rewrite IH. lia.
Qed.

Lemma erase_right_0 w r : erase_right w r 0 = blank_row w.
Proof. unfold erase_right, blank_row. cbn. rewrite Nat.sub_0_r. reflexivity. Qed.

Lemma all_blank_map w (rs : list row) : all_blank w (map (fun _ => blank_row w) rs).
Proof. induction rs; constructor; auto. Qed.

Lemma all_blank_skipn w k rs : all_blank w rs -> all_blank w (skipn k rs).
Proof.
  revert rs. induction k as [|k IH]; intros rs H; [exact H|]. destruct rs; [constructor|].
  cbn. apply IH. inversion H; assumption.
Qed.

Lemma rows_w_app w a b : rows_w w a -> rows_w w b -> rows_w w (a ++ b).
Proof. intros. apply Forall_app. split; assumption. Qed.

Lemma rows_w_map_paint w ls : rows_w w (map (paint_row w) ls).
Proof. induction ls; constructor; [apply paint_row_length|assumption]. Qed.

Lemma map_removelast {A B} (f : A -> B) l : map f (removelast l) = removelast (map f l).
Proof.
  induction l as [|x l IH]; [reflexivity|]. destruct l as [|y l]; [reflexivity|].
  cbn [removelast map] in *. rewrite IH. reflexivity.
Qed.

Lemma map_last {A B} (f : A -> B) l d : l <> [] -> f (List.last l d) = List.last (map f l) (f d).
Proof.
  induction l as [|x l IH]; intros H; [congruence|]. destruct l as [|y l]; [reflexivity|].
  cbn [List.last map] in *. apply IH. discriminate.
Qed.

(* the clipped lines of a frame *)
Definition frame_lines (h : nat) (v : bytes) : list bytes :=
  let all := split_lines v in
  if Nat.ltb 0 h && Nat.ltb h (length all) then skipn (length all - h) all else all.

Lemma split_lines_nonempty s : split_lines s <> [].
Proof.
  induction s as [|c t IH]; [discriminate|]. cbn.
  destruct (split_lines t) as [|l ls]; [discriminate|]. destruct (c =? 10)%N; discriminate.
Qed.

Lemma frame_lines_bounds h v : 0 < h -> 1 <= length (frame_lines h v) <= h.
Proof.
  intros Hh. unfold frame_lines. pose proof (split_lines_nonempty v) as Hn.
  set (all := split_lines v) in *.
  assert (1 <= length all) by (destruct all; [congruence|cbn; lia]).
  destruct (Nat.ltb_spec 0 h); [|lia]. cbn [andb].
  destruct (Nat.ltb_spec h (length all)).
  - rewrite skipn_length. lia.
  - lia.
Qed.

(* ------------------------------------------------------------ flush, inline, nothing queued *)

Definition flush_out_inline (r : rstate) (lines : list bytes) : list tok :=
  (if Nat.ltb 1 (r_linesRendered r) then [cuu (r_linesRendered r - 1)] else []) ++
  [] ++
  paint_lines true true (match r_lastRender r with [] => true | _ => false end) (r_width r) lines (r_lastLines r) ++
  (if Nat.ltb (length lines) (r_linesRendered r) && (Nat.eqb (r_height r) 0 || Nat.ltb (length lines) (r_height r))
   then [TCR; TLF; TEDbelow; cuu 1] else []) ++
  [cub (r_width r)].

Definition flush_state_inline (r : rstate) (v : bytes) (lines : list bytes) : rstate :=
  {| r_buf := []; r_queued := []; r_lastRender := v; r_lastLines := lines;
     r_linesRendered := length lines; r_altLinesRendered := r_altLinesRendered r;
     r_cursorHidden := r_cursorHidden r; r_alt := false; r_bp := r_bp r; r_focus := r_focus r;
     r_width := r_width r; r_height := r_height r |}.

Lemma r_flush_inline_eq r v :
  r_buf r = v -> v <> [] -> bytes_eqb v (r_lastRender r) = false -> r_alt r = false -> r_queued r = [] ->
  r_flush r = (flush_state_inline r v (frame_lines (r_height r) v), flush_out_inline r (frame_lines (r_height r) v)).
Proof.
  intros Hv Hne Hneq Halt Hq. unfold r_flush, flush_out_inline, flush_state_inline, frame_lines, last_lines_rendered.
  rewrite Hv. destruct v as [|v0 vt]; [congruence|]. rewrite Hneq, Halt, Hq. reflexivity.
Qed.

Theorem flush_inline w h r b above region below v :
  sync_inline w h r b above region below ->
  r_queued r = [] -> r_buf r = v -> v <> [] -> bytes_eqb v (r_lastRender r) = false ->
  exists below',
    let r' := fst (r_flush r) in
    let b' := buf_run w h b (snd (r_flush r)) in
    sync_inline w h r' b' above (map (paint_row w) (frame_lines h v)) below' /\
    r_lastRender r' = v /\ r_lastLines r' = frame_lines h v /\ r_buf r' = [] /\ r_queued r' = [].
Proof.
  intros S Hq Hv Hne Hneq. destruct S as [Hw Hh Hrw Hrh Halt Hat HL Hwin Hminh Hwa Hwr Hbl Hcache Hnocache].
  rewrite (r_flush_inline_eq r v Hv Hne Hneq Halt Hq). cbn [fst snd].
  unfold flush_out_inline, flush_state_inline. rewrite Hrw, Hrh.
  set (lines := frame_lines h v).
  pose proof (frame_lines_bounds h v Hh) as [Hn1 Hnh]. fold lines in Hn1, Hnh.
  assert (Hlne : lines <> []) by (destruct lines; [cbn in Hn1; lia|discriminate]).
  set (n := length lines) in *.
  set (L := length region) in *.
  set (ce := match r_lastRender r with [] => true | _ => false end).
  (* the rows at and below the start of the region *)
  set (under := region ++ below).
  assert (Hunder_ne : under <> []).
  { unfold under. destruct region; [|discriminate]. cbn. destruct below; [cbn in Hat; contradiction|discriminate]. }
  assert (Hunder_w : rows_w w under) by (apply rows_w_app; [assumption|apply all_blank_rows_w; assumption]).
  (* after the head: cursor at column 0 of the first row of `under` *)
  assert (Hhead : buf_run w h b (if Nat.ltb 1 (r_linesRendered r) then [cuu (r_linesRendered r - 1)] else []) =
                  bz above (hd [] under) (tl under) 0 false).
  { rewrite HL. fold L. unfold under.
    destruct region as [|g0 rg] eqn:Er.
    - cbn in Hat. destruct below as [|r0 below']; [contradiction|]. subst b. reflexivity.
    - destruct rg as [|g1 rg'].
      + cbn in Hat |- *. rewrite app_nil_r in Hat. subst b. reflexivity.
      + assert (Hl2 : Nat.ltb 1 L = true) by (apply Nat.ltb_lt; unfold L; cbn; lia).
        rewrite Hl2. rewrite buf_run_cons, buf_run_nil. unfold cuu.
        replace (Nat.max 1 (L - 1)) with (L - 1) by (unfold L; cbn; lia).
        cbn [at_region] in Hat. subst b.
        set (reg := g0 :: g1 :: rg') in *.
        assert (Erl : removelast reg = g0 :: removelast (g1 :: rg')) by reflexivity.
        rewrite Erl.
        replace (above ++ g0 :: removelast (g1 :: rg')) with (above ++ g0 :: removelast (g1 :: rg')) by reflexivity.
        rewrite (bz_cuu w h above g0 (removelast (g1 :: rg')) (List.last reg []) below 0 false (L - 1)).
        * cbn [hd tl app]. f_equal. unfold reg. cbn [app tl].
          change (List.last (g0 :: g1 :: rg') []) with (List.last (g1 :: rg') []).
          transitivity ((removelast (g1 :: rg') ++ [List.last (g1 :: rg') []]) ++ below);
            [rewrite <- app_assoc; reflexivity|rewrite removelast_last by discriminate; reflexivity].
        * unfold L, reg. cbn [length]. rewrite removelast_length. cbn [length]. lia.
        * unfold L, reg in *. cbn [length] in *. lia. }
  rewrite !buf_run_app. rewrite Hhead. rewrite buf_run_nil.
  destruct under as [|u0 urest] eqn:Eu; [congruence|]. cbn [hd tl].
  (* the paint loop *)
  assert (Hu0 : length u0 = w) by (inversion Hunder_w; assumption).
  assert (Hurest : rows_w w urest) by (inversion Hunder_w; assumption).
  assert (Hcoh : coherent w true lines (r_lastLines r) (u0 :: urest)).
  { rewrite <- Eu. unfold under.
    destruct (r_lastRender r) as [|c0 ct] eqn:Elr.
    - rewrite (Hnocache eq_refl). apply coherent_no_last.
    - rewrite (Hcache ltac:(discriminate)). apply coherent_of_cache. }
  destruct (paint_lines_run w h Hw lines true true ce (r_lastLines r) above u0 urest Hlne Hu0 Hurest Hcoh) as (c1 & p1 & Hc1 & Ebody).
  rewrite Ebody. clear Ebody. fold n.
  set (pre1 := above ++ map (paint_row w) (removelast lines)).
  set (rl := paint_row w (List.last lines [])).
  set (post1 := skipn n (u0 :: urest)).
  assert (Hreg' : removelast (map (paint_row w) lines) = map (paint_row w) (removelast lines)) by (symmetry; apply map_removelast).
  assert (Hlast' : List.last (map (paint_row w) lines) [] = rl).
  { unfold rl. destruct lines as [|l0 ls] eqn:El; [congruence|].
    rewrite (map_last (paint_row w) (l0 :: ls) []) by discriminate.
    (* the default is never used on a non-empty list *)
    clear. revert l0. induction ls as [|y ls IH]; intros l0; [reflexivity|]. cbn [map List.last] in *. apply IH. }
  assert (HLh : L + length below <= h) by lia.
  (* erase-below group, then cursor back *)
  rewrite HL. fold L.
  destruct (Nat.ltb_spec n L) as [HnL|HnL].
  - (* the frame shrank: rows n..L-1 of the old region are stale *)
    assert (Hg : (Nat.eqb h 0 || Nat.ltb n h) = true).
    { apply orb_true_iff. right. apply Nat.ltb_lt. lia. }
    rewrite Hg. cbn [andb].
    assert (Epost : post1 = skipn n region ++ below).
    { unfold post1. rewrite <- Eu. unfold under. rewrite skipn_app.
      replace (n - length region) with 0 by (fold L; lia). reflexivity. }
    destruct (skipn n region) as [|x1 xr] eqn:Esk.
    { exfalso. assert (length (skipn n region) = L - n) by (rewrite skipn_length; reflexivity). rewrite Esk in H. cbn in H. lia. }
    rewrite Epost. cbn [app].
    unfold buf_run. cbn [fold_left].
    rewrite bz_cr, bz_lf_next, bz_edbelow, erase_right_0.
    unfold cuu. cbn [Nat.max].
    rewrite (bz_cuu w h pre1 rl [] (blank_row w) (map (fun _ => blank_row w) (xr ++ below)) 0 false 1 eq_refl).
    2:{ unfold pre1. rewrite app_length, !map_length, removelast_length. fold n.
        rewrite app_length.
        assert (length xr = L - n - 1).
        { assert (length (skipn n region) = L - n) by (rewrite skipn_length; reflexivity). rewrite Esk in H. cbn in H. lia. }
        cbn [length]. lia. }
    unfold cub. rewrite bz_cub by lia.
    exists (blank_row w :: map (fun _ => blank_row w) (xr ++ below)).
    cbn zeta. split; [|repeat split; reflexivity].
    assert (Hxr : length xr = L - n - 1).
    { assert (Hsk : length (skipn n region) = L - n) by (rewrite skipn_length; reflexivity). rewrite Esk in Hsk. cbn in Hsk. lia. }
    constructor; cbn [r_width r_height r_alt r_linesRendered r_lastRender r_lastLines].
    + exact Hw.
    + exact Hh.
    + reflexivity.
    + reflexivity.
    + reflexivity.
    + unfold at_region. destruct (map (paint_row w) lines) as [|m0 ms] eqn:Em.
      { exfalso. apply Hlne. destruct lines; [reflexivity|discriminate]. }
      rewrite Hreg', Hlast'. cbn [app]. reflexivity.
    + rewrite map_length. reflexivity.
    + rewrite map_length. fold n. cbn [length]. rewrite map_length, app_length. lia.
    + rewrite map_length. fold n. cbn [length]. rewrite map_length, app_length. lia.
    + exact Hwa.
    + apply rows_w_map_paint.
    + constructor; [reflexivity|apply all_blank_map].
    + intros _. reflexivity.
    + intros E. exfalso. exact (Hne E).
  - (* the frame did not shrink: whatever is left below is blank already *)
    cbn [andb]. unfold buf_run. cbn [fold_left]. unfold cub. rewrite bz_cub by lia.
    assert (Epost : post1 = skipn (n - L) below).
    { unfold post1. rewrite <- Eu. unfold under. rewrite skipn_app.
      rewrite skipn_all2 by (fold L; lia). reflexivity. }
    exists (skipn (n - L) below).
    cbn zeta. split; [|repeat split; reflexivity].
    constructor; cbn [r_width r_height r_alt r_linesRendered r_lastRender r_lastLines].
    + exact Hw.
    + exact Hh.
    + reflexivity.
    + reflexivity.
    + reflexivity.
    + unfold at_region. destruct (map (paint_row w) lines) as [|m0 ms] eqn:Em.
      { exfalso. apply Hlne. destruct lines; [reflexivity|discriminate]. }
      rewrite Hreg', Hlast', <- Epost. reflexivity.
    + rewrite map_length. reflexivity.
    + rewrite map_length. fold n. rewrite skipn_length. lia.
    + rewrite map_length. fold n. rewrite skipn_length. lia.
    + exact Hwa.
    + apply rows_w_map_paint.
    + apply all_blank_skipn. assumption.
    + intros _. reflexivity.
    + intros E. exfalso. exact (Hne E).
Qed.
