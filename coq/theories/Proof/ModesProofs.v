(* C12, and the mode halves of C05 and C17: the terminal's modes always equal
   what the options and the commands asked for; restoreTerminalState resets
   them; ReleaseTerminal / RestoreTerminal is a round trip on alt screen,
   bracketed paste and focus reporting.

   The renderer tracks four of the terminal's flags (alt screen, cursor hidden,
   bracketed paste, focus); `tracker_ok` says its copy agrees with the terminal.
   The mouse modes are not tracked: every mouse command writes its tokens
   unconditionally.  All statements hold for both cursor-visibility
   disciplines of the terminal model (`shared`): one flag for both buffers, or
   one per buffer -- the second is where the re-emission of the cursor
   visibility after each buffer switch (r_enter_alt / r_exit_alt) is needed. *)
From Coq Require Import String List Bool NArith Arith Lia.
Import ListNotations.
From BT Require Import Base.Bytes Model.GenTypes Model.VT Model.Renderer Model.EvLoop Spec.Modes Model.Lifecycle.
From BT Require Import Proof.RenderStop Proof.RendererBasics.
From BTGen Require Dispatch Lifecycle.
Open Scope list_scope.
Open Scope nat_scope.

(* the renderer calls in the body of p.disableMouse, from the generated facts *)
Definition dm : list string := map sc_call BTGen.Lifecycle.disable_mouse_calls.

(* ------------------------------------------------------------ the invariant *)

Definition hidden_active (t : vt) : bool := if in_alt t then negb (vis_alt t) else negb (vis_main t).

(* Nothing is needed about the visibility flag of the buffer NOT in use: the
   renderer re-emits the cursor visibility right after every buffer switch, so
   whatever that flag was, it is overwritten before it can be observed.  This
   is why the same invariant works for shared = true and shared = false. *)
Definition tracker_ok (shared : bool) (r : rstate) (t : vt) : Prop :=
  r_alt r = in_alt t /\ r_cursorHidden r = hidden_active t /\ r_bp r = m_paste t /\ r_focus r = m_focus t.

Lemma tracker_ok_init shared w h hist used : tracker_ok shared r_init (vt_init w h hist used).
Proof. repeat split. Qed.

Lemma vt_run_app' shared t k1 k2 : vt_run shared t (k1 ++ k2) = vt_run shared (vt_run shared t k1) k2.
Proof. unfold vt_run. apply fold_left_app. Qed.

(* ------------------------------------------------------------ tokens that only draw *)

(* the flags of the terminal *)
Definition flags (t : vt) :=
  (in_alt t, vis_main t, vis_alt t, m_cell t, m_all t, m_sgr t, m_paste t, m_focus t).

Lemma flags_modes t1 t2 : flags t1 = flags t2 -> vt_modes t1 = vt_modes t2.
Proof.
  unfold flags, vt_modes. intros E. injection E as E1 E2 E3 E4 E5 E6 E7 E8.
  rewrite E1, E2, E3, E4, E5, E6, E7, E8. reflexivity.
Qed.

Lemma flags_tracker shared r t1 t2 : flags t1 = flags t2 -> tracker_ok shared r t1 -> tracker_ok shared r t2.
Proof.
  unfold flags, tracker_ok, hidden_active. intros E. injection E as E1 E2 E3 E4 E5 E6 E7 E8.
  rewrite E1, E2, E3, E7, E8. exact (fun H => H).
Qed.

Lemma draw_flags shared : forall toks t, forallb st_cell toks = true -> flags (vt_run shared t toks) = flags t.
Proof.
  induction toks as [|k ks IH]; intros t Hc; [reflexivity|].
  cbn [forallb] in Hc. apply andb_true_iff in Hc. destruct Hc as [Hk Hks].
  unfold vt_run in *. cbn [fold_left]. rewrite (IH _ Hks).
  destruct k; try discriminate Hk; cbn [vt_apply]; unfold with_active, flags; destruct (in_alt t) eqn:Ea; cbn; rewrite ?Ea; reflexivity.
Qed.

(* r_stop / r_kill: the renderer's four flags are kept, the tokens only draw *)
Lemma flush_keeps r : let r1 := fst (r_flush r) in
  r_alt r1 = r_alt r /\ r_cursorHidden r1 = r_cursorHidden r /\ r_bp r1 = r_bp r /\ r_focus r1 = r_focus r.
Proof.
  unfold r_flush. destruct (r_buf r); [repeat split|].
  destruct (bytes_eqb _ _); repeat split.
Qed.

Lemma stop_tracker shared r t : tracker_ok shared r t ->
  tracker_ok shared (fst (r_stop r)) (vt_run shared t (snd (r_stop r))) /\
  flags (vt_run shared t (snd (r_stop r))) = flags t.
Proof.
  intros H. pose proof (draw_flags shared _ t (st_cell_stop r)) as Hf. split; [|exact Hf].
  apply (flags_tracker shared _ t); [symmetry; exact Hf|].
  rewrite fst_r_stop. destruct (flush_keeps r) as (E1 & E2 & E3 & E4).
  destruct H as (H1 & H2 & H3 & H4). unfold tracker_ok. rewrite E1, E2, E3, E4. repeat split; assumption.
Qed.

Lemma kill_tracker shared r t : tracker_ok shared r t ->
  tracker_ok shared (fst (r_kill r)) (vt_run shared t (snd (r_kill r))) /\
  flags (vt_run shared t (snd (r_kill r))) = flags t.
Proof.
  intros H. assert (Hf : flags (vt_run shared t (snd (r_kill r))) = flags t) by (apply draw_flags; reflexivity).
  split; [|exact Hf]. apply (flags_tracker shared _ t); [symmetry; exact Hf|exact H].
Qed.

(* ------------------------------------------------------------ one command on renderer + terminal *)

(* what the event loop's case for a command does to the renderer *)
Definition cmd_effect (c : modecmd) (r : rstate) : rstate * list tok :=
  match c with
  | MEnterAlt => r_enter_alt r
  | MExitAlt => r_exit_alt r
  | MMouseCell => (r, [TSet 1002; TSet 1006])
  | MMouseAll => (r, [TSet 1003; TSet 1006])
  | MMouseOff => (r, [TReset 1002; TReset 1003; TReset 1006])
  | MPasteOn => r_enable_paste r
  | MPasteOff => r_disable_paste r
  | MFocusOn => r_enable_focus r
  | MFocusOff => r_disable_focus r
  | MShowCursor => r_show_cursor r
  | MHideCursor => r_hide_cursor r
  | MClear => r_clear_screen r
  end.

(* the same with the bare switch for EnterAltScreen (no flush of queued lines before it) *)
Definition cmd_effect_core (c : modecmd) (r : rstate) : rstate * list tok :=
  match c with MEnterAlt => r_enter_alt_core r | _ => cmd_effect c r end.

Lemma cmd_effect_core_ok shared c r t : tracker_ok shared r t ->
  tracker_ok shared (fst (cmd_effect_core c r)) (vt_run shared t (snd (cmd_effect_core c r))) /\
  vt_modes (vt_run shared t (snd (cmd_effect_core c r))) = apply (vt_modes t) c.
Proof.
  destruct t as [W H mb ab ia vm va mc ma ms mp mf ti].
  destruct r as [rb rq rl rll rn ran rch ralt rbp rfo rw rh].
  unfold tracker_ok, hidden_active. cbn [r_alt r_cursorHidden r_bp r_focus in_alt vis_alt vis_main m_paste m_focus].
  intros (E1 & E2 & E3 & E4). subst ralt rch rbp rfo.
  destruct c, shared, ia, vm, va; cbn; repeat split.
Qed.

Lemma flush_tracker shared r t : tracker_ok shared r t ->
  tracker_ok shared (fst (r_flush r)) (vt_run shared t (snd (r_flush r))) /\
  flags (vt_run shared t (snd (r_flush r))) = flags t.
Proof.
  intros H. pose proof (draw_flags shared _ t (st_cell_flush r)) as Hf. split; [|exact Hf].
  apply (flags_tracker shared _ t); [symmetry; exact Hf|].
  destruct (flush_keeps r) as (E1 & E2 & E3 & E4).
  destruct H as (H1 & H2 & H3 & H4). unfold tracker_ok. rewrite E1, E2, E3, E4. repeat split; assumption.
Qed.

Lemma cmd_effect_ok shared c r t : tracker_ok shared r t ->
  tracker_ok shared (fst (cmd_effect c r)) (vt_run shared t (snd (cmd_effect c r))) /\
  vt_modes (vt_run shared t (snd (cmd_effect c r))) = apply (vt_modes t) c.
Proof.
  intros H.
  assert (Hc : c <> MEnterAlt -> cmd_effect c r = cmd_effect_core c r) by (destruct c; intros N; try reflexivity; exfalso; apply N; reflexivity).
  destruct c; try (rewrite Hc by discriminate; apply cmd_effect_core_ok; exact H).
  cbn [cmd_effect]. destruct (enter_alt_cases r) as [E|(_ & _ & E)]; rewrite E.
  - exact (cmd_effect_core_ok shared MEnterAlt r t H).
  - cbn [fst snd]. rewrite vt_run_app'.
    destruct (flush_tracker shared r t H) as [H1 Hf].
    destruct (cmd_effect_core_ok shared MEnterAlt (fst (r_flush r)) _ H1) as [H2 Hm]. cbn [cmd_effect_core] in H2, Hm.
    split; [exact H2|]. rewrite Hm. f_equal. apply flags_modes. exact Hf.
Qed.

(* the generated table: each command has a case that falls through to Update
   and whose calls are exactly cmd_effect *)
Lemma cmd_case c : exists c0,
  find_case BTGen.Dispatch.dispatch (kind_of_cmd c) = Some c0 /\ dc_end c0 = DFall /\
  forall r out sides,
    run_calls (dc_calls c0) (kind_of_cmd c) dm [] r out sides true
    = (fst (cmd_effect c r), out ++ snd (cmd_effect c r), sides, true).
Proof.
  destruct c; eexists; (split; [reflexivity|split; [reflexivity|]]); intros r out sides; cbn;
    rewrite <- ?app_assoc; try reflexivity.
  - destruct (r_enter_alt r); reflexivity.
  - destruct (r_exit_alt r); reflexivity.
Qed.

Section Run.
  Context {M U : Type}.
  Variable upd : M -> rmsg U -> M * option cmdid.
  Variable view : M -> bytes.

  Notation step := (el_step BTGen.Dispatch.dispatch dm None upd view).
  Notation run := (el_run BTGen.Dispatch.dispatch dm None upd view).
  Notation msgs cmds := (map (fun c : modecmd => @RB U (kind_of_cmd c)) cmds).

  Lemma step_cmd c s : el_exit s = None ->
    el_exit (step s (RB (kind_of_cmd c))) = None /\
    el_out (step s (RB (kind_of_cmd c))) = el_out s ++ snd (cmd_effect c (el_r s)) /\
    exists v, el_r (step s (RB (kind_of_cmd c))) = r_write (fst (cmd_effect c (el_r s))) v.
  Proof.
    intros He. destruct (cmd_case c) as (c0 & Hf & Hend & Hrun).
    unfold el_step. rewrite He. cbn [kind_of]. rewrite Hf. cbv zeta. rewrite Hrun, Hend.
    cbn [handle_messages]. destruct (upd (el_model s) (RB (kind_of_cmd c))) as [m' cmd].
    cbn. repeat split. eexists. reflexivity.
  Qed.

  Lemma write_tracker shared r v t : tracker_ok shared r t -> tracker_ok shared (r_write r v) t.
  Proof. exact (fun H => H). Qed.

  (* the induction: t0 is the terminal before the loop's tokens *)
  Lemma run_cmds shared t0 : forall cmds s, el_exit s = None ->
    tracker_ok shared (el_r s) (vt_run shared t0 (el_out s)) ->
    el_exit (run s (msgs cmds)) = None /\
    tracker_ok shared (el_r (run s (msgs cmds))) (vt_run shared t0 (el_out (run s (msgs cmds)))) /\
    vt_modes (vt_run shared t0 (el_out (run s (msgs cmds))))
    = fold_left apply cmds (vt_modes (vt_run shared t0 (el_out s))).
  Proof.
    induction cmds as [|c cs IH]; intros s He Htr;
      [unfold el_run; cbn [map fold_left]; split; [exact He|split; [exact Htr|reflexivity]]|].
    cbn [map el_run fold_left].
    destruct (step_cmd c s He) as (He1 & Ho1 & v & Hr1).
    destruct (cmd_effect_ok shared c _ _ Htr) as (Htr1 & Hm1).
    assert (Htr1' : tracker_ok shared (el_r (step s (RB (kind_of_cmd c))))
                               (vt_run shared t0 (el_out (step s (RB (kind_of_cmd c)))))).
    { rewrite Ho1, Hr1, vt_run_app'. apply write_tracker. exact Htr1. }
    destruct (IH _ He1 Htr1') as (He2 & Htr2 & Hm2).
    unfold el_run in *. split; [exact He2|]. split; [exact Htr2|].
    rewrite Hm2, Ho1, vt_run_app', Hm1. reflexivity.
  Qed.

  (* the startup block, for every option set *)
  Lemma startup_ok shared o w h hist used :
    let '(r0, toks0, ok) := startup BTGen.Lifecycle.run_calls dm o r_init in
    ok = true /\
    tracker_ok shared r0 (vt_run shared (vt_init w h hist used) toks0) /\
    vt_modes (vt_run shared (vt_init w h hist used) toks0) = apply_opts o.
  Proof.
    destruct o as [oa oc ol op ofo]. destruct oa, oc, ol, op, ofo, shared; vm_compute; repeat split.
  Qed.

  (* startup, then any history of commands: the tracker agrees and the modes follow *)
  Theorem modes_tracked : forall shared o cmds w h hist used (m0 : M),
    let '(r0, toks0, ok) := startup BTGen.Lifecycle.run_calls dm o r_init in
    let s := run (el_init m0 r0) (msgs cmds) in
    let t := vt_run shared (vt_init w h hist used) (toks0 ++ el_out s) in
    ok = true /\ el_exit s = None /\ tracker_ok shared (el_r s) t /\
    vt_modes t = fold_left apply cmds (apply_opts o).
  Proof.
    intros shared o cmds w h hist used m0.
    pose proof (startup_ok shared o w h hist used) as Hs.
    destruct (startup BTGen.Lifecycle.run_calls dm o r_init) as [[r0 toks0] ok].
    destruct Hs as (Hok & Htr & Hm). cbv zeta.
    destruct (run_cmds shared (vt_run shared (vt_init w h hist used) toks0) cmds (el_init m0 r0) eq_refl Htr)
      as (He & Htr' & Hm').
    rewrite vt_run_app'. cbn [el_init el_out vt_run fold_left] in Hm'. rewrite Hm in Hm'.
    split; [exact Hok|split; [exact He|split; [exact Htr'|exact Hm']]].
  Qed.

  Theorem modes_follow_commands : forall shared o cmds w h (m0 : M),
    let '(r0, toks0, ok) := startup BTGen.Lifecycle.run_calls dm o r_init in
    ok = true /\
    vt_modes (vt_run shared (vt_init w h [] 0)
                (toks0 ++ el_out (el_run BTGen.Dispatch.dispatch dm None upd view (el_init m0 r0)
                                         (map (fun c => RB (kind_of_cmd c)) cmds))))
    = fold_left apply cmds (apply_opts o).
  Proof.
    intros shared o cmds w h m0. pose proof (modes_tracked shared o cmds w h [] 0 m0) as H.
    destruct (startup BTGen.Lifecycle.run_calls dm o r_init) as [[r0 toks0] ok].
    cbv zeta in H. destruct H as (Hok & _ & _ & Hm). split; assumption.
  Qed.
End Run.

(* ------------------------------------------------------------ restoreTerminalState *)

(* whatever the mouse modes of the terminal are (the renderer does not track
   them): all three are reset unconditionally *)
Theorem restore_resets : forall shared r t, tracker_ok shared r t ->
  let '(r', toks, ok) := restore_state BTGen.Lifecycle.restore_terminal_state_calls dm r in
  ok = true /\ vt_modes (vt_run shared t toks) = defaults /\ tracker_ok shared r' (vt_run shared t toks).
Proof.
  intros shared r t.
  destruct t as [W H mb ab ia vm va mc ma ms mp mf ti].
  destruct r as [rb rq rl rll rn ran rch ralt rbp rfo rw rh].
  unfold tracker_ok, hidden_active. cbn [r_alt r_cursorHidden r_bp r_focus in_alt vis_alt vis_main m_paste m_focus].
  intros (E1 & E2 & E3 & E4). subst ralt rch rbp rfo.
  destruct shared, ia, vm, va, mp, mf; vm_compute; repeat split.
Qed.

(* with tokens already written: they stay in front *)
Lemma restore_run_acc r out :
  restore_state_run BTGen.Lifecycle.restore_terminal_state_calls dm r out true
  = let '(r', o, ok) := restore_state BTGen.Lifecycle.restore_terminal_state_calls dm r in (r', out ++ o, ok).
Proof.
  destruct r as [rb rq rl rll rn ran rch ralt rbp rfo rw rh].
  destruct ralt, rfo; cbn; rewrite <- ?app_assoc; reflexivity.
Qed.

(* ------------------------------------------------------------ the main screen while the alt screen is in use *)

Lemma vt_apply_main shared t k : in_alt t = true -> k <> TReset 1049%N ->
  vmain (vt_apply shared t k) = vmain t /\ in_alt (vt_apply shared t k) = true.
Proof.
  intros Ha Hk.
  assert (Hw : forall b, vmain (with_active t b) = vmain t /\ in_alt (with_active t b) = true)
    by (intros b; unfold with_active; rewrite Ha; split; reflexivity).
  destruct k; cbn [vt_apply]; try apply Hw; try (split; [reflexivity|exact Ha]).
  - (* TSet *)
    unfold set_mode, set_vis.
    repeat match goal with |- context [(?a =? ?b)%N] => destruct (a =? b)%N end;
      cbn; rewrite ?Ha; split; reflexivity || exact Ha.
  - (* TReset: 1049 is excluded *)
    unfold set_mode, set_vis.
    destruct (N.eqb_spec m 1049) as [->|Hne]; [exfalso; apply Hk; reflexivity|].
    repeat match goal with |- context [(?a =? ?b)%N] => destruct (a =? b)%N end;
      cbn; rewrite ?Ha; split; reflexivity || exact Ha.
Qed.

(* tokens reach the buffer in use only: as long as the alt screen is not left,
   the whole main buffer (tape and cursor) is untouched *)
Lemma main_untouched_alt shared : forall toks t, in_alt t = true ->
  Forall (fun k => k <> TReset 1049%N) toks ->
  vmain (vt_run shared t toks) = vmain t /\ in_alt (vt_run shared t toks) = true.
Proof.
  induction toks as [|k ks IH]; intros t Ha Hf; [split; [reflexivity|exact Ha]|].
  inversion Hf as [|k' ks' Hk Hks]; subst k' ks'.
  destruct (vt_apply_main shared t k Ha Hk) as (Em & Ea).
  unfold vt_run in *. cbn [fold_left]. destruct (IH _ Ea Hks) as (E1 & E2). rewrite E1. split; [exact Em|exact E2].
Qed.

Theorem main_untouched : forall shared t toks, in_alt t = true ->
  Forall (fun k => k <> TReset 1049%N) toks ->
  vmain (vt_run shared t toks) = vmain t.
Proof. intros shared t toks Ha Hf. exact (proj1 (main_untouched_alt shared toks t Ha Hf)). Qed.

(* ------------------------------------------------------------ ReleaseTerminal / RestoreTerminal *)

Lemma release_eq w0 r :
  release BTGen.Lifecycle.release_terminal_calls dm w0 r
  = let '(r1, o1) := r_stop r in
    let '(r2, o2, ok) := restore_state_run BTGen.Lifecycle.restore_terminal_state_calls dm r1 o1 true in
    (r2, o2, (r_alt r1, r_bp r1, r_focus r1), ok).
Proof.
  destruct w0 as [[wa wb] wf]. unfold release. cbn -[r_stop restore_state_run].
  destruct (r_stop r) as [r1 o1]. reflexivity.
Qed.

(* on a terminal in its default modes, with the remembered triple (wa, wb, wf).
   RestoreTerminal's calls, written out: initTerminal (hide the cursor), enterAltScreen when the alt screen was active,
   then bracketed paste and focus reporting as remembered.  enterAltScreen may first flush queued lines (drawing tokens
   only: the flags of renderer and terminal are untouched), so the statement is proved for the bare switch by the sweep
   below and lifted over the flush. *)
Definition rt_tail (wb wf : bool) (r : rstate) : rstate * list tok :=
  let '(r1, t1) := if wb then r_enable_paste r else (r, []) in
  let '(r2, t2) := if wf then r_enable_focus r1 else (r1, []) in (r2, t1 ++ t2).

Definition rt_explicit (core : bool) (wa wb wf : bool) (r : rstate) : rstate * list tok :=
  let '(r0, t0) := r_hide_cursor r in
  let '(r1, t1) := if wa then (if core then r_enter_alt_core r0 else r_enter_alt r0) else (r0, []) in
  let '(r2, t2) := rt_tail wb wf r1 in (r2, t0 ++ t1 ++ t2).

Lemma restore_term_explicit wa wb wf r :
  restore_term BTGen.Lifecycle.restore_terminal_calls dm (wa, wb, wf) r =
  (fst (rt_explicit false wa wb wf r), snd (rt_explicit false wa wb wf r), true).
Proof.
  Opaque r_enter_alt.
  unfold rt_explicit, rt_tail. destruct wa, wb, wf; cbn;
    try (destruct (r_enter_alt _) as [ra ta]; cbn); rewrite <- ?app_assoc, ?app_nil_r; reflexivity.
  Transparent r_enter_alt.
Qed.

(* the tail after the switch: paste and focus as remembered, from any tracked state *)
Lemma rt_tail_ok shared wb wf r t : tracker_ok shared r t -> m_paste t = false -> m_focus t = false ->
  tracker_ok shared (fst (rt_tail wb wf r)) (vt_run shared t (snd (rt_tail wb wf r))) /\
  vt_modes (vt_run shared t (snd (rt_tail wb wf r))) =
    mk_modes (a_alt (vt_modes t)) (a_hidden (vt_modes t)) (a_cell (vt_modes t)) (a_all (vt_modes t)) (a_sgr (vt_modes t)) wb wf.
Proof.
  destruct t as [W H mb ab ia vm va mc ma ms mp mf ti].
  destruct r as [rb rq rl rll rn ran rch ralt rbp rfo rw rh].
  unfold tracker_ok, hidden_active, vt_modes, mk_modes.
  cbn [r_alt r_cursorHidden r_bp r_focus in_alt vis_alt vis_main m_cell m_all m_sgr m_paste m_focus].
  intros (E1 & E2 & E3 & E4) Ep Ef. subst ralt rch rbp rfo mp mf.
  destruct shared, wb, wf, ia, vm, va; vm_compute; repeat split.
Qed.

Lemma rt_core_ok shared wa wb wf r t : tracker_ok shared r t -> vt_modes t = defaults ->
  tracker_ok shared (fst (rt_explicit true wa wb wf r)) (vt_run shared t (snd (rt_explicit true wa wb wf r))) /\
  vt_modes (vt_run shared t (snd (rt_explicit true wa wb wf r))) = mk_modes wa true false false false wb wf.
Proof.
  destruct t as [W H mb ab ia vm va mc ma ms mp mf ti].
  destruct r as [rb rq rl rll rn ran rch ralt rbp rfo rw rh].
  unfold tracker_ok, hidden_active, vt_modes, defaults, mk_modes.
  cbn [r_alt r_cursorHidden r_bp r_focus in_alt vis_alt vis_main m_cell m_all m_sgr m_paste m_focus].
  intros (E1 & E2 & E3 & E4) Ed. subst ralt rch rbp rfo.
  injection Ed as D1 D2 D3 D4 D5 D6 D7. subst ia mc ma ms mp mf.
  destruct shared, wa, wb, wf, vm, va; try discriminate D2; vm_compute; repeat split.
Qed.

Lemma restore_term_ok shared wa wb wf r t : tracker_ok shared r t -> vt_modes t = defaults ->
  let '(r2, toks2, ok2) := restore_term BTGen.Lifecycle.restore_terminal_calls dm (wa, wb, wf) r in
  ok2 = true /\ tracker_ok shared r2 (vt_run shared t toks2) /\
  vt_modes (vt_run shared t toks2) = mk_modes wa true false false false wb wf.
Proof.
  intros Htr Hdef. rewrite restore_term_explicit. split; [reflexivity|].
  destruct wa; [|exact (rt_core_ok shared false wb wf r t Htr Hdef)].
  (* the alt screen was active: enterAltScreen, possibly after a flush *)
  pose proof (rt_core_ok shared true wb wf r t Htr Hdef) as Hcore.
  unfold rt_explicit in *. destruct (r_hide_cursor r) as [r0 t0] eqn:Eh.
  destruct (enter_alt_cases r0) as [E|(_ & _ & E)]; rewrite E; [exact Hcore|].
  (* flush first: drawing tokens only *)
  assert (Htr0 : tracker_ok shared r0 (vt_run shared t t0) /\ vt_modes (vt_run shared t t0) = apply (vt_modes t) MHideCursor).
  { pose proof (cmd_effect_core_ok shared MHideCursor r t Htr) as P. cbn [cmd_effect_core cmd_effect] in P. rewrite Eh in P. exact P. }
  destruct Htr0 as [Htr0 Hm0].
  destruct (flush_tracker shared r0 _ Htr0) as [Htr1 Hf1].
  set (rF := fst (r_flush r0)) in *. set (tF := snd (r_flush r0)) in *.
  (* the bare switch from the flushed state, on the terminal after the flush *)
  pose proof (cmd_effect_core_ok shared MEnterAlt rF _ Htr1) as [Htr2 Hm2]. cbn [cmd_effect_core] in Htr2, Hm2.
  destruct (r_enter_alt_core rF) as [r1 t1] eqn:Ec. cbn [fst snd] in *.
  assert (Hmodes2 : vt_modes (vt_run shared (vt_run shared (vt_run shared t t0) tF) t1) = mk_modes true true false false false false false).
  { rewrite Hm2. rewrite (flags_modes _ _ Hf1), Hm0, Hdef. reflexivity. }
  assert (Hp : m_paste (vt_run shared (vt_run shared (vt_run shared t t0) tF) t1) = false /\
               m_focus (vt_run shared (vt_run shared (vt_run shared t t0) tF) t1) = false).
  { unfold vt_modes, mk_modes in Hmodes2. injection Hmodes2 as _ _ _ _ _ P6 P7. split; assumption. }
  destruct Hp as [Hp6 Hp7].
  pose proof (rt_tail_ok shared wb wf r1 _ Htr2 Hp6 Hp7) as [Htr3 Hm3].
  destruct (rt_tail wb wf r1) as [r2 t2]. cbn [fst snd] in *.
  rewrite !vt_run_app'. split; [exact Htr3|]. rewrite Hm3, Hmodes2. reflexivity.
Qed.

(* ReleaseTerminal leaves the terminal in its default modes and remembers alt
   screen / bracketed paste / focus (whatever it remembered before: w0); RestoreTerminal brings exactly these three
   back, hides the cursor, and (deliberately, as the code stands) does not
   re-enable the mouse *)
Theorem release_then_restore : forall shared w0 r t, tracker_ok shared r t ->
  let '(r1, toks1, w, ok1) := release BTGen.Lifecycle.release_terminal_calls dm w0 r in
  let t1 := vt_run shared t toks1 in
  ok1 = true /\
  w = (a_alt (vt_modes t), a_paste (vt_modes t), a_focus (vt_modes t)) /\
  vt_modes t1 = defaults /\ tracker_ok shared r1 t1 /\
  let '(r2, toks2, ok2) := restore_term BTGen.Lifecycle.restore_terminal_calls dm w r1 in
  let t2 := vt_run shared t1 toks2 in
  ok2 = true /\ tracker_ok shared r2 t2 /\
  vt_modes t2 = mk_modes (a_alt (vt_modes t)) true false false false (a_paste (vt_modes t)) (a_focus (vt_modes t)).
Proof.
  intros shared w0 r t Htr. rewrite release_eq.
  destruct (stop_tracker shared r t Htr) as (Htr1 & Hfl).
  destruct (r_stop r) as [rs os]. cbn [fst snd] in Htr1, Hfl.
  rewrite restore_run_acc.
  pose proof (restore_resets shared rs _ Htr1) as Hres.
  destruct (restore_state BTGen.Lifecycle.restore_terminal_state_calls dm rs) as [[r1 o1] ok1].
  destruct Hres as (Hok1 & Hdef & Htr2). cbv zeta. rewrite vt_run_app'.
  assert (Hw : (r_alt rs, r_bp rs, r_focus rs) = (a_alt (vt_modes t), a_paste (vt_modes t), a_focus (vt_modes t))).
  { destruct Htr1 as (A1 & _ & A3 & A4). rewrite A1, A3, A4.
    unfold flags in Hfl. injection Hfl as F1 F2 F3 F4 F5 F6 F7 F8. cbn [vt_modes mk_modes a_alt a_paste a_focus].
    rewrite F1, F7, F8. reflexivity. }
  split; [exact Hok1|]. split; [exact Hw|]. split; [exact Hdef|]. split; [exact Htr2|].
  rewrite Hw.
  pose proof (restore_term_ok shared (a_alt (vt_modes t)) (a_paste (vt_modes t)) (a_focus (vt_modes t)) r1 _ Htr2 Hdef) as Hrt.
  destruct (restore_term BTGen.Lifecycle.restore_terminal_calls dm _ r1) as [[r2 toks2] ok2].
  exact Hrt.
Qed.

(* ------------------------------------------------------------ end to end *)

Section Quit.
  Context {M U : Type}.
  Variable upd : M -> rmsg U -> M * option cmdid.
  Variable view : M -> bytes.

  (* shutdown: startup, any commands, renderer.stop (or kill), restoreTerminalState:
     the terminal is back in its default modes *)
  Theorem quit_resets : forall shared (kill : bool) o cmds w h hist used (m0 : M),
    let '(r0, toks0, ok0) := startup BTGen.Lifecycle.run_calls dm o r_init in
    let s := el_run BTGen.Dispatch.dispatch dm None upd view (el_init m0 r0) (map (fun c => RB (kind_of_cmd c)) cmds) in
    let '(r1, toks1) := if kill then r_kill (el_r s) else r_stop (el_r s) in
    let '(r2, toks2, ok2) := restore_state BTGen.Lifecycle.restore_terminal_state_calls dm r1 in
    ok0 = true /\ ok2 = true /\
    vt_modes (vt_run shared (vt_init w h hist used) ((toks0 ++ el_out s) ++ toks1 ++ toks2)) = defaults.
  Proof.
    intros shared kill o cmds w h hist used m0.
    pose proof (modes_tracked upd view shared o cmds w h hist used m0) as H.
    destruct (startup BTGen.Lifecycle.run_calls dm o r_init) as [[r0 toks0] ok0].
    cbv zeta in H |- *. destruct H as (Hok & _ & Htr & _).
    set (s := el_run _ _ _ _ _ _ _) in *.
    assert (Hst : tracker_ok shared (fst (if kill then r_kill (el_r s) else r_stop (el_r s)))
                    (vt_run shared (vt_run shared (vt_init w h hist used) (toks0 ++ el_out s))
                            (snd (if kill then r_kill (el_r s) else r_stop (el_r s))))).
    { destruct kill; [exact (proj1 (kill_tracker shared _ _ Htr))|exact (proj1 (stop_tracker shared _ _ Htr))]. }
    destruct (if kill then r_kill (el_r s) else r_stop (el_r s)) as [r1 toks1]. cbn [fst snd] in Hst.
    pose proof (restore_resets shared r1 _ Hst) as Hres.
    destruct (restore_state BTGen.Lifecycle.restore_terminal_state_calls dm r1) as [[r2 toks2] ok2].
    destruct Hres as (Hok2 & Hdef & _).
    rewrite !vt_run_app'. rewrite !vt_run_app' in Hdef. split; [exact Hok|split; [exact Hok2|exact Hdef]].
  Qed.
End Quit.

(* ------------------------------------------------------------ a whole run on the alt screen *)

(* mode tokens never write to the main buffer, whichever buffer is in use *)
Lemma mode_tok_main shared t k : st_cell k = false -> vmain (vt_apply shared t k) = vmain t.
Proof.
  destruct k; try discriminate; intros _; cbn [vt_apply]; try reflexivity;
    unfold set_mode, set_vis;
    repeat match goal with |- context [(?a =? ?b)%N] => destruct (a =? b)%N end;
    try reflexivity; destruct (in_alt t); reflexivity.
Qed.

Lemma mode_toks_main shared : forall toks t, forallb (fun k => negb (st_cell k)) toks = true ->
  vmain (vt_run shared t toks) = vmain t.
Proof.
  induction toks as [|k ks IH]; intros t Hc; [reflexivity|].
  cbn [forallb] in Hc. apply andb_true_iff in Hc. destruct Hc as [Hk Hks].
  unfold vt_run in *. cbn [fold_left]. rewrite (IH _ Hks). apply mode_tok_main.
  destruct (st_cell k); [discriminate Hk|reflexivity].
Qed.

Lemma restore_toks_mode r :
  forallb (fun k => negb (st_cell k)) (snd (fst (restore_state BTGen.Lifecycle.restore_terminal_state_calls dm r))) = true.
Proof.
  destruct r as [rb rq rl rll rn ran rch ralt rbp rfo rw rh]. destruct ralt, rfo; reflexivity.
Qed.

Lemma st_cell_not_exit toks : forallb st_cell toks = true -> Forall (fun k => k <> TReset 1049%N) toks.
Proof.
  induction toks as [|k ks IH]; intros Hc; [constructor|].
  cbn [forallb] in Hc. apply andb_true_iff in Hc. destruct Hc as [Hk Hks].
  constructor; [intros ->; discriminate Hk|exact (IH Hks)].
Qed.

(* only ExitAltScreen writes the token that leaves the alt screen *)
Lemma cmd_effect_no_exit c r : c <> MExitAlt -> Forall (fun k => k <> TReset 1049%N) (snd (cmd_effect c r)).
Proof.
  intros Hc. destruct c; try (exfalso; apply Hc; reflexivity); cbn [cmd_effect];
    try (cbn; repeat constructor; discriminate).
  assert (Hcore : forall r0, Forall (fun k => k <> TReset 1049%N) (snd (r_enter_alt_core r0))).
  { intros r0. unfold r_enter_alt_core, vis_tok. destruct (r_alt r0); [constructor|]. cbn [snd].
    destruct (r_cursorHidden r0); repeat constructor; discriminate. }
  destruct (enter_alt_cases r) as [E|(_ & _ & E)]; rewrite E; [apply Hcore|]. cbn [snd].
  apply Forall_app. split; [apply st_cell_not_exit, st_cell_flush|apply Hcore].
Qed.

Lemma startup_alt_main shared o w h hist used : o_alt o = true ->
  let '(r0, toks0, ok0) := startup BTGen.Lifecycle.run_calls dm o r_init in
  vmain (vt_run shared (vt_init w h hist used) toks0) = vmain (vt_init w h hist used) /\
  in_alt (vt_run shared (vt_init w h hist used) toks0) = true.
Proof.
  destruct o as [oa oc ol op ofo]. cbn [o_alt]. intros ->.
  destruct oc, ol, op, ofo, shared; vm_compute; split; reflexivity.
Qed.

Section AltRun.
  Context {M U : Type}.
  Variable upd : M -> rmsg U -> M * option cmdid.
  Variable view : M -> bytes.

  Notation run := (el_run BTGen.Dispatch.dispatch dm None upd view).
  Notation msgs cmds := (map (fun c : modecmd => @RB U (kind_of_cmd c)) cmds).

  Lemma run_out_no_exit : forall cmds s, el_exit s = None -> ~ In MExitAlt cmds ->
    exists extra, el_out (run s (msgs cmds)) = el_out s ++ extra /\ Forall (fun k => k <> TReset 1049%N) extra.
  Proof.
    induction cmds as [|c cs IH]; intros s He Hni.
    - exists []. split; [cbn; rewrite app_nil_r; reflexivity|constructor].
    - cbn [map el_run fold_left].
      destruct (step_cmd upd view c s He) as (He1 & Ho1 & _).
      assert (Hc : c <> MExitAlt) by (intros ->; apply Hni; left; reflexivity).
      assert (Hni' : ~ In MExitAlt cs) by (intros Hin; apply Hni; right; exact Hin).
      destruct (IH _ He1 Hni') as (extra & Ho2 & Hf2).
      exists (snd (cmd_effect c (el_r s)) ++ extra). unfold el_run in *. rewrite Ho2, Ho1, app_assoc.
      split; [reflexivity|]. apply Forall_app. split; [apply cmd_effect_no_exit; exact Hc|exact Hf2].
  Qed.

  (* WithAltScreen and no ExitAltScreen command: whatever the program draws, up
     to and including shutdown, the main screen is exactly as it was before Run *)
  Theorem alt_run_main_untouched : forall shared (kill : bool) o cmds w h hist used (m0 : M),
    o_alt o = true -> ~ In MExitAlt cmds ->
    let '(r0, toks0, ok0) := startup BTGen.Lifecycle.run_calls dm o r_init in
    let s := run (el_init m0 r0) (msgs cmds) in
    let '(r1, toks1) := if kill then r_kill (el_r s) else r_stop (el_r s) in
    let '(r2, toks2, ok2) := restore_state BTGen.Lifecycle.restore_terminal_state_calls dm r1 in
    vmain (vt_run shared (vt_init w h hist used) ((toks0 ++ el_out s) ++ toks1)) = vmain (vt_init w h hist used) /\
    vmain (vt_run shared (vt_init w h hist used) ((toks0 ++ el_out s) ++ toks1 ++ toks2)) = vmain (vt_init w h hist used).
  Proof.
    intros shared kill o cmds w h hist used m0 Ho Hni.
    pose proof (startup_alt_main shared o w h hist used Ho) as Hs.
    destruct (startup BTGen.Lifecycle.run_calls dm o r_init) as [[r0 toks0] ok0].
    destruct Hs as (Hm0 & Ha0). cbv zeta.
    destruct (run_out_no_exit cmds (el_init m0 r0) eq_refl Hni) as (extra & Hout & Hfe).
    cbn [el_init el_out app] in Hout.
    set (s := run _ _) in *.
    assert (Hf1 : Forall (fun k => k <> TReset 1049%N) (snd (if kill then r_kill (el_r s) else r_stop (el_r s)))).
    { apply st_cell_not_exit. destruct kill; [reflexivity|apply st_cell_stop]. }
    pose proof (restore_toks_mode (fst (if kill then r_kill (el_r s) else r_stop (el_r s)))) as Hmode.
    destruct (if kill then r_kill (el_r s) else r_stop (el_r s)) as [r1 toks1]. cbn [fst snd] in Hf1, Hmode.
    destruct (restore_state BTGen.Lifecycle.restore_terminal_state_calls dm r1) as [[r2 toks2] ok2]. cbn [fst snd] in Hmode.
    assert (E1 : vmain (vt_run shared (vt_init w h hist used) ((toks0 ++ el_out s) ++ toks1)) = vmain (vt_init w h hist used)).
    { rewrite <- app_assoc, vt_run_app', Hout.
      rewrite (main_untouched shared _ _ Ha0); [exact Hm0|]. apply Forall_app. split; assumption. }
    split; [exact E1|].
    rewrite app_assoc, vt_run_app', (mode_toks_main shared _ _ Hmode). exact E1.
  Qed.
End AltRun.
