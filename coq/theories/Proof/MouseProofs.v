(* C11: the mouse decoder equals the xterm specification, for every button
   code and coordinate. *)
From Coq Require Import NArith ZArith List Bool Lia Arith ZifyN ZifyNat ZifyBool.
Import ListNotations.
From BT Require Import Base.Bytes Model.Utf8 Model.Keys Model.Mouse Model.Decoder Spec.MouseSpec Spec.Events.
From BTGen Require Consts.
Open Scope Z_scope.
Ltac Zify.zify_post_hook ::= Z.div_mod_to_equations.

(* ------------------------------------------------ dependence on e mod 256 only *)

Lemma land_mod256 e m : 0 <= m < 256 -> Z.land e m = Z.land (e mod 256) m.
Proof.
  intros Hm. change 256 with (2 ^ 8). rewrite <- Z.land_ones by lia.
  rewrite <- Z.land_assoc. f_equal.
  rewrite Z.land_comm, Z.land_ones by lia. symmetry. apply Z.mod_small. exact Hm.
Qed.

Lemma has_bit_mod256 e m : 0 <= m < 256 -> has_bit e m = has_bit (e mod 256) m.
Proof. intros Hm. unfold has_bit. rewrite (land_mod256 e m Hm). reflexivity. Qed.

Lemma parse_mouse_button_mod256 e :
  parse_mouse_button e true = parse_mouse_button (e mod 256) true.
Proof.
  unfold parse_mouse_button.
  rewrite (land_mod256 e Consts.c_bitsMask) by (vm_compute; split; congruence).
  rewrite (has_bit_mod256 e Consts.c_bitAdd) by (vm_compute; split; congruence).
  rewrite (has_bit_mod256 e Consts.c_bitWheel) by (vm_compute; split; congruence).
  rewrite (has_bit_mod256 e Consts.c_bitMotion) by (vm_compute; split; congruence).
  rewrite (has_bit_mod256 e Consts.c_bitShift) by (vm_compute; split; congruence).
  rewrite (has_bit_mod256 e Consts.c_bitAlt) by (vm_compute; split; congruence).
  rewrite (has_bit_mod256 e Consts.c_bitCtrl) by (vm_compute; split; congruence).
  reflexivity.
Qed.

Lemma testbit_mod256 e k : 0 <= k < 8 -> Z.testbit e k = Z.testbit (e mod 256) k.
Proof. intros Hk. change 256 with (2 ^ 8). symmetry. apply Z.mod_pow2_bits_low. lia. Qed.

Lemma mod4_mod256 e : e mod 4 = (e mod 256) mod 4.
Proof.
  pose proof (Z.mod_pos_bound e 256 ltac:(lia)).
  pose proof (Z.div_mod e 256 ltac:(lia)).
  pose proof (Z.div_mod (e mod 256) 4 ltac:(lia)).
  pose proof (Z.mod_pos_bound (e mod 256) 4 ltac:(lia)).
  symmetry. apply Z.mod_unique_pos with (q := 64 * (e / 256) + (e mod 256) / 4); lia.
Qed.

Lemma xterm_mouse_mod256 e sgr rel : xterm_mouse e sgr rel = xterm_mouse (e mod 256) sgr rel.
Proof.
  unfold xterm_mouse, bit.
  rewrite (mod4_mod256 e).
  rewrite (testbit_mod256 e 7), (testbit_mod256 e 6), (testbit_mod256 e 5),
          (testbit_mod256 e 2), (testbit_mod256 e 3), (testbit_mod256 e 4) by lia.
  reflexivity.
Qed.

(* ------------------------------------------------ the model as one function *)

(* button/action/modifiers the model produces for an SGR report with code e *)
Definition model_sgr (e : Z) (rel : bool) : mouse_ev :=
  let m := parse_mouse_button e true in
  if negb (maction m =? Consts.c_MouseActionMotion) && negb (is_wheel (mbutton m)) && rel
  then {| mbutton := mbutton m; maction := Consts.c_MouseActionRelease;
          mshift := mshift m; malt := malt m; mctrl := mctrl m; mtype := Consts.c_MouseRelease |}
  else m.

(* ... and for an X10 report whose first payload byte is e + 32 *)
Definition model_x10 (e : Z) : mouse_ev := parse_mouse_button (e + 32) false.

Definition agrees (m : mouse_ev) (s : mouse_spec) : bool :=
  (mbutton m =? s_button s) && (maction m =? s_action s) &&
  Bool.eqb (mshift m) (s_shift s) && Bool.eqb (malt m) (s_alt s) && Bool.eqb (mctrl m) (s_ctrl s).

Definition codes256 : list Z := map Z.of_nat (seq 0 256).

Lemma in_codes256 c : 0 <= c < 256 -> In c codes256.
Proof.
  intros Hc. unfold codes256. apply in_map_iff. exists (Z.to_nat c). split; [lia|].
  apply in_seq. lia.
Qed.

(* finite sweep, closed by computation: 256 codes x press/release *)
Lemma sweep_sgr :
  forallb (fun c => agrees (model_sgr c false) (xterm_mouse c true false) &&
                    agrees (model_sgr c true) (xterm_mouse c true true)) codes256 = true.
Proof. vm_compute. reflexivity. Qed.

Lemma sweep_x10 :
  forallb (fun c => agrees (model_x10 c) (xterm_mouse c false false)) codes256 = true.
Proof. vm_compute. reflexivity. Qed.

(* both encodings agree wherever both can express the event (press/motion/wheel, codes 0..223) *)
Lemma sweep_x10_sgr_agree :
  forallb (fun c => let a := model_x10 c in let b := model_sgr c false in
                    (mbutton a =? mbutton b) && (maction a =? maction b) && Bool.eqb (mshift a) (mshift b) &&
                    Bool.eqb (malt a) (malt b) && Bool.eqb (mctrl a) (mctrl b) && (mtype a =? mtype b))
          (map Z.of_nat (seq 0 224)) = true.
Proof. vm_compute. reflexivity. Qed.

Lemma model_sgr_mod256 e rel : model_sgr e rel = model_sgr (e mod 256) rel.
Proof. unfold model_sgr. rewrite (parse_mouse_button_mod256 e). reflexivity. Qed.

Lemma model_sgr_spec e rel : 0 <= e -> agrees (model_sgr e rel) (xterm_mouse e true rel) = true.
Proof.
  intros He. rewrite model_sgr_mod256, (xterm_mouse_mod256 e).
  pose proof (Z.mod_pos_bound e 256 ltac:(lia)) as Hb.
  pose proof (proj1 (forallb_forall _ _) sweep_sgr (e mod 256) (in_codes256 _ Hb)) as H.
  apply andb_true_iff in H. destruct H as [H1 H2]. destruct rel; assumption.
Qed.

Lemma model_x10_spec e : 0 <= e < 256 -> agrees (model_x10 e) (xterm_mouse e false false) = true.
Proof.
  intros He. exact (proj1 (forallb_forall _ _) sweep_x10 e (in_codes256 _ He)).
Qed.

(* ------------------------------------------------ decimal numbers *)

Definition dv (acc : Z) (ds : bytes) : Z := fold_left (fun a d => a * 10 + digit_val d) ds acc.

Lemma dv_app acc a b : dv acc (a ++ b) = dv (dv acc a) b.
Proof. unfold dv. apply fold_left_app. Qed.

Lemma digits_fuel_spec fuel : forall n acc, (n < 10 ^ N.of_nat fuel)%N -> (0 < fuel)%nat ->
  exists ds, digits_fuel fuel n acc = ds ++ acc /\ dv 0 ds = Z.of_N n /\
             all_bytes is_digit ds = true /\ ds <> [].
Proof.
  induction fuel as [|f IH]; intros n acc Hn Hf; [lia|].
  cbn [digits_fuel].
  assert (Hd : is_digit (48 + n mod 10) = true).
  { unfold is_digit, in_range. pose proof (N.mod_upper_bound n 10 ltac:(lia)).
    apply andb_true_iff; split; apply N.leb_le; lia. }
  assert (Hv : digit_val (48 + n mod 10) = Z.of_N (n mod 10)) by (unfold digit_val; generalize (n mod 10)%N; intro; lia).
  destruct (N.eqb_spec (n / 10) 0) as [Hz|Hz].
  - exists [(48 + n mod 10)%N]. repeat split.
    + unfold dv. cbn [fold_left]. rewrite Hv.
      pose proof (N.div_mod n 10 ltac:(lia)) as H. rewrite Hz in H. lia.
    + cbn [all_bytes]. rewrite Hd. reflexivity.
    + discriminate.
  - assert (Hf' : (0 < f)%nat).
    { destruct f; [|lia]. cbn in Hn. assert (n / 10 = 0)%N by (apply N.div_small; lia). contradiction. }
    assert (Hn' : (n / 10 < 10 ^ N.of_nat f)%N).
    { apply N.div_lt_upper_bound; [lia|].
      replace (N.of_nat (S f)) with (N.succ (N.of_nat f)) in Hn by lia.
      rewrite N.pow_succ_r' in Hn. exact Hn. }
    destruct (IH (n / 10)%N ((48 + n mod 10)%N :: acc) Hn' Hf') as (ds & E & V & D & NE).
    exists (ds ++ [(48 + n mod 10)%N]). repeat split.
    + rewrite E, <- app_assoc. reflexivity.
    + rewrite dv_app, V. unfold dv. cbn [fold_left]. rewrite Hv.
      pose proof (N.div_mod n 10 ltac:(lia)) as H. lia.
    + clear - D Hd. induction ds as [|x ds IHd]; cbn [all_bytes app] in *; [rewrite Hd; reflexivity|].
      apply andb_true_iff in D. destruct D as [Dx Dr]. rewrite Dx. cbn [andb]. apply IHd. exact Dr.
    + destruct ds; discriminate.
Qed.

Lemma pow2_le_pow10 k : (2 ^ k <= 10 ^ k)%N.
Proof. apply N.pow_le_mono_l. lia. Qed.

Lemma itoa_spec n : 0 <= n ->
  exists ds, itoa n = ds /\ digits_value ds = n /\ all_bytes is_digit ds = true /\ ds <> [].
Proof.
  intros Hn. unfold itoa.
  set (m := Z.to_N n).
  assert (Hm : (m < 10 ^ N.of_nat (S (N.to_nat (N.log2 m))))%N).
  { destruct (N.eqb_spec m 0) as [->|Hz]; [cbn; lia|].
    pose proof (N.log2_spec m ltac:(lia)) as [_ Hl].
    eapply N.lt_le_trans; [exact Hl|].
    replace (N.of_nat (S (N.to_nat (N.log2 m)))) with (N.succ (N.log2 m)) by lia.
    apply pow2_le_pow10. }
  destruct (digits_fuel_spec _ m [] Hm ltac:(lia)) as (ds & E & V & D & NE).
  exists ds. rewrite app_nil_r in E. repeat split; auto.
  unfold digits_value. change (dv 0 ds = n). rewrite V. unfold m. lia.
Qed.

Lemma atoi_itoa n : 0 <= n < 2 ^ 63 -> atoi_sat (itoa n) = n.
Proof.
  intros Hn. destruct (itoa_spec n ltac:(lia)) as (ds & E & V & _ & _).
  unfold atoi_sat. rewrite E, V. unfold max_int. lia.
Qed.

Lemma atoi_itoa_sat n : 2 ^ 63 <= n -> atoi_sat (itoa n) = 2 ^ 63 - 1.
Proof.
  intros Hn. destruct (itoa_spec n ltac:(lia)) as (ds & E & V & _ & _).
  unfold atoi_sat. rewrite E, V. unfold max_int. lia.
Qed.

(* ------------------------------------------------ the SGR scanner *)

Lemma span_digits ds b r : all_bytes is_digit ds = true -> is_digit b = false ->
  span is_digit (ds ++ b :: r) = (ds, b :: r).
Proof.
  intros D Hb. induction ds as [|x ds IH]; cbn in *.
  - rewrite Hb. reflexivity.
  - apply andb_true_iff in D. destruct D as [Dx Dr]. rewrite Dx, (IH Dr). reflexivity.
Qed.

Lemma match_sgr_encoded c x y (f : N) rest :
  0 <= c -> 0 <= x -> 0 <= y -> (f = 77 \/ f = 109)%N ->
  match_sgr (itoa c ++ [59%N] ++ itoa x ++ [59%N] ++ itoa y ++ [f] ++ rest) =
  Some (itoa c, itoa x, itoa y, f, (length (itoa c) + 1 + length (itoa x) + 1 + length (itoa y) + 1)%nat).
Proof.
  intros Hc Hx Hy Hf.
  destruct (itoa_spec c Hc) as (d1 & E1 & _ & D1 & N1).
  destruct (itoa_spec x Hx) as (d2 & E2 & _ & D2 & N2).
  destruct (itoa_spec y Hy) as (d3 & E3 & _ & D3 & N3).
  rewrite E1, E2, E3. unfold match_sgr. cbn [app].
  rewrite (span_digits d1 59%N) by (auto; reflexivity).
  destruct d1 as [|a1 d1']; [congruence|].
  rewrite (span_digits d2 59%N) by (auto; reflexivity).
  destruct d2 as [|a2 d2']; [congruence|].
  assert (Hfd : is_digit f = false) by (destruct Hf; subst; reflexivity).
  rewrite (span_digits d3 f) by auto.
  destruct d3 as [|a3 d3']; [congruence|].
  assert (Hfe : ((f =? 77) || (f =? 109))%N = true) by (destruct Hf; subst; reflexivity).
  rewrite Hfe. reflexivity.
Qed.

(* ------------------------------------------------ detect_one_msg on mouse reports *)

Lemma len_ge_spec l : forall n, len_ge l n = Nat.leb n (length l).
Proof.
  induction l as [|x l IH]; intros [|n]; cbn; auto.
Qed.

Lemma agrees_fields m s : agrees m s = true ->
  mbutton m = s_button s /\ maction m = s_action s /\ mshift m = s_shift s /\
  malt m = s_alt s /\ mctrl m = s_ctrl s.
Proof.
  unfold agrees. intros H.
  repeat (apply andb_true_iff in H; destruct H as [H ?]).
  repeat split; try (apply Z.eqb_eq; assumption); apply eqb_prop; assumption.
Qed.

Lemma msg_proj_mouse m s x y : agrees m s = true ->
  msg_proj (mouse_msg m x y) = msg_proj (mouse_msg_of s x y).
Proof.
  intros H. destruct (agrees_fields m s H) as (B & A & S & L & Ct).
  unfold mouse_msg, mouse_msg_of, msg_proj. rewrite B, A, S, L, Ct. reflexivity.
Qed.

Lemma parse_sgr_model d1 d2 d3 f :
  parse_sgr d1 d2 d3 f = mouse_msg (model_sgr (atoi_sat d1) (f =? 109)%N) (atoi_sat d2 - 1) (atoi_sat d3 - 1).
Proof. reflexivity. Qed.

Definition sgr_final (rel : bool) : N := if rel then 109%N else 77%N.

Lemma encode_sgr c x y rel :
  encode (EMouseSGR c x y rel) = [27; 91; 60]%N ++ itoa c ++ [59%N] ++ itoa x ++ [59%N] ++ itoa y ++ [sgr_final rel].
Proof. reflexivity. Qed.

Theorem detect_sgr c x y rel rest :
  0 <= c < 2 ^ 63 -> 1 <= x < 2 ^ 63 -> 1 <= y < 2 ^ 63 ->
  exists m, detect_one_msg (encode (EMouseSGR c x y rel) ++ rest) false
            = DMsg (length (encode (EMouseSGR c x y rel))) m
         /\ msg_proj m = msg_proj (expect (EMouseSGR c x y rel)).
Proof.
  intros Hc Hx Hy.
  assert (Hf : (sgr_final rel = 77 \/ sgr_final rel = 109)%N) by (destruct rel; auto).
  pose proof (match_sgr_encoded c x y (sgr_final rel) rest ltac:(lia) ltac:(lia) ltac:(lia) Hf) as HM.
  exists (parse_sgr (itoa c) (itoa x) (itoa y) (sgr_final rel)).
  split.
  - rewrite encode_sgr.
    set (body := itoa c ++ [59%N] ++ itoa x ++ [59%N] ++ itoa y ++ [sgr_final rel] ++ rest) in *.
    assert (Eb : ([27; 91; 60]%N ++ itoa c ++ [59%N] ++ itoa x ++ [59%N] ++ itoa y ++ [sgr_final rel]) ++ rest
                 = 27%N :: 91%N :: 60%N :: body).
    { unfold body. cbn [app]. repeat (rewrite <- app_assoc; cbn [app]). reflexivity. }
    rewrite Eb. unfold detect_one_msg. cbn [andb].
    unfold detect_mouse.
    assert (Hlen : (3 <= length body)%nat).
    { unfold body. rewrite !app_length. cbn [length]. lia. }
    rewrite len_ge_spec.
    assert (Hx10 : x10_len = 6%nat) by reflexivity. rewrite Hx10.
    cbn [length].
    replace (Nat.leb 6 (S (S (S (length body))))) with true by (symmetry; apply Nat.leb_le; lia).
    change (((27 =? 27) && (91 =? 91))%N) with true. change ((60 =? 77)%N) with false.
    change ((60 =? 60)%N) with true. cbv iota.
    rewrite HM. f_equal.
    rewrite !app_length. cbn [length]. lia.
  - rewrite parse_sgr_model.
    rewrite (atoi_itoa c Hc), (atoi_itoa x ltac:(lia)), (atoi_itoa y ltac:(lia)).
    cbn [expect].
    replace ((sgr_final rel =? 109)%N) with rel by (destruct rel; reflexivity).
    apply msg_proj_mouse. apply model_sgr_spec. lia.
Qed.

(* coordinates beyond the int range saturate (strconv.Atoi's error is ignored) *)
Lemma sgr_saturates x : 2 ^ 63 <= x -> atoi_sat (itoa x) - 1 = 2 ^ 63 - 2.
Proof. intros H. rewrite (atoi_itoa_sat x H). lia. Qed.

Theorem detect_x10 c x y rest :
  0 <= c <= 223 -> 1 <= x <= 223 -> 1 <= y <= 223 ->
  exists m, detect_one_msg (encode (EMouseX10 c x y) ++ rest) false = DMsg 6 m
         /\ length (encode (EMouseX10 c x y)) = 6%nat
         /\ msg_proj m = msg_proj (expect (EMouseX10 c x y)).
Proof.
  intros Hc Hx Hy.
  exists (parse_x10 (Z.to_N (c + 32)) (Z.to_N (x + 32)) (Z.to_N (y + 32))).
  split; [|split; [reflexivity|]].
  - cbn [encode app]. unfold detect_one_msg. cbn [andb]. unfold detect_mouse.
    rewrite len_ge_spec. cbn [length].
    replace (Nat.leb x10_len (S (S (S (S (S (S (length rest)))))))) with true
      by (symmetry; apply Nat.leb_le; change x10_len with 6%nat; lia).
    change (((27 =? 27) && (91 =? 91))%N) with true. change ((77 =? 77)%N) with true.
    reflexivity.
  - unfold parse_x10. cbn [expect].
    rewrite !Z2N.id by lia.
    replace (x + 32 - Consts.c_x10MouseByteOffset - 1) with (x - 1) by (change Consts.c_x10MouseByteOffset with 32; lia).
    replace (y + 32 - Consts.c_x10MouseByteOffset - 1) with (y - 1) by (change Consts.c_x10MouseByteOffset with 32; lia).
    apply msg_proj_mouse. change (parse_mouse_button (c + 32) false) with (model_x10 c).
    apply model_x10_spec. lia.
Qed.
