(* C09: detectOneMsg always makes progress within the buffer, never panics;
   readAnsiInputs accounts for every byte exactly once. *)
From Coq Require Import NArith ZArith List Bool Lia Arith.
Import ListNotations.
From BT Require Import Base.Bytes Model.Utf8 Model.Keys Model.Mouse Model.Decoder Model.Reader
  Proof.BytesLemmas Proof.DecoderTies.
From BTGen Require Consts.
Open Scope N_scope.

Lemma len_ge_iff l : forall n, len_ge l n = true <-> (n <= length l)%nat.
Proof.
  induction l as [|x l IH]; intros [|n]; cbn; split; intros H; auto; try lia; try discriminate.
  - apply IH in H. lia.
  - apply IH. lia.
Qed.

Lemma len_ge_false l n : len_ge l n = false <-> (length l < n)%nat.
Proof.
  split; intros H.
  - destruct (Nat.le_gt_cases n (length l)) as [Hle|Hgt]; [|exact Hgt].
    apply len_ge_iff in Hle. congruence.
  - destruct (len_ge l n) eqn:E; [|reflexivity]. apply len_ge_iff in E. lia.
Qed.

(* ---------------------------------------------------------------- mouse *)

Lemma match_sgr_len s d1 d2 d3 f n :
  match_sgr s = Some (d1, d2, d3, f, n) -> (6 <= n <= length s)%nat.
Proof.
  unfold match_sgr. intros H.
  destruct (span is_digit s) as [a1 r1] eqn:E1.
  destruct a1 as [|x1 a1]; [discriminate|].
  destruct r1 as [|c1 r1]; [discriminate|].
  destruct (c1 =? 59); [|discriminate].
  destruct (span is_digit r1) as [a2 r2] eqn:E2.
  destruct a2 as [|x2 a2]; [discriminate|].
  destruct r2 as [|c2 r2]; [discriminate|].
  destruct (c2 =? 59); [|discriminate].
  destruct (span is_digit r2) as [a3 r3] eqn:E3.
  destruct a3 as [|x3 a3]; [discriminate|].
  destruct r3 as [|c3 r3]; [discriminate|].
  destruct ((c3 =? 77) || (c3 =? 109)); [|discriminate].
  inversion H; subst.
  apply span_app in E1. apply span_app in E2. apply span_app in E3.
  destruct E1 as [-> _]. destruct E2 as [-> _]. destruct E3 as [-> _].
  repeat (rewrite ?app_length; cbn [length]). lia.
Qed.

Lemma detect_mouse_width b w m : detect_mouse b = Some (w, m) -> (1 <= w <= length b)%nat.
Proof.
  unfold detect_mouse. destruct (len_ge b x10_len) eqn:L; [|discriminate].
  apply len_ge_iff in L. change x10_len with 6%nat in *.
  intros H.
  destruct b as [|b0 [|b1 [|b2 r]]]; try discriminate.
  destruct ((b0 =? 27) && (b1 =? 91)); [|discriminate].
  destruct (b2 =? 77).
  - destruct r as [|cb [|cx [|cy r]]]; try discriminate. inversion H; subst. cbn [length] in *. lia.
  - destruct (b2 =? 60); [|discriminate].
    destruct (match_sgr r) as [[[[[d1 d2] d3] f] n]|] eqn:E; [|discriminate].
    inversion H; subst. apply match_sgr_len in E. cbn [length]. lia.
Qed.

(* ---------------------------------------------------------------- focus *)

Lemma detect_focus_width b w m : detect_focus b = Some (w, m) -> w = 3%nat /\ length b = 3%nat.
Proof.
  unfold detect_focus. intros H.
  destruct (bytes_eqb b focus_in) eqn:E1.
  - apply bytes_eqb_eq in E1. inversion H; subst. split; reflexivity.
  - destruct (bytes_eqb b focus_out) eqn:E2; [|discriminate].
    apply bytes_eqb_eq in E2. inversion H; subst. split; reflexivity.
Qed.

(* ---------------------------------------------------------------- paste *)

Definition paste_open (b : bytes) : Prop :=
  is_prefix bp_start b = true /\ index_of bp_end (skipn (length bp_start) b) = None.

Lemma detect_paste_width b :
  match detect_paste b with
  | PMsg w _ => (1 <= w <= length b)%nat
  | PMore => paste_open b
  | PNone => True
  end.
Proof.
  unfold detect_paste. destruct (is_prefix bp_start b) eqn:P; [|exact I].
  destruct (index_of bp_end (skipn (length bp_start) b)) as [idx|] eqn:E.
  - apply index_of_some in E. destruct E as (pre & post & Hs & Hl).
    pose proof (is_prefix_skipn _ _ P) as Hb.
    assert (Hlen : length b = (length bp_start + (idx + length bp_end + length post))%nat).
    { rewrite Hb at 1. rewrite app_length, Hs, !app_length. lia. }
    change (length bp_start) with 6%nat in *. change (length bp_end) with 6%nat in *. lia.
  - split; assumption.
Qed.

(* ---------------------------------------------------------------- sequences *)

Lemma detect_from_width input : forall sz w m, detect_from sz input = Some (w, m) ->
  (1 <= w <= length input)%nat /\ (w <= sz)%nat.
Proof.
  induction sz as [|k IH]; intros w m H; cbn [detect_from] in H; [discriminate|].
  destruct (len_ge input (S k)) eqn:L.
  - destruct (assoc_bytes (firstn (S k) input) ext_sequences) as [m'|] eqn:A.
    + inversion H; subst. apply len_ge_iff in L. lia.
    + destruct (IH w m H). lia.
  - destruct (IH w m H). lia.
Qed.

Lemma unknown_csi_width b n : unknown_csi b = Some n -> (3 <= n <= length b)%nat.
Proof.
  unfold unknown_csi. intros H.
  destruct b as [|b0 [|b1 r]]; try discriminate.
  destruct ((b0 =? 27) && (b1 =? 91)); [|discriminate].
  destruct (span is_param r) as [ps r1] eqn:E1.
  destruct (span is_inter r1) as [is r2] eqn:E2.
  destruct r2 as [|f r2]; [discriminate|].
  destruct (is_final f); [|discriminate]. inversion H; subst.
  apply span_app in E1. apply span_app in E2. destruct E1 as [-> _]. destruct E2 as [-> _].
  cbn [length]. rewrite !app_length. cbn [length]. lia.
Qed.

Lemma detect_sequence_width b w m : detect_sequence b = Some (w, m) -> (1 <= w <= length b)%nat.
Proof.
  unfold detect_sequence. intros H.
  destruct (detect_from max_seq_len b) as [[w' m']|] eqn:E.
  - inversion H; subst. apply detect_from_width in E. lia.
  - destruct (unknown_csi b) as [n|] eqn:U; [|discriminate]. inversion H; subst.
    apply unknown_csi_width in U. lia.
Qed.

(* ---------------------------------------------------------------- runes *)

Lemma rune_run_width alt : forall fuel s rs n, rune_run fuel alt s = (rs, n) ->
  (n <= length s)%nat /\ (rs <> [] -> 1 <= n)%nat.
Proof.
  induction fuel as [|f IH]; intros s rs n H; cbn [rune_run] in H.
  - inversion H; subst. split; [lia|congruence].
  - destruct s as [|x t]; [inversion H; subst; split; [cbn; lia|congruence]|].
    destruct (decode_rune (x :: t)) as [r w] eqn:D.
    pose proof (decode_rune_width (x :: t) r w ltac:(discriminate) D) as [Hw _].
    destruct (stops_run r w); [inversion H; subst; split; [lia|congruence]|].
    destruct alt.
    + inversion H; subst. split; [lia|intros _; lia].
    + destruct (rune_run f false (skipn w (x :: t))) as [rs' n'] eqn:R.
      inversion H; subst. destruct (IH _ _ _ R) as [Hn _].
      rewrite skipn_length in Hn. split; [lia|intros _; lia].
Qed.

Lemma detect_tail_width b more : b <> [] ->
  match detect_tail b more with
  | DMsg w _ => (1 <= w <= length b)%nat
  | DMore => more = true
  | DPanic => False
  end.
Proof.
  intros Hb. unfold detect_tail. destruct b as [|b0 r]; [congruence|].
  set (alt := (b0 =? ESC)).
  set (i := if alt then 1%nat else 0%nat).
  assert (Hi : (i <= 1)%nat) by (unfold i; destruct alt; lia).
  set (s := skipn i (b0 :: r)).
  assert (Hs : (length s + i = length (b0 :: r))%nat).
  { unfold s. rewrite skipn_length. cbn [length]. lia. }
  destruct (match s with s0 :: _ => s0 =? 0 | [] => false end) eqn:Z.
  - destruct s as [|s0 s']; [discriminate|]. cbn [length] in *. lia.
  - destruct (rune_run (length s) alt s) as [runes n] eqn:R.
    destruct (rune_run_width alt _ _ _ _ R) as [Hn Hne].
    cbv zeta.
    destruct (more && negb (full_rune (skipn (i + n) (b0 :: r)))) eqn:M.
    + apply andb_true_iff in M. tauto.
    + destruct runes as [|r0 rs].
      * destruct (alt && negb (len_ge (b0 :: r) 2)); cbn [length]; lia.
      * specialize (Hne ltac:(discriminate)). cbn [length] in *. lia.
Qed.

(* ---------------------------------------------------------------- detect_one_msg *)

Theorem detect_width b more : b <> [] ->
  match detect_one_msg b more with
  | DMsg w _ => (1 <= w <= length b)%nat
  | DMore => more = true \/ paste_open b
  | DPanic => False
  end.
Proof.
  intros Hb. unfold detect_one_msg. destruct b as [|b0 r] eqn:Eb; [congruence|]. rewrite <- Eb in *.
  destruct (more && may_be_incomplete b) eqn:M.
  { apply andb_true_iff in M. left. tauto. }
  destruct (detect_mouse b) as [[w m]|] eqn:Dm.
  { apply detect_mouse_width in Dm. exact Dm. }
  destruct (detect_focus b) as [[w m]|] eqn:Df.
  { apply detect_focus_width in Df. lia. }
  pose proof (detect_paste_width b) as Hp.
  destruct (detect_paste b) as [| |w m].
  - destruct (detect_sequence b) as [[w m]|] eqn:Ds.
    + apply detect_sequence_width in Ds. exact Ds.
    + pose proof (detect_tail_width b more Hb) as Ht.
      destruct (detect_tail b more); auto.
  - right. exact Hp.
  - exact Hp.
Qed.

(* on a short read nothing but an unterminated paste is ever held back *)
Corollary detect_short_read_flushes b : b <> [] ->
  detect_one_msg b false = DMore -> paste_open b.
Proof.
  intros Hb H. pose proof (detect_width b false Hb) as W. rewrite H in W.
  destruct W as [W|W]; [discriminate|exact W].
Qed.

(* ================================================================ the reader *)

Fixpoint script_bytes (s : list chunk) : bytes :=
  match s with
  | Chunk bs :: t => bs ++ script_bytes t
  | ChunkErr bs :: _ => bs          (* bytes that came together with the error: the last ones *)
  | _ => []
  end.

Definition runs (o : list (msg * bytes)) : bytes := concat (map snd o).
Definition all_nonempty (o : list (msg * bytes)) : Prop := Forall (fun mc => snd mc <> []) o.

Lemma firstn_nonempty {A} (l : list A) w : (1 <= w)%nat -> l <> [] -> firstn w l <> [].
Proof. intros Hw Hl. destruct w; [lia|]. destruct l; [congruence|]. cbn. discriminate. Qed.

(* One pass over a buffer: every message accounts for a non-empty run, runs are
   adjacent and in order and add up to the consumed part; what is left is
   non-empty and is held for a stated reason; no panic, the fuel suffices. *)
Lemma inner_account more cancel : forall fuel b sent, (length b <= fuel)%nat ->
  match inner fuel b more sent cancel with
  | IDone o s => runs o = b /\ all_nonempty o /\ s = (sent + length o)%nat
  | ILeft o s r => runs o ++ r = b /\ all_nonempty o /\ r <> [] /\ s = (sent + length o)%nat /\
                   (more = true \/ paste_open r)
  | ICancel o => (exists rest, runs o ++ rest = b) /\ all_nonempty o /\
                 cancelled_at cancel (sent + length o) = true
  | IPanic _ => False
  | IFuel => False
  end.
Proof.
  induction fuel as [|f IH]; intros b sent Hlen.
  - destruct b; [|cbn in Hlen; lia]. cbn. repeat split; auto. constructor.
  - destruct b as [|b0 r] eqn:Eb.
    { cbn. repeat split; auto. constructor. }
    rewrite <- Eb in *. assert (Hne : b <> []) by (subst; discriminate).
    assert (E : inner (S f) b more sent cancel =
                match detect_one_msg b more with
                | DPanic => IPanic []
                | DMore => ILeft [] sent b
                | DMsg O _ => ILeft [] sent b
                | DMsg w m =>
                  if cancelled_at cancel sent then ICancel []
                  else match inner f (skipn w b) more (S sent) cancel with
                       | IDone o s => IDone ((m, firstn w b) :: o) s
                       | ILeft o s r => ILeft ((m, firstn w b) :: o) s r
                       | ICancel o => ICancel ((m, firstn w b) :: o)
                       | IPanic o => IPanic ((m, firstn w b) :: o)
                       | IFuel => IFuel
                       end
                end) by (subst b; reflexivity).
    rewrite E. clear E.
    pose proof (detect_width b more Hne) as W.
    destruct (detect_one_msg b more) as [w m| |].
    + destruct w as [|w']; [lia|].
      destruct (cancelled_at cancel sent) eqn:Ca.
      * repeat split; [exists b; reflexivity|constructor|rewrite Nat.add_0_r; exact Ca].
      * assert (Hl' : (length (skipn (S w') b) <= f)%nat) by (rewrite skipn_length; lia).
        specialize (IH (skipn (S w') b) (S sent) Hl').
        assert (Hfn : firstn (S w') b <> []) by (apply firstn_nonempty; [lia|exact Hne]).
        destruct (inner f (skipn (S w') b) more (S sent) cancel) as [o s|o s r'|o|o|].
        -- destruct IH as (R & N & S'). unfold runs in *. cbn [map concat snd].
           rewrite R, firstn_skipn. repeat split; auto. constructor; auto. cbn [length]. lia.
        -- destruct IH as (R & N & Hr & S' & Hh). unfold runs in *. cbn [map concat snd].
           rewrite <- app_assoc, R, firstn_skipn. repeat split; auto. constructor; auto. cbn [length]. lia.
        -- destruct IH as ((rest & R) & N & Cc). unfold runs in *. cbn [map concat snd].
           repeat split.
           ++ exists rest. rewrite <- app_assoc, R, firstn_skipn. reflexivity.
           ++ constructor; auto.
           ++ cbn [length]. replace (sent + S (length o))%nat with (S sent + length o)%nat by lia. exact Cc.
        -- exact IH.
        -- exact IH.
    + cbn. repeat split; auto; try constructor; try lia.
    + exact W.
Qed.

Record reader_ok (input : bytes) (r : rd_result) : Prop := {
  ok_no_panic : rd_why r <> StopPanic;
  ok_no_fuel : rd_why r <> StopFuel;
  ok_nonempty : all_nonempty (rd_out r);
  ok_account : match rd_why r with
               | StopCancelled => exists rest, runs (rd_out r) ++ rest = input
               | _ => runs (rd_out r) ++ rd_left r = input
               end
}.

Lemma runs_app a b : runs (a ++ b) = runs a ++ runs b.
Proof. unfold runs. rewrite map_app, concat_app. reflexivity. Qed.

Lemma all_nonempty_app a b : all_nonempty a -> all_nonempty b -> all_nonempty (a ++ b).
Proof. unfold all_nonempty. intros. apply Forall_app. split; assumption. Qed.

(* the end of the input: what was held back and what came with the error is decoded as it stands *)
Lemma read_end_account cancel left bs sent : reader_ok (left ++ bs) (read_end left bs sent cancel).
Proof.
  unfold read_end.
  pose proof (inner_account false cancel (length (left ++ bs)) (left ++ bs) sent (le_n _)) as A.
  destruct (inner (length (left ++ bs)) (left ++ bs) false sent cancel) as [o s|o s r|o|o|].
  - destruct A as (R & N & _). constructor; cbn [rd_why rd_out rd_left]; try discriminate; auto.
    rewrite app_nil_r. exact R.
  - destruct A as (R & N & _ & _ & _). constructor; cbn [rd_why rd_out rd_left]; try discriminate; auto.
  - destruct A as ((rest & R) & N & _).
    constructor; cbn [rd_why rd_out rd_left]; try discriminate; auto.
    exists rest. exact R.
  - contradiction.
  - contradiction.
Qed.

(* ... and nothing stays held back unless a paste is still open *)
Lemma read_end_nothing_held cancel left bs sent :
  rd_why (read_end left bs sent cancel) = StopErr ->
  rd_left (read_end left bs sent cancel) = [] \/ paste_open (rd_left (read_end left bs sent cancel)).
Proof.
  unfold read_end.
  pose proof (inner_account false cancel (length (left ++ bs)) (left ++ bs) sent (le_n _)) as A.
  destruct (inner (length (left ++ bs)) (left ++ bs) false sent cancel) as [o s|o s r|o|o|]; cbn [rd_why rd_left]; intros H; try discriminate H.
  - left. reflexivity.
  - right. destruct A as (_ & _ & _ & _ & [Hm|Hp]); [discriminate Hm|exact Hp].
Qed.

(* readAnsiInputs: whatever the script of reads, whatever is left over from
   before, the messages account for the input bytes exactly once, in order. *)
Theorem reader_from_account cancel : forall script left sent,
  reader_ok (left ++ script_bytes script) (reader_from script left sent cancel).
Proof.
  induction script as [|c script IH]; intros left sent.
  - cbn. constructor; cbn; try discriminate; [constructor|]. rewrite app_nil_r. reflexivity.
  - destruct c as [bs| |bs].
    + cbn [reader_from script_bytes].
      pose proof (inner_account (Nat.eqb (length bs) buf_size) cancel (length (left ++ bs)) (left ++ bs) sent (le_n _)) as A.
      destruct (inner (length (left ++ bs)) (left ++ bs) (Nat.eqb (length bs) buf_size) sent cancel) as [o s|o s r|o|o|].
      * destruct A as (R & N & _). specialize (IH [] s). destruct IH as [P F NE AC].
        constructor; cbn [rd_why rd_out rd_left]; auto.
        -- apply all_nonempty_app; assumption.
        -- rewrite runs_app. cbn [app] in AC.
           destruct (rd_why (reader_from script [] s cancel)).
           ++ rewrite <- app_assoc, AC, app_assoc, R. reflexivity.
           ++ destruct AC as [rest AC]. exists rest. rewrite <- app_assoc, AC, app_assoc, R. reflexivity.
           ++ rewrite <- app_assoc, AC, app_assoc, R. reflexivity.
           ++ rewrite <- app_assoc, AC, app_assoc, R. reflexivity.
           ++ rewrite <- app_assoc, AC, app_assoc, R. reflexivity.
      * destruct A as (R & N & _ & _ & _). specialize (IH r s). destruct IH as [P F NE AC].
        constructor; cbn [rd_why rd_out rd_left]; auto.
        -- apply all_nonempty_app; assumption.
        -- rewrite runs_app.
           destruct (rd_why (reader_from script r s cancel)).
           ++ rewrite <- app_assoc, AC, !app_assoc, R. reflexivity.
           ++ destruct AC as [rest AC]. exists rest. rewrite <- app_assoc, AC, !app_assoc, R. reflexivity.
           ++ rewrite <- app_assoc, AC, !app_assoc, R. reflexivity.
           ++ rewrite <- app_assoc, AC, !app_assoc, R. reflexivity.
           ++ rewrite <- app_assoc, AC, !app_assoc, R. reflexivity.
      * destruct A as ((rest & R) & N & _).
        constructor; cbn [rd_why rd_out rd_left]; try discriminate; auto.
        exists (rest ++ script_bytes script). rewrite app_assoc, R, <- app_assoc. reflexivity.
      * contradiction.
      * contradiction.
    + cbn [reader_from script_bytes]. exact (read_end_account cancel left [] sent).
    + cbn [reader_from script_bytes]. exact (read_end_account cancel left bs sent).
Qed.

Corollary reader_account script cancel : reader_ok (script_bytes script) (reader script cancel).
Proof. exact (reader_from_account cancel script [] 0%nat). Qed.

(* whatever is carried to the next read is held for a reason: the last read
   filled the buffer, or a paste is open *)
Corollary inner_held fuel b more sent cancel o s r : (length b <= fuel)%nat ->
  inner fuel b more sent cancel = ILeft o s r -> r <> [] /\ (more = true \/ paste_open r).
Proof.
  intros Hl E. pose proof (inner_account more cancel fuel b sent Hl) as A. rewrite E in A. tauto.
Qed.

(* cancellation: once k messages have been delivered and the context is
   cancelled, no further message is delivered *)
Lemma inner_cancel_bound k more : forall fuel b sent, (sent <= k)%nat ->
  match inner fuel b more sent (Some k) with
  | IDone o s | ILeft o s _ => (s <= k)%nat /\ s = (sent + length o)%nat
  | ICancel o | IPanic o => (sent + length o <= k)%nat
  | IFuel => True
  end.
Proof.
  induction fuel as [|f IH]; intros b sent Hs.
  - destruct b; cbn; auto; split; lia.
  - destruct b as [|b0 r]; [cbn; split; lia|]. cbn [inner].
    destruct (detect_one_msg (b0 :: r) more) as [w m| |].
    + destruct w as [|w]; [cbn; split; lia|].
      destruct (cancelled_at (Some k) sent) eqn:Ca; [cbn; lia|].
      cbn in Ca. apply Nat.leb_gt in Ca.
      specialize (IH (skipn (S w) (b0 :: r)) (S sent) ltac:(lia)).
      destruct (inner f (skipn (S w) (b0 :: r)) more (S sent) (Some k)); auto; cbn [length]; try lia.
    + cbn; split; lia.
    + cbn. lia.
Qed.

Theorem reader_cancel_bound k : forall script left sent, (sent <= k)%nat ->
  (sent + length (rd_out (reader_from script left sent (Some k))) <= k)%nat.
Proof.
  induction script as [|c script IH]; intros left sent Hs; [cbn; lia|].
  assert (RE : forall bs, (sent + length (rd_out (read_end left bs sent (Some k))) <= k)%nat).
  { intros bs. unfold read_end.
    pose proof (inner_cancel_bound k false (length (left ++ bs)) (left ++ bs) sent Hs) as B.
    destruct (inner (length (left ++ bs)) (left ++ bs) false sent (Some k)) as [o s|o s r|o|o|];
      cbn [rd_out]; try (destruct B as [B1 B2]); try lia; cbn [length]; lia. }
  destruct c as [bs| |bs]; [|cbn [reader_from]; apply RE|cbn [reader_from]; apply RE].
  cbn [reader_from].
  pose proof (inner_cancel_bound k (Nat.eqb (length bs) buf_size) (length (left ++ bs)) (left ++ bs) sent Hs) as B.
  destruct (inner (length (left ++ bs)) (left ++ bs) (Nat.eqb (length bs) buf_size) sent (Some k)) as [o s|o s r|o|o|];
    cbn [rd_out]; try rewrite app_length.
  - destruct B as [B1 B2]. specialize (IH [] s B1). lia.
  - destruct B as [B1 B2]. specialize (IH r s B1). lia.
  - lia.
  - cbn [length]. lia.
  - cbn [length]. lia.
Qed.

(* a read error ends the reader at once, whatever follows in the script - after what was held back, and the bytes that
   came together with the error, have been decoded as they stand *)
Lemma reader_stops_on_error left sent cancel rest :
  reader_from (ReadErr :: rest) left sent cancel = read_end left [] sent cancel.
Proof. reflexivity. Qed.

Lemma reader_data_with_error bs rest left sent cancel :
  reader_from (ChunkErr bs :: rest) left sent cancel = read_end left bs sent cancel.
Proof. reflexivity. Qed.
