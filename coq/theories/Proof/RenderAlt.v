(* The alt-screen coupling invariant and its preservation by flush.
   The alt buffer is a tape of exactly h rows (window top = 0).  After a
   resize the renderer's altLinesRendered can be STALE (even larger than the
   new height) while the cache is invalid; what stays true is that every row
   from that index on is blank. *)
From Coq Require Import NArith List Bool Arith Lia.
Import ListNotations.
From BT Require Import Base.Bytes Model.VT Model.Renderer Spec.Screen Proof.BytesLemmas Proof.VTLemmas
  Proof.FlushProofs Proof.FlushSync Proof.RendererBasics Proof.RenderShows Proof.RenderInline.
Open Scope nat_scope.

Record sync_alt (w h : nat) (r : rstate) (b : buffer) : Prop := {
  sa_w : 0 < w; sa_h : 0 < h;
  sa_rw : r_width r = w; sa_rh : r_height r = h;
  sa_alt : r_alt r = true;
  sa_len : length (tape b) = h;
  sa_rows : rows_w w (tape b);
  sa_crow : crow (cur b) < h;                                      (* the cursor is somewhere inside the window *)
  sa_blank : all_blank w (skipn (r_altLinesRendered r) (tape b));  (* holds for a stale count too *)
  sa_cache : r_lastRender r <> [] ->
     1 <= r_altLinesRendered r <= h /\
     firstn (r_altLinesRendered r) (tape b) = map (paint_row w) (r_lastLines r) /\
     cur b = {| crow := r_altLinesRendered r - 1; ccol := 0; cpend := false |};
  sa_nocache : r_lastRender r = [] -> r_lastLines r = []
}.

(* ------------------------------------------------------------ THome, TCUP *)

Lemma buf_home w h b : buf_apply w h b THome = mk (tape b) (top h b) 0 false.
Proof. reflexivity. Qed.

(* ESC[n;H lands on row top + n - 1 when 1 <= n <= h, column 0 *)
Lemma buf_cup w h b n : 1 <= n <= h -> buf_apply w h b (TCUP n) = mk (tape b) (top h b + (n - 1)) 0 false.
Proof. intros H. unfold buf_apply. f_equal. lia. Qed.

(* zipper forms: the target row is given by any split of the same tape *)
Lemma bz_home w h pre r post pre' r' post' c p :
  pre ++ r :: post = pre' ++ r' :: post' -> length pre' = length pre + S (length post) - h ->
  buf_apply w h (bz pre r post c p) THome = bz pre' r' post' 0 false.
Proof.
  intros E Hl. rewrite buf_home, top_bz. unfold bz, mk. cbn [tape]. rewrite E, Hl. reflexivity.
Qed.

Lemma bz_cup w h pre r post pre' r' post' c p n : 1 <= n <= h ->
  pre ++ r :: post = pre' ++ r' :: post' -> length pre' = length pre + S (length post) - h + (n - 1) ->
  buf_apply w h (bz pre r post c p) (TCUP n) = bz pre' r' post' 0 false.
Proof.
  intros Hn E Hl. rewrite (buf_cup w h _ n Hn), top_bz. unfold bz, mk. cbn [tape]. rewrite E, Hl. reflexivity.
Qed.

(* ------------------------------------------------------------ flush in the alt screen *)

Definition flush_out_alt (r : rstate) (lines : list bytes) : list tok :=
  [THome] ++ [] ++
  paint_lines true true (match r_lastRender r with [] => true | _ => false end) (r_width r) lines (r_lastLines r) ++
  (if Nat.ltb (length lines) (r_altLinesRendered r) && (Nat.eqb (r_height r) 0 || Nat.ltb (length lines) (r_height r))
   then [TCR; TLF; TEDbelow; cuu 1] else []) ++
  [cup (length lines)].

Definition flush_state_alt (r : rstate) (v : bytes) (lines : list bytes) : rstate :=
  {| r_buf := []; r_queued := r_queued r; r_lastRender := v; r_lastLines := lines;
     r_linesRendered := r_linesRendered r; r_altLinesRendered := length lines;
     r_cursorHidden := r_cursorHidden r; r_alt := true; r_bp := r_bp r; r_focus := r_focus r;
     r_width := r_width r; r_height := r_height r |}.

(* queued lines are NOT flushed in the alt screen: they stay queued *)
Lemma r_flush_alt_eq r v :
  r_buf r = v -> v <> [] -> bytes_eqb v (r_lastRender r) = false -> r_alt r = true ->
  r_flush r = (flush_state_alt r v (frame_lines (r_height r) v), flush_out_alt r (frame_lines (r_height r) v)).
Proof.
  intros Hv Hne Hneq Halt. unfold r_flush, flush_out_alt, flush_state_alt, frame_lines, last_lines_rendered.
  rewrite Hv. destruct v as [|v0 vt]; [congruence|]. rewrite Hneq, Halt. cbn [negb]. rewrite andb_false_r. reflexivity.
Qed.

Lemma all_blank_app w a b : all_blank w a -> all_blank w b -> all_blank w (a ++ b).
Proof. intros. apply Forall_app. split; assumption. Qed.

Theorem flush_alt w h r b v :
  sync_alt w h r b -> r_buf r = v -> v <> [] -> bytes_eqb v (r_lastRender r) = false ->
  exists below',
    buf_run w h b (snd (r_flush r)) =
      mk (map (paint_row w) (frame_lines h v) ++ below') (length (frame_lines h v) - 1) 0 false /\
    all_blank w below' /\ length (frame_lines h v) + length below' = h /\
    fst (r_flush r) = flush_state_alt r v (frame_lines h v) /\
    sync_alt w h (fst (r_flush r)) (buf_run w h b (snd (r_flush r))).
Proof.
  intros S Hv Hne Hneq.
  destruct S as [Hw Hh Hrw Hrh Halt Hlen Hrows Hcrow Hblank Hcache Hnocache].
  rewrite (r_flush_alt_eq r v Hv Hne Hneq Halt). cbn [fst snd].
  unfold flush_out_alt. rewrite Hrw, Hrh.
  set (lines := frame_lines h v).
  pose proof (frame_lines_bounds h v Hh) as [Hn1 Hnh]. fold lines in Hn1, Hnh.
  assert (Hlne : lines <> []) by (destruct lines; [cbn in Hn1; lia|discriminate]).
  set (n := length lines) in *.
  set (A := r_altLinesRendered r) in *.
  set (ce := match r_lastRender r with [] => true | _ => false end).
  destruct b as [tp [cr cc cp]]. cbn [tape cur crow] in *.
  destruct tp as [|u0 urest] eqn:Etp; [cbn in Hlen; lia|]. rewrite <- Etp in *.
  assert (Htl : length tp = h) by exact Hlen.
  (* THome *)
  assert (Hhead : buf_run w h {| tape := tp; cur := {| crow := cr; ccol := cc; cpend := cp |} |} [THome] =
                  bz [] u0 urest 0 false).
  { rewrite buf_run_cons, buf_run_nil, buf_home. unfold top, bz. cbn [tape app length]. rewrite Htl, Nat.sub_diag, Etp. reflexivity. }
  rewrite !buf_run_app. rewrite Hhead. rewrite buf_run_nil.
  (* the paint loop *)
  assert (Hrows' : rows_w w (u0 :: urest)) by (rewrite <- Etp; exact Hrows).
  assert (Hu0 : length u0 = w) by (inversion Hrows'; assumption).
  assert (Hurest : rows_w w urest) by (inversion Hrows'; assumption).
  assert (Hcoh : coherent w true lines (r_lastLines r) (u0 :: urest)).
  { rewrite <- Etp.
    destruct (r_lastRender r) as [|c0 ct] eqn:Elr.
    - rewrite (Hnocache eq_refl). apply coherent_no_last.
    - destruct (Hcache ltac:(discriminate)) as (_ & Hc & _).
      rewrite <- (firstn_skipn A tp), Hc. apply coherent_of_cache. }
  destruct (paint_lines_run w h Hw lines true true ce (r_lastLines r) [] u0 urest Hlne Hu0 Hurest Hcoh) as (c1 & p1 & Hc1 & Ebody).
  rewrite Ebody. clear Ebody. fold n. rewrite <- Etp.
  assert (Hskl : length (skipn n tp) = h - n) by (rewrite skipn_length, Htl; reflexivity).
  assert (Hcup : cup n = TCUP n) by (unfold cup; destruct n; [lia|reflexivity]).
  rewrite Hcup.
  destruct (Nat.ltb n A && (Nat.eqb h 0 || Nat.ltb n h)) eqn:Hcond.
  - (* fewer lines than before and room below: erase the rest of the window *)
    apply andb_true_iff in Hcond. destruct Hcond as [HnA Hnh'].
    apply Nat.ltb_lt in HnA.
    assert (Hnh2 : n < h).
    { apply orb_true_iff in Hnh'. destruct Hnh' as [E|E]; [apply Nat.eqb_eq in E; lia|apply Nat.ltb_lt in E; exact E]. }
    clear Hnh'.
    destruct (skipn n tp) as [|x1 xr] eqn:Esk; [cbn in Hskl; lia|]. cbn [length] in Hskl.
    unfold buf_run. cbn [fold_left].
    rewrite bz_cr, bz_lf_next, bz_edbelow, erase_right_0.
    unfold cuu. cbn [Nat.max].
    rewrite (bz_cuu w h ([] ++ map (paint_row w) (removelast lines)) (paint_row w (List.last lines [])) []
                    (blank_row w) (map (fun _ => blank_row w) xr) 0 false 1 eq_refl).
    2:{ rewrite app_length, !map_length, removelast_length. fold n. cbn [length]. lia. }
    cbn [app].
    change (map (paint_row w) (removelast lines)) with ([] ++ map (paint_row w) (removelast lines)).
    rewrite (bz_painted w [] lines _ 0 false Hlne). fold n. cbn [app length Nat.add].
    set (below' := blank_row w :: map (fun _ => blank_row w) xr).
    assert (Hbl' : all_blank w below') by (constructor; [reflexivity|apply all_blank_map]).
    assert (Hlen' : n + length below' = h) by (unfold below'; cbn [length]; rewrite map_length; lia).
    assert (Efin : buf_apply w h (mk (map (paint_row w) lines ++ below') (n - 1) 0 false) (TCUP n) =
                   mk (map (paint_row w) lines ++ below') (n - 1) 0 false).
    { rewrite (buf_cup w h _ n (conj Hn1 Hnh)). unfold top, mk. cbn [tape]. f_equal.
      rewrite app_length, map_length. fold n. f_equal. lia. }
    rewrite Efin.
    exists below'. split; [reflexivity|]. split; [exact Hbl'|]. split; [exact Hlen'|]. split; [reflexivity|].
    constructor; cbn [flush_state_alt mk tape cur crow r_width r_height r_alt r_altLinesRendered r_lastRender r_lastLines].
    + exact Hw.
    + exact Hh.
    + exact Hrw.
    + exact Hrh.
    + reflexivity.
    + rewrite app_length, map_length. fold n. exact Hlen'.
    + apply rows_w_app; [apply rows_w_map_paint|apply all_blank_rows_w; exact Hbl'].
    + lia.
    + fold n. rewrite skipn_app, skipn_all2 by (rewrite map_length; fold n; lia).
      rewrite map_length. fold n. rewrite Nat.sub_diag. exact Hbl'.
    + intros _. fold n. split; [lia|]. split; [|reflexivity].
      rewrite firstn_app, firstn_all2 by (rewrite map_length; fold n; lia).
      rewrite map_length. fold n. rewrite Nat.sub_diag. cbn [firstn]. apply app_nil_r.
    + intros E. exfalso. exact (Hne E).
  - (* nothing stale below: the rows from n on are blank already *)
    unfold buf_run. cbn [fold_left].
    change (map (paint_row w) (removelast lines)) with ([] ++ map (paint_row w) (removelast lines)).
    rewrite (bz_painted w [] lines _ c1 p1 Hlne). fold n. cbn [app length Nat.add].
    set (below' := skipn n tp).
    assert (Hbl' : all_blank w below').
    { unfold below'. apply andb_false_iff in Hcond. destruct Hcond as [E|E].
      - apply Nat.ltb_ge in E. replace n with (A + (n - A)) by lia. rewrite <- skipn_skipn'.
        apply all_blank_skipn. exact Hblank.
      - apply orb_false_iff in E. destruct E as [_ E]. apply Nat.ltb_ge in E.
        rewrite skipn_all2 by lia. constructor. }
    assert (Hlen' : n + length below' = h) by (unfold below'; lia).
    assert (Efin : buf_apply w h (mk (map (paint_row w) lines ++ below') (n - 1) c1 p1) (TCUP n) =
                   mk (map (paint_row w) lines ++ below') (n - 1) 0 false).
    { rewrite (buf_cup w h _ n (conj Hn1 Hnh)). unfold top, mk. cbn [tape]. f_equal.
      rewrite app_length, map_length. fold n. f_equal. lia. }
    rewrite Efin.
    exists below'. split; [reflexivity|]. split; [exact Hbl'|]. split; [exact Hlen'|]. split; [reflexivity|].
    constructor; cbn [flush_state_alt mk tape cur crow r_width r_height r_alt r_altLinesRendered r_lastRender r_lastLines].
    + exact Hw.
    + exact Hh.
    + exact Hrw.
    + exact Hrh.
    + reflexivity.
    + rewrite app_length, map_length. fold n. exact Hlen'.
    + apply rows_w_app; [apply rows_w_map_paint|apply all_blank_rows_w; exact Hbl'].
    + lia.
    + fold n. rewrite skipn_app, skipn_all2 by (rewrite map_length; fold n; lia).
      rewrite map_length. fold n. rewrite Nat.sub_diag. exact Hbl'.
    + intros _. fold n. split; [lia|]. split; [|reflexivity].
      rewrite firstn_app, firstn_all2 by (rewrite map_length; fold n; lia).
      rewrite map_length. fold n. rewrite Nat.sub_diag. cbn [firstn]. apply app_nil_r.
    + intros E. exfalso. exact (Hne E).
Qed.

(* ------------------------------------------------------------ the Spec check *)

Theorem sync_alt_shows t w h r v :
  vW t = w -> vH t = h -> in_alt t = true -> sync_alt w h r (valt t) ->
  r_lastRender r = norm v -> r_lastLines r = frame_lines h (norm v) ->
  shows_alt t v = true.
Proof.
  intros HW HH Halt S Hlr Hll.
  destruct S as [Hw Hh Hrw Hrh Hral Hlen Hrows Hcrow Hblank Hcache Hnocache].
  destruct (Hcache ltac:(rewrite Hlr; apply norm_nonempty)) as (HA & Hf & Hcur).
  set (A := r_altLinesRendered r) in *.
  unfold shows_alt. rewrite HW, HH, Halt, (paint_frame w h v Hh), <- Hll, <- Hf, Hcur.
  cbn [crow ccol cpend negb Nat.eqb andb].
  assert (Etop : top h (valt t) = 0) by (unfold top; rewrite Hlen; lia).
  rewrite Etop. cbn [skipn Nat.add].
  assert (En : length (firstn A (tape (valt t))) = A) by (rewrite firstn_length; lia).
  rewrite En, Nat.eqb_refl, rows_eqb_refl, (forallb_all_blank _ _ Hblank), Hlen, Nat.eqb_refl. reflexivity.
Qed.

(* flush, then look: the alt screen shows the frame *)
Corollary flush_alt_shows t w h r v0 :
  vW t = w -> vH t = h -> in_alt t = true -> sync_alt w h r (valt t) ->
  r_buf r = norm v0 -> bytes_eqb (norm v0) (r_lastRender r) = false ->
  forall shared, shows_alt (vt_run shared t (snd (r_flush r))) v0 = true.
Proof.
  intros HW HH Halt S Hv Hneq shared.
  destruct (flush_alt w h r (valt t) (norm v0) S Hv (norm_nonempty v0) Hneq) as (below' & Eb & Hbl & Hlen & Er & S').
  rewrite vt_run_flush. unfold active. rewrite Halt, HW, HH.
  destruct (with_active_alt t (buf_run w h (valt t) (snd (r_flush r))) Halt) as [Ea Em].
  apply (sync_alt_shows _ w h (fst (r_flush r)) v0).
  - rewrite with_active_W. exact HW.
  - rewrite with_active_H. exact HH.
  - rewrite with_active_in_alt. exact Halt.
  - rewrite Ea. exact S'.
  - rewrite Er. reflexivity.
  - rewrite Er. reflexivity.
Qed.
