(* C19, economy: the number of bytes written by an inline flush with nothing
   queued is bounded by Economy.cost_bound: changed lines cost their (cut) text
   plus a constant, unchanged lines at most one byte, plus an overhead that is
   logarithmic in the width / number of lines. *)
From Coq Require Import NArith ZArith List Bool Arith Lia.
Import ListNotations.
From BT Require Import Base.Bytes Model.VT Model.Renderer Spec.Screen Spec.Economy
  Proof.BytesLemmas Proof.FlushProofs Proof.FlushSync.
Open Scope nat_scope.

(* ------------------------------------------------------------ digits *)

Lemma digits_fuel_S f n :
  digits_fuel (S f) n = if Nat.ltb n 10 then 1 else S (digits_fuel f (Nat.div n 10)).
Proof. reflexivity. Qed.

Lemma digits_fuel_pos f n : 1 <= digits_fuel f n.
Proof.
  destruct f as [|f]; [cbn [digits_fuel]; lia|].
  rewrite digits_fuel_S. destruct (Nat.ltb n 10); lia.
Qed.

Lemma digits_fuel_mono : forall f1 f2 n m,
  n <= m -> n <= f1 -> m <= f2 -> digits_fuel f1 n <= digits_fuel f2 m.
Proof.
  induction f1 as [|f1 IH]; intros f2 n m Hnm Hn Hm.
  - cbn [digits_fuel]. apply digits_fuel_pos.
  - rewrite digits_fuel_S. destruct (Nat.ltb_spec n 10) as [Hlt|Hge]; [apply digits_fuel_pos|].
    destruct f2 as [|f2]; [lia|]. rewrite digits_fuel_S.
    destruct (Nat.ltb_spec m 10) as [Hlt'|Hge']; [lia|].
    apply -> Nat.succ_le_mono. apply IH.
    + apply Nat.div_le_mono; lia.
    + assert (n / 10 < n) by (apply Nat.div_lt; lia). lia.
    + assert (m / 10 < m) by (apply Nat.div_lt; lia). lia.
Qed.

Lemma digits_mono n m : n <= m -> digits n <= digits m.
Proof. intros H. unfold digits. apply digits_fuel_mono; lia. Qed.

Lemma digits_pos n : 1 <= digits n.
Proof. apply digits_fuel_pos. Qed.

(* ------------------------------------------------------------ out_len *)

Lemma out_len_nil : out_len [] = 0.
Proof. reflexivity. Qed.

Lemma out_len_cons t ts : out_len (t :: ts) = tok_len t + out_len ts.
Proof. reflexivity. Qed.

Lemma out_len_app a b : out_len (a ++ b) = out_len a + out_len b.
Proof.
  induction a as [|t a IH]; [reflexivity|].
  cbn [app]. rewrite !out_len_cons, IH. lia.
Qed.

Lemma out_len_chars l : out_len (chars l) = length l.
Proof.
  unfold chars. induction l as [|c l IH]; [reflexivity|].
  cbn [map length]. rewrite out_len_cons, IH. reflexivity.
Qed.

(* cursor up / back by k cost at most 3 + digits k *)
Lemma tok_len_cuu k : tok_len (cuu k) <= 3 + digits k.
Proof.
  unfold cuu. cbn [tok_len]. destruct (Nat.leb_spec (Nat.max 1 k) 1) as [H|H]; [lia|].
  replace (Nat.max 1 k) with k by lia. lia.
Qed.

Lemma tok_len_cub k : tok_len (cub k) <= 3 + digits k.
Proof.
  unfold cub. cbn [tok_len]. destruct (Nat.leb_spec (Nat.max 1 k) 1) as [H|H]; [lia|].
  replace (Nat.max 1 k) with k by lia. lia.
Qed.

Lemma tok_len_cuu_1 : tok_len (cuu 1) = 3.
Proof. reflexivity. Qed.

(* ------------------------------------------------------------ the paint loop *)

Lemma line_toks_cost first ce w l : 0 < w ->
  out_len (line_toks first ce w l) <= (if first && ce then 1 else 0) + Nat.min (length l) w + 3.
Proof.
  intros Hw. unfold line_toks.
  replace (Nat.ltb 0 w) with true by (symmetry; apply Nat.ltb_lt; exact Hw).
  rewrite !out_len_app, out_len_chars, firstn_length.
  assert (E1 : out_len (if first && ce then [TCR] else []) = if first && ce then 1 else 0)
    by (destruct (first && ce); reflexivity).
  rewrite E1.
  assert (E2 : out_len (if Nat.ltb (Nat.min w (length l)) w then [TELright] else []) <= 3)
    by (destruct (Nat.ltb (Nat.min w (length l)) w); cbn; lia).
  destruct (first && ce); lia.
Qed.

Lemma paint_lines_cost w : 0 < w -> forall lines first ce last,
  out_len (paint_lines first true ce w lines last) <=
  lines_cost w last lines + (if first && ce then 1 else 0).
Proof.
  intros Hw. induction lines as [|l rest IH]; intros first ce last.
  - cbn [paint_lines lines_cost]. rewrite out_len_nil. lia.
  - rewrite paint_lines_unfold. cbn [lines_cost andb].
    rewrite out_len_app.
    pose proof (IH false ce (match last with _ :: t => t | [] => [] end)) as IHr.
    cbn [andb] in IHr.
    set (tl_cost := out_len (paint_lines false true ce w rest (match last with _ :: t => t | [] => [] end))) in *.
    set (rc := lines_cost w (match last with _ :: t => t | [] => [] end) rest) in *.
    destruct (match last with x :: _ => bytes_eqb x l | [] => false end).
    + assert (E : out_len (match rest with [] => [] | _ => [TLF] end) <= 1)
        by (destruct rest; cbn; lia).
      destruct (first && ce); lia.
    + rewrite out_len_app.
      pose proof (line_toks_cost first ce w l Hw) as Hl.
      assert (E : out_len (match rest with [] => [] | _ => [TCR; TLF] end) <= 2)
        by (destruct rest; cbn; lia).
      destruct (first && ce); lia.
Qed.

(* ------------------------------------------------------------ the whole flush *)

(* for ANY state of the cache (the +1 of the overhead pays for the leading CR
   of a first paint with an empty cache) *)
Theorem flush_cost_any_cache r v :
  r_alt r = false -> r_queued r = [] -> r_buf r = v -> v <> [] ->
  bytes_eqb v (r_lastRender r) = false ->
  0 < r_width r ->
  r_linesRendered r = length (r_lastLines r) ->
  out_len (snd (r_flush r)) <= cost_bound (r_width r) (r_lastLines r) (frame_lines (r_height r) v).
Proof.
  intros Halt Hq Hv Hne Hneq Hw HL.
  rewrite (r_flush_inline_eq r v Hv Hne Hneq Halt Hq). cbn [snd].
  unfold flush_out_inline, cost_bound, overhead.
  set (lines := frame_lines (r_height r) v).
  set (w := r_width r) in *.
  set (old := r_lastLines r) in *.
  rewrite HL.
  set (L := length old).
  set (ce := match r_lastRender r with [] => true | _ => false end).
  rewrite !out_len_app.
  (* head *)
  assert (Hhead : out_len (if Nat.ltb 1 L then [cuu (L - 1)] else []) <= 3 + digits L).
  { destruct (Nat.ltb 1 L); [|rewrite out_len_nil; lia].
    rewrite out_len_cons, out_len_nil.
    pose proof (tok_len_cuu (L - 1)) as H1.
    pose proof (digits_mono (L - 1) L ltac:(lia)) as H2. lia. }
  (* body *)
  pose proof (paint_lines_cost w Hw lines true ce old) as Hbody.
  assert (Hce : (if true && ce then 1 else 0) <= 1) by (destruct ce; cbn; lia).
  (* erase-below group *)
  assert (Hed : out_len (if Nat.ltb (length lines) L && (Nat.eqb (r_height r) 0 || Nat.ltb (length lines) (r_height r))
                         then [TCR; TLF; TEDbelow; cuu 1] else []) <= 8).
  { destruct (Nat.ltb (length lines) L && (Nat.eqb (r_height r) 0 || Nat.ltb (length lines) (r_height r)));
      [|rewrite out_len_nil; lia].
    rewrite !out_len_cons, out_len_nil, tok_len_cuu_1. cbn [tok_len]. lia. }
  (* tail *)
  assert (Htail : out_len [cub w] <= 3 + digits w).
  { rewrite out_len_cons, out_len_nil. pose proof (tok_len_cub w). lia. }
  rewrite out_len_nil.
  set (a := out_len (if Nat.ltb 1 L then [cuu (L - 1)] else [])) in *.
  set (bd := out_len (paint_lines true true ce w lines old)) in *.
  set (e := out_len (if Nat.ltb (length lines) L && (Nat.eqb (r_height r) 0 || Nat.ltb (length lines) (r_height r))
                     then [TCR; TLF; TEDbelow; cuu 1] else [])) in *.
  set (t := out_len [cub w]) in *.
  lia.
Qed.

(* C19: valid cache, nothing queued, inline *)
Theorem flush_cost r v :
  r_alt r = false -> r_queued r = [] -> r_buf r = v -> v <> [] ->
  bytes_eqb v (r_lastRender r) = false -> r_lastRender r <> [] ->
  0 < r_width r ->
  r_linesRendered r = length (r_lastLines r) ->
  out_len (snd (r_flush r)) <= cost_bound (r_width r) (r_lastLines r) (frame_lines (r_height r) v).
Proof.
  intros Halt Hq Hv Hne Hneq _ Hw HL. apply flush_cost_any_cache; assumption.
Qed.

(* ... in particular from the coupling invariant of FlushSync *)
Corollary flush_cost_sync w h r b above region below v :
  sync_inline w h r b above region below ->
  r_queued r = [] -> r_buf r = v -> v <> [] ->
  bytes_eqb v (r_lastRender r) = false -> r_lastRender r <> [] ->
  out_len (snd (r_flush r)) <= cost_bound w (r_lastLines r) (frame_lines h v).
Proof.
  intros S Hq Hv Hne Hneq Hc.
  destruct S as [Hw Hh Hrw Hrh Halt Hat HL Hwin Hminh Hwa Hwr Hbl Hcache Hnocache].
  rewrite <- Hrw, <- Hrh.
  apply flush_cost; try assumption.
  - rewrite Hrw. exact Hw.
  - rewrite HL, (Hcache Hc), map_length. reflexivity.
Qed.

(* ------------------------------------------------------------ the bound is meaningful *)

(* unchanged lines cost one byte each *)
Lemma lines_cost_same w : forall ls, lines_cost w ls ls = length ls.
Proof.
  induction ls as [|l ls IH]; [reflexivity|].
  cbn [lines_cost length]. rewrite bytes_eqb_refl, IH. reflexivity.
Qed.

Lemma lines_cost_common_prefix w : forall a old new,
  lines_cost w (a ++ old) (a ++ new) = length a + lines_cost w old new.
Proof.
  induction a as [|x a IH]; intros old new; [reflexivity|].
  cbn [app lines_cost length]. rewrite bytes_eqb_refl, IH. reflexivity.
Qed.

(* exactly one line changed: that line's (cut) text + 5, one byte for each other line *)
Lemma lines_cost_one_change w a x y b : bytes_eqb x y = false ->
  lines_cost w (a ++ x :: b) (a ++ y :: b) = length a + length b + Nat.min (length y) w + 5.
Proof.
  intros H. rewrite lines_cost_common_prefix. cbn [lines_cost]. rewrite H, lines_cost_same. lia.
Qed.

(* nothing changed line by line (only possible if the frames differ beyond the
   window): the whole flush is O(lines + digits) *)
Lemma cost_bound_same w ls :
  cost_bound w ls ls = length ls + overhead w (length ls) (length ls).
Proof. unfold cost_bound. rewrite lines_cost_same. reflexivity. Qed.
