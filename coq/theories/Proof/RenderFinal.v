(* Stop as the last operation of a history: after the final flush the cursor
   row is erased (ESC[2K CR); the Spec's shows_final_inline holds. *)
From Coq Require Import NArith List Bool Arith Lia.
Import ListNotations.
From BT Require Import Base.Bytes Model.VT Model.Renderer Spec.Screen Proof.BytesLemmas Proof.VTLemmas
  Proof.FlushProofs Proof.FlushSync Proof.RendererBasics Proof.RenderShows Proof.RenderInline Proof.RenderAlt
  Proof.RenderOps.
Open Scope nat_scope.

Lemma firstn_removelast_snoc {A} (a : list A) (z : A) :
  firstn (length (a ++ [z]) - 1) (a ++ [z]) = removelast (a ++ [z]).
Proof.
  rewrite List.removelast_last, app_length. cbn [length].
  replace (length a + 1 - 1) with (length a + 0) by lia.
  rewrite (firstn_app_len a [z] (length a) 0 eq_refl). cbn [firstn]. apply app_nil_r.
Qed.

Lemma firstn_removelast' {A} (l : list A) : firstn (length l - 1) l = removelast l.
Proof.
  destruct l as [|x l']; [reflexivity|].
  assert (Hne : x :: l' <> []) by discriminate.
  pose proof (firstn_removelast_snoc (removelast (x :: l')) (List.last (x :: l') x)) as H.
  rewrite <- (@app_removelast_last A (x :: l') x Hne) in H. exact H.
Qed.

Lemma snd_stop r : snd (r_stop r) = snd (r_flush r) ++ [TELall; TCR].
Proof. unfold r_stop. destruct (r_flush r). reflexivity. Qed.

Lemma fst_stop r : fst (r_stop r) = fst (r_flush r).
Proof. unfold r_stop. destruct (r_flush r). reflexivity. Qed.

Lemma flush_keeps_alt' r : r_alt (fst (r_flush r)) = r_alt r.
Proof.
  unfold r_flush. destruct (r_buf r); [reflexivity|]. destruct (bytes_eqb _ _); reflexivity.
Qed.

Lemma stop_final_buf t v above region below :
  in_alt t = false ->
  vmain t = mk (above ++ region ++ below) (length above + (length region - 1)) 0 false ->
  region <> [] -> paint (vW t) (vH t) v = region ->
  all_blank (vW t) below ->
  length region + length below <= vH t ->
  forall shared, shows_final_inline (vt_run shared t [TELall; TCR]) v = Some above.
Proof.
  intros Halt Hb Hne Hreg Hbl Hwin shared.
  set (n := length region).
  assert (Hn : 1 <= n) by (unfold n; destruct region; [congruence|cbn; lia]).
  set (M := removelast region).
  assert (HM : length M = n - 1) by (unfold M, n; apply removelast_length).
  assert (Ereg : region = M ++ [List.last region []]) by (apply app_removelast_last; exact Hne).
  (* the buffer after ESC[2K CR *)
  assert (Eb : buf_run (vW t) (vH t) (vmain t) [TELall; TCR] =
               mk ((above ++ M) ++ blank_row (vW t) :: below) (length (above ++ M)) 0 false).
  { rewrite Hb.
    assert (Ez : mk (above ++ region ++ below) (length above + (length region - 1)) 0 false =
                 bz (above ++ M) (List.last region []) below 0 false).
    { unfold bz. f_equal.
      - rewrite Ereg at 1. rewrite <- !app_assoc. reflexivity.
      - rewrite app_length, HM. reflexivity. }
    rewrite Ez. unfold buf_run. cbn [fold_left]. rewrite bz_elall, bz_cr. reflexivity. }
  rewrite (vt_run_cells shared [TELall; TCR] t eq_refl). unfold active. rewrite Halt, Eb.
  set (b' := mk ((above ++ M) ++ blank_row (vW t) :: below) (length (above ++ M)) 0 false).
  destruct (with_active_main t b' Halt) as [Ev _].
  unfold shows_final_inline. rewrite with_active_W, with_active_H, with_active_in_alt, Ev, Hreg, Halt.
  unfold b'. cbn [mk cur tape crow ccol cpend negb Nat.eqb andb]. fold n.
  set (tp := (above ++ M) ++ blank_row (vW t) :: below).
  assert (Hl : length (above ++ M) = length above + (n - 1)) by (rewrite app_length, HM; reflexivity).
  rewrite Hl.
  replace (S (length above + (n - 1)) - n) with (length above) by lia.
  replace (S (length above + (n - 1))) with (length above + n) by lia.
  assert (Htl : length tp = length above + n + length below).
  { unfold tp. rewrite app_length, Hl. cbn [length]. lia. }
  assert (E1 : Nat.leb n (length above + n) = true) by (apply Nat.leb_le; lia).
  assert (E2 : Nat.leb (top (vH t) (mk tp (length above + (n - 1)) 0 false)) (length above) = true).
  { apply Nat.leb_le. unfold top, mk. cbn [tape]. rewrite Htl. unfold n. lia. }
  assert (E3 : Nat.ltb (length above + (n - 1)) (length tp) = true) by (apply Nat.ltb_lt; lia).
  assert (Etp : tp = above ++ (M ++ blank_row (vW t) :: below)) by (unfold tp; rewrite <- app_assoc; reflexivity).
  assert (E4 : skipn (length above) tp = M ++ blank_row (vW t) :: below).
  { rewrite Etp, skipn_app, skipn_all, Nat.sub_diag. reflexivity. }
  assert (E5 : firstn (n - 1) (M ++ blank_row (vW t) :: below) = M).
  { rewrite <- HM. rewrite firstn_app, firstn_all, Nat.sub_diag. cbn [firstn]. apply app_nil_r. }
  assert (E6 : firstn (n - 1) region = M) by (unfold n, M; apply firstn_removelast').
  assert (E7 : skipn (length above + (n - 1)) tp = blank_row (vW t) :: below).
  { unfold tp. rewrite <- Hl. rewrite skipn_app, skipn_all, Nat.sub_diag. reflexivity. }
  assert (E8 : firstn (length above) tp = above).
  { rewrite Etp, firstn_app, firstn_all, Nat.sub_diag. cbn [firstn]. apply app_nil_r. }
  assert (E9 : forallb is_blank_row (blank_row (vW t) :: below) = true).
  { cbn [forallb]. rewrite is_blank_row_blank, (forallb_all_blank _ _ Hbl). reflexivity. }
  rewrite E1, E2, E3, E4, E5, E6, E7, E8, E9, rows_eqb_refl. reflexivity.
Qed.

(* Stop in inline mode with a pending view: every line of the view but the
   last stays, the cursor row is blank, the rows above are untouched *)
Theorem Sync_stop_final shared rz t r above v :
  Sync rz t r above -> r_alt r = false -> r_buf r = norm v ->
  shows_final_inline (vt_run shared t (snd (r_stop r))) v = Some above.
Proof.
  intros S Ea Hb. rewrite snd_stop, vt_run_app.
  pose proof (Sync_flush shared rz t r above S) as S'.
  pose proof (flush_cache r (norm v) Hb (norm_nonempty v)) as Hc.
  set (t1 := vt_run shared t (snd (r_flush r))) in *.
  set (r1 := fst (r_flush r)) in *.
  assert (Ea1 : r_alt r1 = false) by (unfold r1; rewrite flush_keeps_alt'; exact Ea).
  destruct S' as [HW HH Hia Hq Hlines Hin Halt]. rewrite Ea1 in Hia.
  destruct (Hin Ea1) as [_ (region & below & k & SI)].
  destruct SI as [G Hrw Hrh Hral Hcache Hnocache].
  destruct G as [Hw Hh Hbuf Hk HL Hwin Htape Hcur Hwa Hwr Hbl].
  destruct (Hcache ltac:(rewrite Hc; apply norm_nonempty)) as [Hreg Hkk].
  rewrite (Hlines ltac:(rewrite Hc; apply norm_nonempty)), Hc in Hreg.
  assert (Hne : region <> []).
  { rewrite Hreg. intros E. apply map_eq_nil in E. exact (frame_lines_nonempty _ (norm v) Hh E). }
  apply (stop_final_buf t1 v above region below Hia).
  - rewrite Hbuf, Hkk. reflexivity.
  - exact Hne.
  - rewrite HW, HH, (paint_frame _ _ v Hh). symmetry. exact Hreg.
  - rewrite HW. exact Hbl.
  - rewrite HH. exact Hwin.
Qed.
