(* The history theorem: the screen oracle of Spec/Screen.v, run over the
   tokens the renderer model emits for a whole history of operations, never
   reports a failure.  Covered: Write, Flush, Repaint, EnterAlt, ExitAlt,
   ClearScreen (inline and alt), Resize while in the alt screen, cursor /
   mouse / paste / focus switches, and Stop as the LAST operation.
   Not covered here: Println (queued lines), Kill, Stop followed by anything. *)
From Coq Require Import NArith List Bool Arith Lia.
Import ListNotations.
From BT Require Import Base.Bytes Model.VT Model.Renderer Spec.Screen Proof.BytesLemmas Proof.VTLemmas
  Proof.FlushProofs Proof.FlushSync Proof.RendererBasics Proof.RenderShows Proof.RenderInline Proof.RenderAlt
  Proof.RenderOps Proof.RenderFinal.
Open Scope nat_scope.

(* ------------------------------------------------------------ histories *)

(* the abstract operation the oracle is told about (lib/renderer.py coq_sop):
   the first resize only sets the size; later ones resize the alt screen *)
Definition sop_of (first : bool) (o : rop) : sop :=
  match o with
  | OWrite v => SWrite v
  | OFlush => SFlush
  | OResize w h => if first then SOther else SResizeAlt w h
  | OEnterAlt => SEnterAlt
  | OExitAlt => SExitAlt
  | OClear => SClear
  | OPrint b => SPrint b
  | OStop => SStop
  | _ => SOther
  end.

Fixpoint sops_of (first : bool) (ops : list rop) : list sop :=
  match ops with
  | [] => []
  | o :: t => sop_of first o :: sops_of (match o with OResize _ _ => false | _ => first end) t
  end.

(* one operation, given (are we in the alt screen, was the alt screen resized) *)
Definition valid_op (alt rz : bool) (o : rop) : option (bool * bool) :=
  match o with
  | OWrite _ | OFlush | ORepaint | OClear | OShowCursor | OHideCursor | OPaste _ | OFocus _ => Some (alt, rz)
  | OMouse m _ => if (m =? 1049)%N then None else Some (alt, rz)       (* 1049 is not a mouse mode *)
  | OResize w h => if alt && Nat.ltb 0 w && Nat.ltb 0 h then Some (alt, true) else None
  | OEnterAlt => Some (true, rz)
  | OExitAlt => if rz then None else Some (false, rz)
  | OPrint _ | OStop | OKill => None
  end.

(* Stop is accepted as the very last operation only *)
Fixpoint valid_rest (alt rz : bool) (ops : list rop) : bool :=
  match ops with
  | [] => true
  | o :: t =>
    match o, t with
    | OStop, [] => true
    | _, _ => match valid_op alt rz o with Some (a, z) => valid_rest a z t | None => false end
    end
  end.

Lemma valid_rest_cons alt rz o t : valid_rest alt rz (o :: t) = true ->
  (o = OStop /\ t = []) \/
  (exists a z, valid_op alt rz o = Some (a, z) /\ valid_rest a z t = true).
Proof.
  intros V. cbn [valid_rest] in V.
  destruct (valid_op alt rz o) as [[a z]|] eqn:Ev.
  - right. exists a, z. split; [reflexivity|]. destruct o; try exact V. discriminate.
  - destruct o; try discriminate. destruct t; [left; split; reflexivity|discriminate].
Qed.

Definition valid_history (ops : list rop) : bool :=
  match ops with
  | OResize w h :: rest => Nat.ltb 0 w && Nat.ltb 0 h && valid_rest false false rest
  | _ => false
  end.

Lemma sops_of_false ops : sops_of false ops = map (sop_of false) ops.
Proof. induction ops as [|o t IH]; [reflexivity|]. cbn [sops_of map]. rewrite <- IH. destruct o; reflexivity. Qed.

Lemma r_run_cons r o t :
  r_run r (o :: t) = (fst (r_run (fst (r_step r o)) t), snd (r_step r o) :: snd (r_run (fst (r_step r o)) t)).
Proof. cbn [r_run]. destruct (r_step r o) as [r1 out]. cbn [fst snd]. destruct (r_run r1 t). reflexivity. Qed.

(* ------------------------------------------------------------ oracle state vs renderer state *)

Record Inv (rz : bool) (s : ostate) (r : rstate) : Prop := {
  iv_sync : Sync rz (o_vt s) r (o_above s);
  iv_pending : o_pending s = [];
  iv_alt : o_alt s = r_alt r;
  iv_latest : forall v, o_latest s = Some v -> r_buf r = norm v
}.

Lemma vt_run_nil shared t : vt_run shared t [] = t.
Proof. reflexivity. Qed.

Lemma flush_keeps_alt r : r_alt (fst (r_flush r)) = r_alt r.
Proof.
  unfold r_flush. destruct (r_buf r); [reflexivity|]. destruct (bytes_eqb _ _); reflexivity.
Qed.

Lemma enter_alt_core_alt r : r_alt (fst (r_enter_alt_core r)) = true.
Proof. unfold r_enter_alt_core. destruct (r_alt r) eqn:E; [exact E|reflexivity]. Qed.

Lemma enter_alt_alt r : r_alt (fst (r_enter_alt r)) = true.
Proof. destruct (enter_alt_cases r) as [E|(_ & _ & E)]; rewrite E; apply enter_alt_core_alt. Qed.

Lemma exit_alt_alt r : r_alt (fst (r_exit_alt r)) = false.
Proof. unfold r_exit_alt. destruct (r_alt r) eqn:E; [reflexivity|exact E]. Qed.

Lemma enter_alt_buf r : r_queued r = [] -> r_buf (fst (r_enter_alt r)) = r_buf r.
Proof. intros Hq. rewrite (enter_alt_no_queue r Hq). unfold r_enter_alt_core. destruct (r_alt r); reflexivity. Qed.

Lemma exit_alt_buf r : r_buf (fst (r_exit_alt r)) = r_buf r.
Proof. unfold r_exit_alt. destruct (r_alt r); reflexivity. Qed.

(* a flush that follows a write is a checked point: the screen shows the view *)
Lemma flush_checked shared rz t r above v :
  Sync rz t r above -> r_buf r = norm v ->
  if r_alt r then shows_alt (vt_run shared t (snd (r_flush r))) v = true
  else shows_inline (vt_run shared t (snd (r_flush r))) v = Some above.
Proof.
  intros S Hb. pose proof (Sync_flush shared rz t r above S) as S'.
  pose proof (flush_cache r (norm v) Hb (norm_nonempty v)) as Hc.
  pose proof (Sync_shows rz _ _ above v S' Hc) as Hs. rewrite flush_keeps_alt in Hs. exact Hs.
Qed.

(* ------------------------------------------------------------ one step *)

Lemma step_ok shared rz s r o alt' rz' :
  Inv rz s r -> valid_op (r_alt r) rz o = Some (alt', rz') ->
  snd (o_step shared s (sop_of false o) (snd (r_step r o))) = [] /\
  Inv rz' (fst (o_step shared s (sop_of false o) (snd (r_step r o)))) (fst (r_step r o)) /\
  alt' = r_alt (fst (r_step r o)).
Proof.
  intros I V. destruct I as [S Hp Ha Hl].
  destruct o as [v| |w h| | | | |body| | |m on|on|on| | ]; cbn [valid_op] in V.
  - (* Write *)
    inversion V; subst alt' rz'. clear V.
    cbv beta iota zeta delta [o_step sop_of r_step]; cbn [fst snd]. rewrite vt_run_nil.
    split; [reflexivity|]. split; [|reflexivity].
    constructor; cbn [o_vt o_above o_pending o_alt o_latest].
    + apply Sync_write. exact S.
    + exact Hp.
    + exact Ha.
    + intros v' E. inversion E; subst v'. apply r_write_buf.
  - (* Flush *)
    inversion V; subst alt' rz'. clear V.
    cbv beta iota zeta delta [sop_of r_step].
    pose proof (Sync_flush shared rz _ r _ S) as S'.
    unfold o_step. cbv beta iota zeta.
    destruct (o_latest s) as [v|] eqn:El.
    + pose proof (flush_checked shared rz _ r _ v S (Hl v eq_refl)) as C.
      rewrite Ha. rewrite Hp, app_nil_r.
      destruct (r_alt r) eqn:Ea.
      * rewrite C. cbn [fst snd]. split; [reflexivity|]. split; [|rewrite flush_keeps_alt; symmetry; exact Ea].
        constructor; cbn [o_vt o_above o_pending o_alt o_latest].
        -- exact S'.
        -- reflexivity.
        -- rewrite flush_keeps_alt. symmetry. exact Ea.
        -- intros v' E. discriminate.
      * rewrite C, rows_eqb_refl. cbn [fst snd]. split; [reflexivity|].
        split; [|rewrite flush_keeps_alt; symmetry; exact Ea].
        constructor; cbn [o_vt o_above o_pending o_alt o_latest].
        -- exact S'.
        -- reflexivity.
        -- rewrite flush_keeps_alt. symmetry. exact Ea.
        -- intros v' E. discriminate.
    + rewrite Hp. cbn [fst snd]. split; [reflexivity|]. split; [|rewrite flush_keeps_alt; reflexivity].
      constructor; cbn [o_vt o_above o_pending o_alt o_latest].
      * exact S'.
      * reflexivity.
      * rewrite flush_keeps_alt. exact Ha.
      * intros v' E. discriminate.
  - (* Resize, alt screen only *)
    destruct (r_alt r) eqn:Ea; [|discriminate]. cbn [andb] in V.
    destruct (Nat.ltb_spec 0 w) as [Hw|]; [|discriminate].
    destruct (Nat.ltb_spec 0 h) as [Hh|]; [|discriminate]. cbn [andb] in V.
    inversion V; subst alt' rz'. clear V.
    cbv beta iota zeta delta [o_step sop_of r_step]; cbn [fst snd]. rewrite vt_run_nil.
    split; [reflexivity|]. split; [|cbn; symmetry; exact Ea].
    constructor; cbn [o_vt o_above o_pending o_alt o_latest].
    + apply (Sync_resize_alt rz); assumption.
    + exact Hp.
    + cbn. rewrite Ea. exact Ha.
    + intros v' E. cbn. apply Hl. exact E.
  - (* EnterAlt *)
    inversion V; subst alt' rz'. clear V.
    cbv beta iota zeta delta [o_step sop_of r_step]; cbn [fst snd].
    split; [reflexivity|]. split; [|symmetry; apply enter_alt_alt].
    constructor; cbn [o_vt o_above o_pending o_alt o_latest].
    + apply Sync_enter_alt. exact S.
    + exact Hp.
    + symmetry. apply enter_alt_alt.
    + intros v' E. rewrite enter_alt_buf by (destruct S as [_ _ _ Hq0 _ _ _]; exact Hq0). apply Hl. exact E.
  - (* ExitAlt *)
    destruct rz; [discriminate|].
    inversion V; subst alt' rz'. clear V.
    cbv beta iota zeta delta [o_step sop_of r_step]; cbn [fst snd].
    split; [reflexivity|]. split; [|symmetry; apply exit_alt_alt].
    constructor; cbn [o_vt o_above o_pending o_alt o_latest].
    + apply Sync_exit_alt. exact S.
    + exact Hp.
    + symmetry. apply exit_alt_alt.
    + intros v' E. rewrite exit_alt_buf. apply Hl. exact E.
  - (* ClearScreen *)
    inversion V; subst alt' rz'. clear V.
    cbv beta iota zeta delta [sop_of r_step].
    unfold o_step. cbv beta iota zeta. rewrite Ha.
    destruct (r_alt r) eqn:Ea.
    + cbn [fst snd]. split; [reflexivity|]. split; [|cbn; symmetry; exact Ea].
      constructor; cbn [o_vt o_above o_pending o_alt o_latest].
      * apply (Sync_clear_alt shared rz _ r _ S Ea).
      * exact Hp.
      * cbn. symmetry. exact Ea.
      * intros v' E. cbn. apply Hl. exact E.
    + cbn [fst snd]. split; [reflexivity|]. split; [|cbn; symmetry; exact Ea].
      assert (Hrz : rz = false).
      { destruct S as [_ _ _ _ _ Hin _]. destruct (Hin Ea) as [Hrz _]. exact Hrz. }
      rewrite Hrz in *.
      constructor; cbn [o_vt o_above o_pending o_alt o_latest].
      * apply (Sync_clear_inline shared _ r _ S Ea).
      * exact Hp.
      * cbn. symmetry. exact Ea.
      * intros v' E. cbn. apply Hl. exact E.
  - (* Repaint *)
    inversion V; subst alt' rz'. clear V.
    cbv beta iota zeta delta [o_step sop_of r_step]; cbn [fst snd]. rewrite vt_run_nil.
    split; [reflexivity|]. split; [|reflexivity].
    constructor; cbn [o_vt o_above o_pending o_alt o_latest].
    + apply Sync_repaint. exact S.
    + exact Hp.
    + exact Ha.
    + intros v' E. cbn. apply Hl. exact E.
  - (* Print: excluded *) discriminate.
  - (* ShowCursor *)
    inversion V; subst alt' rz'. clear V.
    cbv beta iota zeta delta [o_step sop_of r_step r_show_cursor]; cbn [fst snd].
    split; [reflexivity|]. split; [|reflexivity].
    constructor; cbn [o_vt o_above o_pending o_alt o_latest].
    + apply (Sync_mode shared rz _ r _ _ 25%N true); [discriminate|reflexivity|exact S].
    + exact Hp.
    + exact Ha.
    + intros v' E. cbn. apply Hl. exact E.
  - (* HideCursor *)
    inversion V; subst alt' rz'. clear V.
    cbv beta iota zeta delta [o_step sop_of r_step r_hide_cursor]; cbn [fst snd].
    split; [reflexivity|]. split; [|reflexivity].
    constructor; cbn [o_vt o_above o_pending o_alt o_latest].
    + apply (Sync_mode shared rz _ r _ _ 25%N false); [discriminate|reflexivity|exact S].
    + exact Hp.
    + exact Ha.
    + intros v' E. cbn. apply Hl. exact E.
  - (* Mouse *)
    destruct (N.eqb_spec m 1049) as [|Hm]; [discriminate|].
    inversion V; subst alt' rz'. clear V.
    cbv beta iota zeta delta [o_step sop_of r_step r_mouse]; cbn [fst snd].
    split; [reflexivity|]. split; [|reflexivity].
    constructor; cbn [o_vt o_above o_pending o_alt o_latest].
    + apply (Sync_mode shared rz _ r r _ m on); [exact Hm|reflexivity|exact S].
    + exact Hp.
    + exact Ha.
    + exact Hl.
  - (* Paste *)
    inversion V; subst alt' rz'. clear V.
    destruct on; cbv beta iota zeta delta [o_step sop_of r_step r_enable_paste r_disable_paste]; cbn [fst snd].
    + split; [reflexivity|]. split; [|reflexivity].
      constructor; cbn [o_vt o_above o_pending o_alt o_latest].
      * apply (Sync_mode shared rz _ r _ _ 2004%N true); [discriminate|reflexivity|exact S].
      * exact Hp.
      * exact Ha.
      * intros v' E. cbn. apply Hl. exact E.
    + split; [reflexivity|]. split; [|reflexivity].
      constructor; cbn [o_vt o_above o_pending o_alt o_latest].
      * apply (Sync_mode shared rz _ r _ _ 2004%N false); [discriminate|reflexivity|exact S].
      * exact Hp.
      * exact Ha.
      * intros v' E. cbn. apply Hl. exact E.
  - (* Focus *)
    inversion V; subst alt' rz'. clear V.
    destruct on; cbv beta iota zeta delta [o_step sop_of r_step r_enable_focus r_disable_focus]; cbn [fst snd].
    + split; [reflexivity|]. split; [|reflexivity].
      constructor; cbn [o_vt o_above o_pending o_alt o_latest].
      * apply (Sync_mode shared rz _ r _ _ 1004%N true); [discriminate|reflexivity|exact S].
      * exact Hp.
      * exact Ha.
      * intros v' E. cbn. apply Hl. exact E.
    + split; [reflexivity|]. split; [|reflexivity].
      constructor; cbn [o_vt o_above o_pending o_alt o_latest].
      * apply (Sync_mode shared rz _ r _ _ 1004%N false); [discriminate|reflexivity|exact S].
      * exact Hp.
      * exact Ha.
      * intros v' E. cbn. apply Hl. exact E.
  - (* Stop: excluded *) discriminate.
  - (* Kill: excluded *) discriminate.
Qed.

(* ------------------------------------------------------------ whole histories *)

(* Stop, last: the final screen is right (inline with a pending view), nothing is checked otherwise *)
Lemma stop_ok shared rz s r : Inv rz s r -> snd (o_step shared s SStop (snd (r_stop r))) = [].
Proof.
  intros I. destruct I as [S Hp Ha Hl].
  unfold o_step. cbv beta iota zeta.
  destruct (o_latest s) as [v|] eqn:El; [|reflexivity].
  rewrite Ha. destruct (r_alt r) eqn:Ea; [reflexivity|].
  rewrite Hp, app_nil_r.
  rewrite (Sync_stop_final shared rz _ r _ v S Ea (Hl v eq_refl)), rows_eqb_refl. reflexivity.
Qed.

Lemma run_ok shared : forall ops rz s r i,
  Inv rz s r -> valid_rest (r_alt r) rz ops = true ->
  o_run shared s (combine (map (sop_of false) ops) (snd (r_run r ops))) i = [].
Proof.
  induction ops as [|o t IH]; intros rz s r i I V.
  - reflexivity.
  - destruct (valid_rest_cons _ _ _ _ V) as [[Eo Et]|(a & z & Ev & Vt)].
    + subst o t. cbn [r_run r_step map sop_of]. destruct (r_stop r) as [r1 out] eqn:Es. cbn [snd combine o_run].
      pose proof (stop_ok shared rz s r I) as Hf. rewrite Es in Hf. cbn [snd] in Hf.
      destruct (o_step shared s SStop out) as [s' fails]. cbn [snd] in Hf. rewrite Hf. reflexivity.
    + destruct (step_ok shared rz s r o a z I Ev) as (Hf & I' & Ealt).
      rewrite r_run_cons. cbn [fst snd map combine o_run].
      destruct (o_step shared s (sop_of false o) (snd (r_step r o))) as [s' fails] eqn:Eo.
      cbn [fst snd] in Hf, I'. rewrite Hf. cbn [map app].
      rewrite Ealt in Vt. apply (IH z s' (fst (r_step r o)) (S i) I' Vt).
Qed.

(* The history theorem.  `hist` are rows of earlier output, the last `used`
   of them inside the window; the oracle is the one evaluated on the real
   renderer's output. *)
Theorem history_ok shared w h hist used rest :
  rows_w w hist -> used <= length hist -> used < h ->
  valid_history (OResize w h :: rest) = true ->
  o_run shared (o_init w h hist used)
        (combine (sops_of true (OResize w h :: rest)) (snd (r_run r_init (OResize w h :: rest)))) 0 = [].
Proof.
  intros Hhist Hu1 Hu2 V. cbn [valid_history] in V.
  apply andb_true_iff in V. destruct V as [V Vr]. apply andb_true_iff in V. destruct V as [Hw Hh].
  apply Nat.ltb_lt in Hw. apply Nat.ltb_lt in Hh.
  rewrite r_run_cons. cbn [sops_of sop_of r_step fst snd combine o_run]. rewrite sops_of_false.
  cbv beta iota zeta delta [o_step]. rewrite vt_run_nil. cbn [map app o_init o_latest o_shown o_above o_pending o_alt o_vt].
  refine (run_ok shared rest false _ (r_window_size r_init w h) 1 _ Vr).
  constructor; cbn [o_vt o_above o_pending o_alt o_latest].
  - apply Sync_init; assumption.
  - reflexivity.
  - reflexivity.
  - intros v E. discriminate.
Qed.
