(* The inline coupling invariant, generalised (w.r.t. FlushSync.sync_inline):
   - the window may start ABOVE the rendered region (rows of earlier output
     share the window: the view scrolls them away as it grows),
   - the cursor may sit on the window's top row with a stale line count
     (the state ClearScreen leaves behind).
   Flush with nothing queued re-establishes it with region = the painted frame. *)
From Coq Require Import NArith List Bool Arith Lia.
Import ListNotations.
From BT Require Import Base.Bytes Model.VT Model.Renderer Spec.Screen Proof.BytesLemmas Proof.VTLemmas
  Proof.FlushProofs Proof.FlushSync Proof.RendererBasics Proof.RenderShows.
Open Scope nat_scope.

(* geometry of the main buffer: tape = above ++ region ++ below, cursor at
   column 0 of row |above| + k.  L is the renderer's inline line count. *)
Record igeom (w h L : nat) (b : buffer) (above region below : list row) (k : nat) : Prop := {
  ig_w : 0 < w; ig_h : 0 < h;
  ig_b : b = mk (above ++ region ++ below) (length above + k) 0 false;
  ig_k : k < length region + length below;
  ig_L : L = length region;
  ig_win : length region + length below <= h;                       (* the window top is not below the region *)
  ig_tape : h <= length above + (length region + length below);     (* the tape has a whole window *)
  ig_cur : k = length region - 1 \/ (k = 0 /\ length region + length below = h);
  ig_wa : rows_w w above; ig_wr : rows_w w region;
  ig_below : all_blank w below
}.

Record isync (w h : nat) (r : rstate) (b : buffer) (above region below : list row) (k : nat) : Prop := {
  is_geom : igeom w h (r_linesRendered r) b above region below k;
  is_rw : r_width r = w; is_rh : r_height r = h;
  is_alt : r_alt r = false;
  is_cache : r_lastRender r <> [] -> region = map (paint_row w) (r_lastLines r) /\ k = length region - 1;
  is_nocache : r_lastRender r = [] -> r_lastLines r = []
}.

(* ------------------------------------------------------------ small facts *)

Lemma mk_bz above (u0 : row) urest c p : mk (above ++ u0 :: urest) (length above) c p = bz above u0 urest c p.
Proof. reflexivity. Qed.

Lemma mk_cuu w h tp cr c p m :
  buf_apply w h (mk tp cr c p) (TCUU m) = mk tp (Nat.max (length tp - h) (cr - m)) c false.
Proof. reflexivity. Qed.

Lemma last_indep {A} (l : list A) d d' : l <> [] -> List.last l d = List.last l d'.
Proof.
  induction l as [|x l IH]; intros H; [congruence|]. destruct l as [|y l]; [reflexivity|].
  cbn [List.last] in *. apply IH. discriminate.
Qed.

Lemma bz_painted' w above (a : list bytes) (z : bytes) post c p :
  bz (above ++ map (paint_row w) a) (paint_row w z) post c p =
  mk (above ++ map (paint_row w) (a ++ [z]) ++ post) (length above + (length (a ++ [z]) - 1)) c p.
Proof.
  unfold bz. rewrite map_app. cbn [map]. f_equal.
  - rewrite <- !app_assoc. reflexivity.
  - rewrite !app_length, map_length. cbn [length]. lia.
Qed.

Lemma bz_painted w above (lines : list bytes) post c p : lines <> [] ->
  bz (above ++ map (paint_row w) (removelast lines)) (paint_row w (List.last lines [])) post c p =
  mk (above ++ map (paint_row w) lines ++ post) (length above + (length lines - 1)) c p.
Proof.
  intros Hne. pose proof (bz_painted' w above (removelast lines) (List.last lines []) post c p) as H.
  rewrite <- (@app_removelast_last bytes lines [] Hne) in H. exact H.
Qed.

(* FlushSync's invariant is an instance *)
Lemma sync_inline_isync w h r b above region below :
  sync_inline w h r b above region below ->
  isync w h r b above region below (length region - 1).
Proof.
  intros S. destruct S as [Hw Hh Hrw Hrh Halt Hat HL Hwin Hminh Hwa Hwr Hbl Hcache Hnocache].
  constructor.
  - constructor.
    + exact Hw.
    + exact Hh.
    + unfold at_region in Hat. destruct region as [|g0 rg] eqn:Er.
      * destruct below as [|r0 below']; [contradiction|]. rewrite Hat. unfold bz. cbn [app length]. f_equal. lia.
      * rewrite <- Er in *. assert (Hne : region <> []) by (rewrite Er; discriminate).
        rewrite Hat. unfold bz. f_equal.
        -- rewrite <- app_assoc. f_equal.
           transitivity ((removelast region ++ [List.last region []]) ++ below);
             [rewrite <- app_assoc; reflexivity|rewrite removelast_last by exact Hne; reflexivity].
        -- rewrite app_length, removelast_length. reflexivity.
    + unfold at_region in Hat. destruct region as [|g0 rg]; [|cbn [length]; lia].
      destruct below; [contradiction|cbn [length]; lia].
    + exact HL.
    + lia.
    + lia.
    + left. reflexivity.
    + exact Hwa.
    + exact Hwr.
    + exact Hbl.
  - exact Hrw.
  - exact Hrh.
  - exact Halt.
  - intros H. split; [exact (Hcache H)|reflexivity].
  - exact Hnocache.
Qed.

(* ------------------------------------------------------------ flush *)

Theorem flush_isync w h r b above region below k v :
  isync w h r b above region below k ->
  r_queued r = [] -> r_buf r = v -> v <> [] -> bytes_eqb v (r_lastRender r) = false ->
  exists below',
    isync w h (fst (r_flush r)) (buf_run w h b (snd (r_flush r))) above
          (map (paint_row w) (frame_lines h v)) below' (length (frame_lines h v) - 1) /\
    fst (r_flush r) = flush_state_inline r v (frame_lines h v).
Proof.
  intros S Hq Hv Hne Hneq.
  destruct S as [G Hrw Hrh Halt Hcache Hnocache].
  destruct G as [Hw Hh Hb Hk HL Hwin Htape Hcur Hwa Hwr Hbl].
  rewrite (r_flush_inline_eq r v Hv Hne Hneq Halt Hq). cbn [fst snd].
  unfold flush_out_inline. rewrite Hrw, Hrh.
  set (lines := frame_lines h v).
  pose proof (frame_lines_bounds h v Hh) as [Hn1 Hnh]. fold lines in Hn1, Hnh.
  assert (Hlne : lines <> []) by (destruct lines; [cbn in Hn1; lia|discriminate]).
  set (n := length lines) in *.
  set (L := length region) in *.
  set (ce := match r_lastRender r with [] => true | _ => false end).
  remember (region ++ below) as under eqn:Eu.
  assert (Hul : length under = L + length below) by (rewrite Eu, app_length; reflexivity).
  assert (Hunder_w : rows_w w under) by (rewrite Eu; apply rows_w_app; [assumption|apply all_blank_rows_w; assumption]).
  destruct under as [|u0 urest]; [cbn in Hul; lia|].
  cbn [length] in Hul.
  (* after the head: cursor at column 0 of the first row of `under` *)
  assert (Hhead : buf_run w h b (if Nat.ltb 1 (r_linesRendered r) then [cuu (r_linesRendered r - 1)] else []) =
                  bz above u0 urest 0 false).
  { rewrite HL, Hb. destruct (Nat.ltb_spec 1 L) as [HL1|HL1].
    - rewrite buf_run_cons, buf_run_nil. unfold cuu. rewrite mk_cuu. unfold bz. f_equal.
      rewrite app_length. cbn [length]. lia.
    - rewrite buf_run_nil. unfold bz. f_equal. lia. }
  rewrite !buf_run_app. rewrite Hhead. rewrite buf_run_nil.
  (* the paint loop *)
  assert (Hu0 : length u0 = w) by (inversion Hunder_w; assumption).
  assert (Hurest : rows_w w urest) by (inversion Hunder_w; assumption).
  assert (Hcoh : coherent w true lines (r_lastLines r) (u0 :: urest)).
  { rewrite Eu.
    destruct (r_lastRender r) as [|c0 ct] eqn:Elr.
    - rewrite (Hnocache eq_refl). apply coherent_no_last.
    - destruct (Hcache ltac:(discriminate)) as [Hc _]. rewrite Hc. apply coherent_of_cache. }
  destruct (paint_lines_run w h Hw lines true true ce (r_lastLines r) above u0 urest Hlne Hu0 Hurest Hcoh) as (c1 & p1 & Hc1 & Ebody).
  rewrite Ebody. clear Ebody. fold n.
  set (pre1 := above ++ map (paint_row w) (removelast lines)).
  set (rl := paint_row w (List.last lines [])).
  assert (Hpre1 : length pre1 = length above + (n - 1)).
  { unfold pre1. rewrite app_length, map_length, removelast_length. reflexivity. }
  rewrite HL.
  destruct (Nat.ltb_spec n L) as [HnL|HnL].
  - (* the frame shrank: rows n..L-1 of the old region are stale *)
    assert (Hg : (Nat.eqb h 0 || Nat.ltb n h) = true).
    { apply orb_true_iff. right. apply Nat.ltb_lt. lia. }
    rewrite Hg. cbn [andb].
    assert (Epost : skipn n (u0 :: urest) = skipn n region ++ below).
    { rewrite Eu, skipn_app. replace (n - length region) with 0 by (fold L; lia). reflexivity. }
    rewrite Epost.
    destruct (skipn n region) as [|x1 xr] eqn:Esk.
    { exfalso. assert (Hsk : length (skipn n region) = L - n) by (rewrite skipn_length; reflexivity).
      rewrite Esk in Hsk. cbn in Hsk. lia. }
    assert (Hxr : length xr = L - n - 1).
    { assert (Hsk : length (skipn n region) = L - n) by (rewrite skipn_length; reflexivity).
      rewrite Esk in Hsk. cbn in Hsk. lia. }
    cbn [app].
    unfold buf_run. cbn [fold_left].
    rewrite bz_cr, bz_lf_next, bz_edbelow, erase_right_0.
    unfold cuu. cbn [Nat.max].
    rewrite (bz_cuu w h pre1 rl [] (blank_row w) (map (fun _ => blank_row w) (xr ++ below)) 0 false 1 eq_refl).
    2:{ rewrite Hpre1, map_length, app_length. lia. }
    unfold cub. rewrite bz_cub by lia.
    exists (blank_row w :: map (fun _ => blank_row w) (xr ++ below)).
    split; [|reflexivity].
    unfold pre1, rl. cbn [app]. rewrite (bz_painted w above lines _ 0 false Hlne). fold n.
    constructor; cbn [flush_state_inline r_width r_height r_alt r_linesRendered r_lastRender r_lastLines].
    + constructor.
      * exact Hw.
      * exact Hh.
      * reflexivity.
      * rewrite map_length. fold n. lia.
      * rewrite map_length. reflexivity.
      * rewrite map_length. fold n. cbn [length]. rewrite map_length, app_length. lia.
      * rewrite map_length. fold n. cbn [length]. rewrite map_length, app_length. lia.
      * left. rewrite map_length. reflexivity.
      * exact Hwa.
      * apply rows_w_map_paint.
      * constructor; [reflexivity|apply all_blank_map].
    + exact Hrw.
    + exact Hrh.
    + reflexivity.
    + intros _. split; [reflexivity|rewrite map_length; reflexivity].
    + intros E. exfalso. exact (Hne E).
  - (* the frame did not shrink: whatever is left below is blank already *)
    cbn [andb]. unfold buf_run. cbn [fold_left]. unfold cub. rewrite bz_cub by lia.
    assert (Epost : skipn n (u0 :: urest) = skipn (n - L) below).
    { rewrite Eu, skipn_app. rewrite skipn_all2 by (fold L; lia). reflexivity. }
    rewrite Epost.
    exists (skipn (n - L) below).
    split; [|reflexivity].
    unfold pre1, rl. rewrite (bz_painted w above lines _ 0 false Hlne). fold n.
    constructor; cbn [flush_state_inline r_width r_height r_alt r_linesRendered r_lastRender r_lastLines].
    + constructor.
      * exact Hw.
      * exact Hh.
      * reflexivity.
      * rewrite map_length. fold n. lia.
      * rewrite map_length. reflexivity.
      * rewrite map_length. fold n. rewrite skipn_length. lia.
      * rewrite map_length. fold n. rewrite skipn_length. lia.
      * left. rewrite map_length. reflexivity.
      * exact Hwa.
      * apply rows_w_map_paint.
      * apply all_blank_skipn. assumption.
    + exact Hrw.
    + exact Hrh.
    + reflexivity.
    + intros _. split; [reflexivity|rewrite map_length; reflexivity].
    + intros E. exfalso. exact (Hne E).
Qed.

(* ------------------------------------------------------------ the Spec check *)

Theorem isync_shows_inline t w h r v above region below k :
  vW t = w -> vH t = h -> in_alt t = false ->
  isync w h r (vmain t) above region below k ->
  r_lastRender r = norm v -> r_lastLines r = frame_lines h (norm v) ->
  shows_inline t v = Some above.
Proof.
  intros HW HH Halt S Hlr Hll. destruct S as [G Hrw Hrh Hral Hcache Hnocache].
  destruct G as [Hw Hh Hb Hk HL Hwin Htape Hcur Hwa Hwr Hbl].
  destruct (Hcache ltac:(rewrite Hlr; apply norm_nonempty)) as [Hreg Hkk].
  rewrite Hll in Hreg.
  assert (Hne : region <> []).
  { rewrite Hreg. intros E. apply map_eq_nil in E. exact (frame_lines_nonempty h (norm v) Hh E). }
  apply (shows_inline_mk t v above region below Halt).
  - rewrite Hb, Hkk. reflexivity.
  - exact Hne.
  - rewrite HW, HH, (paint_frame w h v Hh). symmetry. exact Hreg.
  - rewrite HW. exact Hbl.
  - rewrite HH. exact Hwin.
Qed.
