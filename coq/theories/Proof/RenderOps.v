(* The combined coupling invariant between a terminal and the renderer state
   (inline or alt screen) and its preservation by every renderer operation
   except queued printed lines. *)
From Coq Require Import NArith List Bool Arith Lia.
Import ListNotations.
From BT Require Import Base.Bytes Model.VT Model.Renderer Spec.Screen Proof.BytesLemmas Proof.VTLemmas
  Proof.FlushProofs Proof.FlushSync Proof.RendererBasics Proof.RenderShows Proof.RenderInline Proof.RenderAlt.
Open Scope nat_scope.

(* ------------------------------------------------------------ list facts *)

Lemma rows_w_firstn w k rs : rows_w w rs -> rows_w w (firstn k rs).
Proof.
  revert rs. induction k as [|k IH]; intros rs H; [constructor|]. destruct rs as [|x rs]; [constructor|].
  cbn [firstn]. inversion H as [|? ? Hx Hrs]. constructor; [exact Hx|apply IH; exact Hrs].
Qed.

Lemma rows_w_skipn w k rs : rows_w w rs -> rows_w w (skipn k rs).
Proof.
  revert rs. induction k as [|k IH]; intros rs H; [exact H|]. destruct rs as [|x rs]; [constructor|].
  cbn [skipn]. inversion H as [|? ? Hx Hrs]. apply IH; exact Hrs.
Qed.

Lemma all_blank_firstn w k rs : all_blank w rs -> all_blank w (firstn k rs).
Proof.
  revert rs. induction k as [|k IH]; intros rs H; [constructor|]. destruct rs as [|x rs]; [constructor|].
  cbn [firstn]. inversion H as [|? ? Hx Hrs]. constructor; [exact Hx|apply IH; exact Hrs].
Qed.

Lemma all_blank_repeat w k : all_blank w (repeat (blank_row w) k).
Proof. induction k; constructor; [reflexivity|assumption]. Qed.

Lemma firstn_repeat' {A} (x : A) : forall n m, firstn n (repeat x m) = repeat x (Nat.min n m).
Proof.
  induction n as [|n IH]; intros m; [reflexivity|]. destruct m as [|m]; [reflexivity|].
  cbn [repeat firstn Nat.min]. rewrite IH. reflexivity.
Qed.

Lemma fit_row_length w r : length (fit_row w r) = w.
Proof. unfold fit_row. rewrite app_length, firstn_length, repeat_length. lia. Qed.

Lemma fit_row_blank w w0 : fit_row w (blank_row w0) = blank_row w.
Proof.
  unfold fit_row, blank_row. rewrite firstn_repeat', repeat_length, <- repeat_app. f_equal. lia.
Qed.

Lemma all_blank_map_fit w w0 rs : all_blank w0 rs -> all_blank w (map (fit_row w) rs).
Proof.
  induction rs as [|x rs IH]; intros H; [constructor|]. inversion H as [|? ? Hx Hrs]. cbn [map].
  constructor; [rewrite Hx; apply fit_row_blank|apply IH; exact Hrs].
Qed.

Lemma rows_w_map_fit w rs : rows_w w (map (fit_row w) rs).
Proof. induction rs; constructor; [apply fit_row_length|assumption]. Qed.

Lemma rows_w_repeat_blank w k : rows_w w (repeat (blank_row w) k).
Proof. apply all_blank_rows_w, all_blank_repeat. Qed.

Lemma rows_w_map_blank w (rs : list row) : rows_w w (map (fun _ => blank_row w) rs).
Proof. apply all_blank_rows_w, all_blank_map. Qed.

(* ------------------------------------------------------------ the combined invariant *)

(* rz = true: the terminal was resized while in the alt screen; from then on
   nothing is claimed about the main screen (its reflow is the terminal's
   business) and the history must stay in the alt screen. *)
Record SyncC (rz : bool) (W H : nat) (mb ab : buffer) (ia : bool) (r : rstate) (above : list row) : Prop := {
  sy_W : W = r_width r; sy_H : H = r_height r;
  sy_inalt : ia = r_alt r;
  sy_q : r_queued r = [];
  sy_lines : r_lastRender r <> [] -> r_lastLines r = frame_lines (r_height r) (r_lastRender r);
  sy_inline : r_alt r = false ->
    rz = false /\ exists region below k, isync (r_width r) (r_height r) r mb above region below k;
  sy_alt : r_alt r = true ->
    sync_alt (r_width r) (r_height r) r ab /\
    (rz = false -> exists region below k,                 (* the parked main screen *)
       igeom (r_width r) (r_height r) (r_linesRendered r) mb above region below k)
}.

Definition Sync (rz : bool) (t : vt) (r : rstate) (above : list row) : Prop :=
  SyncC rz (vW t) (vH t) (vmain t) (valt t) (in_alt t) r above.

(* what the invariant looks at *)
Definition cells (t : vt) := (vW t, vH t, vmain t, valt t, in_alt t).
Definition core (r : rstate) :=
  (r_queued r, r_lastRender r, r_lastLines r, r_linesRendered r, r_altLinesRendered r, r_alt r, r_width r, r_height r).

Lemma Sync_cells rz t t' r above : cells t' = cells t -> Sync rz t r above -> Sync rz t' r above.
Proof. unfold Sync, cells. intros E. injection E. intros -> -> -> -> ->. auto. Qed.

Lemma Sync_of_cells rz t r above W H mb ab ia :
  cells t = (W, H, mb, ab, ia) -> SyncC rz W H mb ab ia r above -> Sync rz t r above.
Proof. unfold Sync, cells. intros E. injection E. intros -> -> -> -> ->. auto. Qed.

Lemma cells_proj t W H mb ab ia : cells t = (W, H, mb, ab, ia) ->
  vW t = W /\ vH t = H /\ vmain t = mb /\ valt t = ab /\ in_alt t = ia.
Proof. unfold cells. intros E. injection E. intros. repeat split; assumption. Qed.

Lemma isync_core w h r r' b above region below k :
  core r' = core r -> isync w h r b above region below k -> isync w h r' b above region below k.
Proof.
  unfold core. intros E S. injection E. intros Eh Ew Ea EA EL Ell Elr Eq.
  destruct S as [G Hrw Hrh Halt Hcache Hnocache].
  constructor.
  - rewrite EL. exact G.
  - rewrite Ew. exact Hrw.
  - rewrite Eh. exact Hrh.
  - rewrite Ea. exact Halt.
  - rewrite Elr, Ell. exact Hcache.
  - rewrite Elr, Ell. exact Hnocache.
Qed.

Lemma sync_alt_core w h r r' b : core r' = core r -> sync_alt w h r b -> sync_alt w h r' b.
Proof.
  unfold core. intros E S. injection E. intros Eh Ew Ea EA EL Ell Elr Eq.
  destruct S as [Hw Hh Hrw Hrh Halt Hlen Hrows Hcrow Hblank Hcache Hnocache].
  constructor.
  - exact Hw.
  - exact Hh.
  - rewrite Ew. exact Hrw.
  - rewrite Eh. exact Hrh.
  - rewrite Ea. exact Halt.
  - exact Hlen.
  - exact Hrows.
  - exact Hcrow.
  - rewrite EA. exact Hblank.
  - rewrite Elr, Ell, EA. exact Hcache.
  - rewrite Elr, Ell. exact Hnocache.
Qed.

Lemma Sync_core rz t r r' above : core r' = core r -> Sync rz t r above -> Sync rz t r' above.
Proof.
  intros E S. pose proof E as E0. unfold core in E0. injection E0. intros Eh Ew Ea EA EL Ell Elr Eq.
  destruct S as [HW HH Hia Hq Hlines Hin Halt].
  constructor.
  - rewrite Ew. exact HW.
  - rewrite Eh. exact HH.
  - rewrite Ea. exact Hia.
  - rewrite Eq. exact Hq.
  - rewrite Elr, Ell, Eh. exact Hlines.
  - rewrite Ea, Ew, Eh. intros A. destruct (Hin A) as [Hrz (region & below & k & S)].
    split; [exact Hrz|]. exists region, below, k. apply (isync_core _ _ r r'); assumption.
  - rewrite Ea, Ew, Eh, EL. intros A. destruct (Halt A) as [S P].
    split; [apply (sync_alt_core _ _ r r'); assumption|exact P].
Qed.

(* invalid cache: geometry is all that is needed *)
Lemma isync_of_geom w h r b above region below k :
  igeom w h (r_linesRendered r) b above region below k ->
  r_width r = w -> r_height r = h -> r_alt r = false -> r_lastRender r = [] -> r_lastLines r = [] ->
  isync w h r b above region below k.
Proof.
  intros G Hrw Hrh Halt Hlr Hll. constructor; try assumption.
  - intros C. exfalso. exact (C Hlr).
  - intros _. exact Hll.
Qed.

Lemma sync_alt_nocache w h r b :
  0 < w -> 0 < h -> r_width r = w -> r_height r = h -> r_alt r = true ->
  length (tape b) = h -> rows_w w (tape b) -> crow (cur b) < h ->
  all_blank w (skipn (r_altLinesRendered r) (tape b)) ->
  r_lastRender r = [] -> r_lastLines r = [] -> sync_alt w h r b.
Proof.
  intros Hw Hh Hrw Hrh Halt Hlen Hrows Hcrow Hblank Hlr Hll. constructor; try assumption.
  - intros C. exfalso. exact (C Hlr).
  - intros _. exact Hll.
Qed.

(* ------------------------------------------------------------ write, repaint *)

Lemma core_write r s : core (r_write r s) = core r.
Proof. reflexivity. Qed.

Theorem Sync_write rz t r above s : Sync rz t r above -> Sync rz t (r_write r s) above.
Proof. apply Sync_core, core_write. Qed.

Theorem Sync_repaint rz t r above : Sync rz t r above -> Sync rz t (r_repaint r) above.
Proof.
  intros S. destruct S as [HW HH Hia Hq Hlines Hin Halt].
  constructor; cbn [r_repaint r_width r_height r_alt r_queued r_lastRender r_lastLines r_linesRendered].
  - exact HW.
  - exact HH.
  - exact Hia.
  - exact Hq.
  - intros C. exfalso. exact (C eq_refl).
  - intros A. destruct (Hin A) as [Hrz (region & below & k & S)]. split; [exact Hrz|].
    exists region, below, k. destruct S as [G Hrw Hrh Hral Hcache Hnocache].
    apply isync_of_geom; try reflexivity; assumption.
  - intros A. destruct (Halt A) as [S P]. split; [|exact P].
    destruct S as [Hw Hh Hrw Hrh Hral Hlen Hrows Hcrow Hblank Hcache Hnocache].
    apply sync_alt_nocache; try reflexivity; assumption.
Qed.

(* ------------------------------------------------------------ mode switches other than 1049 *)

Lemma cells_set_mode shared t m v : m <> 1049%N -> cells (set_mode shared t m v) = cells t.
Proof.
  intros Hm. unfold set_mode.
  destruct (m =? 25)%N; [reflexivity|].
  destruct (m =? 1002)%N; [reflexivity|].
  destruct (m =? 1003)%N; [reflexivity|].
  destruct (m =? 1006)%N; [reflexivity|].
  destruct (m =? 2004)%N; [reflexivity|].
  destruct (m =? 1004)%N; [reflexivity|].
  destruct (N.eqb_spec m 1049); [contradiction|reflexivity].
Qed.

Theorem Sync_mode shared rz t r r' above m (v : bool) :
  m <> 1049%N -> core r' = core r -> Sync rz t r above ->
  Sync rz (vt_run shared t [if v then TSet m else TReset m]) r' above.
Proof.
  intros Hm Hc S. apply (Sync_core rz _ r r' above Hc).
  apply (Sync_cells rz t); [|exact S].
  destruct v; cbn; apply cells_set_mode; exact Hm.
Qed.

(* ------------------------------------------------------------ flush *)

Lemma flush_cache r x : r_buf r = x -> x <> [] -> r_lastRender (fst (r_flush r)) = x.
Proof.
  intros Hb Hx. unfold r_flush. rewrite Hb. destruct x as [|c ct]; [congruence|].
  destruct (bytes_eqb (c :: ct) (r_lastRender r)) eqn:Q.
  - apply bytes_eqb_eq in Q. cbn [fst]. congruence.
  - reflexivity.
Qed.

Theorem Sync_flush shared rz t r above : Sync rz t r above ->
  Sync rz (vt_run shared t (snd (r_flush r))) (fst (r_flush r)) above.
Proof.
  intros S.
  destruct (r_buf r) as [|v0 vt0] eqn:Eb.
  { unfold r_flush. rewrite Eb. exact S. }
  destruct (bytes_eqb (v0 :: vt0) (r_lastRender r)) eqn:Q.
  { unfold r_flush. rewrite Eb, Q. exact S. }
  assert (Hne : v0 :: vt0 <> []) by discriminate.
  destruct S as [HW HH Hia Hq Hlines Hin Halt].
  rewrite vt_run_flush. unfold active. rewrite Hia, HW, HH.
  destruct (r_alt r) eqn:Ea.
  - (* alt screen *)
    destruct (Halt eq_refl) as [SA P].
    destruct (flush_alt _ _ r (valt t) (v0 :: vt0) SA Eb Hne Q) as (below' & Ebuf & Hbl & Hlen & Er & SA').
    set (b' := buf_run (r_width r) (r_height r) (valt t) (snd (r_flush r))) in *.
    destruct (with_active_alt t b' Hia) as [E1 E2].
    unfold Sync. rewrite with_active_W, with_active_H, with_active_in_alt, E1, E2.
    assert (Ec : r_width (fst (r_flush r)) = r_width r /\ r_height (fst (r_flush r)) = r_height r /\
                 r_alt (fst (r_flush r)) = true /\ r_queued (fst (r_flush r)) = r_queued r /\
                 r_linesRendered (fst (r_flush r)) = r_linesRendered r /\
                 r_lastRender (fst (r_flush r)) = v0 :: vt0 /\
                 r_lastLines (fst (r_flush r)) = frame_lines (r_height r) (v0 :: vt0)).
    { rewrite Er. repeat split; reflexivity. }
    destruct Ec as (Ew & Eh & Eal & Eq & EL & Elr & Ell).
    constructor.
    + rewrite Ew. exact HW.
    + rewrite Eh. exact HH.
    + rewrite Eal. exact Hia.
    + rewrite Eq. exact Hq.
    + intros _. rewrite Ell, Elr, Eh. reflexivity.
    + intros C. rewrite Eal in C. discriminate.
    + intros _. rewrite Ew, Eh, EL. split; [exact SA'|exact P].
  - (* inline *)
    destruct (Hin eq_refl) as [Hrz (region & below & k & SI)].
    destruct (flush_isync _ _ r (vmain t) above region below k (v0 :: vt0) SI Hq Eb Hne Q) as (below' & SI' & Er).
    set (b' := buf_run (r_width r) (r_height r) (vmain t) (snd (r_flush r))) in *.
    destruct (with_active_main t b' Hia) as [E1 E2].
    unfold Sync. rewrite with_active_W, with_active_H, with_active_in_alt, E1, E2.
    assert (Ec : r_width (fst (r_flush r)) = r_width r /\ r_height (fst (r_flush r)) = r_height r /\
                 r_alt (fst (r_flush r)) = false /\ r_queued (fst (r_flush r)) = [] /\
                 r_lastRender (fst (r_flush r)) = v0 :: vt0 /\
                 r_lastLines (fst (r_flush r)) = frame_lines (r_height r) (v0 :: vt0)).
    { rewrite Er. repeat split; reflexivity. }
    destruct Ec as (Ew & Eh & Eal & Eq & Elr & Ell).
    constructor.
    + rewrite Ew. exact HW.
    + rewrite Eh. exact HH.
    + rewrite Eal. exact Hia.
    + exact Eq.
    + intros _. rewrite Ell, Elr, Eh. reflexivity.
    + intros _. rewrite Ew, Eh. split; [exact Hrz|].
      exists (map (paint_row (r_width r)) (frame_lines (r_height r) (v0 :: vt0))), below',
             (length (frame_lines (r_height r) (v0 :: vt0)) - 1). exact SI'.
    + intros C. rewrite Eal in C. discriminate.
Qed.

(* what the screen shows whenever the cache is valid *)
Theorem Sync_shows rz t r above v : Sync rz t r above -> r_lastRender r = norm v ->
  if r_alt r then shows_alt t v = true else shows_inline t v = Some above.
Proof.
  intros S Hlr. destruct S as [HW HH Hia Hq Hlines Hin Halt].
  assert (Hll : r_lastLines r = frame_lines (r_height r) (norm v)).
  { rewrite <- Hlr. apply Hlines. rewrite Hlr. apply norm_nonempty. }
  destruct (r_alt r) eqn:Ea.
  - destruct (Halt eq_refl) as [SA _].
    apply (sync_alt_shows t (r_width r) (r_height r) r v HW HH Hia SA Hlr Hll).
  - destruct (Hin eq_refl) as [_ (region & below & k & SI)].
    apply (isync_shows_inline t (r_width r) (r_height r) r v above region below k HW HH Hia SI Hlr Hll).
Qed.

(* ------------------------------------------------------------ entering / leaving the alt screen *)

Lemma vt_run_cons shared t k ks : vt_run shared t (k :: ks) = vt_run shared (vt_apply shared t k) ks.
Proof. reflexivity. Qed.

Lemma vt_run_app shared t k1 k2 : vt_run shared t (k1 ++ k2) = vt_run shared (vt_run shared t k1) k2.
Proof. unfold vt_run. apply fold_left_app. Qed.

Lemma cells_alt_on shared t : in_alt t = false ->
  cells (set_mode shared t 1049 true) =
  (vW t, vH t, vmain t,
   mk (repeat (blank_row (vW t)) (vH t)) (crow (cur (vmain t)) - top (vH t) (vmain t)) (ccol (cur (vmain t))) false,
   true).
Proof. intros H. unfold set_mode. cbn [N.eqb Pos.eqb]. rewrite H. reflexivity. Qed.

Lemma cells_alt_off shared t : in_alt t = true ->
  cells (set_mode shared t 1049 false) = (vW t, vH t, vmain t, valt t, false).
Proof. intros H. unfold set_mode. cbn [N.eqb Pos.eqb]. rewrite H. reflexivity. Qed.

Lemma cells_vis_tok shared t r : cells (vt_apply shared t (vis_tok r)) = cells t.
Proof. unfold vis_tok. destruct (r_cursorHidden r); cbn [vt_apply]; apply cells_set_mode; discriminate. Qed.

(* ESC[2J ESC[H on a buffer that is exactly one window *)
Lemma clear_alt_buf w h b : length (tape b) = h ->
  buf_run w h b [TEDall; THome] = mk (map (fun _ => blank_row w) (tape b)) 0 0 false.
Proof.
  intros Hl. unfold buf_run. cbn [fold_left].
  assert (E1 : buf_apply w h b TEDall =
               mk (map (fun _ => blank_row w) (tape b)) (crow (cur b)) (ccol (cur b)) (cpend (cur b))).
  { unfold buf_apply. replace (top h b) with 0 by (unfold top; lia). reflexivity. }
  rewrite E1, buf_home. unfold top, mk. cbn [tape]. rewrite map_length, Hl, Nat.sub_diag. reflexivity.
Qed.

Theorem Sync_enter_alt shared rz t r above : Sync rz t r above ->
  Sync rz (vt_run shared t (snd (r_enter_alt r))) (fst (r_enter_alt r)) above.
Proof.
  intros S.
  assert (Hq0 : r_queued r = []) by (destruct S as [_ _ _ Hq0 _ _ _]; exact Hq0).
  rewrite (enter_alt_no_queue r Hq0).      (* no printed line is waiting in these histories: no flush before the switch *)
  unfold r_enter_alt_core. destruct (r_alt r) eqn:Ea; [exact S|]. cbn [fst snd].
  destruct S as [HW HH Hia Hq Hlines Hin Halt]. rewrite Ea in Hia.
  destruct (Hin Ea) as [Hrz (region & below & k & SI)].
  destruct SI as [G Hrw Hrh Hral Hcache Hnocache].
  pose proof (ig_w _ _ _ _ _ _ _ _ G) as Hw. pose proof (ig_h _ _ _ _ _ _ _ _ G) as Hh.
  (* the terminal *)
  set (t1 := set_mode shared t 1049 true).
  pose proof (cells_alt_on shared t Hia) as E1. fold t1 in E1.
  destruct (cells_proj _ _ _ _ _ _ E1) as (E1e & E1d & E1c & E1b & E1a).
  set (t2 := vt_run shared t1 [TEDall; THome]).
  assert (E2 : cells t2 = (vW t, vH t, vmain t,
                           mk (map (fun _ => blank_row (vW t)) (repeat (blank_row (vW t)) (vH t))) 0 0 false, true)).
  { unfold t2. rewrite (vt_run_cells shared [TEDall; THome] t1 eq_refl). unfold active. rewrite E1a.
    destruct (with_active_alt t1 (buf_run (vW t1) (vH t1) (valt t1) [TEDall; THome]) E1a) as [Ev Em].
    unfold cells. rewrite with_active_W, with_active_H, with_active_in_alt, Ev, Em, E1a, E1c, E1d, E1e, E1b.
    rewrite clear_alt_buf by (cbn [mk tape]; apply repeat_length). reflexivity. }
  assert (E3 : cells (vt_run shared t [TSet 1049; TEDall; THome; vis_tok r]) =
               (vW t, vH t, vmain t,
                mk (map (fun _ => blank_row (vW t)) (repeat (blank_row (vW t)) (vH t))) 0 0 false, true)).
  { change [TSet 1049; TEDall; THome; vis_tok r] with ([TSet 1049] ++ [TEDall; THome] ++ [vis_tok r]).
    rewrite !vt_run_app. change (vt_run shared t [TSet 1049]) with t1. fold t2.
    change (vt_run shared t2 [vis_tok r]) with (vt_apply shared t2 (vis_tok r)).
    rewrite cells_vis_tok. exact E2. }
  apply (Sync_of_cells _ _ _ _ _ _ _ _ _ E3).
  constructor; cbn [r_repaint r_width r_height r_alt r_queued r_lastRender r_lastLines r_linesRendered r_altLinesRendered].
  - exact HW.
  - exact HH.
  - reflexivity.
  - exact Hq.
  - intros C. exfalso. exact (C eq_refl).
  - intros C. discriminate.
  - intros _. split.
    + apply sync_alt_nocache; cbn [r_repaint r_width r_height r_alt r_lastRender r_lastLines r_altLinesRendered mk tape cur crow];
        try reflexivity.
      * exact Hw.
      * exact Hh.
      * rewrite map_length, repeat_length. exact HH.
      * rewrite HW. apply rows_w_map_blank.
      * exact Hh.
      * cbn [skipn]. rewrite HW. apply all_blank_map.
    + intros _. exists region, below, k. exact G.
Qed.

Theorem Sync_exit_alt shared t r above : Sync false t r above ->
  Sync false (vt_run shared t (snd (r_exit_alt r))) (fst (r_exit_alt r)) above.
Proof.
  intros S. unfold r_exit_alt. destruct (r_alt r) eqn:Ea; [|exact S]. cbn [negb fst snd].
  destruct S as [HW HH Hia Hq Hlines Hin Halt]. rewrite Ea in Hia.
  destruct (Halt Ea) as [SA P]. destruct (P eq_refl) as (region & below & k & G).
  assert (E3 : cells (vt_run shared t [TReset 1049; vis_tok r]) = (vW t, vH t, vmain t, valt t, false)).
  { change [TReset 1049; vis_tok r] with ([TReset 1049] ++ [vis_tok r]). rewrite vt_run_app.
    change (vt_run shared t [TReset 1049]) with (set_mode shared t 1049 false).
    change (vt_run shared (set_mode shared t 1049 false) [vis_tok r])
      with (vt_apply shared (set_mode shared t 1049 false) (vis_tok r)).
    rewrite cells_vis_tok. apply cells_alt_off. exact Hia. }
  apply (Sync_of_cells _ _ _ _ _ _ _ _ _ E3).
  constructor; cbn [r_repaint r_width r_height r_alt r_queued r_lastRender r_lastLines r_linesRendered r_altLinesRendered].
  - exact HW.
  - exact HH.
  - reflexivity.
  - exact Hq.
  - intros C. exfalso. exact (C eq_refl).
  - intros _. split; [reflexivity|]. exists region, below, k.
    apply isync_of_geom; try reflexivity. exact G.
  - intros C. discriminate.
Qed.

(* ------------------------------------------------------------ ClearScreen *)

Theorem Sync_clear_alt shared rz t r above : Sync rz t r above -> r_alt r = true ->
  Sync rz (vt_run shared t (snd (r_clear_screen r))) (fst (r_clear_screen r)) above.
Proof.
  intros S Ea. unfold r_clear_screen. cbn [fst snd].
  destruct S as [HW HH Hia Hq Hlines Hin Halt]. rewrite Ea in Hia.
  destruct (Halt Ea) as [SA P].
  destruct SA as [Hw Hh Hrw Hrh Hral Hlen Hrows Hcrow Hblank Hcache Hnocache].
  assert (E3 : cells (vt_run shared t [TEDall; THome]) =
               (vW t, vH t, vmain t, mk (map (fun _ => blank_row (vW t)) (tape (valt t))) 0 0 false, true)).
  { rewrite (vt_run_cells shared [TEDall; THome] t eq_refl). unfold active. rewrite Hia.
    destruct (with_active_alt t (buf_run (vW t) (vH t) (valt t) [TEDall; THome]) Hia) as [Ev Em].
    unfold cells. rewrite with_active_W, with_active_H, with_active_in_alt, Ev, Em, Hia.
    rewrite clear_alt_buf by (rewrite HH; exact Hlen). reflexivity. }
  apply (Sync_of_cells _ _ _ _ _ _ _ _ _ E3).
  constructor; cbn [r_repaint r_width r_height r_alt r_queued r_lastRender r_lastLines r_linesRendered r_altLinesRendered].
  - exact HW.
  - exact HH.
  - symmetry. exact Ea.
  - exact Hq.
  - intros C. exfalso. exact (C eq_refl).
  - intros C. rewrite Ea in C. discriminate.
  - intros _. split; [|exact P].
    apply sync_alt_nocache; cbn [r_repaint r_width r_height r_alt r_lastRender r_lastLines r_altLinesRendered mk tape cur crow];
      try reflexivity.
    + exact Hw.
    + exact Hh.
    + exact Ea.
    + rewrite map_length. exact Hlen.
    + rewrite HW. apply rows_w_map_blank.
    + exact Hh.
    + rewrite HW. apply all_blank_skipn, all_blank_map.
Qed.

(* inline: ESC[2J blanks the window, ESC[H parks the cursor on its top row; the
   renderer keeps its (now stale) line count and only drops the cache *)
Lemma clear_inline_geom w h L b above region below k :
  igeom w h L b above region below k ->
  exists region' below',
    igeom w h L (buf_run w h b [TEDall; THome])
          (firstn (top h (buf_run w h b [TEDall; THome])) (tape (buf_run w h b [TEDall; THome])))
          region' below' 0.
Proof.
  intros G. destruct G as [Hw Hh Hb Hk HL Hwin Htape Hcur Hwa Hwr Hbl].
  set (tp := above ++ region ++ below) in *.
  assert (Htl : length tp = length above + (length region + length below)).
  { unfold tp. rewrite !app_length. reflexivity. }
  set (T := length tp - h).
  set (U := map (fun _ : row => blank_row w) (skipn T tp)).
  assert (HU : length U = h) by (unfold U; rewrite map_length, skipn_length; unfold T; lia).
  assert (HfT : length (firstn T tp) = T) by (rewrite firstn_length; unfold T; lia).
  assert (Eb : buf_run w h b [TEDall; THome] = mk (firstn T tp ++ U) T 0 false).
  { rewrite Hb. unfold buf_run. cbn [fold_left].
    assert (E1 : buf_apply w h (mk tp (length above + k) 0 false) TEDall = mk (firstn T tp ++ U) (length above + k) 0 false).
    { reflexivity. }
    rewrite E1, buf_home. unfold top, mk. cbn [tape]. rewrite app_length, HfT, HU. f_equal. f_equal. unfold T. lia. }
  rewrite Eb.
  assert (Etop : top h (mk (firstn T tp ++ U) T 0 false) = T).
  { unfold top, mk. cbn [tape]. rewrite app_length, HfT, HU. lia. }
  rewrite Etop. cbn [mk tape].
  assert (Eab : firstn T (firstn T tp ++ U) = firstn T tp).
  { rewrite firstn_app, HfT, Nat.sub_diag, firstn_firstn, Nat.min_id. cbn [firstn]. apply app_nil_r. }
  rewrite Eab.
  assert (HwT : rows_w w tp).
  { unfold tp. apply rows_w_app; [exact Hwa|]. apply rows_w_app; [exact Hwr|apply all_blank_rows_w; exact Hbl]. }
  assert (HUb : all_blank w U) by (unfold U; apply all_blank_map).
  exists (firstn L U), (skipn L U).
  assert (HLh : L <= h) by lia.
  constructor.
  - exact Hw.
  - exact Hh.
  - rewrite firstn_skipn, HfT, Nat.add_0_r. reflexivity.
  - rewrite firstn_length, skipn_length, HU. lia.
  - rewrite firstn_length, HU. lia.
  - rewrite firstn_length, skipn_length, HU. lia.
  - rewrite HfT, firstn_length, skipn_length, HU. unfold T. lia.
  - right. split; [reflexivity|]. rewrite firstn_length, skipn_length, HU. lia.
  - apply rows_w_firstn. exact HwT.
  - apply all_blank_rows_w, all_blank_firstn. exact HUb.
  - apply all_blank_skipn. exact HUb.
Qed.

Theorem Sync_clear_inline shared t r above : Sync false t r above -> r_alt r = false ->
  Sync false (vt_run shared t (snd (r_clear_screen r))) (fst (r_clear_screen r))
       (firstn (top (vH (vt_run shared t (snd (r_clear_screen r)))) (vmain (vt_run shared t (snd (r_clear_screen r)))))
               (tape (vmain (vt_run shared t (snd (r_clear_screen r)))))).
Proof.
  intros S Ea. unfold r_clear_screen. cbn [fst snd].
  destruct S as [HW HH Hia Hq Hlines Hin Halt]. rewrite Ea in Hia.
  destruct (Hin Ea) as [_ (region & below & k & SI)].
  destruct SI as [G Hrw Hrh Hral Hcache Hnocache].
  set (b' := buf_run (vW t) (vH t) (vmain t) [TEDall; THome]).
  assert (E3 : cells (vt_run shared t [TEDall; THome]) = (vW t, vH t, b', valt t, false)).
  { rewrite (vt_run_cells shared [TEDall; THome] t eq_refl). unfold active. rewrite Hia.
    destruct (with_active_main t (buf_run (vW t) (vH t) (vmain t) [TEDall; THome]) Hia) as [Ev Em].
    unfold cells. rewrite with_active_W, with_active_H, with_active_in_alt, Ev, Em, Hia. reflexivity. }
  destruct (cells_proj _ _ _ _ _ _ E3) as (P1 & P2 & P3 & P4 & P5).
  rewrite P2, P3.
  apply (Sync_of_cells _ _ _ _ _ _ _ _ _ E3).
  rewrite <- HW, <- HH in G.
  destruct (clear_inline_geom _ _ _ _ _ _ _ _ G) as (region' & below' & G'). fold b' in G'.
  constructor; cbn [r_repaint r_width r_height r_alt r_queued r_lastRender r_lastLines r_linesRendered r_altLinesRendered].
  - exact HW.
  - exact HH.
  - symmetry. exact Ea.
  - exact Hq.
  - intros C. exfalso. exact (C eq_refl).
  - intros _. split; [reflexivity|]. exists region', below', 0.
    apply isync_of_geom; cbn [r_repaint r_width r_height r_alt r_lastRender r_lastLines r_linesRendered]; try reflexivity.
    + rewrite <- HW, <- HH. exact G'.
    + exact Ea.
  - intros C. rewrite Ea in C. discriminate.
Qed.

(* ------------------------------------------------------------ resize while in the alt screen *)

Theorem Sync_resize_alt rz t r above w h : Sync rz t r above -> r_alt r = true -> 0 < w -> 0 < h ->
  Sync true (resize_alt t w h) (r_window_size r w h) above.
Proof.
  intros S Ea Hw Hh.
  destruct S as [HW HH Hia Hq Hlines Hin Halt]. rewrite Ea in Hia.
  destruct (Halt Ea) as [SA _].
  destruct SA as [Hw0 Hh0 Hrw Hrh Hral Hlen Hrows Hcrow Hblank Hcache Hnocache].
  unfold Sync. cbn [resize_alt vW vH vmain valt in_alt].
  set (tp := tape (valt t)) in *.
  set (A := r_altLinesRendered r) in *.
  constructor; cbn [r_window_size r_repaint r_width r_height r_alt r_queued r_lastRender r_lastLines r_linesRendered r_altLinesRendered].
  - reflexivity.
  - reflexivity.
  - rewrite Hia. symmetry. exact Ea.
  - exact Hq.
  - intros C. exfalso. exact (C eq_refl).
  - intros C. rewrite Ea in C. discriminate.
  - intros _. split; [|intros C; discriminate].
    apply sync_alt_nocache;
      cbn [r_window_size r_repaint r_width r_height r_alt r_lastRender r_lastLines r_altLinesRendered mk tape cur crow];
      try reflexivity.
    + exact Hw.
    + exact Hh.
    + exact Ea.
    + rewrite app_length, map_length, firstn_length, repeat_length. lia.
    + apply rows_w_app; [apply rows_w_map_fit|apply rows_w_repeat_blank].
    + lia.
    + fold A. rewrite skipn_app. apply all_blank_app.
      * rewrite skipn_map, skipn_firstn_comm. apply (all_blank_map_fit w (r_width r)).
        apply all_blank_firstn. exact Hblank.
      * apply all_blank_skipn, all_blank_repeat.
Qed.

(* ------------------------------------------------------------ the start *)

Theorem Sync_init w h hist used : 0 < w -> 0 < h -> rows_w w hist -> used <= length hist -> used < h ->
  Sync false (vt_init w h hist used) (r_window_size r_init w h) hist.
Proof.
  intros Hw Hh Hhist Hu1 Hu2. unfold Sync. cbn [vt_init vW vH vmain valt in_alt].
  constructor; cbn [r_window_size r_repaint r_init r_width r_height r_alt r_queued r_lastRender r_lastLines r_linesRendered r_altLinesRendered].
  - reflexivity.
  - reflexivity.
  - reflexivity.
  - reflexivity.
  - intros C. exfalso. exact (C eq_refl).
  - intros _. split; [reflexivity|]. exists [], (repeat (blank_row w) (h - used)), 0.
    apply isync_of_geom; cbn [r_window_size r_repaint r_init r_width r_height r_alt r_lastRender r_lastLines r_linesRendered];
      try reflexivity.
    constructor.
    + exact Hw.
    + exact Hh.
    + cbn [app]. rewrite Nat.add_0_r. reflexivity.
    + cbn [length]. rewrite repeat_length. lia.
    + reflexivity.
    + cbn [length]. rewrite repeat_length. lia.
    + cbn [length]. rewrite repeat_length. lia.
    + left. reflexivity.
    + exact Hhist.
    + constructor.
    + apply all_blank_repeat.
  - intros C. discriminate.
Qed.
