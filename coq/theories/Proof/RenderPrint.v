(* C14: printed lines (Println).  A queued line on the terminal (wrapping at the
   margin, scrolling at the bottom), the flush with queued lines, and the
   append-only corollary for any interleaving of Write / Flush / Print.

   NOTE on the invariant.  FlushSync.sync_inline contains
     si_win  : |region| + |below| <= h     and     si_minh : h <= |region| + |below|
   i.e. the view starts exactly at the top of the window.  A flush with queued
   lines does NOT preserve si_minh (window of 10 rows, view of 3 rows at its
   top, one printed line: afterwards the printed row is the first row of the
   window and only 9 rows are left for region ++ below).  The invariant used
   here, sync_weak, is sync_inline with si_minh replaced by "the tape has a
   whole window" (h <= |above| + |region| + |below|).  sync_inline implies
   sync_weak; flush_weak covers both the queued and the not-queued flush. *)
From Coq Require Import NArith List Bool Arith Lia.
Import ListNotations.
From BT Require Import Base.Bytes Model.VT Model.Renderer Spec.Screen
  Proof.BytesLemmas Proof.VTLemmas Proof.FlushProofs Proof.FlushSync Proof.RendererBasics.
Open Scope nat_scope.

(* ------------------------------------------------------------ a character on a pending wrap *)

(* TChar with the pending-wrap flag set: line feed (scrolling if needed) to
   column 0 of the next row, then the character *)
Lemma bz_char_pend w h pre r post c g :
  exists r' post', next_rows w post = r' :: post' /\
    buf_apply w h (bz pre r post c true) (TChar g) =
    buf_apply w h (bz (pre ++ [r]) r' post' 0 false) (TChar g).
Proof.
  destruct (bz_lf w h pre r post c true) as (r' & post' & Hn & E).
  exists r', post'. split; [exact Hn|].
  change (buf_apply w h (bz pre r post c true) TLF) with (line_feed w (bz pre r post c true)) in E.
  change (put_char w (bz pre r post c true) g = put_char w (bz (pre ++ [r]) r' post' 0 false) g).
  unfold put_char at 1.
  change (cpend (cur (bz pre r post c true))) with true. cbv iota.
  rewrite E. reflexivity.
Qed.

(* the non-scrolling and the scrolling instance, spelled out *)
Lemma bz_char_pend_next w h pre r r' post c g :
  buf_apply w h (bz pre r (r' :: post) c true) (TChar g) =
  buf_apply w h (bz (pre ++ [r]) r' post 0 false) (TChar g).
Proof.
  destruct (bz_char_pend w h pre r (r' :: post) c g) as (x & y & Hn & E).
  cbn [next_rows] in Hn. injection Hn as <- <-. exact E.
Qed.

Lemma bz_char_pend_scroll w h pre r c g :
  buf_apply w h (bz pre r [] c true) (TChar g) =
  buf_apply w h (bz (pre ++ [r]) (blank_row w) [] 0 false) (TChar g).
Proof.
  destruct (bz_char_pend w h pre r [] c g) as (x & y & Hn & E).
  cbn [next_rows] in Hn. injection Hn as <- <-. exact E.
Qed.

(* ------------------------------------------------------------ wrap *)

Lemma chunk_fuel_indep w : 0 < w -> forall f1 f2 l, length l < f1 -> length l < f2 ->
  chunk_fuel f1 w l = chunk_fuel f2 w l.
Proof.
  intros Hw. induction f1 as [|f1 IH]; intros f2 l H1 H2; [lia|].
  destruct f2 as [|f2]; [lia|]. cbn [chunk_fuel].
  destruct (Nat.leb_spec (length l) w); [reflexivity|].
  f_equal. apply IH; rewrite skipn_length; lia.
Qed.

Lemma wrap_short w l : length l <= w -> wrap w l = [paint_row w l].
Proof.
  intros H. unfold wrap. cbn [chunk_fuel].
  destruct (Nat.leb_spec (length l) w); [reflexivity|lia].
Qed.

Lemma wrap_long w l : 0 < w -> w < length l -> wrap w l = firstn w l :: wrap w (skipn w l).
Proof.
  intros Hw H. unfold wrap.
  rewrite (chunk_fuel_indep w Hw (S (length (skipn w l))) (length l) (skipn w l))
    by (rewrite skipn_length; lia).
  cbn [chunk_fuel].
  destruct (Nat.leb_spec (length l) w); [lia|reflexivity].
Qed.

Lemma wrap_nonempty w l : 0 < w -> 1 <= length (wrap w l).
Proof.
  intros Hw. destruct (Nat.le_gt_cases (length l) w).
  - rewrite wrap_short by assumption. cbn. lia.
  - rewrite wrap_long by assumption. cbn. lia.
Qed.

Lemma wrap_rows_w w : 0 < w -> forall n l, length l <= n -> rows_w w (wrap w l).
Proof.
  intros Hw. induction n as [|n IH]; intros l Hl.
  - rewrite wrap_short by lia. constructor; [apply paint_row_length|constructor].
  - destruct (Nat.le_gt_cases (length l) w).
    + rewrite wrap_short by assumption. constructor; [apply paint_row_length|constructor].
    + rewrite wrap_long by assumption. constructor.
      * rewrite firstn_length. lia.
      * apply IH. rewrite skipn_length. lia.
Qed.

(* the number of rows a line occupies: ceil(|l| / w), at least one *)
Lemma wrap_length w : 0 < w -> forall n l, length l <= n ->
  length (wrap w l) = if Nat.eqb (length l) 0 then 1 else (length l + w - 1) / w.
Proof.
  intros Hw. induction n as [|n IH]; intros l Hl.
  - rewrite wrap_short by lia. destruct l; [reflexivity|cbn in Hl; lia].
  - destruct (Nat.le_gt_cases (length l) w) as [Hs|Hlg].
    + rewrite wrap_short by assumption. cbn [length].
      destruct (Nat.eqb_spec (length l) 0); [reflexivity|].
      apply Nat.div_unique with (r := length l - 1); lia.
    + rewrite wrap_long by assumption. cbn [length]. rewrite IH by (rewrite skipn_length; lia).
      rewrite skipn_length.
      destruct (Nat.eqb_spec (length l - w) 0); [lia|].
      destruct (Nat.eqb_spec (length l) 0); [lia|].
      replace (length l + w - 1) with ((length l - w + w - 1) + 1 * w) by lia.
      rewrite Nat.div_add by lia. lia.
Qed.

(* ------------------------------------------------------------ msg_line, cut at the margin *)

Lemma msg_line_short w l : 0 < w -> length l <= w ->
  msg_line w l = line_toks false false w l ++ [TCR; TLF].
Proof.
  intros Hw Hl. unfold msg_line, line_toks. cbn [andb app].
  replace (Nat.ltb 0 w) with true by (symmetry; apply Nat.ltb_lt; exact Hw).
  rewrite firstn_all2 by exact Hl. cbn [andb].
  rewrite <- app_assoc. f_equal. f_equal.
  destruct (Nat.ltb_spec (length l) w) as [Hlt|Hge].
  - rewrite Nat.mod_small by exact Hlt.
    destruct (Nat.eqb_spec (length l) 0); reflexivity.
  - assert (E : length l = w) by lia. rewrite E, Nat.mod_same by lia.
    destruct (Nat.eqb_spec w 0); [lia|reflexivity].
Qed.

Lemma msg_line_long w l : 0 < w -> w < length l ->
  msg_line w l = chars (firstn w l) ++ msg_line w (skipn w l).
Proof.
  intros Hw Hl. unfold msg_line. rewrite skipn_length.
  assert (Em : length l mod w = (length l - w) mod w).
  { replace (length l) with ((length l - w) + 1 * w) at 1 by lia. apply Nat.mod_add. lia. }
  rewrite Em.
  destruct (Nat.eqb_spec (length l) 0); [lia|].
  destruct (Nat.eqb_spec (length l - w) 0); [lia|].
  rewrite (app_assoc (chars (firstn w l))). f_equal.
  unfold chars. rewrite <- map_app, firstn_skipn. reflexivity.
Qed.

(* ------------------------------------------------------------ A1: one queued line *)

Lemma skipn_rows_w w k rs : rows_w w rs -> rows_w w (skipn k rs).
Proof.
  revert rs. induction k as [|k IH]; intros rs H; [exact H|]. destruct rs; [constructor|].
  cbn. apply IH. inversion H; assumption.
Qed.

(* the line fits on one row *)
Lemma msg_line_run_short w h l pre r0 post : 0 < w -> length l <= w -> length r0 = w ->
  exists r1 post1, next_rows w post = r1 :: post1 /\
    buf_run w h (bz pre r0 post 0 false) (msg_line w l) = bz (pre ++ [paint_row w l]) r1 post1 0 false.
Proof.
  intros Hw Hl Hr. rewrite msg_line_short by assumption. rewrite buf_run_app.
  destruct (paint_one w h pre r0 post l false false Hw Hr) as (c & p & _ & E). rewrite E.
  rewrite buf_run_cons, bz_cr, buf_run_cons, buf_run_nil.
  destruct (bz_lf w h pre (paint_row w l) post 0 false) as (r1 & post1 & Hn & E1).
  exists r1, post1. split; [exact Hn|exact E1].
Qed.

(* a full row of characters from column 0: the cursor stays on the last cell, wrap pending *)
Lemma write_full_row w h pre r0 post l : 0 < w -> length r0 = w -> length l = w ->
  buf_run w h (bz pre r0 post 0 false) (chars l) = bz pre l post (w - 1) true.
Proof.
  intros Hw Hr Hl. unfold chars.
  rewrite (write_chars w h pre post l r0 0 Hr) by (cbn [Nat.add]; lia || (left; exact Hw)).
  rewrite Hl. f_equal.
  - unfold write_row. cbn [firstn app Nat.add]. rewrite Hl, skipn_all2 by lia. apply app_nil_r.
  - unfold wc_col, end_col. destruct w; [lia|]. cbn [Nat.add]. rewrite Nat.eqb_refl. reflexivity.
  - unfold wc_pend, end_pend. destruct w; [lia|]. cbn [Nat.add]. rewrite Nat.eqb_refl. reflexivity.
Qed.

Lemma next_rows_length w X : length (next_rows w X) = Nat.max 1 (length X).
Proof. destruct X; cbn [next_rows length]; lia. Qed.

Lemma next_rows_skipn_next w k X : next_rows w (skipn k (next_rows w X)) = next_rows w (skipn k X).
Proof.
  destruct X as [|x X]; [|reflexivity]. cbn [next_rows]. rewrite skipn_nil.
  destruct k; [reflexivity|]. cbn [skipn]. rewrite skipn_nil. reflexivity.
Qed.

Theorem msg_line_run w h : 0 < w -> forall n l pre r0 post, length l <= n ->
  length r0 = w -> rows_w w post ->
  exists r1 post1, next_rows w (skipn (length (wrap w l)) (r0 :: post)) = r1 :: post1 /\
    buf_run w h (bz pre r0 post 0 false) (msg_line w l) = bz (pre ++ wrap w l) r1 post1 0 false.
Proof.
  intros Hw. induction n as [|n IH]; intros l pre r0 post Hn Hr Hp.
  - rewrite wrap_short by lia. cbn [length skipn].
    apply msg_line_run_short; [exact Hw|lia|exact Hr].
  - destruct (Nat.le_gt_cases (length l) w) as [Hs|Hlg].
    + rewrite wrap_short by exact Hs. cbn [length skipn].
      apply msg_line_run_short; assumption.
    + rewrite (wrap_long w l Hw Hlg), (msg_line_long w l Hw Hlg). rewrite buf_run_app.
      rewrite (write_full_row w h pre r0 post (firstn w l) Hw Hr) by (rewrite firstn_length; lia).
      (* the next character resolves the pending wrap *)
      assert (Hl' : length (skipn w l) <= n) by (rewrite skipn_length; lia).
      destruct (skipn w l) as [|g t] eqn:Esk.
      { exfalso. assert (length (skipn w l) = length l - w) by apply skipn_length.
        rewrite Esk in H. cbn in H. lia. }
      assert (Em : exists rest, msg_line w (g :: t) = TChar g :: rest) by (eexists; reflexivity).
      destruct Em as (rest & Em). rewrite Em, buf_run_cons.
      destruct (bz_char_pend w h pre (firstn w l) post (w - 1) g) as (r1 & post1 & Hn1 & E1).
      rewrite E1, <- buf_run_cons, <- Em.
      assert (Hp' : rows_w w (r1 :: post1)) by (rewrite <- Hn1; apply next_rows_w; exact Hp).
      apply Forall_cons_iff in Hp'. destruct Hp' as [Hr1 Hp1].
      destruct (IH (g :: t) (pre ++ [firstn w l]) r1 post1 Hl' Hr1 Hp1) as (r2 & post2 & Hn2 & E2).
      exists r2, post2. split.
      * cbn [length skipn]. rewrite <- Hn2, <- Hn1.
        rewrite skipn_next_rows by (apply wrap_nonempty; exact Hw). reflexivity.
      * rewrite E2, <- app_assoc. reflexivity.
Qed.

(* several queued lines, one after the other *)
Theorem msg_lines_run w h : 0 < w -> forall q pre r0 post, length r0 = w -> rows_w w post ->
  exists r1 post1,
    next_rows w (skipn (length (flat_map (wrap w) q)) (r0 :: post)) = r1 :: post1 /\
    buf_run w h (bz pre r0 post 0 false) (flat_map (msg_line w) q) =
    bz (pre ++ flat_map (wrap w) q) r1 post1 0 false.
Proof.
  intros Hw. induction q as [|l q IH]; intros pre r0 post Hr Hp.
  - exists r0, post. cbn [flat_map length skipn next_rows]. rewrite app_nil_r. split; reflexivity.
  - cbn [flat_map]. rewrite buf_run_app.
    destruct (msg_line_run w h Hw (length l) l pre r0 post (le_n _) Hr Hp) as (r1 & post1 & Hn1 & E1).
    rewrite E1.
    assert (Hp' : rows_w w (r1 :: post1)).
    { rewrite <- Hn1. apply next_rows_w, skipn_rows_w. constructor; assumption. }
    apply Forall_cons_iff in Hp'. destruct Hp' as [Hr1 Hp1].
    destruct (IH (pre ++ wrap w l) r1 post1 Hr1 Hp1) as (r2 & post2 & Hn2 & E2).
    exists r2, post2. split.
    + rewrite app_length, <- skipn_skipn', <- next_rows_skipn_next, Hn1. exact Hn2.
    + rewrite E2, <- app_assoc. reflexivity.
Qed.

(* ------------------------------------------------------------ the invariant *)

Record sync_weak (w h : nat) (r : rstate) (b : buffer) (above region below : list row) : Prop := {
  sw_w : 0 < w; sw_h : 0 < h;
  sw_rw : r_width r = w; sw_rh : r_height r = h;
  sw_alt : r_alt r = false;
  sw_at : at_region b above region below;
  sw_L : r_linesRendered r = length region;
  sw_win : length region + length below <= h;                       (* window top is not below the region *)
  sw_tape : h <= length above + length region + length below;       (* the tape has a whole window *)
  sw_wa : rows_w w above; sw_wr : rows_w w region;
  sw_below : all_blank w below;
  sw_cache : r_lastRender r <> [] -> region = map (paint_row w) (r_lastLines r);
  sw_nocache : r_lastRender r = [] -> r_lastLines r = []
}.

Lemma sync_inline_weak w h r b above region below :
  sync_inline w h r b above region below -> sync_weak w h r b above region below.
Proof.
  intros [Hw Hh Hrw Hrh Halt Hat HL Hwin Hminh Hwa Hwr Hbl Hcache Hnocache].
  constructor; try assumption; lia.
Qed.

Lemma sync_weak_inline w h r b above region below :
  sync_weak w h r b above region below -> h <= length region + length below ->
  sync_inline w h r b above region below.
Proof.
  intros [Hw Hh Hrw Hrh Halt Hat HL Hwin Htape Hwa Hwr Hbl Hcache Hnocache] Hm.
  constructor; try assumption; lia.
Qed.

(* what the invariant says about the tape: the rows above, then the view, then blank rows *)
Lemma sync_weak_tape w h r b above region below :
  sync_weak w h r b above region below ->
  tape b = above ++ region ++ below /\
  crow (cur b) = length above + (length region - 1) /\ ccol (cur b) = 0 /\ cpend (cur b) = false.
Proof.
  intros S. pose proof (sw_at _ _ _ _ _ _ _ S) as Hat. unfold at_region in Hat.
  destruct region as [|g rg].
  - destruct below as [|r0 below']; [contradiction|]. subst b. cbn. repeat split. lia.
  - subst b. unfold bz, mk. cbn [tape cur crow ccol cpend]. repeat split.
    + rewrite <- app_assoc. f_equal.
      change (List.last (g :: rg) [] :: below) with ([List.last (g :: rg) []] ++ below).
      rewrite app_assoc, removelast_last by discriminate. reflexivity.
    + rewrite app_length, removelast_length. reflexivity.
Qed.

(* ------------------------------------------------------------ A2: flush, inline, queued or not *)

Definition no_queue (r : rstate) : bool := match r_queued r with [] => true | _ => false end.

Definition flush_out_q (r : rstate) (lines : list bytes) : list tok :=
  (if Nat.ltb 1 (r_linesRendered r) then [cuu (r_linesRendered r - 1)] else []) ++
  flat_map (msg_line (r_width r)) (r_queued r) ++
  paint_lines true (no_queue r) (match r_lastRender r with [] => true | _ => false end) (r_width r) lines (r_lastLines r) ++
  (if Nat.ltb (length lines) (r_linesRendered r) && (Nat.eqb (r_height r) 0 || Nat.ltb (length lines) (r_height r))
   then [TCR; TLF; TEDbelow; cuu 1] else []) ++
  [cub (r_width r)].

Lemma r_flush_q_eq r v :
  r_buf r = v -> v <> [] -> bytes_eqb v (r_lastRender r) = false -> r_alt r = false ->
  r_flush r = (flush_state_inline r v (frame_lines (r_height r) v), flush_out_q r (frame_lines (r_height r) v)).
Proof.
  intros Hv Hne Hneq Halt.
  unfold r_flush, flush_out_q, flush_state_inline, frame_lines, last_lines_rendered, no_queue.
  rewrite Hv. destruct v as [|v0 vt]; [congruence|]. rewrite Hneq, Halt.
  destruct (r_queued r); reflexivity.
Qed.

Lemma coherent_false w : forall lines last rest, coherent w false lines last rest.
Proof.
  induction lines as [|l ls IH]; intros last rest; [exact I|]. cbn. split; [intros F; discriminate|apply IH].
Qed.

Lemma last_map_paint w (lines : list bytes) : lines <> [] ->
  List.last (map (paint_row w) lines) [] = paint_row w (List.last lines []).
Proof.
  induction lines as [|l0 ls IH]; intros H; [congruence|].
  destruct ls as [|l1 ls]; [reflexivity|]. cbn [map List.last] in *. apply IH. discriminate.
Qed.

Lemma at_region_painted w above (lines : list bytes) below c p : lines <> [] -> c = 0 -> p = false ->
  at_region (bz (above ++ map (paint_row w) (removelast lines)) (paint_row w (List.last lines [])) below c p)
            above (map (paint_row w) lines) below.
Proof.
  intros Hne -> ->. unfold at_region.
  destruct (map (paint_row w) lines) as [|m0 ms] eqn:Em.
  { exfalso. apply Hne. destruct lines; [reflexivity|discriminate]. }
  rewrite <- Em, <- map_removelast, last_map_paint by exact Hne. reflexivity.
Qed.

Theorem flush_weak w h r b above region below v :
  sync_weak w h r b above region below ->
  r_buf r = v -> v <> [] -> bytes_eqb v (r_lastRender r) = false ->
  exists below',
    let r' := fst (r_flush r) in
    let b' := buf_run w h b (snd (r_flush r)) in
    sync_weak w h r' b' (above ++ flat_map (wrap w) (r_queued r)) (map (paint_row w) (frame_lines h v)) below' /\
    r_lastRender r' = v /\ r_lastLines r' = frame_lines h v /\ r_buf r' = [] /\ r_queued r' = [].
Proof.
  intros S Hv Hne Hneq. destruct S as [Hw Hh Hrw Hrh Halt Hat HL Hwin Htape Hwa Hwr Hbl Hcache Hnocache].
  rewrite (r_flush_q_eq r v Hv Hne Hneq Halt). cbn [fst snd].
  unfold flush_out_q, flush_state_inline. rewrite Hrw, Hrh.
  set (lines := frame_lines h v).
  pose proof (frame_lines_bounds h v Hh) as [Hn1 Hnh]. fold lines in Hn1, Hnh.
  assert (Hlne : lines <> []) by (destruct lines; [cbn in Hn1; lia|discriminate]).
  set (n := length lines) in *.
  set (L := length region) in *.
  set (ce := match r_lastRender r with [] => true | _ => false end).
  set (q := r_queued r).
  set (P := flat_map (wrap w) q).
  set (K := length P).
  (* the rows at and below the start of the region *)
  set (under := region ++ below).
  assert (HU : length under = L + length below) by (unfold under, L; apply app_length).
  assert (Hunder_ne : under <> []).
  { unfold under. destruct region; [|discriminate]. cbn. destruct below; [cbn in Hat; contradiction|discriminate]. }
  assert (Hunder_w : rows_w w under) by (apply rows_w_app; [assumption|apply all_blank_rows_w; assumption]).
  (* after the head: cursor at column 0 of the first row of `under` *)
  assert (Hhead : buf_run w h b (if Nat.ltb 1 (r_linesRendered r) then [cuu (r_linesRendered r - 1)] else []) =
                  bz above (hd [] under) (tl under) 0 false).
  { rewrite HL. fold L. unfold under.
    destruct region as [|g0 rg] eqn:Er.
    - cbn in Hat. destruct below as [|r0 below']; [contradiction|]. rewrite Hat. reflexivity.
    - destruct rg as [|g1 rg'].
      + cbn in Hat |- *. rewrite app_nil_r in Hat. rewrite Hat. reflexivity.
      + assert (Hl2 : Nat.ltb 1 L = true) by (apply Nat.ltb_lt; unfold L; cbn; lia).
        rewrite Hl2. rewrite buf_run_cons, buf_run_nil. unfold cuu.
        replace (Nat.max 1 (L - 1)) with (L - 1) by (unfold L; cbn; lia).
        cbn [at_region] in Hat. rewrite Hat.
        set (reg := g0 :: g1 :: rg') in *.
        assert (Erl : removelast reg = g0 :: removelast (g1 :: rg')) by reflexivity.
        rewrite Erl.
        rewrite (bz_cuu w h above g0 (removelast (g1 :: rg')) (List.last reg []) below 0 false (L - 1)).
        * cbn [hd tl app]. f_equal. unfold reg. cbn [app tl].
          change (List.last (g0 :: g1 :: rg') []) with (List.last (g1 :: rg') []).
          transitivity ((removelast (g1 :: rg') ++ [List.last (g1 :: rg') []]) ++ below);
            [rewrite <- app_assoc; reflexivity|rewrite removelast_last by discriminate; reflexivity].
        * unfold L, reg. cbn [length]. rewrite removelast_length. cbn [length]. lia.
        * unfold L, reg in *. cbn [length] in *. lia. }
  rewrite !buf_run_app. rewrite Hhead.
  destruct under as [|u0 urest] eqn:Eu; [congruence|]. cbn [hd tl].
  assert (Hu0 : length u0 = w) by (inversion Hunder_w; assumption).
  assert (Hurest : rows_w w urest) by (inversion Hunder_w; assumption).
  (* the queued lines *)
  destruct (msg_lines_run w h Hw q above u0 urest Hu0 Hurest) as (r1 & post1 & Hnq & Eq).
  fold P in Hnq, Eq. fold K in Hnq. rewrite Eq. clear Eq.
  set (above2 := above ++ P).
  assert (Hunder2_w : rows_w w (r1 :: post1)).
  { rewrite <- Hnq. apply next_rows_w, skipn_rows_w. exact Hunder_w. }
  assert (Hr1 : length r1 = w) by (inversion Hunder2_w; assumption).
  assert (Hpost1 : rows_w w post1) by (inversion Hunder2_w; assumption).
  assert (Hlen2 : length (r1 :: post1) = Nat.max 1 (L + length below - K)).
  { rewrite <- Hnq, next_rows_length, skipn_length, HU. reflexivity. }
  (* the paint loop *)
  assert (Hcoh : coherent w (no_queue r) lines (r_lastLines r) (r1 :: post1)).
  { unfold no_queue. fold q. destruct q as [|q0 qs] eqn:Eqq.
    - (* nothing queued: the rows are the old region, described by the cache *)
      assert (E1 : r1 :: post1 = u0 :: urest).
      { rewrite <- Hnq. unfold K, P. reflexivity. }
      rewrite E1, <- Eu. unfold under.
      destruct (r_lastRender r) as [|c0 ct] eqn:Elr.
      + rewrite (Hnocache eq_refl). apply coherent_no_last.
      + rewrite (Hcache ltac:(discriminate)). apply coherent_of_cache.
    - apply coherent_false. }
  destruct (paint_lines_run w h Hw lines true (no_queue r) ce (r_lastLines r) above2 r1 post1 Hlne Hr1 Hpost1 Hcoh)
    as (c1 & p1 & Hc1 & Ebody).
  rewrite Ebody. clear Ebody. fold n.
  set (pre1 := above2 ++ map (paint_row w) (removelast lines)).
  set (rl := paint_row w (List.last lines [])).
  set (post2 := skipn n (r1 :: post1)).
  assert (Hlen3 : length post2 = Nat.max 1 (L + length below - K) - n).
  { unfold post2. rewrite skipn_length, Hlen2. reflexivity. }
  assert (Hpre1 : length pre1 = length above + K + (n - 1)).
  { unfold pre1, above2. rewrite !app_length, map_length, removelast_length. reflexivity. }
  assert (Hwa2 : rows_w w above2).
  { unfold above2, P. apply rows_w_app; [exact Hwa|].
    clear - Hw. induction q as [|l q IH]; [constructor|]. cbn [flat_map]. apply rows_w_app; [|exact IH].
    apply (wrap_rows_w w Hw (length l)). apply le_n. }
  assert (Hblank : L <= n -> all_blank w post2).
  { intros HLn. unfold post2. rewrite <- Hnq.
    rewrite skipn_next_rows by exact Hn1. rewrite skipn_skipn'. rewrite <- Eu. unfold under.
    rewrite skipn_app. rewrite (skipn_all2 region) by (fold L; lia). cbn [app].
    apply all_blank_skipn. exact Hbl. }
  rewrite HL. fold L.
  destruct (Nat.ltb_spec n L) as [HnL|HnL].
  - (* the frame shrank: stale rows of the old region may be left below *)
    assert (Hg : (Nat.eqb h 0 || Nat.ltb n h) = true).
    { apply orb_true_iff. right. apply Nat.ltb_lt. lia. }
    rewrite Hg. cbn [andb].
    unfold buf_run. cbn [fold_left].
    rewrite bz_cr.
    destruct (bz_lf w h pre1 rl post2 0 false) as (r3 & post3 & Hn3 & E3). rewrite E3.
    assert (Hlen4 : S (length post3) = Nat.max 1 (length post2)).
    { change (S (length post3)) with (length (r3 :: post3)). rewrite <- Hn3. apply next_rows_length. }
    rewrite bz_edbelow, erase_right_0.
    unfold cuu. cbn [Nat.max].
    rewrite (bz_cuu w h pre1 rl [] (blank_row w) (map (fun _ => blank_row w) post3) 0 false 1 eq_refl).
    2:{ rewrite map_length. lia. }
    unfold cub. rewrite bz_cub by lia.
    exists (blank_row w :: map (fun _ => blank_row w) post3).
    cbn zeta. split; [|repeat split; reflexivity].
    constructor; cbn [r_width r_height r_alt r_linesRendered r_lastRender r_lastLines].
    + exact Hw.
    + exact Hh.
    + reflexivity.
    + reflexivity.
    + reflexivity.
    + apply at_region_painted; [exact Hlne|reflexivity|reflexivity].
    + rewrite map_length. reflexivity.
    + rewrite map_length. fold n. cbn [length]. rewrite map_length. lia.
    + rewrite map_length. fold n. cbn [length]. rewrite map_length.
      fold P. fold above2. unfold above2. rewrite app_length. fold K. lia.
    + exact Hwa2.
    + apply rows_w_map_paint.
    + constructor; [reflexivity|apply all_blank_map].
    + intros _. reflexivity.
    + intros E. exfalso. exact (Hne E).
  - (* the frame did not shrink: whatever is left below is blank already *)
    cbn [andb]. unfold buf_run. cbn [fold_left]. unfold cub. rewrite bz_cub by lia.
    exists post2.
    cbn zeta. split; [|repeat split; reflexivity].
    constructor; cbn [r_width r_height r_alt r_linesRendered r_lastRender r_lastLines].
    + exact Hw.
    + exact Hh.
    + reflexivity.
    + reflexivity.
    + reflexivity.
    + apply at_region_painted; [exact Hlne|reflexivity|reflexivity].
    + rewrite map_length. reflexivity.
    + rewrite map_length. fold n. lia.
    + rewrite map_length. fold n. fold P. fold above2. unfold above2. rewrite app_length. fold K. lia.
    + exact Hwa2.
    + apply rows_w_map_paint.
    + apply Hblank. exact HnL.
    + intros _. reflexivity.
    + intros E. exfalso. exact (Hne E).
Qed.

(* the statement asked for, from the strong invariant: queued lines, invalid cache.
   The conclusion is sync_weak: si_minh is NOT preserved (see flush_queued_breaks_minh). *)
Corollary flush_inline_queued w h r b above region below q v :
  sync_inline w h r b above region below ->
  r_queued r = q -> q <> [] -> r_buf r = v -> v <> [] -> r_lastRender r = [] ->
  exists below',
    let r' := fst (r_flush r) in
    let b' := buf_run w h b (snd (r_flush r)) in
    sync_weak w h r' b' (above ++ flat_map (wrap w) q) (map (paint_row w) (frame_lines h v)) below' /\
    r_lastRender r' = v /\ r_lastLines r' = frame_lines h v /\ r_buf r' = [] /\ r_queued r' = [].
Proof.
  intros S Hq _ Hv Hne Hlr. subst q.
  apply (flush_weak w h r b above region below v); [apply sync_inline_weak; exact S|exact Hv|exact Hne|].
  rewrite Hlr. destruct v; [congruence|reflexivity].
Qed.

(* ... and the strong invariant is recovered whenever a whole window is left at and below the view,
   e.g. when the frame fills the window *)
Corollary flush_weak_full w h r b above region below v :
  sync_weak w h r b above region below ->
  r_buf r = v -> v <> [] -> bytes_eqb v (r_lastRender r) = false ->
  length (frame_lines h v) = h ->
  exists below',
    let r' := fst (r_flush r) in
    let b' := buf_run w h b (snd (r_flush r)) in
    sync_inline w h r' b' (above ++ flat_map (wrap w) (r_queued r)) (map (paint_row w) (frame_lines h v)) below'.
Proof.
  intros S Hv Hne Hneq Hn. destruct (flush_weak w h r b above region below v S Hv Hne Hneq) as (below' & S' & _).
  exists below'. cbn zeta in *. apply sync_weak_inline; [exact S'|]. rewrite map_length. lia.
Qed.

(* ------------------------------------------------------------ A3: Println only queues *)

Lemma lines_of_split_lines s : lines_of s = split_lines s.
Proof. induction s as [|c t IH]; [reflexivity|]. cbn. rewrite IH. reflexivity. Qed.

Lemma print_rows_split w body : print_rows w body = flat_map (wrap w) (split_lines body).
Proof. unfold print_rows. rewrite lines_of_split_lines. reflexivity. Qed.

Lemma print_line_alt r body : r_alt r = true -> r_print_line r body = r.
Proof. intros H. unfold r_print_line. rewrite H. reflexivity. Qed.

Lemma print_line_inline r body : r_alt r = false ->
  r_queued (r_print_line r body) = r_queued r ++ split_lines body /\
  r_lastRender (r_print_line r body) = [] /\ r_lastLines (r_print_line r body) = [] /\
  r_buf (r_print_line r body) = r_buf r /\ r_linesRendered (r_print_line r body) = r_linesRendered r /\
  r_width (r_print_line r body) = r_width r /\ r_height (r_print_line r body) = r_height r /\
  r_alt (r_print_line r body) = false.
Proof. intros H. unfold r_print_line. rewrite H. cbn. repeat split. Qed.

(* the invariants only look at width, height, mode, line count and the cache *)
Lemma sync_weak_ext w h r r' b above region below :
  sync_weak w h r b above region below ->
  r_width r' = r_width r -> r_height r' = r_height r -> r_alt r' = r_alt r ->
  r_linesRendered r' = r_linesRendered r ->
  (r_lastRender r' = r_lastRender r /\ r_lastLines r' = r_lastLines r) \/
  (r_lastRender r' = [] /\ r_lastLines r' = []) ->
  sync_weak w h r' b above region below.
Proof.
  intros [Hw Hh Hrw Hrh Halt Hat HL Hwin Htape Hwa Hwr Hbl Hcache Hnocache] Ew Eh Ea El Ec.
  constructor; try assumption; try congruence.
  - destruct Ec as [[E1 E2]|[E1 E2]]; [rewrite E1, E2; exact Hcache|rewrite E1; congruence].
  - destruct Ec as [[E1 E2]|[E1 E2]]; [rewrite E1, E2; exact Hnocache|intros _; exact E2].
Qed.

Lemma sync_inline_ext w h r r' b above region below :
  sync_inline w h r b above region below ->
  r_width r' = r_width r -> r_height r' = r_height r -> r_alt r' = r_alt r ->
  r_linesRendered r' = r_linesRendered r ->
  (r_lastRender r' = r_lastRender r /\ r_lastLines r' = r_lastLines r) \/
  (r_lastRender r' = [] /\ r_lastLines r' = []) ->
  sync_inline w h r' b above region below.
Proof.
  intros S Ew Eh Ea El Ec.
  apply sync_weak_inline; [|exact (si_minh _ _ _ _ _ _ _ S)].
  apply (sync_weak_ext w h r r'); try assumption. apply sync_inline_weak. exact S.
Qed.

Theorem print_line_weak w h r b above region below body :
  sync_weak w h r b above region below ->
  sync_weak w h (r_print_line r body) b above region below /\
  r_queued (r_print_line r body) = r_queued r ++ split_lines body /\
  r_lastRender (r_print_line r body) = [] /\ r_buf (r_print_line r body) = r_buf r.
Proof.
  intros S. destruct (print_line_inline r body (sw_alt _ _ _ _ _ _ _ S)) as (Eq & Elr & Ell & Eb & EL & Ew & Eh & Ea).
  split; [|repeat split; assumption].
  apply (sync_weak_ext w h r); try assumption.
  - rewrite Ea. symmetry. exact (sw_alt _ _ _ _ _ _ _ S).
  - right. split; assumption.
Qed.

Theorem print_line_sync w h r b above region below body :
  sync_inline w h r b above region below ->
  sync_inline w h (r_print_line r body) b above region below /\
  r_queued (r_print_line r body) = r_queued r ++ split_lines body /\
  r_lastRender (r_print_line r body) = [] /\ r_buf (r_print_line r body) = r_buf r.
Proof.
  intros S. destruct (print_line_weak w h r b above region below body (sync_inline_weak _ _ _ _ _ _ _ S)) as (S' & R).
  split; [|exact R]. apply sync_weak_inline; [exact S'|exact (si_minh _ _ _ _ _ _ _ S)].
Qed.

Lemma write_weak w h r b above region below v :
  sync_weak w h r b above region below -> sync_weak w h (r_write r v) b above region below.
Proof. intros S. apply (sync_weak_ext w h r); try reflexivity; [exact S|left; split; reflexivity]. Qed.

Lemma write_sync w h r b above region below v :
  sync_inline w h r b above region below -> sync_inline w h (r_write r v) b above region below.
Proof. intros S. apply (sync_inline_ext w h r); try reflexivity; [exact S|left; split; reflexivity]. Qed.

(* ------------------------------------------------------------ A4: append-only, any interleaving *)

Definition c14_op (o : rop) : bool := match o with OWrite _ | OFlush | OPrint _ => true | _ => false end.

(* renderer and terminal buffer side by side *)
Fixpoint run_ops (w h : nat) (r : rstate) (b : buffer) (ops : list rop) : rstate * buffer :=
  match ops with
  | [] => (r, b)
  | o :: t => run_ops w h (fst (r_step r o)) (buf_run w h b (snd (r_step r o))) t
  end.

(* bookkeeping of the prints, independent of the terminal: which bodies have
   reached the screen (in order), which are still waiting *)
Record ptrack := { pt_frame : bytes;            (* frame written since the last render, [] = none *)
                   pt_shown : bytes;            (* frame the renderer considers on screen, [] = none *)
                   pt_queued : list bytes;      (* printed, waiting for the next render *)
                   pt_flushed : list bytes }.   (* printed and on the terminal *)

Definition pt_flush_noop (s : ptrack) : bool :=
  match pt_frame s with [] => true | _ => bytes_eqb (pt_frame s) (pt_shown s) end.

Definition pt_step (s : ptrack) (o : rop) : ptrack :=
  match o with
  | OWrite v => {| pt_frame := norm v; pt_shown := pt_shown s; pt_queued := pt_queued s; pt_flushed := pt_flushed s |}
  | OPrint body => {| pt_frame := pt_frame s; pt_shown := []; pt_queued := pt_queued s ++ [body]; pt_flushed := pt_flushed s |}
  | OFlush => if pt_flush_noop s then s
              else {| pt_frame := []; pt_shown := pt_frame s; pt_queued := []; pt_flushed := pt_flushed s ++ pt_queued s |}
  | _ => s
  end.
Definition pt_run (s : ptrack) (ops : list rop) : ptrack := fold_left pt_step ops s.
Definition pt_init (r : rstate) : ptrack :=
  {| pt_frame := r_buf r; pt_shown := r_lastRender r; pt_queued := []; pt_flushed := [] |}.

Definition prints_of (ops : list rop) : list bytes :=
  flat_map (fun o => match o with OPrint body => [body] | _ => [] end) ops.

(* every print is on the terminal or waiting: none lost, none duplicated, order kept *)
Lemma pt_conserve : forall ops s,
  pt_flushed (pt_run s ops) ++ pt_queued (pt_run s ops) = pt_flushed s ++ pt_queued s ++ prints_of ops.
Proof.
  induction ops as [|o ops IH]; intros s.
  - cbn. rewrite app_nil_r. reflexivity.
  - unfold pt_run in *. cbn [fold_left]. rewrite IH. clear IH.
    destruct o; cbn [pt_step prints_of flat_map app]; try reflexivity.
    + destruct (pt_flush_noop s); [reflexivity|]. cbn [pt_flushed pt_queued]. rewrite <- app_assoc. reflexivity.
    + cbn [pt_flushed pt_queued]. rewrite <- !app_assoc. reflexivity.
Qed.

(* what is on the terminal only grows at the end *)
Lemma pt_flushed_mono : forall ops s, exists ext, pt_flushed (pt_run s ops) = pt_flushed s ++ ext.
Proof.
  induction ops as [|o ops IH]; intros s.
  - exists []. cbn. rewrite app_nil_r. reflexivity.
  - unfold pt_run in *. cbn [fold_left]. destruct (IH (pt_step s o)) as (ext & E). rewrite E.
    destruct o; cbn [pt_step pt_flushed]; try (exists ext; reflexivity).
    destruct (pt_flush_noop s); [exists ext; reflexivity|]. cbn [pt_flushed].
    exists (pt_queued s ++ ext). rewrite <- app_assoc. reflexivity.
Qed.

Definition track_ok (s : ptrack) (r : rstate) : Prop :=
  pt_frame s = r_buf r /\ pt_shown s = r_lastRender r /\ r_queued r = flat_map split_lines (pt_queued s).

Lemma r_flush_noop r : r_buf r = [] \/ bytes_eqb (r_buf r) (r_lastRender r) = true -> r_flush r = (r, []).
Proof.
  intros H. unfold r_flush. destruct (r_buf r) as [|c t]; [reflexivity|].
  destruct H as [H|H]; [discriminate|]. rewrite H. reflexivity.
Qed.

Lemma flat_map_flat_map {A B C} (f : B -> list C) (g : A -> list B) (l : list A) :
  flat_map f (flat_map g l) = flat_map (fun x => flat_map f (g x)) l.
Proof.
  induction l as [|x l IH]; [reflexivity|]. cbn [flat_map]. rewrite flat_map_app, IH. reflexivity.
Qed.

Lemma wrap_queued_rows w bodies :
  flat_map (wrap w) (flat_map split_lines bodies) = flat_map (print_rows w) bodies.
Proof.
  rewrite flat_map_flat_map. apply flat_map_ext. intros body. symmetry. apply print_rows_split.
Qed.

Lemma c14_step w h A0 s r b o region below : c14_op o = true ->
  sync_weak w h r b (A0 ++ flat_map (print_rows w) (pt_flushed s)) region below -> track_ok s r ->
  exists region' below',
    sync_weak w h (fst (r_step r o)) (buf_run w h b (snd (r_step r o)))
              (A0 ++ flat_map (print_rows w) (pt_flushed (pt_step s o))) region' below' /\
    track_ok (pt_step s o) (fst (r_step r o)).
Proof.
  intros Ho S (Tf & Ts & Tq). destruct o; try discriminate; cbn [r_step fst snd pt_step].
  - (* Write *)
    exists region, below. rewrite buf_run_nil. split; [apply write_weak; exact S|].
    unfold track_ok. cbn [pt_frame pt_shown pt_queued]. rewrite r_write_buf, write_keeps_cache.
    repeat split; assumption.
  - (* Flush *)
    destruct (pt_flush_noop s) eqn:En.
    + rewrite r_flush_noop.
      * cbn [fst snd]. rewrite buf_run_nil. exists region, below. split; [exact S|]. repeat split; assumption.
      * unfold pt_flush_noop in En. rewrite Tf, Ts in En.
        destruct (r_buf r); [left; reflexivity|right; exact En].
    + unfold pt_flush_noop in En. rewrite Tf, Ts in En.
      assert (Hne : r_buf r <> []) by (intros E; rewrite E in En; discriminate).
      assert (Hneq : bytes_eqb (r_buf r) (r_lastRender r) = false) by (destruct (r_buf r); [congruence|exact En]).
      destruct (flush_weak w h r b _ region below (r_buf r) S eq_refl Hne Hneq) as (below' & S' & Elr & _ & Eb & Eq).
      cbn zeta in *.
      exists (map (paint_row w) (frame_lines h (r_buf r))), below'. split.
      * cbn [pt_flushed]. rewrite flat_map_app, app_assoc, <- (wrap_queued_rows w (pt_queued s)), <- Tq. exact S'.
      * unfold track_ok. cbn [pt_frame pt_shown pt_queued]. rewrite Eb, Elr, Eq. repeat split. exact Tf.
  - (* Print *)
    exists region, below. rewrite buf_run_nil.
    destruct (print_line_weak w h r b _ region below body S) as (S' & Eq & Elr & Eb).
    split; [exact S'|].
    unfold track_ok. cbn [pt_frame pt_shown pt_queued]. rewrite Eb, Elr, Eq, Tq, flat_map_app.
    cbn [flat_map]. rewrite app_nil_r. repeat split. exact Tf.
Qed.

Theorem c14_run w h A0 : forall ops s r b region below, forallb c14_op ops = true ->
  sync_weak w h r b (A0 ++ flat_map (print_rows w) (pt_flushed s)) region below -> track_ok s r ->
  exists region' below',
    sync_weak w h (fst (run_ops w h r b ops)) (snd (run_ops w h r b ops))
              (A0 ++ flat_map (print_rows w) (pt_flushed (pt_run s ops))) region' below' /\
    track_ok (pt_run s ops) (fst (run_ops w h r b ops)).
Proof.
  induction ops as [|o ops IH]; intros s r b region below Hops S T.
  - exists region, below. split; assumption.
  - cbn [forallb] in Hops. apply andb_true_iff in Hops. destruct Hops as [Ho Hops].
    destruct (c14_step w h A0 s r b o region below Ho S T) as (region1 & below1 & S1 & T1).
    cbn [run_ops]. unfold pt_run. cbn [fold_left].
    exact (IH (pt_step s o) _ _ region1 below1 Hops S1 T1).
Qed.

(* C14.  After any interleaving of Write / Flush / Print from a synchronised
   state with nothing queued: the tape is  above0 ++ rows of the prints that
   reached the terminal (each exactly once, in print order) ++ the view ++
   blank rows; the other prints are exactly the renderer's queue. *)
Theorem C14_append_only_proof w h r b above0 region below ops :
  sync_inline w h r b above0 region below -> r_queued r = [] ->
  forallb c14_op ops = true ->
  let s := pt_run (pt_init r) ops in
  let r' := fst (run_ops w h r b ops) in
  let b' := snd (run_ops w h r b ops) in
  exists region' below',
    sync_weak w h r' b' (above0 ++ flat_map (print_rows w) (pt_flushed s)) region' below' /\
    tape b' = (above0 ++ flat_map (print_rows w) (pt_flushed s)) ++ region' ++ below' /\
    r_queued r' = flat_map split_lines (pt_queued s) /\
    pt_flushed s ++ pt_queued s = prints_of ops.
Proof.
  intros S Hq Hops. cbn zeta.
  destruct (c14_run w h above0 ops (pt_init r) r b region below Hops) as (region' & below' & S' & (_ & _ & Tq)).
  - cbn [pt_init pt_flushed flat_map]. rewrite app_nil_r. apply sync_inline_weak. exact S.
  - unfold track_ok, pt_init. cbn. repeat split. exact Hq.
  - exists region', below'. split; [exact S'|]. split; [exact (proj1 (sync_weak_tape _ _ _ _ _ _ _ S'))|].
    split; [exact Tq|]. rewrite pt_conserve. reflexivity.
Qed.

(* never overwritten: the rows above the view after a prefix of the history
   are a prefix of the rows above the view later on *)
Theorem C14_prefix_stable_proof w above0 r ops1 ops2 :
  exists more,
    above0 ++ flat_map (print_rows w) (pt_flushed (pt_run (pt_init r) (ops1 ++ ops2))) =
    (above0 ++ flat_map (print_rows w) (pt_flushed (pt_run (pt_init r) ops1))) ++ more.
Proof.
  unfold pt_run. rewrite fold_left_app.
  destruct (pt_flushed_mono ops2 (fold_left pt_step ops1 (pt_init r))) as (ext & E).
  unfold pt_run in E. rewrite E. exists (flat_map (print_rows w) ext).
  rewrite flat_map_app, app_assoc. reflexivity.
Qed.

(* ------------------------------------------------------------ the hypotheses are satisfiable *)

Lemma sync_inline_init w h hist : 0 < w -> 0 < h -> rows_w w hist ->
  sync_inline w h (r_window_size r_init w h)
              (mk (hist ++ repeat (blank_row w) h) (length hist) 0 false) hist [] (repeat (blank_row w) h).
Proof.
  intros Hw Hh Hhist. constructor; cbn [r_window_size r_repaint r_width r_height r_alt r_linesRendered r_lastRender r_lastLines r_init length].
  - exact Hw.
  - exact Hh.
  - reflexivity.
  - reflexivity.
  - reflexivity.
  - unfold at_region. destruct h as [|h']; [lia|]. cbn [repeat]. reflexivity.
  - reflexivity.
  - rewrite repeat_length. lia.
  - rewrite repeat_length. lia.
  - exact Hhist.
  - constructor.
  - apply Forall_forall. intros x Hx. apply repeat_spec in Hx. exact Hx.
  - intros F. congruence.
  - reflexivity.
Qed.

(* si_minh is not preserved by a flush with queued lines: 2x3 window, print "x", view "a" *)
Theorem flush_queued_breaks_minh :
  let w := 2 in let h := 3 in
  let r0 := r_window_size r_init w h in
  let b0 := mk (repeat (blank_row w) h) 0 0 false in
  let r1 := r_write (r_print_line r0 [120%N]) [97%N] in
  sync_inline w h r1 b0 [] [] (repeat (blank_row w) h) /\
  forall region' below',
    ~ sync_inline w h (fst (r_flush r1)) (buf_run w h b0 (snd (r_flush r1)))
                  ([] ++ flat_map (wrap w) (r_queued r1)) region' below'.
Proof.
  cbn zeta. split.
  - apply write_sync. apply print_line_sync.
    apply (sync_inline_init 2 3 []); [lia|lia|constructor].
  - intros region' below' S.
    pose proof (si_minh _ _ _ _ _ _ _ S) as Hm.
    pose proof (si_L _ _ _ _ _ _ _ S) as HL.
    destruct (sync_weak_tape _ _ _ _ _ _ _ (sync_inline_weak _ _ _ _ _ _ _ S)) as (Ht & _).
    apply (f_equal (@length _)) in Ht. rewrite !app_length in Ht.
    match type of Ht with ?a = ?x + (_ + _) =>
      assert (Ea : a = 3) by (vm_compute; reflexivity);
      assert (Ex : x = 1) by (vm_compute; reflexivity) end.
    match type of HL with ?a = _ => assert (El : a = 1) by (vm_compute; reflexivity) end.
    rewrite Ea, Ex in Ht. rewrite El in HL. lia.
Qed.

(* ------------------------------------------------------------ fuel-free restatements *)

Corollary wrap_rows_width w l : 0 < w -> rows_w w (wrap w l).
Proof. intros Hw. apply (wrap_rows_w w Hw (length l)). apply le_n. Qed.

Corollary wrap_rows_count w l : 0 < w ->
  length (wrap w l) = if Nat.eqb (length l) 0 then 1 else (length l + w - 1) / w.
Proof. intros Hw. apply (wrap_length w Hw (length l)). apply le_n. Qed.

Corollary msg_line_on_terminal w h l pre r0 post : 0 < w -> length r0 = w -> rows_w w post ->
  exists r1 post1, next_rows w (skipn (length (wrap w l)) (r0 :: post)) = r1 :: post1 /\
    buf_run w h (bz pre r0 post 0 false) (msg_line w l) = bz (pre ++ wrap w l) r1 post1 0 false.
Proof. intros Hw. apply (msg_line_run w h Hw (length l)). apply le_n. Qed.

Corollary wrap_rows_facts w l : 0 < w ->
  rows_w w (wrap w l) /\
  length (wrap w l) = if Nat.eqb (length l) 0 then 1 else (length l + w - 1) / w.
Proof. intros Hw. split; [exact (wrap_rows_width w l Hw)|exact (wrap_rows_count w l Hw)]. Qed.
