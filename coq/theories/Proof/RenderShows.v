(* Ties between the Prop-level coupling invariants and the boolean Spec
   (Spec/Screen.v): paint = painted frame lines, shows_inline from sync_inline,
   and the lifting of cell-token runs from a buffer to the whole terminal. *)
From Coq Require Import NArith List Bool Arith Lia.
Import ListNotations.
From BT Require Import Base.Bytes Model.VT Model.Renderer Spec.Screen Proof.BytesLemmas Proof.VTLemmas
  Proof.FlushProofs Proof.FlushSync Proof.RendererBasics.
Open Scope nat_scope.

(* ------------------------------------------------------------ paint = painted frame lines *)

Lemma lines_of_split s : lines_of s = split_lines s.
Proof. induction s as [|c t IH]; [reflexivity|]. cbn. rewrite IH. reflexivity. Qed.

Lemma lastn_frame {A} h (l : list A) : 0 < h ->
  lastn h l = if Nat.ltb 0 h && Nat.ltb h (length l) then skipn (length l - h) l else l.
Proof.
  intros Hh. unfold lastn. destruct (Nat.ltb_spec 0 h); [|lia]. cbn [andb].
  destruct (Nat.ltb_spec h (length l)); [reflexivity|].
  replace (length l - h) with 0 by lia. reflexivity.
Qed.

Lemma paint_frame w h v : 0 < h -> paint w h v = map (paint_row w) (frame_lines h (norm v)).
Proof.
  intros Hh. unfold paint, frame_lines, norm.
  rewrite lines_of_split, (lastn_frame h _ Hh). reflexivity.
Qed.

Lemma frame_lines_nonempty h v : 0 < h -> frame_lines h v <> [].
Proof.
  intros Hh E. pose proof (frame_lines_bounds h v Hh) as [H1 _]. rewrite E in H1. cbn in H1. lia.
Qed.

(* ------------------------------------------------------------ boolean checks *)

Lemma rows_eqb_refl a : rows_eqb a a = true.
Proof. induction a as [|x a IH]; [reflexivity|]. cbn. rewrite bytes_eqb_refl, IH. reflexivity. Qed.

Lemma is_blank_row_blank w : is_blank_row (blank_row w) = true.
Proof.
  unfold is_blank_row, blank_row. induction w as [|w IH]; [reflexivity|].
  cbn [repeat all_bytes]. rewrite IH. unfold blank. rewrite N.eqb_refl. reflexivity.
Qed.

Lemma forallb_all_blank w rs : all_blank w rs -> forallb is_blank_row rs = true.
Proof.
  induction rs as [|x rs IH]; intros H; [reflexivity|]. inversion H as [|? ? Hx Hrs]. subst.
  cbn [forallb]. rewrite is_blank_row_blank, (IH Hrs). reflexivity.
Qed.

(* ------------------------------------------------------------ shows_inline from the zipper *)

Lemma shows_inline_mk t v above region below :
  in_alt t = false ->
  vmain t = mk (above ++ region ++ below) (length above + (length region - 1)) 0 false ->
  region <> [] -> paint (vW t) (vH t) v = region ->
  all_blank (vW t) below ->
  length region + length below <= vH t ->
  shows_inline t v = Some above.
Proof.
  intros Halt Hb Hne Hreg Hbl Hwin. unfold shows_inline. rewrite Hreg, Halt, Hb.
  cbn [mk cur tape crow ccol cpend negb Nat.eqb andb].
  set (n := length region).
  assert (Hn : 1 <= n) by (unfold n; destruct region; [congruence|cbn; lia]).
  replace (S (length above + (n - 1)) - n) with (length above) by lia.
  replace (S (length above + (n - 1))) with (length above + n) by lia.
  assert (E1 : Nat.leb n (length above + n) = true) by (apply Nat.leb_le; lia).
  assert (E2 : Nat.leb (top (vH t) (mk (above ++ region ++ below) (length above + (n - 1)) 0 false))
                       (length above) = true).
  { apply Nat.leb_le. unfold top, mk. cbn [tape]. rewrite !app_length. fold n. lia. }
  assert (E3 : Nat.ltb (length above + (n - 1)) (length (above ++ region ++ below)) = true).
  { apply Nat.ltb_lt. rewrite !app_length. fold n. lia. }
  assert (E4 : skipn (length above) (above ++ region ++ below) = region ++ below).
  { rewrite skipn_app, skipn_all, Nat.sub_diag. reflexivity. }
  assert (E5 : firstn n (region ++ below) = region).
  { unfold n. rewrite firstn_app, firstn_all, Nat.sub_diag. cbn [firstn]. apply app_nil_r. }
  assert (E6 : skipn (length above + n) (above ++ region ++ below) = below).
  { rewrite (skipn_app_len above (region ++ below) (length above) n eq_refl).
    unfold n. rewrite skipn_app, skipn_all, Nat.sub_diag. reflexivity. }
  assert (E7 : firstn (length above) (above ++ region ++ below) = above).
  { rewrite firstn_app, firstn_all, Nat.sub_diag. cbn [firstn]. apply app_nil_r. }
  rewrite E1, E2, E3, E4, E5, E6, E7, rows_eqb_refl, (forallb_all_blank _ _ Hbl). reflexivity.
Qed.

(* the invariant of FlushSync, once its region is the painted frame, is what the Spec demands *)
Theorem sync_shows_inline t w h r v above region below :
  vW t = w -> vH t = h -> in_alt t = false ->
  sync_inline w h r (vmain t) above region below ->
  region = map (paint_row w) (frame_lines h (norm v)) ->
  shows_inline t v = Some above.
Proof.
  intros HW HH Halt S Hreg. destruct S as [Hw Hh Hrw Hrh Hral Hat HL Hwin Hminh Hwa Hwr Hbl Hcache Hnocache].
  assert (Hne : region <> []).
  { rewrite Hreg. intros E. apply map_eq_nil in E. exact (frame_lines_nonempty h (norm v) Hh E). }
  apply (shows_inline_mk t v above region below Halt).
  - unfold at_region in Hat. destruct region as [|g0 rg] eqn:Er; [congruence|]. rewrite <- Er in *.
    rewrite Hat. unfold bz. f_equal.
    + rewrite <- app_assoc. f_equal.
      transitivity ((removelast region ++ [List.last region []]) ++ below);
        [rewrite <- app_assoc; reflexivity|rewrite removelast_last by exact Hne; reflexivity].
    + rewrite app_length, removelast_length. reflexivity.
  - exact Hne.
  - rewrite HW, HH, (paint_frame w h v Hh). symmetry. exact Hreg.
  - rewrite HW. exact Hbl.
  - rewrite HH. lia.
Qed.

(* ------------------------------------------------------------ lifting buffer runs to the terminal *)

Definition cell_tok (k : tok) : bool :=
  match k with TSet _ | TReset _ | TTitle _ => false | _ => true end.

Lemma with_active_active t : with_active t (active t) = t.
Proof. destruct t as [W H mb ab ia vm va mc ma ms mp mf ti]. unfold with_active, active. cbn. destruct ia; reflexivity. Qed.

Lemma with_active_W t b : vW (with_active t b) = vW t.
Proof. unfold with_active. destruct (in_alt t); reflexivity. Qed.
Lemma with_active_H t b : vH (with_active t b) = vH t.
Proof. unfold with_active. destruct (in_alt t); reflexivity. Qed.
Lemma with_active_in_alt t b : in_alt (with_active t b) = in_alt t.
Proof. unfold with_active. destruct (in_alt t) eqn:E; cbn; reflexivity. Qed.
Lemma active_with_active t b : active (with_active t b) = b.
Proof. unfold with_active, active. destruct (in_alt t); reflexivity. Qed.
Lemma with_active_twice t b b' : with_active (with_active t b) b' = with_active t b'.
Proof. unfold with_active. destruct (in_alt t); reflexivity. Qed.

Lemma with_active_main t b : in_alt t = false -> vmain (with_active t b) = b /\ valt (with_active t b) = valt t.
Proof. intros H. unfold with_active. rewrite H. split; reflexivity. Qed.
Lemma with_active_alt t b : in_alt t = true -> valt (with_active t b) = b /\ vmain (with_active t b) = vmain t.
Proof. intros H. unfold with_active. rewrite H. split; reflexivity. Qed.

Lemma vt_apply_cell shared t k : cell_tok k = true ->
  vt_apply shared t k = with_active t (buf_apply (vW t) (vH t) (active t) k).
Proof. destruct k; intros H; try discriminate; reflexivity. Qed.

Theorem vt_run_cells shared : forall toks t, forallb cell_tok toks = true ->
  vt_run shared t toks = with_active t (buf_run (vW t) (vH t) (active t) toks).
Proof.
  induction toks as [|k ks IH]; intros t H.
  - cbn. symmetry. apply with_active_active.
  - cbn [forallb] in H. apply andb_true_iff in H. destruct H as [Hk Hks].
    unfold vt_run in *. cbn [fold_left]. rewrite (vt_apply_cell shared t k Hk).
    rewrite (IH _ Hks). rewrite with_active_W, with_active_H, active_with_active, with_active_twice.
    reflexivity.
Qed.

(* every token of a flush / stop / kill / clear-screen is a cell token *)

Lemma forallb_chars l : forallb cell_tok (chars l) = true.
Proof. unfold chars. induction l as [|c l IH]; [reflexivity|exact IH]. Qed.

Lemma cell_msg_line w l : forallb cell_tok (msg_line w l) = true.
Proof.
  unfold msg_line. rewrite !forallb_app, forallb_chars.
  destruct (Nat.ltb 0 w && (Nat.eqb (length l) 0 || negb (Nat.eqb (Nat.modulo (length l) w) 0))); reflexivity.
Qed.

Lemma cell_paint_lines cs ce w : forall lines first last, forallb cell_tok (paint_lines first cs ce w lines last) = true.
Proof.
  induction lines as [|l rest IH]; intros first last; [reflexivity|].
  cbn [paint_lines]. rewrite forallb_app, IH, andb_true_r.
  destruct (cs && match last with x :: _ => bytes_eqb x l | [] => false end).
  - destruct rest; reflexivity.
  - rewrite !forallb_app, forallb_chars.
    destruct (first && ce); destruct (Nat.ltb (length (if Nat.ltb 0 w then firstn w l else l)) w); destruct rest; reflexivity.
Qed.

Lemma cell_flush r : forallb cell_tok (snd (r_flush r)) = true.
Proof.
  unfold r_flush. destruct (r_buf r) as [|c0 ct]; [reflexivity|].
  destruct (bytes_eqb (c0 :: ct) (r_lastRender r)); [reflexivity|]. cbn [snd].
  rewrite !forallb_app. rewrite cell_paint_lines.
  repeat (apply andb_true_iff; split).
  - destruct (r_alt r); [reflexivity|]. destruct (Nat.ltb 1 (r_linesRendered r)); reflexivity.
  - destruct (negb match r_queued r with [] => true | _ => false end && negb (r_alt r)); [|reflexivity].
    induction (r_queued r) as [|q qs IH]; [reflexivity|]. cbn [flat_map]. rewrite forallb_app, cell_msg_line, IH. reflexivity.
  - reflexivity.
  - match goal with |- forallb _ (if ?c then _ else _) = _ => destruct c; reflexivity end.
  - destruct (r_alt r); [|reflexivity]. unfold cup.
    match goal with |- forallb _ [match ?n with O => _ | _ => _ end] = _ => destruct n; reflexivity end.
Qed.

Lemma cell_stop r : forallb cell_tok (snd (r_stop r)) = true.
Proof.
  unfold r_stop. pose proof (cell_flush r) as H. destruct (r_flush r) as [r' out]. cbn [snd] in *.
  rewrite forallb_app, H. reflexivity.
Qed.

Lemma cell_kill r : forallb cell_tok (snd (r_kill r)) = true.
Proof. reflexivity. Qed.

Lemma cell_clear r : forallb cell_tok (snd (r_clear_screen r)) = true.
Proof. reflexivity. Qed.

(* the form used most: the active buffer runs the tokens, nothing else changes *)
Corollary vt_run_flush shared t r :
  vt_run shared t (snd (r_flush r)) = with_active t (buf_run (vW t) (vH t) (active t) (snd (r_flush r))).
Proof. apply vt_run_cells, cell_flush. Qed.
