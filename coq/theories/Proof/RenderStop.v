(* C07: on quit the final model's view is on screen whatever the timing.
   r_stop = flush, then erase the cursor row and return to column 0.
   Uses the invariant sync_weak of RenderPrint.v (implied by sync_inline). *)
From Coq Require Import NArith List Bool Arith Lia.
Import ListNotations.
From BT Require Import Base.Bytes Model.VT Model.Renderer Spec.Screen
  Proof.BytesLemmas Proof.VTLemmas Proof.FlushProofs Proof.FlushSync Proof.RendererBasics Proof.RenderPrint.
Open Scope nat_scope.

(* ------------------------------------------------------------ two invariants of the renderer state *)

(* a valid cache holds the clipped lines of the cached frame *)
Definition cache_ok (r : rstate) : Prop :=
  r_lastRender r <> [] -> r_lastLines r = frame_lines (r_height r) (r_lastRender r).

(* inline: lines are queued only with an invalid cache (r_print_line repaints) *)
Definition queue_ok (r : rstate) : Prop :=
  r_alt r = false -> r_queued r <> [] -> r_lastRender r = [].

Lemma cache_ok_init : cache_ok r_init.
Proof. intros H. exfalso. apply H. reflexivity. Qed.

Lemma queue_ok_init : queue_ok r_init.
Proof. intros _ H. exfalso. apply H. reflexivity. Qed.

Lemma fst_r_stop r : fst (r_stop r) = fst (r_flush r).
Proof. unfold r_stop. destruct (r_flush r). reflexivity. Qed.

Lemma snd_r_stop r : snd (r_stop r) = snd (r_flush r) ++ [TELall; TCR].
Proof. unfold r_stop. destruct (r_flush r). reflexivity. Qed.

Lemma cache_ok_flush r : cache_ok r -> cache_ok (fst (r_flush r)).
Proof.
  intros H. unfold r_flush. destruct (r_buf r) as [|c t] eqn:E; [exact H|].
  destruct (bytes_eqb (c :: t) (r_lastRender r)); [exact H|].
  cbn [fst]. unfold cache_ok. cbn [r_lastRender r_lastLines r_height]. intros _. reflexivity.
Qed.

Lemma queue_ok_flush r : queue_ok r -> queue_ok (fst (r_flush r)).
Proof.
  intros H. unfold r_flush. destruct (r_buf r) as [|c t] eqn:E; [exact H|].
  destruct (bytes_eqb (c :: t) (r_lastRender r)); [exact H|].
  cbn [fst]. unfold queue_ok. cbn [r_lastRender r_queued r_alt]. intros Ha Hq. exfalso.
  rewrite Ha in Hq. cbn [negb andb] in Hq. rewrite andb_true_r in Hq.
  destruct (r_queued r); cbn in Hq; apply Hq; reflexivity.
Qed.

Lemma cache_ok_repaint r : cache_ok (r_repaint r).
Proof. intros F. exfalso. apply F. reflexivity. Qed.

Lemma queue_ok_repaint r : queue_ok (r_repaint r).
Proof. intros _ _. reflexivity. Qed.

Lemma cache_ok_step r o : cache_ok r -> cache_ok (fst (r_step r o)).
Proof.
  intros H. destruct o as [s| |w' h'| | | | |body| | |m on|on|on| |]; cbn [r_step fst].
  - destruct s; exact H.
  - apply cache_ok_flush. exact H.
  - apply cache_ok_repaint.
  - destruct (enter_alt_cases r) as [E|(_ & _ & E)]; rewrite E; cbn [fst].
    + unfold r_enter_alt_core. destruct (r_alt r); [exact H|apply cache_ok_repaint].
    + unfold r_enter_alt_core. destruct (r_alt (fst (r_flush r))); [apply cache_ok_flush; exact H|apply cache_ok_repaint].
  - unfold r_exit_alt. destruct (negb (r_alt r)); [exact H|apply cache_ok_repaint].
  - apply cache_ok_repaint.
  - apply cache_ok_repaint.
  - unfold r_print_line. destruct (r_alt r); [exact H|apply cache_ok_repaint].
  - exact H.
  - exact H.
  - exact H.
  - destruct on; exact H.
  - destruct on; exact H.
  - rewrite fst_r_stop. apply cache_ok_flush. exact H.
  - exact H.
Qed.

Lemma queue_ok_step r o : queue_ok r -> queue_ok (fst (r_step r o)).
Proof.
  intros H. destruct o as [s| |w' h'| | | | |body| | |m on|on|on| |]; cbn [r_step fst].
  - destruct s; exact H.
  - apply queue_ok_flush. exact H.
  - apply queue_ok_repaint.
  - destruct (enter_alt_cases r) as [E|(_ & _ & E)]; rewrite E; cbn [fst].
    + unfold r_enter_alt_core. destruct (r_alt r); [exact H|apply queue_ok_repaint].
    + unfold r_enter_alt_core. destruct (r_alt (fst (r_flush r))); [apply queue_ok_flush; exact H|apply queue_ok_repaint].
  - unfold r_exit_alt. destruct (negb (r_alt r)); [exact H|apply queue_ok_repaint].
  - apply queue_ok_repaint.
  - apply queue_ok_repaint.
  - unfold r_print_line. destruct (r_alt r); [exact H|apply queue_ok_repaint].
  - exact H.
  - exact H.
  - exact H.
  - destruct on; exact H.
  - destruct on; exact H.
  - rewrite fst_r_stop. apply queue_ok_flush. exact H.
  - exact H.
Qed.

(* both hold in every state reachable from the initial one *)
Lemma reachable_ok : forall ops r, cache_ok r /\ queue_ok r ->
  cache_ok (fst (r_run r ops)) /\ queue_ok (fst (r_run r ops)).
Proof.
  induction ops as [|o ops IH]; intros r [Hc Hq]; [split; assumption|].
  cbn [r_run]. destruct (r_step r o) as [r1 out] eqn:E1.
  specialize (IH r1). destruct (r_run r1 ops) as [r2 outs] eqn:E2. cbn [fst] in *.
  apply IH. split.
  - replace r1 with (fst (r_step r o)) by (rewrite E1; reflexivity). apply cache_ok_step. exact Hc.
  - replace r1 with (fst (r_step r o)) by (rewrite E1; reflexivity). apply queue_ok_step. exact Hq.
Qed.

Corollary reachable_from_init ops : cache_ok (fst (r_run r_init ops)) /\ queue_ok (fst (r_run r_init ops)).
Proof. apply reachable_ok. split; [exact cache_ok_init|exact queue_ok_init]. Qed.

(* ------------------------------------------------------------ write, then render: always the written view *)

Lemma r_write_fields r v :
  r_queued (r_write r v) = r_queued r /\ r_lastRender (r_write r v) = r_lastRender r /\
  r_lastLines (r_write r v) = r_lastLines r /\ r_height (r_write r v) = r_height r /\
  r_alt (r_write r v) = r_alt r.
Proof. destruct v; repeat split. Qed.

(* whatever the cache and the queue: after Write v; Flush the region holds v's
   frame (rendered now, or already there when the flush is silent) *)
Theorem write_flush_shows w h r b above region below v :
  sync_weak w h r b above region below -> cache_ok r -> queue_ok r ->
  exists below',
    let r1 := r_write r v in
    sync_weak w h (fst (r_flush r1)) (buf_run w h b (snd (r_flush r1)))
              (above ++ flat_map (wrap w) (r_queued r)) (map (paint_row w) (frame_lines h (norm v))) below'.
Proof.
  intros S Hc Hq. cbn zeta.
  destruct (r_write_fields r v) as (Eq & Elr & Ell & Eh & Ea).
  pose proof (write_weak w h r b above region below v S) as S1.
  destruct (bytes_eqb (norm v) (r_lastRender (r_write r v))) eqn:En.
  - (* silent flush: the cache is this very frame, so it is what the region holds *)
    rewrite r_flush_noop by (right; rewrite r_write_buf; exact En). cbn [fst snd]. rewrite buf_run_nil.
    apply bytes_eqb_eq in En. rewrite Elr in En.
    assert (Hlr : r_lastRender r <> []) by (rewrite <- En; apply norm_nonempty).
    assert (Hnq : r_queued r = []).
    { destruct (r_queued r) as [|q0 qs] eqn:E; [reflexivity|]. exfalso. apply Hlr.
      apply Hq; [exact (sw_alt _ _ _ _ _ _ _ S)|rewrite E; discriminate]. }
    rewrite Hnq. cbn [flat_map]. rewrite app_nil_r.
    assert (Ereg : region = map (paint_row w) (frame_lines h (norm v))).
    { rewrite En, (sw_cache _ _ _ _ _ _ _ S Hlr), (Hc Hlr), (sw_rh _ _ _ _ _ _ _ S). reflexivity. }
    exists below. rewrite <- Ereg. exact S1.
  - destruct (flush_weak w h (r_write r v) b above region below (norm v) S1 (r_write_buf r v) (norm_nonempty v) En)
      as (below' & S' & _).
    cbn zeta in S'. rewrite Eq in S'. exists below'. exact S'.
Qed.

(* "never an older view": only the last write before a render counts *)
Lemma writes_weak w h b above region below : forall vs r,
  sync_weak w h r b above region below -> cache_ok r -> queue_ok r ->
  let r' := fold_left r_write vs r in
  sync_weak w h r' b above region below /\ cache_ok r' /\ queue_ok r' /\ r_queued r' = r_queued r.
Proof.
  induction vs as [|v vs IH]; intros r S Hc Hq; [cbn [fold_left]; split; [exact S|split; [exact Hc|split; [exact Hq|reflexivity]]]|].
  cbn [fold_left]. destruct (r_write_fields r v) as (Eq & Elr & Ell & Eh & Ea).
  destruct (IH (r_write r v)) as (S' & Hc' & Hq' & Eq').
  - apply write_weak. exact S.
  - unfold cache_ok. rewrite Elr, Ell, Eh. exact Hc.
  - unfold queue_ok. rewrite Elr, Eq, Ea. exact Hq.
  - cbn zeta. split; [exact S'|split; [exact Hc'|split; [exact Hq'|rewrite Eq'; exact Eq]]].
Qed.

Lemma run_ops_app w h : forall o1 o2 r b,
  run_ops w h r b (o1 ++ o2) = run_ops w h (fst (run_ops w h r b o1)) (snd (run_ops w h r b o1)) o2.
Proof. induction o1 as [|o o1 IH]; intros o2 r b; [reflexivity|]. cbn [app run_ops]. apply IH. Qed.

Lemma run_ops_writes w h : forall vs r b, run_ops w h r b (map OWrite vs) = (fold_left r_write vs r, b).
Proof. induction vs as [|v vs IH]; intros r b; [reflexivity|]. cbn [map run_ops r_step fst snd fold_left]. rewrite buf_run_nil. apply IH. Qed.

Theorem latest_view_wins w h r b above region below vs vk :
  sync_weak w h r b above region below -> cache_ok r -> queue_ok r ->
  exists below',
    sync_weak w h (fst (run_ops w h r b (map OWrite vs ++ [OWrite vk; OFlush])))
                  (snd (run_ops w h r b (map OWrite vs ++ [OWrite vk; OFlush])))
              (above ++ flat_map (wrap w) (r_queued r)) (map (paint_row w) (frame_lines h (norm vk))) below'.
Proof.
  intros S Hc Hq. rewrite run_ops_app, run_ops_writes. cbn [fst snd run_ops r_step]. rewrite buf_run_nil.
  destruct (writes_weak w h b above region below vs r S Hc Hq) as (S' & Hc' & Hq' & Eq). cbn zeta in *.
  rewrite <- Eq. apply (write_flush_shows w h _ b above region below vk); assumption.
Qed.

(* ------------------------------------------------------------ Stop *)

(* after Write v; Stop: the rows above (with the queued lines), all rows of
   v's frame but the last, then a blank row holding the cursor at column 0,
   then blank rows *)
Theorem stop_final w h r b above region below v :
  sync_weak w h r b above region below -> cache_ok r -> queue_ok r ->
  let p := map (paint_row w) (frame_lines h (norm v)) in
  let above' := above ++ flat_map (wrap w) (r_queued r) in
  exists below',
    buf_run w h b (snd (r_stop (r_write r v))) = bz (above' ++ removelast p) (blank_row w) below' 0 false /\
    all_blank w below' /\ length p + length below' <= h /\ h <= length above' + length p + length below' /\
    rows_w w above' /\ p <> [].
Proof.
  intros S Hc Hq. cbn zeta.
  destruct (write_flush_shows w h r b above region below v S Hc Hq) as (below' & S'). cbn zeta in S'.
  exists below'. rewrite snd_r_stop, buf_run_app.
  pose proof (sw_at _ _ _ _ _ _ _ S') as Hat.
  pose proof (frame_lines_bounds h (norm v) (sw_h _ _ _ _ _ _ _ S)) as [Hn1 _].
  assert (Hp : map (paint_row w) (frame_lines h (norm v)) <> []).
  { destruct (frame_lines h (norm v)); [cbn in Hn1; lia|discriminate]. }
  unfold at_region in Hat.
  destruct (map (paint_row w) (frame_lines h (norm v))) as [|p0 ps] eqn:Ep; [congruence|].
  rewrite Hat. unfold buf_run. cbn [fold_left]. rewrite bz_elall, bz_cr.
  split; [reflexivity|]. split; [exact (sw_below _ _ _ _ _ _ _ S')|].
  split; [exact (sw_win _ _ _ _ _ _ _ S')|]. split; [exact (sw_tape _ _ _ _ _ _ _ S')|].
  split; [exact (sw_wa _ _ _ _ _ _ _ S')|discriminate].
Qed.

(* ------------------------------------------------------------ the specification's predicate *)

Lemma paint_frame_lines w h v : 0 < h -> paint w h v = map (paint_row w) (frame_lines h (norm v)).
Proof.
  intros Hh. unfold paint, frame_lines, lastn, norm. rewrite lines_of_split_lines. f_equal.
  set (all := split_lines match v with [] => [32%N] | _ :: _ => v end).
  replace (Nat.ltb 0 h) with true by (symmetry; apply Nat.ltb_lt; exact Hh). cbn [andb].
  destruct (Nat.ltb_spec h (length all)); [reflexivity|].
  replace (length all - h) with 0 by lia. reflexivity.
Qed.

Lemma rows_eqb_refl' a : rows_eqb a a = true.
Proof. induction a as [|x a IH]; [reflexivity|]. cbn. rewrite bytes_eqb_refl, IH. reflexivity. Qed.

Lemma is_blank_row_blank' w : is_blank_row (blank_row w) = true.
Proof. unfold is_blank_row, blank_row. induction w as [|w IH]; [reflexivity|]. cbn. exact IH. Qed.

Lemma forallb_all_blank' w rs : all_blank w rs -> forallb is_blank_row rs = true.
Proof.
  induction 1 as [|x rs Hx _ IH]; [reflexivity|]. cbn [forallb]. rewrite Hx, is_blank_row_blank', IH. reflexivity.
Qed.

Lemma firstn_removelast {A} (l : list A) : firstn (length l - 1) l = removelast l.
Proof.
  induction l as [|x l IH]; [reflexivity|]. destruct l as [|y l]; [reflexivity|].
  cbn [length removelast] in *. replace (S (S (length l)) - 1) with (S (S (length l) - 1)) by lia.
  cbn [firstn]. rewrite IH. reflexivity.
Qed.

(* a terminal whose main buffer has the shape of stop_final passes Spec.shows_final_inline *)
Lemma shows_final_of_shape t v w h above' p below' :
  vW t = w -> vH t = h -> in_alt t = false -> 0 < h ->
  p = paint w h v -> p <> [] ->
  vmain t = bz (above' ++ removelast p) (blank_row w) below' 0 false ->
  all_blank w below' -> length p + length below' <= h ->
  shows_final_inline t v = Some above'.
Proof.
  intros HW HH Halt Hh Hp Hpne Hmain Hbl Hwin.
  unfold shows_final_inline. rewrite HW, HH, Halt, Hmain, <- Hp.
  unfold bz, mk, top. cbn [cur tape crow ccol cpend].
  set (n := length p).
  assert (Hn : 1 <= n) by (unfold n; destruct p; [congruence|cbn; lia]).
  assert (Hcr : length (above' ++ removelast p) = length above' + (n - 1)).
  { rewrite app_length, removelast_length. reflexivity. }
  rewrite Hcr.
  replace (S (length above' + (n - 1)) - n) with (length above') by lia.
  assert (ET : (above' ++ removelast p) ++ blank_row w :: below' = above' ++ (removelast p ++ blank_row w :: below'))
    by (rewrite <- app_assoc; reflexivity).
  assert (E1 : skipn (length above') ((above' ++ removelast p) ++ blank_row w :: below') = removelast p ++ blank_row w :: below').
  { rewrite ET, skipn_app, skipn_all, Nat.sub_diag. reflexivity. }
  assert (E2 : firstn (n - 1) (removelast p ++ blank_row w :: below') = removelast p).
  { rewrite firstn_app, removelast_length. fold n. rewrite Nat.sub_diag. cbn [firstn]. rewrite app_nil_r.
    apply firstn_all2. rewrite removelast_length. fold n. lia. }
  assert (E3 : firstn (n - 1) p = removelast p) by (unfold n; apply firstn_removelast).
  assert (E4 : skipn (length above' + (n - 1)) ((above' ++ removelast p) ++ blank_row w :: below') = blank_row w :: below').
  { rewrite <- Hcr, skipn_app, skipn_all, Nat.sub_diag. reflexivity. }
  assert (E5 : firstn (length above') ((above' ++ removelast p) ++ blank_row w :: below') = above').
  { rewrite ET, firstn_app, firstn_all, Nat.sub_diag. cbn [firstn]. apply app_nil_r. }
  rewrite E1, E2, E3, E4, E5, rows_eqb_refl'.
  cbn [forallb]. rewrite is_blank_row_blank', (forallb_all_blank' w below' Hbl).
  assert (Hlen : length ((above' ++ removelast p) ++ blank_row w :: below') = length above' + (n - 1) + S (length below')).
  { rewrite app_length, Hcr. reflexivity. }
  rewrite Hlen.
  replace (Nat.leb n (S (length above' + (n - 1)))) with true by (symmetry; apply Nat.leb_le; lia).
  replace (Nat.leb (length above' + (n - 1) + S (length below') - h) (length above')) with true
    by (symmetry; apply Nat.leb_le; fold n in Hwin; lia).
  replace (Nat.ltb (length above' + (n - 1)) (length above' + (n - 1) + S (length below'))) with true
    by (symmetry; apply Nat.ltb_lt; lia).
  reflexivity.
Qed.

(* C07.  From any synchronised inline state — any cache state, lines queued or
   not —: after Write v; Stop any terminal whose main buffer received the
   tokens satisfies the specification's shows_final_inline for v, and the rows
   above are the old ones plus the queued lines. *)
Theorem C07_stop_shows_final_proof w h r b above region below v t :
  sync_weak w h r b above region below -> cache_ok r -> queue_ok r ->
  vW t = w -> vH t = h -> in_alt t = false ->
  vmain t = buf_run w h b (snd (r_stop (r_write r v))) ->
  shows_final_inline t v = Some (above ++ flat_map (wrap w) (r_queued r)).
Proof.
  intros S Hc Hq HW HH Halt Hmain.
  destruct (stop_final w h r b above region below v S Hc Hq) as (below' & Eb & Hbl & Hwin & _ & _ & Hpne).
  cbn zeta in *.
  pose proof (sw_h _ _ _ _ _ _ _ S) as Hh.
  apply (shows_final_of_shape t v w h _ (paint w h v) below'); try assumption.
  - reflexivity.
  - rewrite paint_frame_lines by exact Hh. exact Hpne.
  - rewrite Hmain, Eb, paint_frame_lines by exact Hh. reflexivity.
  - rewrite paint_frame_lines by exact Hh. exact Hwin.
Qed.

(* ------------------------------------------------------------ on the terminal itself *)

(* tokens that only touch the active buffer *)
Definition st_cell (k : tok) : bool := match k with TSet _ | TReset _ | TTitle _ => false | _ => true end.

Lemma st_vt_run shared : forall toks t, forallb st_cell toks = true -> in_alt t = false ->
  vmain (vt_run shared t toks) = buf_run (vW t) (vH t) (vmain t) toks /\
  vW (vt_run shared t toks) = vW t /\ vH (vt_run shared t toks) = vH t /\
  in_alt (vt_run shared t toks) = false.
Proof.
  induction toks as [|k ks IH]; intros t Hc Halt; [cbn; repeat split; exact Halt|].
  cbn [forallb] in Hc. apply andb_true_iff in Hc. destruct Hc as [Hk Hks].
  unfold vt_run in *. cbn [fold_left]. rewrite buf_run_cons.
  assert (E : vt_apply shared t k = with_active t (buf_apply (vW t) (vH t) (active t) k))
    by (destruct k; try discriminate; reflexivity).
  rewrite E. unfold with_active, active. rewrite Halt.
  set (t1 := {| vW := vW t; vH := vH t; vmain := buf_apply (vW t) (vH t) (vmain t) k; valt := valt t; in_alt := false;
                vis_main := vis_main t; vis_alt := vis_alt t; m_cell := m_cell t; m_all := m_all t; m_sgr := m_sgr t;
                m_paste := m_paste t; m_focus := m_focus t; title := title t |}).
  destruct (IH t1 Hks eq_refl) as (E1 & E2 & E3 & E4).
  rewrite E1, E2, E3, E4. repeat split.
Qed.

Lemma st_cell_chars l : forallb st_cell (chars l) = true.
Proof. induction l as [|g l IH]; [reflexivity|exact IH]. Qed.

Lemma st_cell_msg_line w l : forallb st_cell (msg_line w l) = true.
Proof.
  unfold msg_line. rewrite !forallb_app, st_cell_chars.
  destruct (Nat.ltb 0 w && (Nat.eqb (length l) 0 || negb (Nat.eqb (length l mod w) 0))); reflexivity.
Qed.

Lemma st_cell_msg_lines w q : forallb st_cell (flat_map (msg_line w) q) = true.
Proof.
  induction q as [|l q IH]; [reflexivity|]. cbn [flat_map]. rewrite forallb_app, st_cell_msg_line, IH. reflexivity.
Qed.

Lemma st_cell_paint_lines cs ce w : forall lines first last,
  forallb st_cell (paint_lines first cs ce w lines last) = true.
Proof.
  induction lines as [|l ls IH]; intros first last; [reflexivity|].
  rewrite paint_lines_unfold, forallb_app, IH, andb_true_r.
  destruct (cs && match last with x :: _ => bytes_eqb x l | [] => false end).
  - destruct ls; reflexivity.
  - unfold line_toks. rewrite !forallb_app, st_cell_chars.
    destruct (first && ce); destruct (Nat.ltb (length (if Nat.ltb 0 w then firstn w l else l)) w); destruct ls; reflexivity.
Qed.

Lemma st_cell_flush r : forallb st_cell (snd (r_flush r)) = true.
Proof.
  unfold r_flush. destruct (r_buf r) as [|c t]; [reflexivity|].
  destruct (bytes_eqb (c :: t) (r_lastRender r)); [reflexivity|]. cbn [snd].
  rewrite !forallb_app, st_cell_paint_lines.
  repeat (apply andb_true_iff; split); try reflexivity.
  - destruct (r_alt r); [reflexivity|]. destruct (Nat.ltb 1 (r_linesRendered r)); reflexivity.
  - match goal with |- forallb st_cell (if ?c then _ else _) = true => destruct c end;
      [apply st_cell_msg_lines|reflexivity].
  - match goal with |- forallb st_cell (if ?c then _ else _) = true => destruct c end; reflexivity.
  - destruct (r_alt r); [|reflexivity]. unfold cup.
    match goal with |- forallb st_cell [match ?n with O => _ | _ => _ end] = true => destruct n end; reflexivity.
Qed.

Lemma st_cell_stop r : forallb st_cell (snd (r_stop r)) = true.
Proof. rewrite snd_r_stop, forallb_app, st_cell_flush. reflexivity. Qed.

(* C07 on the terminal: the renderer and the main buffer of terminal t are in
   sync (inline mode, any cache state, lines queued or not); after Write v;
   Stop the terminal that received the emitted tokens passes the
   specification's shows_final_inline for v. *)
Theorem C07_stop_on_terminal_proof shared t r above region below v :
  sync_weak (vW t) (vH t) r (vmain t) above region below -> cache_ok r -> queue_ok r ->
  in_alt t = false ->
  shows_final_inline (vt_run shared t (snd (r_stop (r_write r v)))) v =
  Some (above ++ flat_map (wrap (vW t)) (r_queued r)).
Proof.
  intros S Hc Hq Halt.
  destruct (st_vt_run shared (snd (r_stop (r_write r v))) t (st_cell_stop _) Halt) as (E1 & E2 & E3 & E4).
  apply (C07_stop_shows_final_proof (vW t) (vH t) r (vmain t) above region below v); assumption.
Qed.

(* ... and after Write v1; ...; Write vk; Flush the terminal shows vk's frame
   directly below the rows above (shape statement; see latest_view_wins) *)
Theorem flush_on_terminal shared t r :
  in_alt t = false ->
  vmain (vt_run shared t (snd (r_flush r))) = buf_run (vW t) (vH t) (vmain t) (snd (r_flush r)).
Proof. intros Halt. exact (proj1 (st_vt_run shared _ t (st_cell_flush r) Halt)). Qed.

(* ------------------------------------------------------------ shows_inline from the weak invariant *)

Lemma paint_nonempty w h v : 0 < h -> paint w h v <> [].
Proof.
  intros Hh. rewrite paint_frame_lines by exact Hh.
  pose proof (frame_lines_bounds h (norm v) Hh) as [Hn1 _].
  destruct (frame_lines h (norm v)); [cbn in Hn1; lia|discriminate].
Qed.

Lemma shows_inline_of_weak t v w h r above below :
  vW t = w -> vH t = h -> in_alt t = false ->
  sync_weak w h r (vmain t) above (paint w h v) below ->
  shows_inline t v = Some above.
Proof.
  intros HW HH Halt Hs.
  destruct (sync_weak_tape _ _ _ _ _ _ _ Hs) as (Et & Er & Ec & Ep).
  pose proof (sw_win _ _ _ _ _ _ _ Hs) as Hwin.
  pose proof (sw_below _ _ _ _ _ _ _ Hs) as Hbl.
  pose proof (paint_nonempty w h v (sw_h _ _ _ _ _ _ _ Hs)) as Hpne.
  unfold shows_inline. cbv zeta. unfold top. rewrite HW, HH, Halt, Et, Er, Ec, Ep.
  set (p := paint w h v) in *. set (n := length p) in *.
  assert (Hn : 1 <= n) by (unfold n; destruct p; [congruence|cbn; lia]).
  replace (S (length above + (n - 1)) - n) with (length above) by lia.
  replace (S (length above + (n - 1))) with (length above + n) by lia.
  assert (E1 : skipn (length above) (above ++ p ++ below) = p ++ below).
  { rewrite skipn_app, skipn_all, Nat.sub_diag. reflexivity. }
  assert (E2 : firstn n (p ++ below) = p).
  { unfold n. rewrite firstn_app, Nat.sub_diag, firstn_all. cbn [firstn]. apply app_nil_r. }
  assert (E3 : skipn (length above + n) (above ++ p ++ below) = below).
  { rewrite app_assoc. replace (length above + n) with (length (above ++ p)) by (unfold n; rewrite app_length; reflexivity).
    rewrite skipn_app, skipn_all, Nat.sub_diag. reflexivity. }
  assert (E4 : firstn (length above) (above ++ p ++ below) = above).
  { rewrite firstn_app, firstn_all, Nat.sub_diag. cbn [firstn]. apply app_nil_r. }
  rewrite E1, E2, E3, E4, rows_eqb_refl', (forallb_all_blank' w below Hbl).
  rewrite !app_length. fold n.
  replace (Nat.leb n (length above + n)) with true by (symmetry; apply Nat.leb_le; lia).
  replace (Nat.leb (length above + (n + length below) - h) (length above)) with true
    by (symmetry; apply Nat.leb_le; lia).
  replace (Nat.ltb (length above + (n - 1)) (length above + (n + length below))) with true
    by (symmetry; apply Nat.ltb_lt; lia).
  reflexivity.
Qed.

(* "never an older view", on the terminal: Write v1; ...; Write vk; Flush shows vk *)
Theorem C07_latest_view_on_terminal_proof shared t r above region below vs vk :
  sync_weak (vW t) (vH t) r (vmain t) above region below -> cache_ok r -> queue_ok r ->
  in_alt t = false ->
  let r1 := fold_left r_write (vs ++ [vk]) r in
  shows_inline (vt_run shared t (snd (r_flush r1))) vk = Some (above ++ flat_map (wrap (vW t)) (r_queued r)).
Proof.
  intros S Hc Hq Halt. cbn zeta. rewrite fold_left_app. cbn [fold_left].
  destruct (writes_weak (vW t) (vH t) (vmain t) above region below vs r S Hc Hq) as (S' & Hc' & Hq' & Eq).
  cbn zeta in *. set (r0 := fold_left r_write vs r) in *.
  destruct (write_flush_shows (vW t) (vH t) r0 (vmain t) above region below vk S' Hc' Hq') as (below' & S2).
  cbn zeta in S2. rewrite Eq in S2.
  destruct (st_vt_run shared (snd (r_flush (r_write r0 vk))) t (st_cell_flush _) Halt) as (E1 & E2 & E3 & E4).
  rewrite <- (paint_frame_lines (vW t) (vH t) vk (sw_h _ _ _ _ _ _ _ S)) in S2.
  apply (shows_inline_of_weak _ vk (vW t) (vH t) (fst (r_flush (r_write r0 vk))) _ below'); try assumption.
  rewrite E1. exact S2.
Qed.

(* ------------------------------------------------------------ the hypotheses are satisfiable *)

Lemma sync_weak_vt_init w h hist : 0 < w -> 0 < h -> rows_w w hist ->
  sync_weak w h (r_window_size r_init w h) (vmain (vt_init w h hist 0)) hist [] (repeat (blank_row w) h) /\
  cache_ok (r_window_size r_init w h) /\ queue_ok (r_window_size r_init w h) /\
  vW (vt_init w h hist 0) = w /\ vH (vt_init w h hist 0) = h /\ in_alt (vt_init w h hist 0) = false.
Proof.
  intros Hw Hh Hhist. split; [|split; [|split; [|repeat split]]].
  - unfold vt_init. cbn [vmain]. rewrite Nat.sub_0_r. apply sync_inline_weak, sync_inline_init; assumption.
  - exact (cache_ok_step r_init (OResize w h) cache_ok_init).
  - exact (queue_ok_step r_init (OResize w h) queue_ok_init).
Qed.
