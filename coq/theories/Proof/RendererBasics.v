(* Simple facts about the renderer model: silence, write replaces, frame rate. *)
From Coq Require Import NArith ZArith List Bool Arith Lia.
Import ListNotations.
From BT Require Import Base.Bytes Model.VT Model.Renderer Spec.Screen Spec.Economy Proof.BytesLemmas.
From BTGen Require Consts.

Definition norm (v : bytes) : bytes := match v with [] => [32%N] | _ => v end.

Lemma r_write_buf r v : r_buf (r_write r v) = norm v.
Proof. destruct v; reflexivity. Qed.

Lemma norm_nonempty v : norm v <> [].
Proof. destruct v; discriminate. Qed.

(* rendering a view identical to the one on screen writes nothing *)
Lemma flush_same_silent r v : r_lastRender r = norm v -> r_flush (r_write r v) = (r_write r v, []).
Proof.
  intros H. unfold r_flush. rewrite r_write_buf.
  destruct (norm v) as [|c t] eqn:E; [exfalso; exact (norm_nonempty v E)|].
  assert (L : r_lastRender (r_write r v) = c :: t) by (destruct v; cbn; rewrite H; auto; cbn in E; congruence).
  rewrite L, bytes_eqb_refl. reflexivity.
Qed.

(* after a flush of a written frame the cache holds that frame *)
Lemma flush_sets_cache r v : r_lastRender (fst (r_flush (r_write r v))) = norm v.
Proof.
  unfold r_flush. rewrite r_write_buf.
  destruct (norm v) as [|c t] eqn:E; [exfalso; exact (norm_nonempty v E)|].
  destruct (bytes_eqb (c :: t) (r_lastRender (r_write r v))) eqn:Q.
  - apply bytes_eqb_eq in Q. cbn [fst]. congruence.
  - reflexivity.
Qed.

Lemma write_keeps_cache r v : r_lastRender (r_write r v) = r_lastRender r.
Proof. destruct v; reflexivity. Qed.

(* Write v; Flush; Write v; Flush : the second flush is silent *)
Theorem same_view_twice_silent r v :
  snd (r_flush (r_write (fst (r_flush (r_write r v))) v)) = [].
Proof.
  rewrite flush_same_silent; [reflexivity|]. apply flush_sets_cache.
Qed.

(* write never emits and replaces (never appends to) the pending frame *)
Theorem write_silent_and_replaces r v1 v2 :
  snd (r_step r (OWrite v1)) = [] /\ r_buf (r_write (r_write r v1) v2) = norm v2.
Proof. split; [reflexivity|apply r_write_buf]. Qed.

(* only Flush, Stop and explicit terminal commands produce output *)
Theorem silent_ops r o :
  match o with OWrite _ | OResize _ _ | ORepaint | OPrint _ => snd (r_step r o) = [] | _ => True end.
Proof. destruct o; try exact I; try reflexivity. Qed.

(* frame rate *)
Theorem fps_clamp fps :
  r_framerate_ns fps = frame_interval_ns 60 120 fps /\
  (1 <= clamp_fps 60 120 fps <= 120)%Z /\ ((fps < 1)%Z -> clamp_fps 60 120 fps = 60%Z) /\
  ((1 <= fps <= 120)%Z -> clamp_fps 60 120 fps = fps).
Proof.
  unfold r_framerate_ns, frame_interval_ns, clamp_fps.
  change Consts.c_defaultFPS with 60%Z. change Consts.c_maxFPS with 120%Z.
  destruct (Z.ltb_spec fps 1); destruct (Z.ltb_spec 120 fps); repeat split; intros; try lia.
Qed.

(* the interval is never shorter than 1/120 s nor longer than 1 s *)
Corollary frame_interval_bounds fps : (8333333 <= r_framerate_ns fps <= 1000000000)%Z.
Proof.
  destruct (fps_clamp fps) as (E & B & _). rewrite E. unfold frame_interval_ns.
  set (c := clamp_fps 60 120 fps) in *.
  split.
  - apply Z.quot_le_lower_bound; lia.
  - apply Z.quot_le_upper_bound; lia.
Qed.

(* enterAltScreen = (one flush when lines are queued on the main screen) then the switch itself *)
Lemma enter_alt_cases r :
  r_enter_alt r = r_enter_alt_core r \/
  (r_alt r = false /\ r_queued r <> [] /\
   r_enter_alt r = (fst (r_enter_alt_core (fst (r_flush r))), snd (r_flush r) ++ snd (r_enter_alt_core (fst (r_flush r))))).
Proof.
  unfold r_enter_alt. destruct (r_alt r) eqn:Ea; [left; reflexivity|]. unfold queue_empty.
  destruct (r_queued r) eqn:Eq; [left; reflexivity|]. right. cbn [orb].
  repeat split; [discriminate|]. destruct (r_flush r) as [r1 t1]. cbn [fst snd].
  destruct (r_enter_alt_core r1) as [r2 t2]. reflexivity.
Qed.

Lemma enter_alt_no_queue r : r_queued r = [] -> r_enter_alt r = r_enter_alt_core r.
Proof. intros E. unfold r_enter_alt, queue_empty. rewrite E, orb_true_r. reflexivity. Qed.

(* a line queued on the main screen is written out by enterAltScreen whenever a frame is pending *)
Lemma enter_alt_writes_queued_lines r :
  r_alt r = false -> r_buf r <> [] -> r_lastRender r = [] -> r_queued (fst (r_enter_alt r)) = [].
Proof.
  intros Ha Hb Hl. unfold r_enter_alt, queue_empty. rewrite Ha. cbn [orb].
  destruct (r_queued r) as [|q qs] eqn:Eq.
  - unfold r_enter_alt_core. rewrite Ha. cbn. exact Eq.
  - unfold r_flush. destruct (r_buf r) as [|b0 bs] eqn:Eb; [congruence|]. rewrite Hl.
    change (bytes_eqb (b0 :: bs) []) with false. cbv iota. rewrite Ha, Eq. cbn [negb andb fst snd].
    unfold r_enter_alt_core. cbn. reflexivity.
Qed.
