(* C18, window size: a small model of the resize listener (signals_unix.go listenForResize, tty.go checkResize,
   tied by their shapes): SIGWINCH is delivered into a channel of capacity 1; the listener takes a signal, THEN reads the
   size, then blocks in Send until the event loop takes the WindowSizeMsg.  The terminal may be resized at any time,
   any number of times.  Invariant: whenever nothing is pending, the last size Update received is the true one. *)
From Coq Require Import Bool Arith List.
Import ListNotations.

Inductive lpc := LWait | LRead | LSend (s : nat).
Record rstate := { cur : nat; pending : bool; lst : lpc; delivered : option nat }.

Inductive rlabel :=
| RzResize (s : nat)      (* the terminal is resized to s and the kernel raises SIGWINCH *)
| RzTake                  (* the listener receives from the signal channel *)
| RzQuery                 (* term.GetSize *)
| RzDeliver.              (* the event loop takes the WindowSizeMsg (Update will get it; the renderer adopts it) *)

Definition rstep (s : rstate) (l : rlabel) : option rstate :=
  match l with
  | RzResize n => Some {| cur := n; pending := true; lst := lst s; delivered := delivered s |}
  | RzTake => match lst s with
              | LWait => if pending s then Some {| cur := cur s; pending := false; lst := LRead; delivered := delivered s |} else None
              | _ => None end
  | RzQuery => match lst s with
               | LRead => Some {| cur := cur s; pending := pending s; lst := LSend (cur s); delivered := delivered s |}
               | _ => None end
  | RzDeliver => match lst s with
                 | LSend n => Some {| cur := cur s; pending := pending s; lst := LWait; delivered := Some n |}
                 | _ => None end
  end.

Definition rrun1 (s : rstate) (l : rlabel) : rstate := match rstep s l with Some s' => s' | None => s end.
Definition rrun (s : rstate) (ls : list rlabel) : rstate := fold_left rrun1 ls s.

(* at start-up handleResize queries the size once (go p.checkResize()) before listening *)
Definition rinit (size0 : nat) : rstate := {| cur := size0; pending := false; lst := LRead; delivered := None |}.

Definition RInv (s : rstate) : Prop :=
  pending s = true \/ lst s = LRead \/ lst s = LSend (cur s) \/ (lst s = LWait /\ delivered s = Some (cur s)).

Lemma RInv_init n : RInv (rinit n).
Proof. right. left. reflexivity. Qed.

Lemma RInv_step s l s' : RInv s -> rstep s l = Some s' -> RInv s'.
Proof.
  intros H E. destruct l as [n| | |]; cbn in E.
  - inversion E; subst. left. reflexivity.
  - destruct (lst s) eqn:L; try discriminate. destruct (pending s) eqn:P; try discriminate. inversion E; subst.
    right. left. reflexivity.
  - destruct (lst s) eqn:L; try discriminate. inversion E; subst. cbn. right. right. left. reflexivity.
  - destruct (lst s) as [| |n] eqn:L; try discriminate. inversion E; subst.
    destruct H as [H|[H|[H|[H _]]]].
    + left. exact H.
    + congruence.
    + right. right. right. cbn. split; [reflexivity|]. rewrite L in H. inversion H. reflexivity.
    + congruence.
Qed.

Theorem resize_invariant : forall n ls, RInv (rrun (rinit n) ls).
Proof.
  intros n ls. assert (G : forall s, RInv s -> RInv (rrun s ls)).
  { induction ls as [|l t IH]; intros s H; [exact H|]. cbn. apply IH. unfold rrun1.
    destruct (rstep s l) eqn:E; [eapply RInv_step; eauto|exact H]. }
  apply G, RInv_init.
Qed.

(* the statement: once the listener is idle with no signal pending, what Update last received is the true size *)
Theorem last_reported_size_is_true : forall n ls,
  let s := rrun (rinit n) ls in
  pending s = false -> lst s = LWait -> delivered s = Some (cur s).
Proof.
  intros n ls s Hp Hl. destruct (resize_invariant n ls) as [H|[H|[H|[_ H]]]]; fold s in H; try congruence.
Qed.

(* progress: the listener is never stuck with work to do *)
Theorem resize_listener_progress : forall s,
  (lst s = LWait -> pending s = true -> rstep s RzTake <> None) /\
  (lst s = LRead -> rstep s RzQuery <> None) /\
  (forall n, lst s = LSend n -> rstep s RzDeliver <> None).
Proof.
  intros s. repeat split; intros; cbn.
  - rewrite H, H0. discriminate.
  - rewrite H. discriminate.
  - rewrite H. discriminate.
Qed.

(* the variant that drains the signal channel AFTER reading the size is wrong: a witness *)
Definition rstep_drain_after (s : rstate) (l : rlabel) : option rstate :=
  match l with
  | RzQuery => match lst s with
               | LRead => Some {| cur := cur s; pending := pending s; lst := LSend (cur s); delivered := delivered s |}
               | _ => None end
  | RzDeliver => match lst s with
                 | LSend n => Some {| cur := cur s; pending := false (* drained *); lst := LWait; delivered := Some n |}
                 | _ => None end
  | _ => rstep s l
  end.
Example drain_after_read_loses_a_resize :
  let s := fold_left (fun s l => match rstep_drain_after s l with Some s' => s' | None => s end)
                     [RzQuery; RzResize 7; RzDeliver] (rinit 3) in
  pending s = false /\ lst s = LWait /\ delivered s = Some 3 /\ cur s = 7.
Proof. vm_compute. repeat split. Qed.
