(* C18, window size, second model: the resize listener of ResizeModel.v TOGETHER WITH the WindowSize command
   (commands.go WindowSize -> windowSizeMsg -> eventLoop: `go p.checkResize()`): any number of command goroutines query
   the size concurrently with the listener, each one reads the size and then blocks in Send.

   What the code guarantees with several queriers - and what it does not:
   * every WindowSizeMsg carries a size the terminal really had between the cause of the report (the signal was taken /
     the command was dispatched) and the moment the message is handed to the loop (`reports_are_fresh`);
   * without commands the model IS ResizeModel.v (`no_commands_is_the_listener`), so there the last report is the true
     size once everything is quiet;
   * with a command in flight the last report can be an older size (`stale_report_can_arrive_last`, a 6-label
     witness): the command's goroutine read the size before a resize and sent it after the listener's report.  The
     property as stated asks for "a WindowSizeMsg with the true size ... on every WindowSize command" - true at the
     moment of the query - so this is a limit of what the reports promise, recorded in DESIGN.md, not a violation. *)
From Coq Require Import Bool Arith List Lia.
Import ListNotations.
From BT Require Import Proof.ResizeModel.

(* ghost: the sizes the terminal has had since the cause of a report, oldest first (never empty) *)
Definition window := list nat.

Inductive qpc :=
| QRead (w : window)            (* about to call term.GetSize *)
| QSend (n : nat) (w : window). (* blocked in p.Send(WindowSizeMsg n) *)

Inductive lpc2 := L2Wait | L2Busy (q : qpc).

Record report := { r_size : nat; r_window : window; r_by_command : bool }.

Record cstate := {
  c_cur : nat;
  c_pending : bool;
  c_lst : lpc2;
  c_cmds : list qpc;              (* the command goroutines in flight *)
  c_delivered : option nat;       (* the last size Update received *)
  c_log : list report             (* every report handed to the loop, newest first *)
}.

Inductive clabel :=
| CzResize (n : nat)
| CzTake | CzQuery | CzDeliver               (* the listener, as in ResizeModel *)
| CzIssue                                    (* the loop dispatches a windowSizeMsg: go p.checkResize() *)
| CzCmdQuery (i : nat)                       (* command goroutine i reads the size *)
| CzCmdDeliver (i : nat).                    (* the loop takes command goroutine i's message *)

Definition q_resize (n : nat) (q : qpc) : qpc :=
  match q with QRead w => QRead (w ++ [n]) | QSend m w => QSend m (w ++ [n]) end.

Definition l_resize (n : nat) (l : lpc2) : lpc2 :=
  match l with L2Wait => L2Wait | L2Busy q => L2Busy (q_resize n q) end.

Fixpoint upd {A} (l : list A) (i : nat) (x : A) : list A :=
  match l, i with
  | [], _ => []
  | _ :: t, O => x :: t
  | h :: t, S j => h :: upd t j x
  end.

Fixpoint del {A} (l : list A) (i : nat) : list A :=
  match l, i with
  | [], _ => []
  | _ :: t, O => t
  | h :: t, S j => h :: del t j
  end.

Definition cstep (s : cstate) (l : clabel) : option cstate :=
  match l with
  | CzResize n =>
      Some {| c_cur := n; c_pending := true; c_lst := l_resize n (c_lst s); c_cmds := map (q_resize n) (c_cmds s);
              c_delivered := c_delivered s; c_log := c_log s |}
  | CzTake =>
      match c_lst s with
      | L2Wait => if c_pending s
                  then Some {| c_cur := c_cur s; c_pending := false; c_lst := L2Busy (QRead [c_cur s]); c_cmds := c_cmds s;
                               c_delivered := c_delivered s; c_log := c_log s |}
                  else None
      | _ => None
      end
  | CzQuery =>
      match c_lst s with
      | L2Busy (QRead w) => Some {| c_cur := c_cur s; c_pending := c_pending s; c_lst := L2Busy (QSend (c_cur s) w);
                                    c_cmds := c_cmds s; c_delivered := c_delivered s; c_log := c_log s |}
      | _ => None
      end
  | CzDeliver =>
      match c_lst s with
      | L2Busy (QSend n w) => Some {| c_cur := c_cur s; c_pending := c_pending s; c_lst := L2Wait; c_cmds := c_cmds s;
                                      c_delivered := Some n;
                                      c_log := {| r_size := n; r_window := w; r_by_command := false |} :: c_log s |}
      | _ => None
      end
  | CzIssue =>
      Some {| c_cur := c_cur s; c_pending := c_pending s; c_lst := c_lst s; c_cmds := c_cmds s ++ [QRead [c_cur s]];
              c_delivered := c_delivered s; c_log := c_log s |}
  | CzCmdQuery i =>
      match nth_error (c_cmds s) i with
      | Some (QRead w) => Some {| c_cur := c_cur s; c_pending := c_pending s; c_lst := c_lst s;
                                  c_cmds := upd (c_cmds s) i (QSend (c_cur s) w);
                                  c_delivered := c_delivered s; c_log := c_log s |}
      | _ => None
      end
  | CzCmdDeliver i =>
      match nth_error (c_cmds s) i with
      | Some (QSend n w) => Some {| c_cur := c_cur s; c_pending := c_pending s; c_lst := c_lst s;
                                    c_cmds := del (c_cmds s) i; c_delivered := Some n;
                                    c_log := {| r_size := n; r_window := w; r_by_command := true |} :: c_log s |}
      | _ => None
      end
  end.

Definition crun1 (s : cstate) (l : clabel) : cstate := match cstep s l with Some s' => s' | None => s end.
Definition crun (s : cstate) (ls : list clabel) : cstate := fold_left crun1 ls s.

(* start-up: handleResize queries once before listening (as rinit) *)
Definition cinit (size0 : nat) : cstate :=
  {| c_cur := size0; c_pending := false; c_lst := L2Busy (QRead [size0]); c_cmds := []; c_delivered := None; c_log := [] |}.

(* ---- freshness ---------------------------------------------------------------------------------------------- *)

Definition q_ok (cur : nat) (q : qpc) : Prop :=
  match q with
  | QRead w => last w cur = cur /\ w <> []
  | QSend n w => In n w
  end.

Definition l_ok (cur : nat) (l : lpc2) : Prop := match l with L2Wait => True | L2Busy q => q_ok cur q end.

Definition report_fresh (r : report) : Prop := In (r_size r) (r_window r).

Definition CInv (s : cstate) : Prop :=
  l_ok (c_cur s) (c_lst s) /\ Forall (q_ok (c_cur s)) (c_cmds s) /\ Forall report_fresh (c_log s).

Lemma last_snoc {A} (w : list A) (x d : A) : last (w ++ [x]) d = x.
Proof. induction w as [|a w IH]; [reflexivity|]. cbn [app]. destruct (w ++ [x]) eqn:E; [destruct w; discriminate|].
       cbn [last]. exact IH. Qed.

Lemma q_resize_ok cur n q : q_ok cur q -> q_ok n (q_resize n q).
Proof.
  destruct q as [w|m w]; cbn.
  - intros _. split; [apply last_snoc|]. destruct w; discriminate.
  - intros H. apply in_or_app. left. exact H.
Qed.

Lemma last_in {A} (w : list A) (d : A) : w <> [] -> In (last w d) w.
Proof. induction w as [|a w IH]; [congruence|]. intros _. destruct w as [|b w]; [left; reflexivity|].
       right. apply IH. discriminate. Qed.

Lemma q_query_ok cur w : q_ok cur (QRead w) -> q_ok cur (QSend cur w).
Proof. cbn. intros [H N]. rewrite <- H. apply last_in. exact N. Qed.

Lemma Forall_upd {A} (P : A -> Prop) l i x : Forall P l -> P x -> Forall P (upd l i x).
Proof. revert i; induction l as [|h t IH]; intros i Hl Hx; [constructor|]. inversion Hl; subst.
       destruct i; cbn; constructor; auto. Qed.

Lemma Forall_del {A} (P : A -> Prop) l i : Forall P l -> Forall P (del l i).
Proof. revert i; induction l as [|h t IH]; intros i Hl; [constructor|]. inversion Hl; subst.
       destruct i; cbn; [assumption|constructor; auto]. Qed.

Lemma Forall_nth {A} (P : A -> Prop) l i x : Forall P l -> nth_error l i = Some x -> P x.
Proof. intros H E. rewrite Forall_forall in H. apply H. eapply nth_error_In; eauto. Qed.

Lemma CInv_init n : CInv (cinit n).
Proof. repeat split; cbn; try constructor. discriminate. Qed.

Lemma CInv_step s l s' : CInv s -> cstep s l = Some s' -> CInv s'.
Proof.
  intros (Hl & Hc & Hg) E. destruct l as [n| | | | |i|i]; cbn in E.
  - inversion E; subst; clear E. repeat split; cbn.
    + destruct (c_lst s) as [|q]; cbn; [exact I|]. apply (q_resize_ok (c_cur s)). exact Hl.
    + rewrite Forall_map. eapply Forall_impl; [|exact Hc]. intros q. apply q_resize_ok.
    + exact Hg.
  - destruct (c_lst s) eqn:L; try discriminate. destruct (c_pending s); try discriminate. inversion E; subst; clear E.
    repeat split; cbn; auto. discriminate.
  - destruct (c_lst s) as [|[w|m w]] eqn:L; try discriminate. inversion E; subst; clear E.
    repeat split; cbn; auto. apply (q_query_ok (c_cur s) w). exact Hl.
  - destruct (c_lst s) as [|[w|m w]] eqn:L; try discriminate. inversion E; subst; clear E.
    repeat split; cbn; auto; try (constructor; [exact Hl|exact Hg]).
  - inversion E; subst; clear E. repeat split; cbn; auto.
    apply Forall_app. split; [exact Hc|]. constructor; [|constructor]. cbn. split; [reflexivity|discriminate].
  - destruct (nth_error (c_cmds s) i) as [[w|m w]|] eqn:N; try discriminate. inversion E; subst; clear E.
    repeat split; cbn; auto. apply Forall_upd; [exact Hc|]. apply q_query_ok. eapply (Forall_nth _ _ _ _ Hc N).
  - destruct (nth_error (c_cmds s) i) as [[w|m w]|] eqn:N; try discriminate. inversion E; subst; clear E.
    repeat split; cbn; auto.
    + apply Forall_del. exact Hc.
    + constructor; [|exact Hg]. exact (Forall_nth _ _ _ _ Hc N).
Qed.

Lemma CInv_run s ls : CInv s -> CInv (crun s ls).
Proof.
  revert s; induction ls as [|l t IH]; intros s H; [exact H|]. cbn. apply IH. unfold crun1.
  destruct (cstep s l) eqn:E; [eapply CInv_step; eauto|exact H].
Qed.

(* every report - from the listener or from a WindowSize command, under every interleaving and any resizes - carries a
   size the terminal had between the report's cause and its query *)
Theorem reports_are_fresh : forall n ls r, In r (c_log (crun (cinit n) ls)) -> In (r_size r) (r_window r).
Proof.
  intros n ls r Hr. destruct (CInv_run (cinit n) ls (CInv_init n)) as (_ & _ & Hg).
  rewrite Forall_forall in Hg. exact (Hg r Hr).
Qed.

(* and what Update last received is the newest entry of that log *)
Theorem delivered_is_the_newest_report : forall n ls,
  let s := crun (cinit n) ls in
  match c_log s with [] => c_delivered s = None | r :: _ => c_delivered s = Some (r_size r) end.
Proof.
  intros n ls. cbv zeta.
  assert (G : forall s, match c_log s with [] => c_delivered s = None | r :: _ => c_delivered s = Some (r_size r) end ->
                        match c_log (crun s ls) with [] => c_delivered (crun s ls) = None | r :: _ => c_delivered (crun s ls) = Some (r_size r) end).
  { induction ls as [|l t IH]; intros s H; [exact H|]. cbn. apply IH. unfold crun1.
    destruct (cstep s l) as [s'|] eqn:E; [|exact H].
    destruct l as [m| | | | |i|i]; cbn in E.
    - inversion E; subst; exact H.
    - destruct (c_lst s); try discriminate. destruct (c_pending s); try discriminate. inversion E; subst; exact H.
    - destruct (c_lst s) as [|[w|m w]]; try discriminate. inversion E; subst; exact H.
    - destruct (c_lst s) as [|[w|m w]]; try discriminate. inversion E; subst; reflexivity.
    - inversion E; subst; exact H.
    - destruct (nth_error (c_cmds s) i) as [[w|m w]|]; try discriminate. inversion E; subst; exact H.
    - destruct (nth_error (c_cmds s) i) as [[w|m w]|]; try discriminate. inversion E; subst; reflexivity. }
  apply G. reflexivity.
Qed.

(* ---- without commands this is the listener of ResizeModel.v ------------------------------------------------- *)

Definition is_listener_label (l : clabel) : bool :=
  match l with CzResize _ | CzTake | CzQuery | CzDeliver => true | _ => false end.

Definition to_rlabel (l : clabel) : rlabel :=
  match l with CzResize n => RzResize n | CzTake => RzTake | CzQuery => RzQuery | _ => RzDeliver end.

Definition abs_l (l : lpc2) : lpc := match l with L2Wait => LWait | L2Busy (QRead _) => LRead | L2Busy (QSend n _) => LSend n end.
Definition abs_s (s : cstate) : rstate :=
  {| cur := c_cur s; pending := c_pending s; lst := abs_l (c_lst s); delivered := c_delivered s |}.

Lemma abs_step s l : is_listener_label l = true -> c_cmds s = [] ->
  abs_s (crun1 s l) = rrun1 (abs_s s) (to_rlabel l) /\ c_cmds (crun1 s l) = [].
Proof.
  intros Hl Hc. destruct l as [n| | | | |i|i]; try discriminate; unfold crun1, rrun1; cbn.
  - rewrite Hc. split; [|reflexivity]. unfold abs_s; cbn. f_equal. destruct (c_lst s) as [|[w|m w]]; reflexivity.
  - destruct (c_lst s) as [|[w|m w]] eqn:L; cbn; try (split; [unfold abs_s; rewrite L; reflexivity|exact Hc]).
    destruct (c_pending s) eqn:P; cbn; (split; [unfold abs_s; cbn; rewrite ?L, ?P; reflexivity|exact Hc]).
  - destruct (c_lst s) as [|[w|m w]] eqn:L; cbn; (split; [unfold abs_s; cbn; rewrite ?L; reflexivity|exact Hc]).
  - destruct (c_lst s) as [|[w|m w]] eqn:L; cbn; (split; [unfold abs_s; cbn; rewrite ?L; reflexivity|exact Hc]).
Qed.

Theorem no_commands_is_the_listener : forall n ls, forallb is_listener_label ls = true ->
  abs_s (crun (cinit n) ls) = rrun (rinit n) (map to_rlabel ls).
Proof.
  intros n ls H.
  assert (G : forall s, c_cmds s = [] -> abs_s (crun s ls) = rrun (abs_s s) (map to_rlabel ls)).
  { induction ls as [|l t IH]; intros s Hc; [reflexivity|]. cbn in H. apply andb_prop in H. destruct H as [Hl Ht].
    cbn. destruct (abs_step s l Hl Hc) as [Ha Hc']. rewrite <- Ha. apply IH; assumption. }
  apply (G (cinit n)). reflexivity.
Qed.

Corollary last_report_true_without_commands : forall n ls, forallb is_listener_label ls = true ->
  let s := crun (cinit n) ls in
  c_pending s = false -> c_lst s = L2Wait -> c_delivered s = Some (c_cur s).
Proof.
  intros n ls H s Hp Hl.
  pose proof (last_reported_size_is_true n (map to_rlabel ls)) as T. cbv zeta in T.
  rewrite <- (no_commands_is_the_listener n ls H) in T. fold s in T. cbn in T.
  apply T; [exact Hp|]. rewrite Hl. reflexivity.
Qed.

(* ---- with a command in flight the last report can be stale ----------------------------------------------------- *)
Example stale_report_can_arrive_last :
  let s := crun (cinit 3) [CzQuery; CzDeliver; CzIssue; CzCmdQuery 0; CzResize 7; CzTake; CzQuery; CzDeliver; CzCmdDeliver 0] in
  c_pending s = false /\ c_lst s = L2Wait /\ c_cmds s = [] /\ c_cur s = 7 /\ c_delivered s = Some 3.
Proof. vm_compute. repeat split. Qed.
