(* Reflection for the control skeleton: a candidate set of states (a
   PositiveMap computed by the build) is CHECKED by the kernel to contain the
   initial states and to be closed under every transition; hence it contains
   every reachable state (any schedule, any length).  Per-state obligations
   checked over the set therefore hold of every reachable state.  A rank table
   is checked to decrease strictly along restricted edges out of struck
   states: every restricted path is bounded.  The set and the table are
   certificates: produced by computation, accepted only by these checks. *)
From Coq Require Import List Bool PArith NArith Arith FMapPositive Lia.
Import ListNotations.
From BT Require Import Model.Skel.

Scheme Equality for mkind. Scheme Equality for exitr. Scheme Equality for err. Scheme Equality for phase.
Scheme Equality for decision. Scheme Equality for runpc. Scheme Equality for cdpc. Scheme Equality for sigpc.
Scheme Equality for ifwpc. Scheme Equality for rdpc. Scheme Equality for tkpc. Scheme Equality for kxpc. Scheme Equality for finst.
Scheme Equality for ekind.
Scheme Equality for skel.

Lemma skel_beq_eq a b : skel_beq a b = true -> a = b.
Proof. apply internal_skel_dec_bl. Qed.
Lemma skel_beq_refl a : skel_beq a a = true.
Proof. apply internal_skel_dec_lb. reflexivity. Qed.

Open Scope N_scope.

Definition n_bool (b : bool) : N := if b then 1 else 0.
Definition n_mkind (k : mkind) : N := match k with MkUser => 0 | MkQuit => 1 | MkInt => 2 | MkBatch => 3 | MkExec => 4 end.
Definition n_exitr (e : exitr) : N := match e with XrNil => 0 | XrInt => 1 | XrReadErr => 2 | XrCtx => 3 end.
Definition n_err (e : err) : N := match e with ENil => 0 | EInt => 1 | EReadErr => 2 | EKilled => 3 | EOther => 4 | ENilAfterPanic => 5 end.
Definition n_phase (p : phase) : N := match p with Sd0 => 0 | Sd1 => 1 | Sd2 => 2 | Sd3 => 3 | Sd4 => 4 | Sd5 => 5 end.
Definition n_dec (d : decision) : N := match d with DNone => 0 | DQuit => 1 | DInt => 2 | DReadErr => 3 | DCtx => 4 | DPanic => 5 | DStartFail => 6 end.
Definition n_run (r : runpc) : N :=
  match r with
  | RPre => 0 | RStartup => 1 | RInitCb => 2 | RView0Cb => 3 | RInitReader => 4 | RSelect => 5
  | RFilterCb k => 6 + n_mkind k | RDispatch k => 11 + n_mkind k
  | RBatch => 16 | RBatchAfter => 17 | RUpdateCb => 18 | RCmdSend => 19 | RViewCb => 20
  | RExecRelease => 21 | RExecRun => 22 | RExecRestore => 23
  | RExit e => 24 + n_exitr e | RFinalViewCb => 28
  | RSd p k e => 29 + (n_phase p * 2 + n_bool k) * 6 + n_err e
  | RReturned e => 101 + n_err e
  end.
Definition n_cd (c : cdpc) : N := match c with CdNs => 0 | CdSelect => 1 | CdDone => 2 end.
Definition n_sg (c : sigpc) : N := match c with SgOff => 0 | SgNr => 1 | SgWait => 2 | SgSendInt => 3 | SgSendQuit => 4 | SgDone => 5 end.
Definition n_ifw (c : ifwpc) : N := match c with IfNone => 0 | IfWait => 1 | IfDone => 2 end.
Definition n_rd (c : rdpc) : N := match c with RdNone => 0 | RdReading => 1 | RdSendMsg => 2 | RdSendErr => 3 | RdDone => 4 end.
Definition n_tk (c : tkpc) : N := match c with TkNs => 0 | TkListen => 1 | TkDone => 2 | TkStale => 3 end.
Definition n_kx (c : kxpc) : N := match c with KxNone => 0 | KxSd p => 1 + n_phase p | KxDone => 7 end.
Definition n_fin (c : finst) : N := match c with Fin0 => 0 | Fin1 => 1 | FinClosed => 2 end.

(* mixed-radix packing; never needs to be injective for soundness (the map stores the state itself) *)
Definition enc (s : skel) : positive :=
  N.succ_pos
    ((((((((((((((n_run s.(run) * 3 + n_cd s.(cd)) * 6 + n_sg s.(sg)) * 3 + n_ifw s.(ifw)) * 5 + n_rd s.(rd)) * 3 + n_tk s.(tk)) * 2
            + n_bool s.(once)) * 8 + n_kx s.(kx)) * 2 + n_bool s.(ctx)) * 2 + n_bool s.(ign)) * 3 + n_fin s.(fin)) * 2
        + n_bool s.(restored_last)) * 7 + n_dec s.(dec)) * 2 + n_bool s.(ext)) * 2 + n_bool s.(nosig)).

Module PM := PositiveMap.

Section Cert.
  Variable G : guards.

  Definition lookup (M : PM.t skel) (s : skel) : bool :=
    match PM.find (enc s) M with Some s0 => skel_beq s0 s | None => false end.

  (* ---- exploration (untrusted: only its result is checked) *)
  Fixpoint add_all (succs : list skel) (M : PM.t skel) (front : list skel) : PM.t skel * list skel :=
    match succs with
    | [] => (M, front)
    | s :: t => if lookup M s then add_all t M front else add_all t (PM.add (enc s) s M) (s :: front)
    end.

  Fixpoint explore (fuel : nat) (front : list skel) (M : PM.t skel) : PM.t skel :=
    match fuel with
    | O => M
    | S f =>
      match front with
      | [] => M
      | _ => let '(M', front') := fold_left (fun acc s => add_all (map snd (steps G s)) (fst acc) (snd acc)) front (M, []) in
             explore f front' M'
      end
    end.

  Definition reach_set : PM.t skel :=
    let '(M0, f0) := add_all inits (PM.empty skel) [] in explore 2000 f0 M0.

  (* ---- the checks *)
  Definition closed (M : PM.t skel) : bool :=
    forallb (fun ks => Pos.eqb (fst ks) (enc (snd ks)) && forallb (fun e => lookup M (snd e)) (steps G (snd ks))) (PM.elements M).
  Definition has_inits (M : PM.t skel) : bool := forallb (lookup M) inits.
  Definition all_states (M : PM.t skel) (P : skel -> bool) : bool := forallb (fun ks => P (snd ks)) (PM.elements M).

  Inductive reach : skel -> Prop :=
  | reach_init s : In s inits -> reach s
  | reach_step s k s' : reach s -> In (k, s') (steps G s) -> reach s'.

  Lemma lookup_in M s : lookup M s = true -> In (enc s, s) (PM.elements M).
  Proof.
    unfold lookup. destruct (PM.find (enc s) M) as [s0|] eqn:E; [|discriminate].
    intros H. apply skel_beq_eq in H. subst s0. apply PM.elements_correct. exact E.
  Qed.

  Theorem closed_sound M : closed M = true -> has_inits M = true -> forall s, reach s -> lookup M s = true.
  Proof.
    intros Hc Hi s Hr. induction Hr as [s Hin | s k s' Hr IH Hstep].
    - unfold has_inits in Hi. rewrite forallb_forall in Hi. apply Hi. exact Hin.
    - unfold closed in Hc. rewrite forallb_forall in Hc.
      specialize (Hc _ (lookup_in _ _ IH)). cbn [fst snd] in Hc.
      apply andb_true_iff in Hc. destruct Hc as [_ Hc]. rewrite forallb_forall in Hc.
      exact (Hc _ Hstep).
  Qed.

  Theorem all_states_sound M P : all_states M P = true -> forall s, lookup M s = true -> P s = true.
  Proof.
    unfold all_states. rewrite forallb_forall. intros H s Hl. exact (H _ (lookup_in _ _ Hl)).
  Qed.

  (* ---- rank certificate *)
  Definition rank_of (Rk : PM.t N) (s : skel) : N := match PM.find (enc s) Rk with Some n => n | None => 0 end.

  (* longest restricted path out of a struck state, by memoised depth-first search (untrusted) *)
  Fixpoint rank_dfs (fuel : nat) (s : skel) (memo : PM.t N) : N * PM.t N :=
    match PM.find (enc s) memo with
    | Some n => (n, memo)
    | None =>
      match fuel with
      | O => (0, memo)
      | S f =>
        let '(m, memo') := fold_left (fun acc e =>
                             if restricted (fst e) then
                               let '(n, mm) := rank_dfs f (snd e) (snd acc) in (N.max (fst acc) (1 + n), mm)
                             else acc) (steps G s) (0, memo) in
        (m, PM.add (enc s) m memo')
      end
    end.

  Definition rank_table (M : PM.t skel) : PM.t N :=
    PM.fold (fun _ s memo => if struck s then snd (rank_dfs 400 s memo) else memo) M (PM.empty N).

  (* per-state obligation: restricted edges out of a struck state decrease the rank strictly, a
     batch hand-over raises it by less than c, and the target is struck again *)
  Definition rank_ok_at (Rk : PM.t N) (c : N) (s : skel) : bool :=
    negb (struck s) ||
    forallb (fun e =>
      struck (snd e) &&
      match fst e with
      | KRt | KCbEnd => rank_of Rk (snd e) <? rank_of Rk s
      | KBatchMore => rank_of Rk (snd e) + 1 <=? rank_of Rk s + c
      | KEnv => true
      end) (steps G s).

  (* no dead end: a struck state that has not returned has an enabled restricted step *)
  Definition progress_at (s : skel) : bool :=
    negb (struck s) || is_returned s || existsb (fun e => restricted (fst e)) (steps G s).

  (* paths over restricted edges and batch hand-overs *)
  Fixpoint path_ok (s : skel) (p : list (ekind * skel)) : Prop :=
    match p with
    | [] => True
    | e :: t => In e (steps G s) /\ (restricted (fst e) = true \/ fst e = KBatchMore) /\ path_ok (snd e) t
    end.
  Definition nbatch (p : list (ekind * skel)) : nat := length (filter (fun e => ekind_beq (fst e) KBatchMore) p).

  Theorem bounded_paths M Rk c :
    closed M = true -> has_inits M = true -> all_states M (rank_ok_at Rk c) = true ->
    forall p s, reach s -> struck s = true -> path_ok s p ->
      (N.of_nat (length p) <= rank_of Rk s + c * N.of_nat (nbatch p)).
  Proof.
    intros Hc Hi Hr. induction p as [|e t IH]; intros s Hreach Hst Hp.
    - cbn. lia.
    - destruct Hp as [Hin [Hk Ht]].
      pose proof (all_states_sound _ _ Hr s (closed_sound _ Hc Hi s Hreach)) as Hs.
      unfold rank_ok_at in Hs. rewrite Hst in Hs. cbn [negb orb] in Hs.
      rewrite forallb_forall in Hs. specialize (Hs _ Hin).
      apply andb_true_iff in Hs. destruct Hs as [Hst' Hs].
      assert (Hreach' : reach (snd e)) by (destruct e as [k s']; eapply reach_step; eauto).
      specialize (IH _ Hreach' Hst' Ht).
      unfold nbatch in *. cbn [filter length].
      destruct e as [k s']. cbn [fst snd] in *.
      destruct k; cbn [ekind_beq] in *.
      + apply N.ltb_lt in Hs. cbn [length]. lia.
      + destruct Hk as [Hk|Hk]; discriminate Hk.
      + apply N.ltb_lt in Hs. cbn [length]. lia.
      + apply N.leb_le in Hs. cbn [length]. lia.
  Qed.

  Theorem struck_stable M Rk c :
    closed M = true -> has_inits M = true -> all_states M (rank_ok_at Rk c) = true ->
    forall s e, reach s -> struck s = true -> In e (steps G s) -> struck (snd e) = true.
  Proof.
    intros Hc Hi Hr s e Hreach Hst Hin.
    pose proof (all_states_sound _ _ Hr s (closed_sound _ Hc Hi s Hreach)) as Hs.
    unfold rank_ok_at in Hs. rewrite Hst in Hs. cbn [negb orb] in Hs.
    rewrite forallb_forall in Hs. specialize (Hs _ Hin).
    apply andb_true_iff in Hs. tauto.
  Qed.

  Theorem reach_all M P : closed M = true -> has_inits M = true -> all_states M P = true -> forall s, reach s -> P s = true.
  Proof. intros Hc Hi HP s Hr. exact (all_states_sound _ _ HP s (closed_sound _ Hc Hi s Hr)). Qed.

  (* ---- counterexample search (used by the check when an obligation fails): shortest path from an
     initial state to a state violating P, as the list of (kind, state) steps *)
  Fixpoint add_all_p (from : skel) (succs : list (ekind * skel)) (M : PM.t (skel * option (ekind * skel))) (front : list skel)
    : PM.t (skel * option (ekind * skel)) * list skel :=
    match succs with
    | [] => (M, front)
    | (k, s) :: t =>
      match PM.find (enc s) M with
      | Some _ => add_all_p from t M front
      | None => add_all_p from t (PM.add (enc s) (s, Some (k, from)) M) (s :: front)
      end
    end.

  Fixpoint explore_p (fuel : nat) (front : list skel) (M : PM.t (skel * option (ekind * skel))) : PM.t (skel * option (ekind * skel)) :=
    match fuel with
    | O => M
    | S f =>
      match front with
      | [] => M
      | _ => let '(M', front') := fold_left (fun acc s => add_all_p s (steps G s) (fst acc) (snd acc)) (rev front) (M, []) in
             explore_p f front' M'
      end
    end.

  Fixpoint back (fuel : nat) (M : PM.t (skel * option (ekind * skel))) (s : skel) (acc : list (ekind * skel)) : list (ekind * skel) :=
    match fuel with
    | O => acc
    | S f => match PM.find (enc s) M with
             | Some (_, Some (k, from)) => back f M from ((k, s) :: acc)
             | _ => acc
             end
    end.

  Definition parents : PM.t (skel * option (ekind * skel)) :=
    let M0 := fold_left (fun m s => PM.add (enc s) (s, None) m) inits (PM.empty _) in
    explore_p 2000 inits M0.

  (* the violating state reached by the fewest steps *)
  Definition find_bad (P : skel -> bool) : option (list (ekind * skel)) :=
    let M := parents in
    let bads := filter (fun x => negb (P (fst (snd x)))) (PM.elements M) in
    let best := fold_left (fun (b : option (nat * list (ekind * skel))) x =>
                  let p := back 500 M (fst (snd x)) [] in
                  match b with
                  | None => Some (length p, p)
                  | Some (n, _) => if Nat.ltb (length p) n then Some (length p, p) else b
                  end) bads None in
    match best with Some (_, p) => Some p | None => None end.
End Cert.
