(* Further facts about every reachable state of the control skeleton (same certificates as SkelProofs). *)
From Coq Require Import List Bool PArith NArith Arith FMapPositive Lia.
Import ListNotations.
From BT Require Import Model.Skel Model.SkelTie Proof.SkelCert Proof.SkelProofs Spec.LifeSpec.

(* C07: by the time the terminal is restored (and at every return) the renderer's ticker goroutine has exited:
   stop()/kill() hand-shake with it before the final flush, so nothing paints after the final frame *)
Definition ticker_gone (s : skel) : bool :=
  match run s with
  | RSd Sd4 _ _ | RSd Sd5 _ _ | RReturned _ => match tk s with TkListen => false | _ => true end
  | _ => true
  end.
Lemma ticker_gone_R : all_states R ticker_gone = true.
Proof. vm_cast_no_check (eq_refl true). Qed.
Theorem ticker_exits_before_restore : forall s, Reach s -> ticker_gone s = true.
Proof. exact (all_R _ ticker_gone_R). Qed.

(* C07: shutdown(kill = false), the path that renders the final frame, is taken exactly for a quit decision with a
   nil error, and only through the final View *)
Definition graceful_is_quit (s : skel) : bool :=
  match run s with
  | RSd _ false e => err_is e ENil && match dec s with DQuit => true | _ => false end
  | RFinalViewCb => match dec s with DQuit => true | _ => false end
  | _ => true
  end.
Lemma graceful_R : all_states R graceful_is_quit = true.
Proof. vm_cast_no_check (eq_refl true). Qed.
Theorem graceful_shutdown_is_quit : forall s, Reach s -> graceful_is_quit s = true.
Proof. exact (all_R _ graceful_R). Qed.
(* ... and a quit that nothing external raced does take it: the final frame is written *)
Definition quit_is_graceful (s : skel) : bool :=
  match run s, dec s with
  | RSd _ kill _, DQuit => ext s || negb kill
  | _, _ => true
  end.
Lemma quit_graceful_R : all_states R quit_is_graceful = true.
Proof. vm_cast_no_check (eq_refl true). Qed.
Theorem quit_renders_final_frame : forall s, Reach s -> quit_is_graceful s = true.
Proof. exact (all_R _ quit_graceful_R). Qed.

(* the error at return, in the vocabulary of the real-run Spec (Spec.LifeSpec): it is the class of a cause with
   that exit decision, or a quit overtaken by an external Kill / cancellation *)
Theorem returned_error_is_class_of_cause : forall s e, Reach s -> run s = RReturned e ->
  (exists c, dec_of c = dec s /\ err_is (class_of c) e = true) \/ (dec s = DQuit /\ ext s = true /\ e = EKilled).
Proof.
  intros s e Hr He. pose proof (returned_error_ok s Hr) as H. unfold error_ok in H. rewrite He in H.
  destruct (dec s) eqn:Hd.
  - discriminate.
  - destruct (ext s) eqn:Hx.
    + apply orb_true_iff in H. destruct H as [H|H].
      * left. exists CQuit. split; [reflexivity|exact H].
      * right. destruct e; try discriminate. repeat split.
    + left. exists CQuit. split; [reflexivity|exact H].
  - left. exists CInterrupt. split; [reflexivity|exact H].
  - left. exists CReadErr. split; [reflexivity|exact H].
  - left. exists CCtx. split; [reflexivity|exact H].
  - left. exists CPanic. split; [reflexivity|exact H].
  - left. exists CStartFail. split; [reflexivity|exact H].
Qed.
