(* The skeleton instantiated with the guards extracted from /repo: the
   reachable-set and rank certificates are computed here and checked by the
   kernel; everything below holds of EVERY state reachable under ANY schedule
   of ANY length, for the guards the source has today. *)
From Coq Require Import List Bool PArith NArith Arith FMapPositive Lia.
Import ListNotations.
From BT Require Import Model.Skel Model.SkelTie Proof.SkelCert.

Definition G : guards := Eval vm_compute in guards_of_gen.

Definition R : PM.t skel := Eval vm_compute in reach_set G.
Definition Rk : PM.t N := Eval vm_compute in rank_table G R.
Definition batch_slack : N := 2.

Lemma R_closed : closed G R = true.
Proof. vm_cast_no_check (eq_refl true). Qed.
Lemma R_inits : has_inits R = true.
Proof. vm_cast_no_check (eq_refl true). Qed.

Definition Reach := reach G.

Lemma reach_in_R s : Reach s -> lookup R s = true.
Proof. exact (closed_sound G R R_closed R_inits s). Qed.

Lemma all_R P : all_states R P = true -> forall s, Reach s -> P s = true.
Proof. intros H s Hr. exact (reach_all G R P R_closed R_inits H s Hr). Qed.

(* ---- C04 *)
Lemma rank_ok_R : all_states R (rank_ok_at G Rk batch_slack) = true.
Proof. vm_cast_no_check (eq_refl true). Qed.
Lemma progress_R : all_states R (progress_at G) = true.
Proof. vm_cast_no_check (eq_refl true). Qed.
Lemma error_ok_R : all_states R error_ok = true.
Proof. vm_cast_no_check (eq_refl true). Qed.

Theorem run_returns_bounded : forall p s, Reach s -> struck s = true -> path_ok G s p ->
  (N.of_nat (length p) <= rank_of Rk s + batch_slack * N.of_nat (nbatch p))%N.
Proof. exact (bounded_paths G R Rk batch_slack R_closed R_inits rank_ok_R). Qed.

Theorem no_dead_end : forall s, Reach s -> struck s = true -> is_returned s = false ->
  exists e, In e (steps G s) /\ restricted (fst e) = true.
Proof.
  intros s Hr Hs Hn. pose proof (all_R _ progress_R s Hr) as H. unfold progress_at in H.
  rewrite Hs, Hn in H. cbn [negb orb] in H. apply existsb_exists in H. exact H.
Qed.

Theorem struck_is_stable : forall s e, Reach s -> struck s = true -> In e (steps G s) -> struck (snd e) = true.
Proof. exact (struck_stable G R Rk batch_slack R_closed R_inits rank_ok_R). Qed.

Theorem rank_bound : forall s, Reach s -> (rank_of Rk s <= 60)%N.
Proof.
  assert (H : all_states R (fun s => (rank_of Rk s <=? 60)%N) = true) by (vm_cast_no_check (eq_refl true)).
  intros s Hr. apply N.leb_le. exact (all_R _ H s Hr).
Qed.

Theorem returned_error_ok : forall s, Reach s -> error_ok s = true.
Proof. exact (all_R _ error_ok_R). Qed.

(* ---- C05 (control half): the Run thread's last mode-affecting action before returning is restoreTerminalState *)
Definition restored_at_return (s : skel) : bool := negb (is_returned s) || restored_last s.
Lemma restored_R : all_states R restored_at_return = true.
Proof. vm_cast_no_check (eq_refl true). Qed.
Theorem returned_restored : forall s, Reach s -> is_returned s = true -> restored_last s = true.
Proof.
  intros s Hr Hret. pose proof (all_R _ restored_R s Hr) as H. unfold restored_at_return in H.
  rewrite Hret in H. exact H.
Qed.

(* ---- C13: once Run has returned the context is cancelled (every Send/Quit/Println/Printf gives up at once)
   and the finished channel is closed (every Wait caller, however many, passes) *)
Definition released_at_return (s : skel) : bool :=
  negb (is_returned s) || (ctx s && match fin s with FinClosed => true | _ => false end).
Lemma released_R : all_states R released_at_return = true.
Proof. vm_cast_no_check (eq_refl true). Qed.
Theorem returned_releases : forall s, Reach s -> is_returned s = true -> ctx s = true /\ fin s = FinClosed.
Proof.
  intros s Hr Hret. pose proof (all_R _ released_R s Hr) as H. unfold released_at_return in H.
  rewrite Hret in H. cbn [negb orb] in H. apply andb_true_iff in H. destruct H as [H1 H2].
  split; [exact H1|]. destruct (fin s); try discriminate; reflexivity.
Qed.
(* closed stays closed, cancelled stays cancelled *)
Definition release_stable (s : skel) : bool :=
  forallb (fun e => implb (ctx s) (ctx (snd e)) &&
                    implb (match fin s with FinClosed => true | _ => false end) (match fin (snd e) with FinClosed => true | _ => false end))
          (steps G s).
Lemma release_stable_R : all_states R release_stable = true.
Proof. vm_cast_no_check (eq_refl true). Qed.

(* ---- C17: while the external command runs nothing else writes and nothing reads *)
Definition exec_quiet (s : skel) : bool :=
  match run s with
  | RExecRun => match tk s with TkListen => false | _ => true end &&
                match rd s with RdReading => false | _ => true end && ign s && restored_last s
  | _ => true
  end.
Lemma exec_quiet_R : all_states R exec_quiet = true.
Proof. vm_cast_no_check (eq_refl true). Qed.
Theorem exec_is_quiet : forall s, Reach s -> run s = RExecRun ->
  tk s <> TkListen /\ rd s <> RdReading /\ ign s = true /\ restored_last s = true.
Proof.
  intros s Hr He. pose proof (all_R _ exec_quiet_R s Hr) as H. unfold exec_quiet in H. rewrite He in H.
  destruct (tk s); destruct (rd s); cbn in H; try discriminate;
    apply andb_true_iff in H; destruct H as [H1 H2]; repeat split; try discriminate; assumption.
Qed.
(* after the command the ticker and the reader run again *)
Definition exec_resumes (s : skel) : bool :=
  match run s with
  | RExecRestore => forallb (fun e => match fst e with
                                      | KRt => match run (snd e) with
                                               | RUpdateCb => match tk (snd e) with TkListen => true | _ => false end &&
                                                              negb (once (snd e)) &&
                                                              match rd s, rd (snd e) with RdNone, RdNone => true | RdNone, _ => false | _, RdNone => false | _, RdDone => false | _, _ => true end
                                               | _ => true end
                                      | _ => true end) (steps G s)
  | _ => true
  end.
Lemma exec_resumes_R : all_states R exec_resumes = true.
Proof. vm_cast_no_check (eq_refl true). Qed.

(* ---- C18 (signal half) *)
(* while signals are ignored no step makes the handler forward one, and the handler survives *)
Definition sending (c : sigpc) : bool := match c with SgSendInt | SgSendQuit => true | _ => false end.
Definition ignored_ok (s : skel) : bool :=
  negb (ign s) ||
  forallb (fun e => (sending (sg s) || negb (sending (sg (snd e)))) &&
                    match sg s, sg (snd e), fst e with SgWait, SgDone, KEnv => false | _, _, _ => true end) (steps G s).
Lemma ignored_R : all_states R ignored_ok = true.
Proof. vm_cast_no_check (eq_refl true). Qed.
(* no handler thread without the option's consent *)
Definition sigoff_ok (s : skel) : bool :=
  forallb (fun e => match sg s with SgOff => match sg (snd e) with SgOff => true | _ => false end | _ => true end) (steps G s).
Lemma sigoff_R : all_states R sigoff_ok = true.
Proof. vm_cast_no_check (eq_refl true). Qed.
(* SIGINT is forwarded as an interrupt, SIGTERM as a quit, when not ignored *)
Definition sigmap_ok (s : skel) : bool :=
  match sg s with
  | SgWait => ign s ||
              (existsb (fun e => ekind_beq (fst e) KEnv && skel_beq (snd e) (set_sg s SgSendInt)) (steps G s) &&
               existsb (fun e => ekind_beq (fst e) KEnv && skel_beq (snd e) (set_sg s SgSendQuit)) (steps G s))
  | _ => true
  end.
Lemma sigmap_R : all_states R sigmap_ok = true.
Proof. vm_cast_no_check (eq_refl true). Qed.
(* a forwarded interrupt / quit is taken by the event loop as that message *)
Definition sigrecv_ok (s : skel) : bool :=
  match run s, sg s with
  | RSelect, SgSendInt => existsb (fun e => ekind_beq (fst e) KRt && runpc_beq (run (snd e)) (RFilterCb MkInt) && sigpc_beq (sg (snd e)) (if g_sig_stays G then SgWait else SgDone)) (steps G s)
  | RSelect, SgSendQuit => existsb (fun e => ekind_beq (fst e) KRt && runpc_beq (run (snd e)) (RFilterCb MkQuit) && sigpc_beq (sg (snd e)) (if g_sig_stays G then SgWait else SgDone)) (steps G s)
  | _, _ => true
  end.
Lemma sigrecv_R : all_states R sigrecv_ok = true.
Proof. vm_cast_no_check (eq_refl true). Qed.
(* an interrupt decision returns ErrInterrupted, a quit decision nil (unless killed meanwhile): error_ok above *)

(* WithoutSignals: the handler never forwards a signal, whatever happens (exec, suspend, ...) *)
Definition nosig_ok (s : skel) : bool := negb (nosig s) || negb (sending (sg s)).
Lemma nosig_R : all_states R nosig_ok = true.
Proof. vm_cast_no_check (eq_refl true). Qed.
Theorem without_signals_never_forwards : forall s, Reach s -> nosig s = true -> sending (sg s) = false.
Proof.
  intros s Hr Hn. pose proof (all_R _ nosig_R s Hr) as H. unfold nosig_ok in H. rewrite Hn in H.
  cbn [negb orb] in H. destruct (sending (sg s)); [discriminate|reflexivity].
Qed.

(* the signal handler is there as long as the program is: it is gone only once a termination cause has struck
   (so a signal that a filter chose to swallow is not the last one the program can take) *)
Definition handler_alive (s : skel) : bool := match sg s with SgDone => struck s | _ => true end.
Lemma handler_alive_R : all_states R handler_alive = true.
Proof. vm_cast_no_check (eq_refl true). Qed.
Theorem signal_handler_stays : forall s, Reach s -> sg s = SgDone -> struck s = true.
Proof. intros s Hr Hs. pose proof (all_R _ handler_alive_R s Hr) as H. unfold handler_alive in H. rewrite Hs in H. exact H. Qed.

(* signals are ignored only inside a release window (or for ever under WithoutSignals): whenever the loop waits at its
   select, a signal counts - also after an Exec whose RestoreTerminal failed *)
Definition unignored_ok (s : skel) : bool := match run s with RSelect => negb (ign s) || nosig s | _ => true end.
Lemma unignored_R : all_states R unignored_ok = true.
Proof. vm_cast_no_check (eq_refl true). Qed.
Theorem signals_count_at_select : forall s, Reach s -> run s = RSelect -> nosig s = false -> ign s = false.
Proof.
  intros s Hr Hs Hn. pose proof (all_R _ unignored_R s Hr) as H. unfold unignored_ok in H. rewrite Hs, Hn in H.
  destruct (ign s); [discriminate|reflexivity].
Qed.
