(* Trace inclusion, real run -> skeleton: the sequence of user callbacks the Run goroutine of a REAL program went
   through (Init, first View, filter with the kind of message, Update, View, the external command, the error class
   Run returned) is accepted when the skeleton has a path from an initial state that enters exactly these callbacks in
   this order, every other step being invisible (other threads, runtime steps of the Run thread, the environment).
   Subset construction over the finite model; `accepts_sound` says an accepted trace really is a path of `steps`.
   Used by the checks of C04/C13 as a correspondence in the direction "the code does nothing the model cannot do". *)
From Coq Require Import List Bool PArith NArith Arith FMapPositive.
Import ListNotations.
From BT Require Import Model.Skel Proof.SkelCert.

Inductive obs :=
| OInit | OView0 | OFilter (k : mkind) | OUpdate | OView | OExecRun | OReturned (e : err).

Section Trace.
  Variable G : guards.
  Variable filtered : bool.          (* a filter is installed: its calls are observed *)

  (* the callback (or the return) that run pc r shows to the observer *)
  Definition shows (r : runpc) : option obs :=
    match r with
    | RInitCb => Some OInit
    | RView0Cb => Some OView0
    | RFilterCb k => if filtered then Some (OFilter k) else None
    | RUpdateCb => Some OUpdate
    | RViewCb | RFinalViewCb => Some OView
    | RExecRun => Some OExecRun
    | RReturned e => Some (OReturned e)
    | _ => None
    end.

  Definition obs_eqb (a b : obs) : bool :=
    match a, b with
    | OInit, OInit | OView0, OView0 | OUpdate, OUpdate | OView, OView | OExecRun, OExecRun => true
    | OFilter k, OFilter k' => mkind_beq k k'
    | OReturned e, OReturned e' => err_beq e e'
    | _, _ => false
    end.

  (* a step is invisible when it does not enter a callback: the run pc stays, or moves to a pc that shows nothing *)
  Definition invisible (s s' : skel) : bool :=
    runpc_beq (run s) (run s') || match shows (run s') with None => true | Some _ => false end.
  Definition enters (o : obs) (s s' : skel) : bool :=
    negb (runpc_beq (run s) (run s')) && match shows (run s') with Some o' => obs_eqb o o' | None => false end.

  Fixpoint close (fuel : nat) (front : list skel) (M : PM.t skel) : PM.t skel :=
    match fuel with
    | O => M
    | S f =>
      match front with
      | [] => M
      | _ => let '(M', front') :=
               fold_left (fun acc s => add_all (map snd (filter (fun e => invisible s (snd e)) (steps G s))) (fst acc) (snd acc)) front (M, []) in
             close f front' M'
      end
    end.

  Definition set_of (l : list skel) : PM.t skel * list skel := add_all l (PM.empty skel) [].

  (* the states in which callback o has just been entered, from any state of S after invisible steps *)
  Definition advance (S : list skel) (o : obs) : list skel :=
    let '(M0, f0) := set_of S in
    let C := close 4000 f0 M0 in
    let next := flat_map (fun ks => map snd (filter (fun e => enters o (snd ks) (snd e)) (steps G (snd ks)))) (PM.elements C) in
    map snd (PM.elements (fst (set_of next))).

  Definition accepts_from (S : list skel) (os : list obs) : bool :=
    match fold_left advance os S with [] => false | _ => true end.

  (* how far a trace gets: the index of the first observation no path can produce (length os when accepted) *)
  Fixpoint first_stuck (S : list skel) (os : list obs) (i : nat) : nat :=
    match os with
    | [] => i
    | o :: t => match advance S o with [] => i | S' => first_stuck S' t (Datatypes.S i) end
    end.
End Trace.

(* initial states compatible with the program's signal options *)
Definition inits_for (sighandler ignore_signals : bool) : list skel :=
  filter (fun s => bool_eq (negb (sigpc_beq (sg s) SgOff)) sighandler && bool_eq (nosig s) ignore_signals) inits.
Definition accepts (G : guards) (filtered sighandler ignore_signals : bool) (os : list obs) : bool :=
  accepts_from G filtered (inits_for sighandler ignore_signals) os.

(* ---- soundness: an accepted trace is a path of the model *)
Section Sound.
  Variable G : guards.
  Variable filtered : bool.

  (* reachable from a state of S by invisible steps *)
  Inductive ipath (S : list skel) : skel -> Prop :=
  | ip_start s : In s S -> ipath S s
  | ip_step s k s' : ipath S s -> In (k, s') (steps G s) -> invisible filtered s s' = true -> ipath S s'.

  Definition all_in (P : skel -> Prop) (M : PM.t skel) : Prop := forall k s, PM.find k M = Some s -> P s.

  Lemma add_all_inv (P : skel -> Prop) succs : forall M front,
    all_in P M -> Forall P front -> Forall P succs ->
    all_in P (fst (add_all succs M front)) /\ Forall P (snd (add_all succs M front)).
  Proof.
    induction succs as [|s t IH]; intros M front HM Hf Hs; cbn [add_all]; [split; assumption|].
    inversion Hs as [|? ? Ps Pt]; subst.
    destruct (lookup M s).
    - apply IH; assumption.
    - apply IH; [|constructor; assumption|assumption].
      intros k x Hk. destruct (Pos.eq_dec k (enc s)) as [->|Hne].
      + rewrite PM.gss in Hk. inversion Hk; subst. exact Ps.
      + rewrite PM.gso in Hk by exact Hne. exact (HM _ _ Hk).
  Qed.

  Lemma fold_inv S : forall l acc,
    all_in (ipath S) (fst acc) -> Forall (ipath S) (snd acc) -> Forall (ipath S) l ->
    all_in (ipath S) (fst (fold_left (fun acc s => add_all (map snd (filter (fun e => invisible filtered s (snd e)) (steps G s))) (fst acc) (snd acc)) l acc)) /\
    Forall (ipath S) (snd (fold_left (fun acc s => add_all (map snd (filter (fun e => invisible filtered s (snd e)) (steps G s))) (fst acc) (snd acc)) l acc)).
  Proof.
    induction l as [|s l IHl]; intros acc H0 Hf0 Hl; cbn [fold_left]; [split; assumption|].
    inversion Hl as [|? ? Hs Hl']; subst.
    assert (Hsucc : Forall (ipath S) (map snd (filter (fun e => invisible filtered s (snd e)) (steps G s)))).
    { apply Forall_forall. intros y Hy. apply in_map_iff in Hy. destruct Hy as [[k y'] [E Hy]]. cbn in E. subst y'.
      apply filter_In in Hy. destruct Hy as [Hin Hinv]. cbn in Hinv. eapply ip_step; eauto. }
    destruct (add_all_inv (ipath S) _ (fst acc) (snd acc) H0 Hf0 Hsucc) as [A B].
    apply IHl; assumption.
  Qed.

  Lemma close_inv S : forall fuel front M,
    all_in (ipath S) M -> Forall (ipath S) front -> all_in (ipath S) (close G filtered fuel front M).
  Proof.
    induction fuel as [|f IH]; intros front M HM Hf; cbn [close]; [exact HM|].
    destruct front as [|x front0]; [exact HM|].
    pose proof (fold_inv S (x :: front0) (M, []) HM (Forall_nil _) Hf) as Hfold.
    destruct (fold_left _ (x :: front0) (M, [])) as [M' front'] eqn:E. cbn [fst snd] in Hfold. destruct Hfold as [A B].
    apply IH; assumption.
  Qed.

  (* one observation: every state of advance S o is entered, by a step showing o, from a state reached invisibly from S *)
  Theorem advance_sound S o s' : In s' (advance G filtered S o) ->
    exists s k, ipath S s /\ In (k, s') (steps G s) /\ enters filtered o s s' = true.
  Proof.
    unfold advance. destruct (set_of S) as [M0 f0] eqn:E0.
    intros Hin. apply in_map_iff in Hin. destruct Hin as [[key x] [Ex Hin]]. cbn in Ex. subst x.
    apply PM.elements_complete in Hin.
    (* the second set holds only members of `next` *)
    set (next := flat_map _ _) in Hin.
    assert (Hnext : all_in (fun y => In y next) (fst (set_of next))).
    { unfold set_of. apply (add_all_inv (fun y => In y next) next (PM.empty skel) []).
      - intros k y Hk. rewrite PM.gempty in Hk. discriminate.
      - constructor.
      - apply Forall_forall. auto. }
    specialize (Hnext _ _ Hin). unfold next in Hnext. apply in_flat_map in Hnext.
    destruct Hnext as [[k0 s] [Hs Hy]]. apply in_map_iff in Hy. destruct Hy as [[k y] [Ey Hy]]. cbn in Ey. subst y.
    apply filter_In in Hy. destruct Hy as [Hstep Hent]. cbn in Hent, Hstep.
    exists s, k. split; [|split; assumption].
    apply PM.elements_complete in Hs.
    assert (H0 : all_in (ipath S) M0 /\ Forall (ipath S) f0).
    { assert (X := add_all_inv (ipath S) S (PM.empty skel) []).
      unfold set_of in E0. rewrite E0 in X. cbn [fst snd] in X. apply X.
      - intros k1 y Hk. rewrite PM.gempty in Hk. discriminate.
      - constructor.
      - apply Forall_forall. intros y Hy. apply ip_start. exact Hy. }
    destruct H0 as [A B]. exact (close_inv S 4000 f0 M0 A B _ _ Hs).
  Qed.

  (* a concrete run: from s0, invisible steps, then a step entering the first observed callback, and so on *)
  Inductive cpath : skel -> list obs -> skel -> Prop :=
  | cp_nil s : cpath s [] s
  | cp_cons s0 s k s1 o t s' :
      ipath [s0] s -> In (k, s1) (steps G s) -> enters filtered o s s1 = true -> cpath s1 t s' -> cpath s0 (o :: t) s'.

  Lemma ipath_single S s : ipath S s -> exists s0, In s0 S /\ ipath [s0] s.
  Proof.
    induction 1 as [s Hin | s k s' _ IH Hst Hinv].
    - exists s. split; [exact Hin|]. apply ip_start. left. reflexivity.
    - destruct IH as [s0 [H0 P]]. exists s0. split; [exact H0|]. eapply ip_step; eauto.
  Qed.

  Lemma fold_advance_sound : forall os S s', In s' (fold_left (advance G filtered) os S) ->
    exists s0, In s0 S /\ cpath s0 os s'.
  Proof.
    induction os as [|o t IH]; intros S s' Hin; cbn [fold_left] in Hin.
    - exists s'. split; [exact Hin|constructor].
    - destruct (IH _ _ Hin) as [s1 [H1 P1]].
      destruct (advance_sound S o s1 H1) as [s [k [Hp [Hst Hen]]]].
      destruct (ipath_single S s Hp) as [s0 [H0 Hp0]].
      exists s0. split; [exact H0|]. econstructor; eauto.
  Qed.

  Theorem accepts_sound S os : accepts_from G filtered S os = true ->
    exists s0 s', In s0 S /\ cpath s0 os s'.
  Proof.
    unfold accepts_from. destruct (fold_left (advance G filtered) os S) as [|s' l] eqn:E; [discriminate|].
    intros _. destruct (fold_advance_sound os S s') as [s0 [H0 P]]; [rewrite E; left; reflexivity|].
    exists s0, s'. split; assumption.
  Qed.
End Sound.
