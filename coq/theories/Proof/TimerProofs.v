From Coq Require Import ZArith Bool Lia String List.
From BT Require Import Model.Timer Spec.TimerSpec.
From BTGen Require Import TimerExpr.
Open Scope Z_scope.

(* Tie obligations: the translator understood the source completely, and the
   closures have the structure the theorems talk about. *)
Lemma Tie_Timer_supported : TimerExpr.unsupported = nil.
Proof. vm_compute. reflexivity. Qed.

Lemma Tie_Timer_flags : flags_ok every_flags = true /\ flags_ok tick_flags = true.
Proof. split; vm_compute; reflexivity. Qed.

Lemma every_delay_pos n d :
  0 < d -> 0 < every_delay n d <= d /\ (n + every_delay n d) mod d = 0.
Proof.
  intros Hd. unfold every_delay, t_sub, t_add, t_truncate.
  destruct (Z.leb_spec d 0) as [H|H]; [lia|].
  pose proof (Z.mod_pos_bound n d Hd) as Hb.
  split; [lia|].
  replace (n + (n - n mod d + d - n)) with (n - n mod d + 1 * d) by lia.
  rewrite Z.mod_add by lia.
  rewrite Zminus_mod, Zmod_mod, Z.sub_diag. apply Z.mod_0_l. lia.
Qed.

Lemma every_delay_is_next_multiple n d :
  0 < d -> n + every_delay n d = next_multiple n d.
Proof.
  intros Hd. unfold every_delay, next_multiple, t_sub, t_add, t_truncate.
  destruct (Z.leb_spec d 0); lia.
Qed.

Lemma next_multiple_spec n d m :
  0 < d -> n < m -> m mod d = 0 -> next_multiple n d <= m.
Proof.
  intros Hd Hnm Hm. unfold next_multiple.
  pose proof (Z.mod_pos_bound n d Hd) as Hb.
  apply Z.mod_divide in Hm; [|lia]. destruct Hm as [k Hk]. subst m.
  pose proof (Z.div_mod n d ltac:(lia)) as Hdm.
  assert (n / d < k) by nia.
  replace (n - n mod d) with (d * (n / d)) by lia. nia.
Qed.

Lemma every_delay_nonpos n d : d <= 0 -> every_delay n d = d.
Proof.
  intros Hd. unfold every_delay, t_sub, t_add, t_truncate.
  destruct (Z.leb_spec d 0); lia.
Qed.

Lemma tick_delay_id n d : tick_delay n d = d.
Proof. reflexivity. Qed.

Lemma every_delay_ok_true n d : 0 < d -> every_delay_ok n d (every_delay n d) = true.
Proof.
  intros Hd. destruct (every_delay_pos n d Hd) as [[H1 H2] H3].
  unfold every_delay_ok. rewrite H3.
  apply andb_true_iff; split; [apply andb_true_iff; split|]; [apply Z.ltb_lt|apply Z.leb_le|]; auto.
Qed.

(* not early, given the runtime's contract *)
Lemma every_not_early_run n d (r : timer_run) :
  0 < d -> created r = n -> runtime_timer_ok (every_delay n d) r ->
  next_multiple n d <= fired r.
Proof.
  intros Hd Hc [Ha Hf]. rewrite <- (every_delay_is_next_multiple n d Hd). lia.
Qed.

Lemma tick_not_early_run n d (r : timer_run) :
  created r = n -> runtime_timer_ok (tick_delay n d) r -> n + d <= fired r.
Proof. intros Hc [Ha Hf]. rewrite tick_delay_id in Hf. lia. Qed.
