(* Zipper view of a terminal buffer: tape = pre ++ r :: post with the cursor on
   row r.  One lemma per token the renderer emits. *)
From Coq Require Import NArith List Bool Arith Lia.
Import ListNotations.
From BT Require Import Base.Bytes Model.VT.
Open Scope nat_scope.

Definition bz (pre : list row) (r : row) (post : list row) (c : nat) (p : bool) : buffer :=
  mk (pre ++ r :: post) (length pre) c p.

Definition buf_run (w h : nat) (b : buffer) (ts : list tok) : buffer := fold_left (buf_apply w h) ts b.

Lemma buf_run_app w h b t1 t2 : buf_run w h b (t1 ++ t2) = buf_run w h (buf_run w h b t1) t2.
Proof. unfold buf_run. apply fold_left_app. Qed.

Lemma buf_run_cons w h b t ts : buf_run w h b (t :: ts) = buf_run w h (buf_apply w h b t) ts.
Proof. reflexivity. Qed.

Lemma buf_run_nil w h b : buf_run w h b [] = b.
Proof. reflexivity. Qed.

Lemma upd_row_app pre r post f : upd_row (pre ++ r :: post) (length pre) f = pre ++ f r :: post.
Proof. induction pre as [|x pre IH]; cbn; [reflexivity|]. rewrite IH. reflexivity. Qed.

Lemma top_bz h pre r post c p : top h (bz pre r post c p) = length pre + S (length post) - h.
Proof. unfold top, bz, mk. cbn [tape]. rewrite app_length. cbn [length]. reflexivity. Qed.

(* ------------------------------------------------------------ single tokens *)

Lemma bz_cr w h pre r post c p : buf_apply w h (bz pre r post c p) TCR = bz pre r post 0 false.
Proof. reflexivity. Qed.

Lemma bz_lf_next w h pre r r' post c p :
  buf_apply w h (bz pre r (r' :: post) c p) TLF = bz (pre ++ [r]) r' post c false.
Proof.
  unfold bz, buf_apply, line_feed, mk. cbn [cur tape crow ccol].
  rewrite app_length. cbn [length].
  destruct (Nat.eqb_spec (S (length pre)) (length pre + S (S (length post)))) as [E|_]; [lia|].
  rewrite <- app_assoc. cbn [app]. rewrite app_length. cbn [length]. do 2 f_equal. lia.
Qed.

Lemma bz_lf_scroll w h pre r c p :
  buf_apply w h (bz pre r [] c p) TLF = bz (pre ++ [r]) (blank_row w) [] c false.
Proof.
  unfold bz, buf_apply, line_feed, mk. cbn [cur tape crow ccol].
  rewrite app_length. cbn [length].
  destruct (Nat.eqb_spec (S (length pre)) (length pre + 1)) as [_|E]; [|lia].
  do 2 f_equal. lia.
Qed.

(* the row below the cursor row after a line feed, whether or not the window scrolls *)
Definition next_rows (w : nat) (post : list row) : list row := match post with [] => [blank_row w] | _ => post end.

Lemma bz_lf w h pre r post c p :
  exists r' post', next_rows w post = r' :: post' /\
                   buf_apply w h (bz pre r post c p) TLF = bz (pre ++ [r]) r' post' c false.
Proof.
  destruct post as [|r' post'].
  - exists (blank_row w), []. split; [reflexivity|apply bz_lf_scroll].
  - exists r', post'. split; [reflexivity|apply bz_lf_next].
Qed.

Lemma bz_char w h pre r post c g : S c <> w ->
  buf_apply w h (bz pre r post c false) (TChar g) = bz pre (set_cell r c g) post (S c) false.
Proof.
  intros Hc. unfold bz, buf_apply, put_char, mk. cbn [cur tape crow ccol cpend].
  rewrite upd_row_app. destruct (Nat.eqb_spec (S c) w); [contradiction|reflexivity].
Qed.

Lemma bz_char_last w h pre r post c g : S c = w ->
  buf_apply w h (bz pre r post c false) (TChar g) = bz pre (set_cell r c g) post c true.
Proof.
  intros Hc. unfold bz, buf_apply, put_char, mk. cbn [cur tape crow ccol cpend].
  rewrite upd_row_app. destruct (Nat.eqb_spec (S c) w); [reflexivity|contradiction].
Qed.

Lemma bz_elright w h pre r post c p :
  buf_apply w h (bz pre r post c p) TELright = bz pre (erase_right w r c) post c p.
Proof. unfold bz, buf_apply, mk. cbn [cur tape crow ccol cpend]. rewrite upd_row_app. reflexivity. Qed.

Lemma bz_elall w h pre r post c p :
  buf_apply w h (bz pre r post c p) TELall = bz pre (blank_row w) post c p.
Proof. unfold bz, buf_apply, mk. cbn [cur tape crow ccol cpend]. rewrite upd_row_app. reflexivity. Qed.

Lemma bz_edbelow w h pre r post c p :
  buf_apply w h (bz pre r post c p) TEDbelow = bz pre (erase_right w r c) (map (fun _ => blank_row w) post) c p.
Proof.
  unfold bz, buf_apply, mk. cbn [cur tape crow ccol cpend]. rewrite upd_row_app.
  replace (S (length pre)) with (length (pre ++ [erase_right w r c])) by (rewrite app_length; cbn; lia).
  replace (pre ++ erase_right w r c :: post) with ((pre ++ [erase_right w r c]) ++ post) by (rewrite <- app_assoc; reflexivity).
  rewrite firstn_app, firstn_all, Nat.sub_diag, skipn_app, skipn_all, Nat.sub_diag. cbn [firstn skipn app].
  rewrite app_nil_r, <- app_assoc. reflexivity.
Qed.

Lemma bz_cub w h pre r post c p n : c <= n ->
  buf_apply w h (bz pre r post c p) (TCUB n) = bz pre r post 0 false.
Proof. intros H. unfold bz, buf_apply, mk. cbn [cur tape crow ccol]. replace (c - n) with 0 by lia. reflexivity. Qed.

(* cursor up by the number of rows in `mid` + 1, staying inside the window *)
Lemma bz_cuu w h pre r' mid r post c p n :
  n = S (length mid) -> length pre + (n + S (length post)) - h <= length pre ->
  buf_apply w h (bz (pre ++ r' :: mid) r post c p) (TCUU n) = bz pre r' (mid ++ r :: post) c false.
Proof.
  intros Hn Htop. unfold bz, buf_apply, mk, top. cbn [cur tape crow ccol].
  f_equal; [rewrite <- app_assoc; reflexivity|].
  f_equal. repeat (rewrite app_length; cbn [length]). lia.
Qed.

Lemma bz_cuu0 w h pre r post c p n :
  buf_apply w h (bz pre r post c p) (TCUU n) =
  mk (pre ++ r :: post) (Nat.max (length pre + S (length post) - h) (length pre - n)) c false.
Proof. unfold bz, buf_apply, mk, top. cbn [cur tape crow ccol]. rewrite app_length. reflexivity. Qed.

(* ------------------------------------------------------------ writing text on a row *)

Lemma skipn_skipn' {A} : forall a b (l : list A), skipn a (skipn b l) = skipn (b + a) l.
Proof.
  intros a b. revert a. induction b as [|b IH]; intros a l; [reflexivity|].
  destruct l as [|x l]; [rewrite !skipn_nil; reflexivity|]. cbn [skipn Nat.add]. apply IH.
Qed.

Lemma set_cell_length r c g : c < length r -> length (set_cell r c g) = length r.
Proof.
  intros H. unfold set_cell. rewrite app_length, firstn_length. cbn [length]. rewrite skipn_length. lia.
Qed.

Lemma erase_right_length w r c : length r = w -> c <= w -> length (erase_right w r c) = w.
Proof. intros H Hc. unfold erase_right. rewrite app_length, firstn_length, repeat_length. lia. Qed.

(* after writing the characters l from column c of row r (c + |l| <= w):
   the row holds them in place, everything else is untouched *)
Definition write_row (r : row) (c : nat) (l : bytes) : row := firstn c r ++ l ++ skipn (c + length l) r.

Lemma write_row_nil r c : c <= length r -> write_row r c [] = r.
Proof. intros H. unfold write_row. cbn. rewrite Nat.add_0_r. apply firstn_skipn. Qed.

Lemma firstn_app_len {A} (P X : list A) c n : length P = c -> firstn (c + n) (P ++ X) = P ++ firstn n X.
Proof. intros <-. rewrite firstn_app, firstn_all2 by lia. f_equal. f_equal. lia. Qed.

Lemma skipn_app_len {A} (P X : list A) c n : length P = c -> skipn (c + n) (P ++ X) = skipn n X.
Proof. intros <-. rewrite skipn_app, skipn_all2 by lia. cbn [app]. f_equal. lia. Qed.

Lemma write_row_cons r c g l : c < length r ->
  write_row (set_cell r c g) (S c) l = write_row r c (g :: l).
Proof.
  intros H. unfold write_row, set_cell.
  assert (LA : length (firstn c r) = c) by (rewrite firstn_length; lia).
  replace (S c) with (c + 1) at 1 by lia.
  rewrite (firstn_app_len (firstn c r) (g :: skipn (S c) r) c 1 LA).
  replace (S c + length l) with (c + S (length l)) by lia.
  rewrite (skipn_app_len (firstn c r) (g :: skipn (S c) r) c (S (length l)) LA).
  change (firstn 1 (g :: skipn (S c) r)) with [g].
  change (skipn (S (length l)) (g :: skipn (S c) r)) with (skipn (length l) (skipn (S c) r)).
  rewrite skipn_skipn'. cbn [length]. rewrite <- app_assoc. cbn [app].
  do 3 f_equal. f_equal. lia.
Qed.

(* the cursor state after writing |l| cells from column c on a w-wide row *)
Definition end_col (w c n : nat) : nat := if Nat.eqb (c + n) w then w - 1 else c + n.
Definition end_pend (w c n : nat) : bool := Nat.eqb (c + n) w && negb (Nat.eqb n 0).

Definition wc_col (w c n : nat) : nat := match n with O => c | _ => end_col w c n end.
Definition wc_pend (w c n : nat) : bool := match n with O => false | _ => end_pend w c n end.

Lemma wc_col_lt w n : 0 < w -> n <= w -> wc_col w 0 n < w.
Proof.
  intros Hw Hn. unfold wc_col, end_col. destruct n; [exact Hw|]. cbn [Nat.add].
  destruct (Nat.eqb_spec (S n) w); lia.
Qed.

Lemma wc_col_short w n : n < w -> wc_col w 0 n = n.
Proof.
  intros Hn. unfold wc_col, end_col. destruct n; [reflexivity|]. cbn [Nat.add].
  destruct (Nat.eqb_spec (S n) w); [lia|reflexivity].
Qed.

Lemma write_chars w h pre post : forall l r c, length r = w -> c + length l <= w -> c < w \/ l = [] ->
  buf_run w h (bz pre r post c false) (map TChar l) =
  bz pre (write_row r c l) post (wc_col w c (length l)) (wc_pend w c (length l)).
Proof.
  induction l as [|g l IH]; intros r c Hr Hc Hlt.
  - cbn. rewrite write_row_nil by lia. reflexivity.
  - cbn [map length] in *. rewrite buf_run_cons.
    assert (Hcw : c < w) by (destruct Hlt as [H|H]; [exact H|discriminate]).
    destruct (Nat.eq_dec (S c) w) as [E|NE].
    + (* last cell of the row: l must be empty *)
      assert (l = []) by (destruct l; [reflexivity|cbn in Hc; lia]). subst l.
      rewrite (bz_char_last w h pre r post c g E). cbn [map]. rewrite buf_run_nil.
      unfold wc_col, wc_pend, end_col, end_pend. cbn [length].
      replace (Nat.eqb (c + 1) w) with true by (symmetry; apply Nat.eqb_eq; lia). cbn.
      f_equal; [|lia].
      unfold write_row, set_cell. cbn [length app]. f_equal. f_equal. f_equal. lia.
    + rewrite (bz_char w h pre r post c g NE).
      rewrite (IH (set_cell r c g) (S c)); [|rewrite set_cell_length; lia|lia|lia].
      rewrite write_row_cons by lia.
      destruct l as [|g' l'].
      * unfold wc_col, wc_pend, end_col, end_pend. cbn [length].
        replace (Nat.eqb (c + 1) w) with false by (symmetry; apply Nat.eqb_neq; lia).
        cbn. f_equal. lia.
      * unfold wc_col, wc_pend, end_col, end_pend. cbn [length].
        replace (S c + S (length l')) with (c + S (S (length l'))) by lia. reflexivity.
Qed.

Lemma write_row_length r c l : c + length l <= length r -> length (write_row r c l) = length r.
Proof.
  intros H. unfold write_row. rewrite !app_length, firstn_length, skipn_length. lia.
Qed.
