(* C01 - Run is a sequential, lossless, per-sender-ordered fold of Update over
   messages.  Property theorems only, over the L1 interleaving model
   (Model/Conc.v) and the executable log predicates (Spec/ConcSpec.v); the
   proofs are in Proof/ConcC01.v.  Every theorem is for every program
   (M, upd, cres), every command returned by Init, every set of scripted
   senders and EVERY schedule (= every interleaving of the event loop, the
   senders, the command goroutines, the sequence goroutines, cancellation). *)
From Coq Require Import List Bool Arith.
Import ListNotations.
From BT Require Import Model.Conc Spec.ConcSpec Proof.ConcC01.

(* `threaded M upd m us final` (Proof/ConcC01.v):
     match us with [] => final = m
                 | (a, x, b) :: t => a = m /\ fst (upd a x) = b /\ threaded b t final end *)

(* 1. the model is threaded through the Updates and nothing else changes it *)
Theorem C01_model_threaded :
  forall (M : Type) (upd : M -> msg -> M * option cmdid) (cres : cmdid -> msg)
         (m0 : M) (init_cmd : option cmdid) (scripts : list (list msg)) (sched : list label),
  let s := run M upd cres (init_state M m0 init_cmd scripts) sched in
  threaded M upd m0 (c_upds s) (c_model s).
Proof. exact model_threaded. Qed.
Print Assumptions C01_model_threaded.

Theorem C01_fold :
  forall (M : Type) (upd : M -> msg -> M * option cmdid) (cres : cmdid -> msg)
         (m0 : M) (init_cmd : option cmdid) (scripts : list (list msg)) (sched : list label),
  let s := run M upd cres (init_state M m0 init_cmd scripts) sched in
  c_model s = fold_left (fun m x => fst (upd m x)) (map (fun u => snd (fst u)) (c_upds s)) m0.
Proof. exact model_fold. Qed.
Print Assumptions C01_fold.

(* 2. the ghost list of Updates is the EUpdate events of the log: same messages, and the command
   recorded in each EUpdate is the one upd returned for that (model, message) *)
Theorem C01_upds_match_log :
  forall (M : Type) (upd : M -> msg -> M * option cmdid) (cres : cmdid -> msg)
         (m0 : M) (init_cmd : option cmdid) (scripts : list (list msg)) (sched : list label),
  let s := run M upd cres (init_state M m0 init_cmd scripts) sched in
  map (fun u => snd (fst u)) (c_upds s) =
    flat_map (fun e => match e with EUpdate m _ => [m] | _ => [] end) (c_log s) /\
  map (fun u => snd (upd (fst (fst u)) (snd (fst u)))) (c_upds s) =
    flat_map (fun e => match e with EUpdate _ c => [c] | _ => [] end) (c_log s) /\
  flat_map (fun e => match e with EUpdate m c => [(m, c)] | _ => [] end) (c_log s) =
    combine (map (fun u => snd (fst u)) (c_upds s))
            (map (fun u => snd (upd (fst (fst u)) (snd (fst u)))) (c_upds s)).
Proof. exact upds_match_log. Qed.
Print Assumptions C01_upds_match_log.

(* 3. Update is called with exactly the updatable messages received, each right after its receipt,
   none invented, none twice *)
Theorem C01_updates_are_receipts :
  forall (M : Type) (upd : M -> msg -> M * option cmdid) (cres : cmdid -> msg)
         (m0 : M) (init_cmd : option cmdid) (scripts : list (list msg)) (sched : list label),
  let s := run M upd cres (init_state M m0 init_cmd scripts) sched in
  updates_ok (c_log s) = true.
Proof. exact updates_are_receipts. Qed.
Print Assumptions C01_updates_are_receipts.

(* 4. lossless: every received message that reaches Update at all has been passed to Update exactly
   once, except the single one the loop may be holding right now *)
Theorem C01_lossless_general :
  forall (M : Type) (upd : M -> msg -> M * option cmdid) (cres : cmdid -> msg)
         (m0 : M) (init_cmd : option cmdid) (scripts : list (list msg)) (sched : list label),
  let s := run M upd cres (init_state M m0 init_cmd scripts) sched in
  n_received_updatable (c_log s) =
  n_updates (c_log s) + (match c_loop s with LGot m => if updatable m then 1 else 0 | _ => 0 end).
Proof. exact lossless_general. Qed.
Print Assumptions C01_lossless_general.

Theorem C01_lossless :
  forall (M : Type) (upd : M -> msg -> M * option cmdid) (cres : cmdid -> msg)
         (m0 : M) (init_cmd : option cmdid) (scripts : list (list msg)) (sched : list label),
  let s := run M upd cres (init_state M m0 init_cmd scripts) sched in
  match c_loop s with LGot _ => False | _ => True end ->
  n_updates (c_log s) = n_received_updatable (c_log s).
Proof. exact lossless. Qed.
Print Assumptions C01_lossless.

(* 5. per sender: what the loop took from sender i, in order, followed by what i still holds, is
   exactly i's script: nothing lost, duplicated, invented or reordered *)
Theorem C01_per_sender :
  forall (M : Type) (upd : M -> msg -> M * option cmdid) (cres : cmdid -> msg)
         (m0 : M) (init_cmd : option cmdid) (scripts : list (list msg)) (sched : list label),
  let s := run M upd cres (init_state M m0 init_cmd scripts) sched in
  per_sender_ok scripts (c_senders s) (c_log s) = true /\ length (c_senders s) = length scripts.
Proof. exact per_sender. Qed.
Print Assumptions C01_per_sender.

(* 6. Update and View run on the event loop only: an EUpdate is appended only by the loop's own
   LbProcess step (from the pc "holding message m"), an EView only by its LbView step; whenever no
   EUpdate is appended the model is untouched.  This holds of EVERY state, reachable or not.
   `_partial`: in the model the callbacks are program counters of the single event-loop thread, so
   this is a structural fact about who owns Update/View; the theorem cannot exhibit (or exclude) a
   Go data race - that is checked on the real program with the race detector, not here. *)
Theorem C01_single_loop_partial :
  forall (M : Type) (upd : M -> msg -> M * option cmdid) (cres : cmdid -> msg)
         (s : cstate M) (l : label) (s' : cstate M),
  step M upd cres s l = Some s' ->
  exists e, c_log s' = c_log s ++ e /\
    (forall m c, In (EUpdate m c) e ->
       l = LbProcess /\ c_loop s = LGot m /\ updatable m = true /\ c = snd (upd (c_model s) m) /\
       c_model s' = fst (upd (c_model s) m) /\ e = [EUpdate m c]) /\
    (In EView e -> l = LbView /\ c_loop s = LView /\ e = [EView]) /\
    ((forall m c, ~ In (EUpdate m c) e) -> c_model s' = c_model s /\ c_upds s' = c_upds s).
Proof. exact single_loop. Qed.
Print Assumptions C01_single_loop_partial.

(* ------------------------------------------------------------------ *)
(* The premises are satisfiable and the log is not trivial: a counting model, three scripted
   senders, Init returning a command, commands whose results come back as messages, a sequence, a
   batch, a nil message and a quit; a 50-label schedule (two labels of it not enabled, hence
   skipped) that delivers 11 messages, 8 of which reach Update. *)

Definition ex_upd (m : nat) (x : msg) : nat * option cmdid :=
  (S m, match x with MUser t => if Nat.even t then Some t else None | _ => None end).
Definition ex_cres (c : cmdid) : msg := MUser (2 * c + 1).
Definition ex_scripts : list (list msg) :=
  [[MUser 2; MUser 3; MNil]; [MUser 4; MBatch [Some 7; None]]; [MSeq [Some 1]; MQuit]].
Definition ex_sched : list label :=
  [LbHand; LbView;
   LbRecv (WSender 0); LbProcess; LbHand; LbView;
   LbCmdFinish 0; LbRecv (WCmd 0); LbProcess; LbHand; LbView;
   LbRecv (WSender 1); LbProcess; LbHand; LbView;
   LbRecv (WSender 2); LbProcess; LbHand; LbView;
   LbSeqStep 0; LbSeqFinish 0; LbRecv (WSeq 0); LbProcess; LbHand; LbView;
   LbRecv (WSender 0); LbProcess; LbHand; LbView;
   LbCmdFinish 1; LbRecv (WCmd 1); LbProcess; LbHand; LbView;
   LbRecv (WSender 1); LbProcess; LbHand; LbHand; LbHand;
   LbRecv (WSender 0); LbProcess;
   LbView; LbRecv (WSender 0);
   LbCmdFinish 2; LbRecv (WCmd 2); LbProcess; LbHand; LbView;
   LbRecv (WSender 2); LbProcess].
Definition ex_s : cstate nat := run nat ex_upd ex_cres (init_state nat 0 (Some 5) ex_scripts) ex_sched.

Example C01_example :
  length ex_sched = 50 /\
  c_model ex_s = 8 /\ c_loop ex_s = LExited /\ c_senders ex_s = [[]; []; []] /\
  length (c_log ex_s) = 42 /\
  n_updates (c_log ex_s) = 8 /\ n_received_updatable (c_log ex_s) = 8 /\
  length (filter (fun e => match e with ERecv _ _ => true | _ => false end) (c_log ex_s)) = 11 /\
  updates_ok (c_log ex_s) = true /\
  per_sender_ok ex_scripts (c_senders ex_s) (c_log ex_s) = true /\
  c_upds ex_s = [(0, MUser 2, 1); (1, MUser 11, 2); (2, MUser 4, 3); (3, MSeq [Some 1], 4);
                 (4, MUser 3, 5); (5, MUser 3, 6); (6, MUser 5, 7); (7, MUser 9, 8)] /\
  recv_from (WSender 0) (c_log ex_s) = [MUser 2; MUser 3; MNil] /\
  recv_from (WSender 1) (c_log ex_s) = [MUser 4; MBatch [Some 7; None]] /\
  recv_from (WSender 2) (c_log ex_s) = [MSeq [Some 1]; MQuit].
Proof. vm_compute. repeat split. Qed.
Print Assumptions C01_example.
