(* C01 - Run is a sequential, lossless, per-sender-ordered fold of Update over
   messages.  Property theorems only, over the L1 interleaving model
   (Model/Conc.v) and the executable log predicates (Spec/ConcSpec.v); the
   proofs are in Proof/ConcC01.v.  Every theorem is for every program
   (M, upd, cres), every command returned by Init, every set of scripted
   senders and EVERY schedule (= every interleaving of the event loop, the
   senders, the command goroutines, the sequence goroutines, cancellation). *)
From Coq Require Import List Bool Arith.
Import ListNotations.
From BT Require Import Model.Conc Spec.ConcSpec Proof.ConcC01.

(* `threaded M upd m us final` (Proof/ConcC01.v):
     match us with [] => final = m
                 | (a, x, b) :: t => a = m /\ fst (upd a x) = b /\ threaded b t final end *)

(* 1. the model is threaded through the Updates and nothing else changes it *)
Theorem C01_model_threaded :
  forall (M : Type) (upd : M -> msg -> M * option cmdid) (cres : cmdid -> msg)
         (m0 : M) (init_cmd : option cmdid) (scripts : list (list msg)) (sched : list label),
  let s := run M upd cres (init_state M m0 init_cmd scripts) sched in
  threaded M upd m0 (c_upds s) (c_model s).
Proof. exact model_threaded. Qed.
Print Assumptions C01_model_threaded.

Theorem C01_fold :
  forall (M : Type) (upd : M -> msg -> M * option cmdid) (cres : cmdid -> msg)
         (m0 : M) (init_cmd : option cmdid) (scripts : list (list msg)) (sched : list label),
  let s := run M upd cres (init_state M m0 init_cmd scripts) sched in
  c_model s = fold_left (fun m x => fst (upd m x)) (map (fun u => snd (fst u)) (c_upds s)) m0.
Proof. exact model_fold. Qed.
Print Assumptions C01_fold.

(* 2. the ghost list of Updates is the EUpdate events of the log: same messages, and the command
   recorded in each EUpdate is the one upd returned for that (model, message) *)
Theorem C01_upds_match_log :
  forall (M : Type) (upd : M -> msg -> M * option cmdid) (cres : cmdid -> msg)
         (m0 : M) (init_cmd : option cmdid) (scripts : list (list msg)) (sched : list label),
  let s := run M upd cres (init_state M m0 init_cmd scripts) sched in
  map (fun u => snd (fst u)) (c_upds s) =
    flat_map (fun e => match e with EUpdate m _ => [m] | _ => [] end) (c_log s) /\
  map (fun u => snd (upd (fst (fst u)) (snd (fst u)))) (c_upds s) =
    flat_map (fun e => match e with EUpdate _ c => [c] | _ => [] end) (c_log s) /\
  flat_map (fun e => match e with EUpdate m c => [(m, c)] | _ => [] end) (c_log s) =
    combine (map (fun u => snd (fst u)) (c_upds s))
            (map (fun u => snd (upd (fst (fst u)) (snd (fst u)))) (c_upds s)).
Proof. exact upds_match_log. Qed.
Print Assumptions C01_upds_match_log.

(* 3. Update is called with exactly the updatable messages received, each right after its receipt,
   none invented, none twice *)
Theorem C01_updates_are_receipts :
  forall (M : Type) (upd : M -> msg -> M * option cmdid) (cres : cmdid -> msg)
         (m0 : M) (init_cmd : option cmdid) (scripts : list (list msg)) (sched : list label),
  let s := run M upd cres (init_state M m0 init_cmd scripts) sched in
  updates_ok (c_log s) = true.
Proof. exact updates_are_receipts. Qed.
Print Assumptions C01_updates_are_receipts.

(* 4. lossless: every received message that reaches Update at all has been passed to Update exactly
   once, except the single one the loop may be holding right now and the single one that a failing
   callback (recovered panic) or an error on p.errs made the loop lose: the loop fails at most once
   and is exited afterwards.  (c): never more Updates than receipts. *)
Theorem C01_lossless_bounds :
  forall (M : Type) (upd : M -> msg -> M * option cmdid) (cres : cmdid -> msg)
         (m0 : M) (init_cmd : option cmdid) (scripts : list (list msg)) (sched : list label),
  let s := run M upd cres (init_state M m0 init_cmd scripts) sched in
  let inflight := match c_loop s with LGot m => if updatable m then 1 else 0 | _ => 0 end in
  let fails := length (filter (fun e => match e with EFail => true | _ => false end) (c_log s)) in
  n_updates (c_log s) + inflight <= n_received_updatable (c_log s) /\
  n_received_updatable (c_log s) <= n_updates (c_log s) + inflight + fails /\
  fails <= 1 /\
  (fails = 0 \/ c_loop s = LExited).
Proof. exact lossless_bounds. Qed.
Print Assumptions C01_lossless_bounds.

Theorem C01_lossless_le :
  forall (M : Type) (upd : M -> msg -> M * option cmdid) (cres : cmdid -> msg)
         (m0 : M) (init_cmd : option cmdid) (scripts : list (list msg)) (sched : list label),
  let s := run M upd cres (init_state M m0 init_cmd scripts) sched in
  n_updates (c_log s) <= n_received_updatable (c_log s) /\
  n_received_updatable (c_log s) <= n_updates (c_log s) + 1.
Proof. exact lossless_le. Qed.
Print Assumptions C01_lossless_le.

Theorem C01_lossless_general :
  forall (M : Type) (upd : M -> msg -> M * option cmdid) (cres : cmdid -> msg)
         (m0 : M) (init_cmd : option cmdid) (scripts : list (list msg)) (sched : list label),
  let s := run M upd cres (init_state M m0 init_cmd scripts) sched in
  ~ In EFail (c_log s) ->
  n_received_updatable (c_log s) =
  n_updates (c_log s) + (match c_loop s with LGot m => if updatable m then 1 else 0 | _ => 0 end).
Proof. exact lossless_general. Qed.
Print Assumptions C01_lossless_general.

Theorem C01_lossless :
  forall (M : Type) (upd : M -> msg -> M * option cmdid) (cres : cmdid -> msg)
         (m0 : M) (init_cmd : option cmdid) (scripts : list (list msg)) (sched : list label),
  let s := run M upd cres (init_state M m0 init_cmd scripts) sched in
  ~ In EFail (c_log s) ->
  match c_loop s with LGot _ => False | _ => True end ->
  n_updates (c_log s) = n_received_updatable (c_log s).
Proof. exact lossless. Qed.
Print Assumptions C01_lossless.

(* 5. per sender: what sender i got rid of (taken by the loop, or - only once the context has been
   cancelled - dropped by a Send that gave up), in order, followed by what i still holds, is exactly
   i's script: nothing duplicated, invented or reordered, and nothing lost before the cancellation *)
Theorem C01_per_sender :
  forall (M : Type) (upd : M -> msg -> M * option cmdid) (cres : cmdid -> msg)
         (m0 : M) (init_cmd : option cmdid) (scripts : list (list msg)) (sched : list label),
  let s := run M upd cres (init_state M m0 init_cmd scripts) sched in
  per_sender_ok scripts (c_senders s) (c_log s) = true /\ length (c_senders s) = length scripts /\
  no_drop_before_cancel (c_log s) = true.
Proof. exact per_sender. Qed.
Print Assumptions C01_per_sender.

(* until the context is cancelled nothing is dropped: what the loop took from sender i followed by
   what i still holds is exactly i's script *)
Theorem C01_per_sender_prefix :
  forall (M : Type) (upd : M -> msg -> M * option cmdid) (cres : cmdid -> msg)
         (m0 : M) (init_cmd : option cmdid) (scripts : list (list msg)) (sched : list label),
  let s := run M upd cres (init_state M m0 init_cmd scripts) sched in
  ~ In ECancel (c_log s) ->
  forall i, list_eqb msg_eqb (recv_from (WSender i) (c_log s) ++ nth i (c_senders s) []) (nth i scripts []) = true.
Proof. exact per_sender_prefix. Qed.
Print Assumptions C01_per_sender_prefix.

(* the cancellation flag of the model is "ECancel is in the log" *)
Theorem C01_ctx_is_cancel :
  forall (M : Type) (upd : M -> msg -> M * option cmdid) (cres : cmdid -> msg)
         (m0 : M) (init_cmd : option cmdid) (scripts : list (list msg)) (sched : list label),
  let s := run M upd cres (init_state M m0 init_cmd scripts) sched in
  c_ctx s = true <-> In ECancel (c_log s).
Proof. exact ctx_is_cancel. Qed.
Print Assumptions C01_ctx_is_cancel.

(* 6. Update and View run on the event loop only: an EUpdate is appended only by the loop's own
   LbProcess step (from the pc "holding message m"), an EView only by its LbView step; whenever no
   EUpdate is appended the model is untouched.  This holds of EVERY state, reachable or not, and of
   every label (LbGiveUp, LbHandInit, LbIfwGiveUp, LbLoopFail, LbCancel append no EUpdate / EView).
   `_partial`: in the model the callbacks are program counters of the single event-loop thread, so
   this is a structural fact about who owns Update/View; the theorem cannot exhibit (or exclude) a
   Go data race - that is checked on the real program with the race detector, not here. *)
Theorem C01_single_loop_partial :
  forall (M : Type) (upd : M -> msg -> M * option cmdid) (cres : cmdid -> msg)
         (s : cstate M) (l : label) (s' : cstate M),
  step M upd cres s l = Some s' ->
  exists e, c_log s' = c_log s ++ e /\
    (forall m c, In (EUpdate m c) e ->
       l = LbProcess /\ c_loop s = LGot m /\ updatable m = true /\ c = snd (upd (c_model s) m) /\
       c_model s' = fst (upd (c_model s) m) /\ e = [EUpdate m c]) /\
    (In EView e -> l = LbView /\ c_loop s = LView /\ e = [EView]) /\
    ((forall m c, ~ In (EUpdate m c) e) -> c_model s' = c_model s /\ c_upds s' = c_upds s).
Proof. exact single_loop. Qed.
Print Assumptions C01_single_loop_partial.

(* ------------------------------------------------------------------ *)
(* The premises are satisfiable and the log is not trivial: a counting model, four scripted
   senders, Init returning a command (handed over by the forwarder: LbHandInit), commands whose
   results come back as messages, a sequence, a batch, a nil message and a quit; then the context
   is cancelled (LbCancel) and the sender that was never served and the last command goroutine give
   up (LbGiveUp).  A 60-label schedule (some labels of it not enabled, hence skipped: among them a
   LbGiveUp before the cancellation, a second LbCancel, LbLoopFail after the exit) that delivers 11
   messages, 8 of which reach Update, and drops 3. *)

Definition ex_upd (m : nat) (x : msg) : nat * option cmdid :=
  (S m, match x with MUser t => if Nat.even t then Some t else None | _ => None end).
Definition ex_cres (c : cmdid) : msg := MUser (2 * c + 1).
Definition ex_scripts : list (list msg) :=
  [[MUser 2; MUser 3; MNil]; [MUser 4; MBatch [Some 7; None]]; [MSeq [Some 1]; MQuit]; [MUser 6; MUser 8]].
Definition ex_sched : list label :=
  [LbView; LbHandInit;
   LbRecv (WSender 0); LbProcess; LbHand; LbView;
   LbCmdFinish 0; LbRecv (WCmd 0); LbProcess; LbHand; LbView;
   LbRecv (WSender 1); LbProcess; LbHand; LbView;
   LbRecv (WSender 2); LbProcess; LbHand; LbView;
   LbSeqStep 0; LbSeqFinish 0; LbRecv (WSeq 0); LbProcess; LbHand; LbView;
   LbRecv (WSender 0); LbProcess; LbHand; LbView;
   LbCmdFinish 1; LbRecv (WCmd 1); LbProcess; LbHand; LbView;
   LbRecv (WSender 1); LbProcess; LbHand; LbHand; LbHand;
   LbRecv (WSender 0); LbProcess;
   LbView; LbRecv (WSender 0);
   LbCmdFinish 2; LbRecv (WCmd 2); LbProcess; LbHand; LbView;
   LbGiveUp (WSender 3);
   LbRecv (WSender 2); LbProcess;
   LbCmdFinish 3;
   LbCancel; LbGiveUp (WSender 3); LbGiveUp (WCmd 3); LbCancel; LbGiveUp (WSender 3);
   LbIfwGiveUp; LbLoopFail; LbDispExit].
Definition ex_s : cstate nat := run nat ex_upd ex_cres (init_state nat 0 (Some 5) ex_scripts) ex_sched.

Example C01_example :
  length ex_sched = 60 /\
  c_model ex_s = 8 /\ c_loop ex_s = LExited /\ c_senders ex_s = [[]; []; []; []] /\
  c_ctx ex_s = true /\ c_ifw ex_s = None /\
  c_cmds ex_s = [CDone 5; CDone 2; CDone 4; CDone 7] /\
  length (c_log ex_s) = 47 /\
  n_updates (c_log ex_s) = 8 /\ n_received_updatable (c_log ex_s) = 8 /\
  length (filter (fun e => match e with ERecv _ _ => true | _ => false end) (c_log ex_s)) = 11 /\
  length (filter (fun e => match e with EDrop _ _ => true | _ => false end) (c_log ex_s)) = 3 /\
  firstn 3 (c_log ex_s) = [EView; EHand 5; EStart (WCmd 0) 5] /\
  skipn 43 (c_log ex_s) = [ECancel; EDrop (WSender 3) (MUser 6); EDrop (WCmd 3) (MUser 15); EDrop (WSender 3) (MUser 8)] /\
  updates_ok (c_log ex_s) = true /\
  per_sender_ok ex_scripts (c_senders ex_s) (c_log ex_s) = true /\
  no_drop_before_cancel (c_log ex_s) = true /\
  c_upds ex_s = [(0, MUser 2, 1); (1, MUser 11, 2); (2, MUser 4, 3); (3, MSeq [Some 1], 4);
                 (4, MUser 3, 5); (5, MUser 3, 6); (6, MUser 5, 7); (7, MUser 9, 8)] /\
  recv_from (WSender 0) (c_log ex_s) = [MUser 2; MUser 3; MNil] /\
  recv_from (WSender 1) (c_log ex_s) = [MUser 4; MBatch [Some 7; None]] /\
  recv_from (WSender 2) (c_log ex_s) = [MSeq [Some 1]; MQuit] /\
  recv_from (WSender 3) (c_log ex_s) = [] /\
  sent_from (WSender 3) (c_log ex_s) = [MUser 6; MUser 8].
Proof. vm_compute. repeat split. Qed.
Print Assumptions C01_example.

(* a failing loop loses the one message it holds (the bound of C01_lossless_bounds is attained); the Init
   forwarder and a blocked sender give up after the cancellation *)
Definition ex2_s : cstate nat :=
  run nat ex_upd ex_cres (init_state nat 0 (Some 5) [[MUser 1; MUser 2]])
      [LbCancel; LbIfwGiveUp; LbView; LbRecv (WSender 0); LbLoopFail; LbGiveUp (WSender 0); LbLoopFail; LbHandInit].

Example C01_example_fail :
  c_log ex2_s = [ECancel; EView; ERecv (WSender 0) (MUser 1); EFail; EExit; EDrop (WSender 0) (MUser 2)] /\
  c_loop ex2_s = LExited /\ c_ifw ex2_s = None /\ c_cmds ex2_s = [] /\ c_upds ex2_s = [] /\ c_model ex2_s = 0 /\
  n_updates (c_log ex2_s) = 0 /\ n_received_updatable (c_log ex2_s) = 1 /\
  updates_ok (c_log ex2_s) = true /\
  per_sender_ok [[MUser 1; MUser 2]] (c_senders ex2_s) (c_log ex2_s) = true /\
  no_drop_before_cancel (c_log ex2_s) = true.
Proof. vm_compute. repeat split. Qed.
Print Assumptions C01_example_fail.
