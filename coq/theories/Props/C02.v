(* C02: "Every command runs exactly once, off the event loop; its result
   arrives once."

   Stated of the interleaving model Model/Conc.v (event loop, sender
   goroutines, command dispatcher, Init forwarder goroutine, sequence
   goroutines, cancellation with Sends that give up, a failing loop) with the
   executable predicates of Spec/ConcSpec.v over the ghost event log, for EVERY
   user program (M, upd, cres), every Init command, every set of sender scripts
   and EVERY schedule (a schedule is any list of labels; a label that is not
   enabled is skipped, so this covers every interleaving and commands that
   never return).  Proofs: Proof/ConcC02.v. *)
From Coq Require Import List Bool Arith.
Import ListNotations.
From BT Require Import Model.Conc Spec.ConcSpec Proof.ConcC02.

(* 1. every hand-over to the dispatcher is of a command that Init/Update returned or that is a member of a
      received BatchMsg, and none is handed over twice (sub-multiset) *)
Theorem C02_handed_are_owed :
  forall (M : Type) (upd : M -> msg -> M * option cmdid) (cres : cmdid -> msg)
         (m0 : M) (init_cmd : option cmdid) (scripts : list (list msg)) (sched : list label),
    let s := run M upd cres (init_state M m0 init_cmd scripts) sched in
    handed_owed init_cmd (c_log s) = true.
Proof. exact handed_are_owed. Qed.
Print Assumptions C02_handed_are_owed.

(* 2. at the select, the context not cancelled, nothing is owed any more: every non-nil command returned so far, at
      any batch nesting depth reached so far, has been handed over exactly once; nil commands are skipped.  The one
      exception is Init's command while its forwarder goroutine (c_ifw s) has not been served by the dispatcher yet:
      while the context is not cancelled the forwarder cannot give up and the dispatcher cannot have exited.
      (Once the context is cancelled or the loop has exited only theorem 1 remains: handed <= owed.) *)
Theorem C02_all_handed_when_idle :
  forall (M : Type) (upd : M -> msg -> M * option cmdid) (cres : cmdid -> msg)
         (m0 : M) (init_cmd : option cmdid) (scripts : list (list msg)) (sched : list label),
    let s := run M upd cres (init_state M m0 init_cmd scripts) sched in
    c_loop s = LIdle -> c_ctx s = false -> all_handed init_cmd (c_ifw s) (c_log s) = true.
Proof. exact all_handed_when_idle. Qed.
Print Assumptions C02_all_handed_when_idle.

(* 3. each hand-over starts exactly one goroutine, numbered in order, which invokes exactly that command, exactly
      once.  An EStart never has the event loop as its goroutine: by the type `who` (WSender / WCmd / WSeq / WGrp)
      there is no constructor for the event loop, so "off the event loop" holds by construction of the log. *)
Theorem C02_started_once :
  forall (M : Type) (upd : M -> msg -> M * option cmdid) (cres : cmdid -> msg)
         (m0 : M) (init_cmd : option cmdid) (scripts : list (list msg)) (sched : list label),
    let s := run M upd cres (init_state M m0 init_cmd scripts) sched in
    started_once (c_log s) = true /\
    length (c_cmds s) = length (hands (c_log s)) /\
    (forall (j : nat) (t : cthread), nth_error (c_cmds s) j = Some t -> cmd_of t = nth j (hands (c_log s)) 0).
Proof. exact started_once_thm. Qed.
Print Assumptions C02_started_once.

(* 4. the result of dispatcher goroutine j is delivered at most once, only after the command returned, and it is
      `cres` of that command; a finished goroutine got rid of its result exactly once (delivered to the loop, or
      dropped because its Send gave up: exactly one of the two), an unfinished one not yet; a Send gives up only
      after the context was cancelled *)
Theorem C02_results_once :
  forall (M : Type) (upd : M -> msg -> M * option cmdid) (cres : cmdid -> msg)
         (m0 : M) (init_cmd : option cmdid) (scripts : list (list msg)) (sched : list label),
    let s := run M upd cres (init_state M m0 init_cmd scripts) sched in
    results_once cres (c_log s) = true /\
    (forall (j : nat) (c : cmdid), nth_error (c_cmds s) j = Some (CDone c) -> length (sent_from (WCmd j) (c_log s)) = 1) /\
    (forall (j : nat) (c : cmdid) (m : msg),
        nth_error (c_cmds s) j = Some (CRunning c) \/ nth_error (c_cmds s) j = Some (CSending c m) ->
        sent_from (WCmd j) (c_log s) = []) /\
    no_drop_before_cancel (c_log s) = true.
Proof. exact results_once_thm. Qed.
Print Assumptions C02_results_once.

(* 4'. so, while the context has not been cancelled, the result of a finished goroutine WAS delivered to the loop,
       exactly once *)
Theorem C02_result_delivered_before_cancel :
  forall (M : Type) (upd : M -> msg -> M * option cmdid) (cres : cmdid -> msg)
         (m0 : M) (init_cmd : option cmdid) (scripts : list (list msg)) (sched : list label),
    let s := run M upd cres (init_state M m0 init_cmd scripts) sched in
    ~ In ECancel (c_log s) ->
    forall (j : nat) (c : cmdid), nth_error (c_cmds s) j = Some (CDone c) -> length (recv_from (WCmd j) (c_log s)) = 1.
Proof. exact result_delivered_before_cancel. Qed.
Print Assumptions C02_result_delivered_before_cancel.

(* (the cancellation flag is set only by LbCancel, which logs ECancel: c_ctx s = false is implied by ~ In ECancel) *)
Theorem C02_cancelled_is_logged :
  forall (M : Type) (upd : M -> msg -> M * option cmdid) (cres : cmdid -> msg)
         (m0 : M) (init_cmd : option cmdid) (scripts : list (list msg)) (sched : list label),
    let s := run M upd cres (init_state M m0 init_cmd scripts) sched in
    c_ctx s = true -> In ECancel (c_log s).
Proof. exact cancelled_is_logged. Qed.
Print Assumptions C02_cancelled_is_logged.

(* 5. a nil message (a command that returned nil) never reaches Update; neither does MQuit nor a BatchMsg
      (updatable m = true means m is MUser _ or MSeq _).  No EHand / EStart is logged for a nil (None) entry:
      by the type of EHand / EStart (they carry a cmdid, not an option cmdid) together with theorems 1 and 2
      (the hand-overs are exactly the Some entries); `C02_hand_is_owed` states the membership directly. *)
Theorem C02_nil_never_reaches_update :
  forall (M : Type) (upd : M -> msg -> M * option cmdid) (cres : cmdid -> msg)
         (m0 : M) (init_cmd : option cmdid) (scripts : list (list msg)) (sched : list label),
    let s := run M upd cres (init_state M m0 init_cmd scripts) sched in
    forall (m : msg) (c : option cmdid), In (EUpdate m c) (c_log s) -> m <> MNil /\ updatable m = true.
Proof. exact nil_never_reaches_update. Qed.
Print Assumptions C02_nil_never_reaches_update.

Theorem C02_hand_is_owed :
  forall (M : Type) (upd : M -> msg -> M * option cmdid) (cres : cmdid -> msg)
         (m0 : M) (init_cmd : option cmdid) (scripts : list (list msg)) (sched : list label),
    let s := run M upd cres (init_state M m0 init_cmd scripts) sched in
    forall c : cmdid, In (EHand c) (c_log s) -> In c (owed init_cmd (c_log s)).
Proof. exact hand_is_owed. Qed.
Print Assumptions C02_hand_is_owed.

(* 6. a blocked or slow command delays nothing.  For ANY state s (reachable or not) in which the dispatcher lives
      and the loop has not exited, the loop reaches its select (or exits) by at most 4 + (batch length) of its OWN
      steps (loop_label: LbProcess / LbHand / LbView), each enabled in turn, leaving every existing command
      goroutine, sequence goroutine, sender and the Init forwarder untouched (the forwarder's hand-over LbHandInit
      is not needed either); and at the select a sender at its Send point is served by the loop alone.  No step of any command goroutine is needed: a command that never returns (its LbCmdFinish
      never fires) delays no message, no other command of the same batch, and not the exit. *)
Theorem C02_noninterference :
  forall (M : Type) (upd : M -> msg -> M * option cmdid) (cres : cmdid -> msg) (s : cstate M),
    (c_disp s = true -> c_loop s <> LExited ->
     exists ls : list label,
       forallb loop_label ls = true /\
       length ls <= 4 + (match c_loop s with LBatch cs => length cs | LGot (MBatch cs) => length cs | _ => 0 end) /\
       steps_enabled M upd cres s ls /\
       let s' := run M upd cres s ls in
       (c_loop s' = LIdle \/ c_loop s' = LExited) /\
       firstn (length (c_cmds s)) (c_cmds s') = c_cmds s /\
       firstn (length (c_seqs s)) (c_seqs s') = c_seqs s /\
       c_senders s' = c_senders s /\
       c_ifw s' = c_ifw s) /\
    (forall (i : nat) (m : msg), c_loop s = LIdle -> offer M s (WSender i) = Some m ->
                                 step M upd cres s (LbRecv (WSender i)) <> None).
Proof. exact noninterference. Qed.
Print Assumptions C02_noninterference.

(* ------------------------------------------------------------------ *)
(* A concrete program and schedule: Init returns command 6 (handed over by the forwarder goroutine, LbHandInit, after
   the first View), whose result is a BatchMsg containing command 2, whose result is again a BatchMsg (nested batch)
   with a nil entry; command 0 returns nil; a sender sends a raw BatchMsg with a nil entry; a sequence runs;
   dispatcher goroutine 4 (command 4) returned but its result is not taken and goroutine 6 (command 3) never
   returns.  At that point (state s1: loop at the select, context alive) everything owed has been handed over.
   Then the context is cancelled (LbCancel), goroutine 4 and the errgroup member WGrp 0 0 give up their Sends
   (LbGiveUp: results dropped), the loop and the dispatcher exit.  Every label of the schedule is enabled. *)
Module Ex.
  Definition upd (m : nat) (x : msg) : nat * option cmdid :=
    (S m, match x with MUser t => if Nat.even t then Some (t mod 8) else None | MSeq _ => Some 3 | _ => None end).
  Definition cres (c : cmdid) : msg :=
    match c with
    | 0 => MNil | 1 => MUser 101 | 2 => MBatch [Some 1; None; Some 4] | 3 => MUser 7 | 4 => MUser 104
    | 6 => MBatch [Some 2; Some 0; None] | _ => MUser 9
    end.
  Definition scripts : list (list msg) := [[MUser 2; MBatch [None; Some 0]]; [MUser 3; MSeq [Some 1; Some 2]]].
  Definition s0 := init_state nat 0 (Some 6) scripts.
  Definition sched0 : list label := [ LbView ].
  Definition sched1 : list label :=
    [ LbHandInit; LbCmdFinish 0; LbRecv (WCmd 0); LbProcess; LbHand; LbHand; LbHand; LbHand;
      LbCmdFinish 1; LbRecv (WCmd 1); LbProcess; LbHand; LbHand; LbHand; LbHand;
      LbCmdFinish 2; LbRecv (WCmd 2); LbProcess;
      LbRecv (WSender 0); LbProcess; LbHand; LbView;
      LbCmdFinish 3; LbRecv (WCmd 3); LbProcess; LbHand; LbView;
      LbRecv (WSender 1); LbProcess; LbHand; LbView;
      LbRecv (WSender 1); LbProcess; LbHand; LbView;
      LbSeqStep 0; LbSeqFinish 0; LbRecv (WSeq 0); LbProcess; LbHand; LbView;
      LbSeqStep 0; LbSeqFinish 0; LbGrpFinish 0 1; LbRecv (WGrp 0 1); LbProcess; LbHand; LbView;
      LbCmdFinish 5; LbRecv (WCmd 5); LbProcess; LbHand; LbHand; LbHand; LbHand;
      LbRecv (WSender 0); LbProcess; LbHand; LbHand; LbHand;
      LbCmdFinish 4; LbGrpFinish 0 0 ].
  Definition sched2 : list label :=
    [ LbCancel; LbGiveUp (WCmd 4); LbGiveUp (WGrp 0 0); LbLoopExit; LbDispExit ].
  Definition sched : list label := sched0 ++ sched1 ++ sched2.
  Fixpoint all_enabled (s : cstate nat) (ls : list label) : bool :=
    match ls with
    | [] => true
    | l :: r => match step nat upd cres s l with Some s' => all_enabled s' r | None => false end
    end.
  Definition sa := run nat upd cres s0 sched0.                  (* at the select, the forwarder still waiting *)
  Definition s1 := run nat upd cres s0 (sched0 ++ sched1).      (* at the select, before the cancellation *)
  Definition s := run nat upd cres s0 sched.
  Definition no_nil_update (log : list ev) : bool :=
    forallb (fun e => match e with EUpdate m _ => updatable m | _ => true end) log.
  Definition is_idle (l : looppc) : bool := match l with LIdle => true | _ => false end.
  Definition is_exited (l : looppc) : bool := match l with LExited => true | _ => false end.
  Definition is_none {A} (o : option A) : bool := match o with None => true | _ => false end.
  Definition has_cancel (log : list ev) : bool := existsb (fun e => match e with ECancel => true | _ => false end) log.
  Definition n_drops (log : list ev) : nat := length (filter (fun e => match e with EDrop _ _ => true | _ => false end) log).
End Ex.

Example C02_example :
  (40 <=? length Ex.sched) && Ex.all_enabled Ex.s0 Ex.sched &&
  (* the forwarder still waiting: Init's command is the one owed command not handed over *)
  Ex.is_idle (c_loop Ex.sa) && negb (c_ctx Ex.sa) && negb (Ex.is_none (c_ifw Ex.sa)) &&
  all_handed (Some 6) (c_ifw Ex.sa) (c_log Ex.sa) && negb (all_handed (Some 6) None (c_log Ex.sa)) &&
  (* before the cancellation *)
  Ex.is_idle (c_loop Ex.s1) && negb (c_ctx Ex.s1) && Ex.is_none (c_ifw Ex.s1) &&
  all_handed (Some 6) (c_ifw Ex.s1) (c_log Ex.s1) && negb (Ex.has_cancel (c_log Ex.s1)) &&
  (* at the end *)
  Ex.is_exited (c_loop Ex.s) && c_ctx Ex.s && negb (c_disp Ex.s) && Ex.has_cancel (c_log Ex.s) &&
  (40 <=? length (c_log Ex.s)) &&
  handed_owed (Some 6) (c_log Ex.s) &&
  started_once (c_log Ex.s) && results_once Ex.cres (c_log Ex.s) && Ex.no_nil_update (c_log Ex.s) &&
  no_drop_before_cancel (c_log Ex.s) && (Ex.n_drops (c_log Ex.s) =? 2) &&
  list_eqb msg_eqb (sent_from (WCmd 4) (c_log Ex.s)) [MUser 104] && list_eqb msg_eqb (recv_from (WCmd 4) (c_log Ex.s)) [] &&
  list_eqb msg_eqb (sent_from (WCmd 6) (c_log Ex.s)) [] &&
  list_eqb Nat.eqb (hands (c_log Ex.s)) [6; 2; 0; 1; 4; 2; 3; 0; 1; 4; 0] &&
  list_eqb Nat.eqb (map cmd_of (c_cmds Ex.s)) (hands (c_log Ex.s)) = true.
Proof. vm_compute. reflexivity. Qed.
