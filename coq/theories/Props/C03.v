(* C03 — Sequence runs its commands strictly one after another, in order.
   Model: Model/Conc.v (interleaving transition system, every schedule); the property as an
   executable predicate over the ghost event log: Spec/ConcSpec.v (sequences_ok, seq_walk, sq_step,
   no_drop_before_cancel, sent_from); proofs: Proof/ConcC03.v. *)
From Coq Require Import List Bool Arith.
Import ListNotations.
From BT Require Import Model.Conc Spec.ConcSpec Proof.ConcC03.

Section C03.
  Variable M : Type.
  Variable upd : M -> msg -> M * option cmdid.     (* the user's Update *)
  Variable cres : cmdid -> msg.                    (* what each command returns (MNil = nil) *)
  Variable m0 : M.
  Variable init_cmd : option cmdid.
  Variable scripts : list (list msg).              (* what the sender goroutines send *)

  (* 1. for every program, every environment and EVERY schedule: each sequence goroutine (the k-th one runs
     the elements of the k-th sequence message passed to Update) follows the pattern of sq_step: elements
     strictly in order, nil entries skipped, the next element started only after the previous element's
     message - a nil result included, and for a batch result the message of every member, each after that
     member returned - was taken by the event loop (ERecv) or, once the context has been cancelled, given up
     by its blocked Send (EDrop: the sequence then goes on); and no Send gives up before the cancellation *)
  Theorem C03_sequences_ok : forall sched,
    let s := run M upd cres (init_state M m0 init_cmd scripts) sched in
    sequences_ok cres (c_log s) = true /\ no_drop_before_cancel (c_log s) = true.
  Proof. exact (C03_sequences_ok_proof M upd cres m0 init_cmd scripts). Qed.

  (* the invariant behind no_drop_before_cancel: the context is cancelled exactly when ECancel has been logged
     (and LbGiveUp, the only step that logs EDrop, needs the cancelled context) *)
  Theorem C03_cancel_logged : forall sched,
    let s := run M upd cres (init_state M m0 init_cmd scripts) sched in
    c_ctx s = true <-> In ECancel (c_log s).
  Proof. exact (C03_cancel_logged_proof M upd cres m0 init_cmd scripts). Qed.

  (* the bookkeeping behind 1: one sequence goroutine per sequence message that reached Update, and no
     event is attributed to a sequence goroutine that does not exist *)
  Theorem C03_seq_threads : forall sched,
    let s := run M upd cres (init_state M m0 init_cmd scripts) sched in
    length (seq_msgs (c_log s)) = length (c_seqs s) /\
    forall k e, In e (c_log s) -> of_seq k e = true -> k < length (c_seqs s).
  Proof. exact (C03_seq_threads_proof M upd cres m0 init_cmd scripts). Qed.

  (* 2. the order statement in plain terms: between two consecutive starts (c1, then c2) of sequence
     goroutine k, the result of c1 got through - received by the loop, or dropped by a Send that gave up after
     the cancellation: its message (nil included), or, when c1 returned a batch, the message of every one of
     the batch's non-nil members *)
  Theorem C03_next_after_receipt : forall sched,
    let s := run M upd cres (init_state M m0 init_cmd scripts) sched in
    forall k l1 c1 l1' c2 l2,
      c_log s = l1 ++ EStart (WSeq k) c1 :: l1' ++ EStart (WSeq k) c2 :: l2 ->
      (forall c, ~ In (EStart (WSeq k) c) l1') ->
      match cres c1 with
      | MBatch cs => forall j cj, nth_error (somes cs) j = Some cj ->
                       In (ERecv (WGrp k j) (cres cj)) l1' \/ In (EDrop (WGrp k j) (cres cj)) l1'
      | m => In (ERecv (WSeq k) m) l1' \/ In (EDrop (WSeq k) m) l1'
      end.
  Proof. exact (C03_next_after_receipt_proof M upd cres m0 init_cmd scripts). Qed.

  (* 2, as long as the program has not begun terminating (no cancellation so far): the next element starts only
     after the loop has RECEIVED the previous element's message (every message of its batch) *)
  Theorem C03_next_after_receipt_running : forall sched,
    let s := run M upd cres (init_state M m0 init_cmd scripts) sched in
    ~ In ECancel (c_log s) ->
    forall k l1 c1 l1' c2 l2,
      c_log s = l1 ++ EStart (WSeq k) c1 :: l1' ++ EStart (WSeq k) c2 :: l2 ->
      (forall c, ~ In (EStart (WSeq k) c) l1') ->
      match cres c1 with
      | MBatch cs => forall j cj, nth_error (somes cs) j = Some cj -> In (ERecv (WGrp k j) (cres cj)) l1'
      | m => In (ERecv (WSeq k) m) l1'
      end.
  Proof. exact (C03_next_after_receipt_running_proof M upd cres m0 init_cmd scripts). Qed.

  (* 3. the messages of one sequence leave its goroutine in sequence order: the elements started by goroutine
     k are, in order, a prefix of the non-nil elements of its sequence message, and the messages goroutine k
     itself got rid of (received by the loop, or dropped after the cancellation) are exactly the non-batch
     results of the started elements, in that order, all but at most the last one (still running or blocked
     in Send) *)
  Theorem C03_update_order : forall sched,
    let s := run M upd cres (init_state M m0 init_cmd scripts) sched in
    forall k cs, nth_error (seq_msgs (c_log s)) k = Some cs ->
      exists rest pending,
        seq_starts k (c_log s) ++ somes rest = somes cs /\
        sent_from (WSeq k) (c_log s) ++ pending = plain cres (seq_starts k (c_log s)) /\
        length pending <= 1.
  Proof. exact (C03_update_order_proof M upd cres m0 init_cmd scripts). Qed.

  (* 3, as long as the program has not begun terminating: all of them reached the loop (hence Update), in
     sequence order *)
  Theorem C03_update_order_running : forall sched,
    let s := run M upd cres (init_state M m0 init_cmd scripts) sched in
    ~ In ECancel (c_log s) ->
    forall k cs, nth_error (seq_msgs (c_log s)) k = Some cs ->
      exists rest pending,
        seq_starts k (c_log s) ++ somes rest = somes cs /\
        recv_from (WSeq k) (c_log s) ++ pending = plain cres (seq_starts k (c_log s)) /\
        length pending <= 1.
  Proof. exact (C03_update_order_running_proof M upd cres m0 init_cmd scripts). Qed.

  (* 4. nothing in a sequence stalls it, in ANY state: a sequence goroutine that is not done can always take
     its next step - look at the next entry (a nil entry is just dropped), return from its command, hand a
     result (nil included) to an idle loop, go on once all members of a batch are through, give up a blocked
     Send once the context is cancelled (so a loop that has exited does not stall it either) *)
  Theorem C03_nil_does_not_stall : forall (s : cstate M) k t, nth_error (c_seqs s) k = Some t ->
    (s_phase t = SNext -> s_done t = false -> step M upd cres s (LbSeqStep k) <> None) /\
    (forall c, s_phase t = SRunning c -> step M upd cres s (LbSeqFinish k) <> None) /\
    (forall c m, s_phase t = SSending c m -> c_loop s = LIdle -> step M upd cres s (LbRecv (WSeq k)) <> None) /\
    (forall c ms, s_phase t = SGroup c ms -> s_done t = false -> all_done ms = true ->
                  step M upd cres s (LbSeqStep k) <> None) /\
    (forall c m, s_phase t = SSending c m -> c_ctx s = true -> step M upd cres s (LbGiveUp (WSeq k)) <> None).
  Proof. exact (C03_nil_does_not_stall_proof M upd cres). Qed.

  (* 4(d) in every reachable state, where "not done" need not be assumed: a goroutine waiting for a group is
     never marked done *)
  Theorem C03_group_done_steps : forall sched,
    let s := run M upd cres (init_state M m0 init_cmd scripts) sched in
    forall k t c ms, nth_error (c_seqs s) k = Some t -> s_phase t = SGroup c ms -> all_done ms = true ->
      step M upd cres s (LbSeqStep k) <> None.
  Proof. exact (C03_group_done_steps_proof M upd cres m0 init_cmd scripts). Qed.
End C03.

Print Assumptions C03_sequences_ok.
Print Assumptions C03_cancel_logged.
Print Assumptions C03_seq_threads.
Print Assumptions C03_next_after_receipt.
Print Assumptions C03_next_after_receipt_running.
Print Assumptions C03_update_order.
Print Assumptions C03_update_order_running.
Print Assumptions C03_nil_does_not_stall.
Print Assumptions C03_group_done_steps.

(* ------------------------------------------------------------------ *)
(* a concrete run: Init returns command 7 (handed over by the forwarder goroutine: LbHandInit); a sequence of 5
   entries - command 1 (plain result), a nil entry, command 0 (returns nil), command 2 (returns a batch with
   members 1, 4, 0 and a nil entry), command 4 - runs to completion while two senders and the dispatcher's
   commands keep the loop busy; the context is cancelled (LbCancel) while the group is awaited: member 2's nil
   result is dropped (LbGiveUp (WGrp 0 2)), member 0's is still received; the loop exits, the last element's
   result is dropped (LbGiveUp (WSeq 0)), and the sequence ends.  62 labels, 7 of them not enabled when scheduled *)
Definition ex_upd (m : nat) (x : msg) : nat * option cmdid :=
  (S m, match x with MUser 10 => Some 7 | _ => None end).
Definition ex_cres (c : cmdid) : msg :=
  match c with
  | 0 => MNil | 1 => MUser 101 | 2 => MBatch [Some 1; None; Some 4; Some 0] | 4 => MUser 104 | _ => MUser 9
  end.
Definition ex_scripts : list (list msg) :=
  [[MSeq [Some 1; None; Some 0; Some 2; Some 4]; MUser 5];
   [MUser 10; MUser 11; MNil; MUser 12; MUser 13; MUser 14]].
Definition ex_cyc : list label := [LbProcess; LbHand; LbView].
Definition ex_sched : list label :=
  [LbHandInit (* Init's command 7: dispatcher goroutine 0 *); LbView; LbRecv (WSender 0)] ++ ex_cyc ++
  [LbSeqStep 0 (* starts 1 *); LbRecv (WSender 1)] ++ ex_cyc ++
  [LbSeqStep 0 (* not enabled: running *); LbSeqFinish 0; LbCmdFinish 0; LbRecv (WSeq 0)] ++ ex_cyc ++
  [LbSeqStep 0 (* nil entry dropped *); LbRecv (WSender 1); LbSeqStep 0 (* starts 0 *)] ++ ex_cyc ++
  [LbSeqFinish 0 (* returns nil *); LbRecv (WCmd 0)] ++ ex_cyc ++
  [LbRecv (WSeq 0) (* the nil result *); LbSeqStep 0 (* starts 2 *); LbProcess;
   LbSeqFinish 0 (* returns the batch: 3 members *); LbRecv (WSender 1) (* a nil message *); LbProcess;
   LbGrpFinish 0 1; LbSeqStep 0 (* not enabled: group open *); LbRecv (WGrp 0 1)] ++ ex_cyc ++
  [LbGrpFinish 0 2; LbGiveUp (WGrp 0 2) (* not enabled: not cancelled *); LbCancel; LbCancel (* not enabled *);
   LbGiveUp (WGrp 0 2) (* the nil result of member 2 is dropped *); LbGrpFinish 0 0;
   LbSeqStep 0 (* not enabled: member 0 not yet through *); LbRecv (WGrp 0 0)] ++ ex_cyc ++
  [LbSeqStep 0 (* group through *); LbSeqStep 0 (* starts 4 *); LbSeqFinish 0; LbLoopExit;
   LbRecv (WSeq 0) (* not enabled: the loop has exited *); LbGiveUp (WSeq 0) (* dropped *);
   LbSeqStep 0 (* end of the sequence *); LbSeqStep 0 (* not enabled: done *); LbDispExit; LbGiveUp (WSender 1)].
Definition ex_s : cstate nat := run nat ex_upd ex_cres (init_state nat 0 (Some 7) ex_scripts) ex_sched.

Example C03_example :
  length ex_sched = 62 /\
  length (c_log ex_s) = 48 /\
  sequences_ok ex_cres (c_log ex_s) = true /\
  no_drop_before_cancel (c_log ex_s) = true /\
  seq_msgs (c_log ex_s) = [[Some 1; None; Some 0; Some 2; Some 4]] /\
  c_seqs ex_s = [{| s_rest := []; s_phase := SNext; s_done := true |}] /\
  c_senders ex_s = [[MUser 5]; [MUser 13; MUser 14]] /\
  (c_ctx ex_s, c_disp ex_s, c_ifw ex_s, c_loop ex_s) = (true, false, None, LExited) /\
  filter (of_seq 0) (c_log ex_s) =
    [EStart (WSeq 0) 1; EEnd (WSeq 0) 1; ERecv (WSeq 0) (MUser 101);
     EStart (WSeq 0) 0; EEnd (WSeq 0) 0; ERecv (WSeq 0) MNil;
     EStart (WSeq 0) 2; EEnd (WSeq 0) 2; EStart (WGrp 0 0) 1; EStart (WGrp 0 1) 4; EStart (WGrp 0 2) 0;
     EEnd (WGrp 0 1) 4; ERecv (WGrp 0 1) (MUser 104); EEnd (WGrp 0 2) 0; EDrop (WGrp 0 2) MNil;
     EEnd (WGrp 0 0) 1; ERecv (WGrp 0 0) (MUser 101);
     EStart (WSeq 0) 4; EEnd (WSeq 0) 4; EDrop (WSeq 0) (MUser 104)] /\
  filter (fun e => match e with EHand _ | EStart (WCmd _) _ | ECancel | EDrop _ _ | EExit => true | _ => false end) (c_log ex_s) =
    [EHand 7; EStart (WCmd 0) 7; EHand 7; EStart (WCmd 1) 7; ECancel; EDrop (WGrp 0 2) MNil; EExit;
     EDrop (WSeq 0) (MUser 104); EDrop (WSender 1) (MUser 12)] /\
  sent_from (WSeq 0) (c_log ex_s) = [MUser 101; MNil; MUser 104] /\
  recv_from (WSeq 0) (c_log ex_s) = [MUser 101; MNil] /\
  (* the predicates are not trivially true: the same log without the drop of the group member's result, or
     without the receipt of the nil result, is rejected; so is the log without the cancellation *)
  sequences_ok ex_cres (filter (fun e => match e with EDrop (WGrp 0 2) _ => false | _ => true end) (c_log ex_s)) = false /\
  sequences_ok ex_cres (filter (fun e => match e with ERecv (WSeq 0) MNil => false | _ => true end) (c_log ex_s)) = false /\
  no_drop_before_cancel (filter (fun e => match e with ECancel => false | _ => true end) (c_log ex_s)) = false.
Proof. vm_compute. repeat split. Qed.
Print Assumptions C03_example.
