(* C04 — Run always returns, with the right error, whatever is in flight.
   Property theorems only; the proofs are in Proof/SkelCert.v (generic
   reflection) and Proof/SkelProofs.v (certificates for the guards extracted
   from /repo today). *)
From Coq Require Import List Bool NArith Arith String.
Import ListNotations.
From BT Require Import Model.Skel Model.SkelTie Proof.SkelCert Proof.SkelProofs.

(* the guards the skeleton runs with are the ones computed from the source *)
Theorem C04_tie : G = guards_of_gen /\ nothing_unsupported = true /\ rendezvous_channels = true /\
  (* every blocking channel operation without an alternative is a known one; goroutines start where the skeleton has threads *)
  bare_ops_ok = true /\ go_stmts_ok = true /\
  (* the functions the skeleton mirrors by hand have the bodies it was written against *)
  shapes_ok_for ["NewProgram"; "readInputs"; "WithoutCatchPanics"; "eventLoop:sequenceMsg"; "handleSignals"; "handleCommands"; "channelHandlers.shutdown"; "shutdown"; "Kill"; "recoverFromPanic"; "handlePanic";
                 "readLoop"; "waitForReadLoop"; "initCancelReader"; "Send"; "handleResize"; "listenForResize"; "checkResize";
                 "standardRenderer.start"; "standardRenderer.stop"; "standardRenderer.kill"; "standardRenderer.listen"]%string = true.
Proof. vm_compute. repeat split. Qed.
Print Assumptions C04_tie.

(* every state reachable under any schedule, any environment, is in the checked set *)
Theorem C04_reachable_covered : forall s, Reach s -> lookup R s = true.
Proof. exact reach_in_R. Qed.
Print Assumptions C04_reachable_covered.

(* once a cause has struck, every path of runtime steps and callback returns (plus at most
   b further hand-overs of commands of a batch in dispatch) is finite, bounded by the rank:
   Run does not wait for senders, commands, input or anything else *)
Theorem C04_bounded : forall p s, Reach s -> struck s = true -> path_ok G s p ->
  (N.of_nat (List.length p) <= rank_of Rk s + batch_slack * N.of_nat (nbatch p))%N.
Proof. exact run_returns_bounded. Qed.
Print Assumptions C04_bounded.

Theorem C04_rank_at_most_60 : forall s, Reach s -> (rank_of Rk s <= 60)%N.
Proof. exact rank_bound. Qed.
Print Assumptions C04_rank_at_most_60.

(* ... and such a path can only stop in a state where Run has returned *)
Theorem C04_no_dead_end : forall s, Reach s -> struck s = true -> is_returned s = false ->
  exists e, In e (steps G s) /\ restricted (fst e) = true.
Proof. exact no_dead_end. Qed.
Print Assumptions C04_no_dead_end.

Theorem C04_struck_stable : forall s e, Reach s -> struck s = true -> In e (steps G s) -> struck (snd e) = true.
Proof. exact struck_is_stable. Qed.
Print Assumptions C04_struck_stable.

(* the error class at return is the one the exit decision demands: nil only for a quit
   (nil or killed if Kill/cancellation raced it), ErrInterrupted for an interrupt, the reader's
   error for a read error, killed for context/Kill/recovered panic, the start-up error otherwise *)
Theorem C04_error_ok : forall s, Reach s -> error_ok s = true.
Proof. exact returned_error_ok. Qed.
Print Assumptions C04_error_ok.

(* non-vacuity: a struck, not yet returned state is reachable (cancellation while Update runs) *)
Example C04_nonvacuous : exists s, lookup R s = true /\ struck s = true /\ is_returned s = false /\ run s = RUpdateCb.
Proof.
  exists (mk_skel RUpdateCb CdSelect SgWait IfNone RdReading TkListen false KxNone true false Fin0 false DNone true false).
  vm_compute. repeat split.
Qed.

(* the same statement in the vocabulary of the real-run Spec (Spec.LifeSpec.class_of / dec_of) *)
From BT Require Import Spec.LifeSpec Proof.SkelExtra.
Theorem C04_error_is_class_of_cause : forall s e, Reach s -> run s = RReturned e ->
  (exists c, dec_of c = dec s /\ err_is (class_of c) e = true) \/ (dec s = DQuit /\ ext s = true /\ e = EKilled).
Proof. exact returned_error_is_class_of_cause. Qed.
Print Assumptions C04_error_is_class_of_cause.

(* ---- the other direction of the tie (code within model): the check evaluates Proof/SkelTrace.accepts on the callback
   sequences of real runs; an accepted sequence is a run of the skeleton - invisible steps, then a step entering the
   next observed callback, and so on *)
From BT Require Import Proof.SkelTrace.
Theorem C04_accepted_trace_is_a_model_run : forall G filtered S os, accepts_from G filtered S os = true ->
  exists s0 s', In s0 S /\ cpath G filtered s0 os s'.
Proof. exact accepts_sound. Qed.
Print Assumptions C04_accepted_trace_is_a_model_run.
