(* C05 — the terminal is restored on every exit path (control half: on every path to a return,
   the Run thread's last mode-affecting action is restoreTerminalState; the mode half - that
   restoreTerminalState resets every mode from any tracked state - is in C05_modes.v). *)
From Coq Require Import List Bool NArith Arith String.
Import ListNotations.
From BT Require Import Model.Skel Model.SkelTie Proof.SkelCert Proof.SkelProofs.

Theorem C05_tie : G = guards_of_gen /\ g_shutdown_restores G = true /\ g_startup_fail_restores G = true /\ nothing_unsupported = true /\
  shapes_ok_for ["shutdown"; "Kill"; "recoverFromPanic"; "handlePanic"]%string = true.
Proof. vm_compute. repeat split. Qed.
Print Assumptions C05_tie.

Theorem C05_restored_at_every_return : forall s, Reach s -> is_returned s = true -> restored_last s = true.
Proof. exact returned_restored. Qed.
Print Assumptions C05_restored_at_every_return.

Example C05_nonvacuous : exists s, lookup R s = true /\ is_returned s = true /\ dec s = DPanic.
Proof.
  exists (mk_skel (RReturned EKilled) CdDone SgDone IfNone RdDone TkDone true KxNone true false FinClosed true DPanic false false).
  vm_compute. repeat split.
Qed.
