(* C05 — the terminal is restored on every exit path (control half: on every path to a return,
   the Run thread's last mode-affecting action is restoreTerminalState; the mode half - that
   restoreTerminalState resets every mode from any tracked state - is in C05_modes.v). *)
From Coq Require Import List Bool NArith Arith String.
Import ListNotations.
From BT Require Import Model.Skel Model.SkelTie Proof.SkelCert Proof.SkelProofs.

Theorem C05_tie : G = guards_of_gen /\ g_shutdown_restores G = true /\ g_startup_fail_restores G = true /\ nothing_unsupported = true /\
  shapes_ok_for ["shutdown"; "Kill"; "recoverFromPanic"; "handlePanic"; "restoreTerminalState"; "restoreInput"; "initTerminal"; "initInput"; "eventLoop:sequenceMsg"]%string = true.
Proof. vm_compute. repeat split. Qed.
Print Assumptions C05_tie.

(* the panic recovery (which restores the terminal, the line discipline included) runs before a TTY that Run opened itself
   is closed: it is registered after every `defer f.Close()` (translator: gen/ChanOps.defers, registration order); the
   real counterpart is the termios comparison on /dev/tty in a child with a controlling pty *)
Theorem C05_recover_before_tty_close : recover_registered_after_tty_close = true /\
  (forall a b l, exit_order (l ++ [a; b]) = b :: a :: exit_order l).
Proof.
  split; [vm_compute; reflexivity|]. intros a b l. unfold exit_order. rewrite rev_app_distr. reflexivity.
Qed.
Print Assumptions C05_recover_before_tty_close.

Theorem C05_restored_at_every_return : forall s, Reach s -> is_returned s = true -> restored_last s = true.
Proof. exact returned_restored. Qed.
Print Assumptions C05_restored_at_every_return.

Example C05_nonvacuous : exists s, lookup R s = true /\ is_returned s = true /\ dec s = DPanic.
Proof.
  exists (mk_skel (RReturned EKilled) CdDone SgDone IfNone RdDone TkDone true KxNone true false FinClosed true DPanic false false).
  vm_compute. repeat split.
Qed.
