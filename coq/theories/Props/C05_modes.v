(* C05 (mode half) -- restoreTerminalState puts the terminal back in its
   default modes: main screen, cursor visible, mouse / bracketed paste / focus
   reporting off, from ANY state in which the renderer's flags agree with the
   terminal and whatever the mouse modes are; hence so does a whole run
   (startup options, any mode commands, renderer stop or kill, restore).
   Model: Model/Lifecycle.v over the GENERATED call list of restoreTerminalState.
   Property theorems only; proofs in Proof/ModesProofs.v. *)
From Coq Require Import String List Bool NArith.
Import ListNotations.
From BT Require Import Base.Bytes Model.GenTypes Model.VT Model.Renderer Model.EvLoop
  Spec.Modes Model.Lifecycle Proof.ModesProofs.
From BTGen Require Dispatch Lifecycle.
Open Scope list_scope.

Theorem C05_restore_resets : forall shared r t, tracker_ok shared r t ->
  let '(r', toks, ok) := restore_state BTGen.Lifecycle.restore_terminal_state_calls dm r in
  ok = true /\ vt_modes (vt_run shared t toks) = defaults /\ tracker_ok shared r' (vt_run shared t toks).
Proof. exact restore_resets. Qed.
Print Assumptions C05_restore_resets.

(* the renderer's stop / kill only draw: flags and agreement are kept *)
Theorem C05_stop_keeps_modes : forall shared r t, tracker_ok shared r t ->
  tracker_ok shared (fst (r_stop r)) (vt_run shared t (snd (r_stop r))) /\
  flags (vt_run shared t (snd (r_stop r))) = flags t.
Proof. exact stop_tracker. Qed.
Print Assumptions C05_stop_keeps_modes.

(* a whole run: options, commands, stop (or kill), restoreTerminalState *)
Theorem C05_quit_resets :
  forall (M U : Type) (upd : M -> rmsg U -> M * option cmdid) (view : M -> bytes)
         (shared kill : bool) (o : opts) (cmds : list modecmd) (w h : nat) (hist : list (list N)) (used : nat) (m0 : M),
    let '(r0, toks0, ok0) := startup BTGen.Lifecycle.run_calls dm o r_init in
    let s := el_run BTGen.Dispatch.dispatch dm None upd view (el_init m0 r0) (map (fun c => RB (kind_of_cmd c)) cmds) in
    let '(r1, toks1) := if kill then r_kill (el_r s) else r_stop (el_r s) in
    let '(r2, toks2, ok2) := restore_state BTGen.Lifecycle.restore_terminal_state_calls dm r1 in
    ok0 = true /\ ok2 = true /\
    vt_modes (vt_run shared (vt_init w h hist used) ((toks0 ++ el_out s) ++ toks1 ++ toks2)) = defaults.
Proof. exact (@quit_resets). Qed.
Print Assumptions C05_quit_resets.

(* non-vacuity: every option on, one command; the modes before the restore are
   far from the defaults, the restore writes eight resets, the modes after are
   the defaults; per-buffer cursor visibility *)
Example C05_modes_example :
  let o := {| o_alt := true; o_cell := true; o_all := true; o_nopaste := false; o_focus := true |} in
  let upd := fun (m : nat) (_ : rmsg unit) => (S m, @None cmdid) in
  let view := fun m : nat => repeat 65%N m in
  let '(r0, toks0, ok0) := startup BTGen.Lifecycle.run_calls dm o r_init in
  let s := el_run BTGen.Dispatch.dispatch dm None upd view (el_init 0 r0) [RB KMouseAll] in
  let t := vt_run false (vt_init 20 5 [] 0) (toks0 ++ el_out s) in
  let '(r2, toks2, ok2) := restore_state BTGen.Lifecycle.restore_terminal_state_calls dm (el_r s) in
  ok0 = true /\ ok2 = true /\ tracker_ok false (el_r s) t /\
  vt_modes t = mk_modes true true true true true true true /\
  toks2 = [TReset 2004; TSet 25; TReset 1002; TReset 1003; TReset 1006; TReset 1004; TReset 1049; TSet 25] /\
  vt_modes (vt_run false t toks2) = defaults.
Proof. vm_compute. repeat split. Qed.
