(* C06 — property theorems only. *)
From Coq Require Import NArith List Bool Arith.
Import ListNotations.
From BT Require Import Base.Bytes Model.VT Model.Renderer Spec.Screen.
Open Scope N_scope.

(* the specification's line splitter is the renderer's (strings.Split) *)
Theorem C06_split_agrees : forall s, lines_of s = split_lines s.
Proof. induction s as [|c t IH]; [reflexivity|]. cbn. rewrite IH. reflexivity. Qed.
Print Assumptions C06_split_agrees.
