(* C06 — the terminal shows the latest view after every flush, over whole
   histories of renderer operations.  Property theorems only; proofs in
   Proof/RenderShows.v, RenderInline.v, RenderAlt.v, RenderOps.v, RenderHistory.v. *)
From Coq Require Import NArith List Bool Arith.
Import ListNotations.
From BT Require Import Base.Bytes Model.VT Model.Renderer Spec.Screen
  Proof.VTLemmas Proof.FlushProofs Proof.FlushSync Proof.RendererBasics
  Proof.RenderShows Proof.RenderInline Proof.RenderAlt Proof.RenderOps Proof.RenderHistory.
Open Scope nat_scope.

(* the Spec's painted view is the renderer's clipped frame, row by row *)
Theorem C06_paint_frame : forall w h v, 0 < h ->
  paint w h v = map (paint_row w) (frame_lines h (norm v)).
Proof. exact paint_frame. Qed.
Print Assumptions C06_paint_frame.

(* the inline invariant of FlushSync, with the painted frame as region, is what the Spec demands *)
Theorem C06_sync_shows_inline : forall t w h r v above region below,
  vW t = w -> vH t = h -> in_alt t = false ->
  sync_inline w h r (vmain t) above region below ->
  region = map (paint_row w) (frame_lines h (norm v)) ->
  shows_inline t v = Some above.
Proof. exact sync_shows_inline. Qed.
Print Assumptions C06_sync_shows_inline.

(* tokens other than mode switches / titles act on the active buffer only *)
Theorem C06_vt_run_cells : forall shared toks t, forallb cell_tok toks = true ->
  vt_run shared t toks = with_active t (buf_run (vW t) (vH t) (active t) toks).
Proof. exact vt_run_cells. Qed.
Print Assumptions C06_vt_run_cells.

Theorem C06_flush_tokens_are_cells : forall r, forallb cell_tok (snd (r_flush r)) = true.
Proof. exact cell_flush. Qed.
Print Assumptions C06_flush_tokens_are_cells.

(* inline flush, nothing queued: the generalised invariant (earlier output may
   share the window and scroll away; the post-ClearScreen state is included)
   is re-established with region = the painted frame, `above` untouched *)
Theorem C06_flush_inline : forall w h r b above region below k v,
  isync w h r b above region below k ->
  r_queued r = [] -> r_buf r = v -> v <> [] -> bytes_eqb v (r_lastRender r) = false ->
  exists below',
    isync w h (fst (r_flush r)) (buf_run w h b (snd (r_flush r))) above
          (map (paint_row w) (frame_lines h v)) below' (length (frame_lines h v) - 1) /\
    fst (r_flush r) = flush_state_inline r v (frame_lines h v).
Proof. exact flush_isync. Qed.
Print Assumptions C06_flush_inline.

(* alt-screen flush: the first n rows hold the painted frame, every other row
   is blank, the cursor is at column 0 of row n-1; a stale line count (after a
   resize) is harmless *)
Theorem C06_flush_alt : forall w h r b v,
  sync_alt w h r b -> r_buf r = v -> v <> [] -> bytes_eqb v (r_lastRender r) = false ->
  exists below',
    buf_run w h b (snd (r_flush r)) =
      mk (map (paint_row w) (frame_lines h v) ++ below') (length (frame_lines h v) - 1) 0 false /\
    all_blank w below' /\ length (frame_lines h v) + length below' = h /\
    fst (r_flush r) = flush_state_alt r v (frame_lines h v) /\
    sync_alt w h (fst (r_flush r)) (buf_run w h b (snd (r_flush r))).
Proof. exact flush_alt. Qed.
Print Assumptions C06_flush_alt.

Theorem C06_flush_alt_shows : forall t w h r v0,
  vW t = w -> vH t = h -> in_alt t = true -> sync_alt w h r (valt t) ->
  r_buf r = norm v0 -> bytes_eqb (norm v0) (r_lastRender r) = false ->
  forall shared, shows_alt (vt_run shared t (snd (r_flush r))) v0 = true.
Proof. exact flush_alt_shows. Qed.
Print Assumptions C06_flush_alt_shows.

(* whenever the renderer's cache is valid, the terminal shows the cached view *)
Theorem C06_sync_shows : forall rz t r above v, Sync rz t r above -> r_lastRender r = norm v ->
  if r_alt r then shows_alt t v = true else shows_inline t v = Some above.
Proof. exact Sync_shows. Qed.
Print Assumptions C06_sync_shows.

(* THE HISTORY THEOREM.  For every size, every earlier output `hist` (the last
   `used` rows of it inside the window), either cursor-visibility convention
   and every valid history, the screen oracle — the one evaluated on the real
   renderer's token stream — reports no failure on the model's token stream:
   after every flush that follows a write the terminal shows exactly that
   view (inline: with everything above it untouched; alt screen: with every
   other row blank). *)
Theorem C06_history : forall shared w h hist used rest,
  Forall (fun r => length r = w) hist -> used <= length hist -> used < h ->
  valid_history (OResize w h :: rest) = true ->
  o_run shared (o_init w h hist used)
        (combine (sops_of true (OResize w h :: rest)) (snd (r_run r_init (OResize w h :: rest)))) 0 = [].
Proof. exact history_ok. Qed.
Print Assumptions C06_history.

(* non-vacuity: a 27-operation history through inline rendering with earlier
   output in the window, growth past the window height (scrolling), shrinking,
   ClearScreen, the alt screen and back, a resize inside the alt screen and a
   ClearScreen there.  It is valid, the oracle accepts it (as the theorem says)
   under both cursor-visibility conventions, exactly 8 of its flushes emit
   tokens (each follows a write, so each is a checked point), and the oracle is
   not trivially silent: with the tokens withheld it reports failures. *)
Example C06_nonvacuous :
  let hist := [[97; 97; 97; 97; 97; 97]; [98; 98; 98; 98; 98; 98]]%N in
  let ops := [OResize 6 3;
              OWrite [97; 98; 10; 99; 100]%N; OFlush;
              OWrite [97; 98; 10; 99; 100; 10; 101; 102; 10; 103; 104; 105; 106; 107; 108; 109]%N; OFlush;
              OWrite [120]%N; OFlush;
              OClear; OWrite [104; 105]%N; OFlush; OHideCursor;
              OEnterAlt; OWrite [97; 108; 116; 10; 10; 115]%N; OFlush;
              OExitAlt; OWrite []; OFlush;
              OEnterAlt; OResize 4 2; OWrite [111; 110; 101; 10; 116; 119; 111; 10; 116; 104; 114; 101; 101]%N; OFlush;
              OClear; ORepaint; OFlush; OMouse 1002%N true; OWrite [122]%N; OFlush] in
  valid_history ops = true /\
  8 <= length ops /\
  o_run true (o_init 6 3 hist 1) (combine (sops_of true ops) (snd (r_run r_init ops))) 0 = [] /\
  o_run false (o_init 6 3 hist 1) (combine (sops_of true ops) (snd (r_run r_init ops))) 0 = [] /\
  length (filter (fun x => match fst x, snd x with SFlush, _ :: _ => true | _, _ => false end)
                 (combine (sops_of true ops) (snd (r_run r_init ops)))) = 8 /\
  o_run true (o_init 6 3 hist 1) (combine (sops_of true ops) (map (fun _ => []) ops)) 0 <> [].
Proof. vm_compute. repeat split; try reflexivity; try discriminate. repeat constructor. Qed.
