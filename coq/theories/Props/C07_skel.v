(* C07 — the runtime half: the hand-shake between Run's shutdown and the renderer's ticker goroutine, on the
   control skeleton (every cause, every program point, every schedule). *)
From Coq Require Import List Bool NArith Arith String.
Import ListNotations.
From BT Require Import Model.Skel Model.SkelTie Proof.SkelCert Proof.SkelProofs Proof.SkelExtra.

Theorem C07_skel_tie : G = guards_of_gen /\
  shapes_ok_for ["shutdown"; "standardRenderer.start"; "standardRenderer.stop"; "standardRenderer.kill"; "standardRenderer.listen"]%string = true.
Proof. vm_compute. repeat split. Qed.
Print Assumptions C07_skel_tie.

(* when restoreTerminalState runs, and at every return, the ticker goroutine has exited: no frame is painted after
   stop()'s final flush *)
Theorem C07_ticker_exits_before_restore : forall s, Reach s -> ticker_gone s = true.
Proof. exact ticker_exits_before_restore. Qed.
Print Assumptions C07_ticker_exits_before_restore.

(* the flushing shutdown (kill = false) is taken exactly after the final View of a quit ... *)
Theorem C07_graceful_shutdown_is_quit : forall s, Reach s -> graceful_is_quit s = true.
Proof. exact graceful_shutdown_is_quit. Qed.
Print Assumptions C07_graceful_shutdown_is_quit.

(* ... and a quit that no Kill / cancellation raced always takes it: the final frame is written and flushed *)
Theorem C07_quit_renders_final_frame : forall s, Reach s -> quit_is_graceful s = true.
Proof. exact quit_renders_final_frame. Qed.
Print Assumptions C07_quit_renders_final_frame.
