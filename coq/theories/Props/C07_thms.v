(* C07 — on quit the final model's view is on screen whatever the timing.
   Property theorems only; proofs in Proof/RenderStop.v (invariant sync_weak:
   see Proof/RenderPrint.v; it is implied by FlushSync.sync_inline). *)
From Coq Require Import NArith List Bool Arith.
Import ListNotations.
From BT Require Import Base.Bytes Model.VT Model.Renderer Spec.Screen
  Proof.VTLemmas Proof.FlushProofs Proof.FlushSync Proof.RendererBasics Proof.RenderPrint Proof.RenderStop.
Open Scope nat_scope.

(* the two renderer-state invariants used below hold in every reachable state *)
Theorem C07_invariants_reachable : forall ops,
  cache_ok (fst (r_run r_init ops)) /\ queue_ok (fst (r_run r_init ops)).
Proof. exact reachable_from_init. Qed.
Print Assumptions C07_invariants_reachable.

Theorem C07_invariants_step : forall r o,
  (cache_ok r -> cache_ok (fst (r_step r o))) /\ (queue_ok r -> queue_ok (fst (r_step r o))).
Proof. exact (fun r o => conj (cache_ok_step r o) (queue_ok_step r o)). Qed.
Print Assumptions C07_invariants_step.

(* C07, on the terminal.  Renderer and main buffer in sync (inline; any cache
   state; lines queued or not).  After Write v; Stop — with no render tick in
   between — the terminal passes the specification's shows_final_inline for
   v: all rows of v's frame but the last are on screen, the cursor is at
   column 0 of a blank row right after them, everything below is blank, and
   the rows above are the old ones followed by the queued printed lines. *)
Theorem C07_stop_on_terminal : forall shared t r above region below v,
  sync_weak (vW t) (vH t) r (vmain t) above region below -> cache_ok r -> queue_ok r ->
  in_alt t = false ->
  shows_final_inline (vt_run shared t (snd (r_stop (r_write r v)))) v =
  Some (above ++ flat_map (wrap (vW t)) (r_queued r)).
Proof. exact C07_stop_on_terminal_proof. Qed.
Print Assumptions C07_stop_on_terminal.

(* the same on the buffer, as a zipper *)
Theorem C07_stop_shape : forall w h r b above region below v,
  sync_weak w h r b above region below -> cache_ok r -> queue_ok r ->
  let p := map (paint_row w) (frame_lines h (norm v)) in
  let above' := above ++ flat_map (wrap w) (r_queued r) in
  exists below',
    buf_run w h b (snd (r_stop (r_write r v))) = bz (above' ++ removelast p) (blank_row w) below' 0 false /\
    all_blank w below' /\ length p + length below' <= h /\ h <= length above' + length p + length below' /\
    rows_w w above' /\ p <> [].
Proof. exact stop_final. Qed.
Print Assumptions C07_stop_shape.

Theorem C07_paint_is_frame : forall w h v, 0 < h -> paint w h v = map (paint_row w) (frame_lines h (norm v)).
Proof. exact paint_frame_lines. Qed.
Print Assumptions C07_paint_is_frame.

(* Write v; Flush always leaves v's frame in the region: rendered now, or
   already there when the flush is silent because the cache equals v *)
Theorem C07_write_flush_shows : forall w h r b above region below v,
  sync_weak w h r b above region below -> cache_ok r -> queue_ok r ->
  exists below',
    let r1 := r_write r v in
    sync_weak w h (fst (r_flush r1)) (buf_run w h b (snd (r_flush r1)))
              (above ++ flat_map (wrap w) (r_queued r)) (map (paint_row w) (frame_lines h (norm v))) below'.
Proof. exact write_flush_shows. Qed.
Print Assumptions C07_write_flush_shows.

(* never an older view: of several writes before a render only the last counts *)
Theorem C07_latest_view : forall w h r b above region below vs vk,
  sync_weak w h r b above region below -> cache_ok r -> queue_ok r ->
  exists below',
    sync_weak w h (fst (run_ops w h r b (map OWrite vs ++ [OWrite vk; OFlush])))
                  (snd (run_ops w h r b (map OWrite vs ++ [OWrite vk; OFlush])))
              (above ++ flat_map (wrap w) (r_queued r)) (map (paint_row w) (frame_lines h (norm vk))) below'.
Proof. exact latest_view_wins. Qed.
Print Assumptions C07_latest_view.

Theorem C07_latest_view_on_terminal : forall shared t r above region below vs vk,
  sync_weak (vW t) (vH t) r (vmain t) above region below -> cache_ok r -> queue_ok r ->
  in_alt t = false ->
  let r1 := fold_left r_write (vs ++ [vk]) r in
  shows_inline (vt_run shared t (snd (r_flush r1))) vk = Some (above ++ flat_map (wrap (vW t)) (r_queued r)).
Proof. exact C07_latest_view_on_terminal_proof. Qed.
Print Assumptions C07_latest_view_on_terminal.

(* the weak invariant is enough for the specification's shows_inline *)
Theorem C07_sync_shows_inline : forall t v w h r above below,
  vW t = w -> vH t = h -> in_alt t = false ->
  sync_weak w h r (vmain t) above (paint w h v) below ->
  shows_inline t v = Some above.
Proof. exact shows_inline_of_weak. Qed.
Print Assumptions C07_sync_shows_inline.

(* a fresh terminal and renderer satisfy the hypotheses *)
Theorem C07_init : forall w h hist, 0 < w -> 0 < h -> rows_w w hist ->
  sync_weak w h (r_window_size r_init w h) (vmain (vt_init w h hist 0)) hist [] (repeat (blank_row w) h) /\
  cache_ok (r_window_size r_init w h) /\ queue_ok (r_window_size r_init w h) /\
  vW (vt_init w h hist 0) = w /\ vH (vt_init w h hist 0) = h /\ in_alt (vt_init w h hist 0) = false.
Proof. exact sync_weak_vt_init. Qed.
Print Assumptions C07_init.

(* non-vacuity: 4x3 terminal with one row "> " of history; "ab" rendered;
   Println "hello"; then the final view "cd\nef" is written and the program
   stops before any tick: "cd" is on screen, the cursor on the blank row that
   held "ef"'s place, the prompt row and the printed rows above.  Stopping
   with the view already on screen ("ab" again: the cache was invalidated by
   the print, so it is repainted below the printed rows) works as well. *)
Example C07_nonvacuous :
  let t0 := vt_init 4 3 [[62;32;32;32]%N] 0 in
  let r0 := r_window_size r_init 4 3 in
  let t1 := vt_run true t0 (snd (r_flush (r_write r0 [97;98]%N))) in
  let r1 := r_print_line (fst (r_flush (r_write r0 [97;98]%N))) [104;101;108;108;111]%N in
  let v := [99;100;10;101;102]%N in
  shows_inline t1 [97;98]%N = Some [[62;32;32;32]]%N /\
  vmain (vt_run true t1 (snd (r_stop (r_write r1 v)))) =
    mk [[62;32;32;32]; [104;101;108;108]; [111;32;32;32]; [99;100;32;32]; [32;32;32;32]]%N 4 0 false /\
  shows_final_inline (vt_run true t1 (snd (r_stop (r_write r1 v)))) v =
    Some [[62;32;32;32]; [104;101;108;108]; [111;32;32;32]]%N /\
  shows_final_inline (vt_run true t1 (snd (r_stop (r_write r1 [97;98]%N)))) [97;98]%N =
    Some [[62;32;32;32]; [104;101;108;108]; [111;32;32;32]]%N /\
  r_queued r1 = [[104;101;108;108;111]]%N.
Proof. vm_compute. repeat split. Qed.
