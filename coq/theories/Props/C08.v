(* C08 — every documented key sequence decodes to its key, in any context.
   Property theorems only. *)
From Coq Require Import NArith ZArith List Bool.
Import ListNotations.
From BT Require Import Base.Bytes Model.Keys Model.Decoder Model.Reader RefTable Spec.Events Proof.DecoderTies.
From BTGen Require Consts KeyTable.
Open Scope N_scope.

(* tie: the key table in key.go IS the documented table (frozen RefTable), the
   special key constants are the documented ones, the translator understood
   every entry, the regular expressions are the ones the scanners mirror *)
Theorem C08_tie :
  table_eqb KeyTable.sequences RefTable.sequences = true /\
  (KeyTable.unsupported = nil /\ Consts.unsupported = nil) /\
  (KeyRunes = RefTable.KeyRunes /\ KeySpace = RefTable.KeySpace /\ KeyEscape = RefTable.KeyEscape /\
   keyNUL = RefTable.KeyNull /\ keyUS = 31 /\ keyDEL = 127 /\ keyESC = 27)%Z /\
  bytes_eqb Consts.re_unknownCSIRe expect_unknownCSIRe = true.
Proof. exact (conj Tie_KeyTable (conj Tie_KeyTable_supported (conj Tie_KeyConsts (proj1 Tie_Regexes)))). Qed.
Print Assumptions C08_tie.

(* the extended table behaves like the Go map: keys distinct and non-empty,
   and they are exactly the documented keys (entries, ESC-prefixed variants,
   control bytes, space, ESC ESC) *)
Theorem C08_table_facts :
  nodup_keys ext_sequences = true /\
  forallb (fun e => negb (Nat.eqb (length (fst e)) 0)) ext_sequences = true /\
  forallb (fun k => existsb (fun e => bytes_eqb k (fst e)) ext_sequences) ref_ext_keys = true /\
  forallb (fun e => existsb (fun k => bytes_eqb k (fst e)) ref_ext_keys) ext_sequences = true.
Proof. exact (conj ext_keys_distinct (conj ext_keys_nonempty ext_keys_are_ref)). Qed.
Print Assumptions C08_table_facts.
