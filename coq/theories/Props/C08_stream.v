(* C08 — a well-formed stream of input events, read together in one short
   read, decodes to exactly the specified messages.  Property theorems only;
   proofs in Proof/C08a_Common.v .. C08e_CSI.v and Proof/C08Proofs.v. *)
From Coq Require Import NArith ZArith List Bool.
Import ListNotations.
From BT Require Import Base.Bytes Model.Utf8 Model.Keys Model.Decoder Model.Reader RefTable Spec.Events
  Proof.C08b_Keys Proof.C08Proofs.
Open Scope N_scope.

(* bounded_event: SGR mouse numbers below 2^63 (strconv.Atoi saturates above);
   length <> 256: the read is a short read (decode_all would otherwise set `more`) *)
Theorem C08_stream_thm : forall evs,
  wf_stream evs = true -> forallb bounded_event evs = true -> length (encode_all evs) <> 256%nat ->
  map (fun mc => msg_proj (fst mc)) (rd_out (decode_all (encode_all evs))) = map (fun e => msg_proj (expect e)) evs
  /\ rd_why (decode_all (encode_all evs)) = StopScriptEnd
  /\ rd_left (decode_all (encode_all evs)) = [].
Proof. exact C08_stream. Qed.
Print Assumptions C08_stream_thm.

(* the same with the byte runs: every message is built from exactly the bytes of its event *)
Theorem C08_stream_runs_thm : forall evs,
  wf_stream evs = true -> forallb bounded_event evs = true -> length (encode_all evs) <> 256%nat ->
  map (fun mc => msg_proj (fst mc)) (rd_out (decode_all (encode_all evs))) = map (fun e => msg_proj (expect e)) evs
  /\ map snd (rd_out (decode_all (encode_all evs))) = map encode evs
  /\ rd_why (decode_all (encode_all evs)) = StopScriptEnd
  /\ rd_left (decode_all (encode_all evs)) = [].
Proof. exact C08_stream_runs. Qed.
Print Assumptions C08_stream_runs_thm.

(* the inner loop of a short read (more = false), any sufficient fuel, any length *)
Theorem C08_inner_thm : forall evs fuel sent,
  wf_stream evs = true -> forallb bounded_event evs = true ->
  (length (encode_all evs) <= fuel)%nat ->
  exists o, inner fuel (encode_all evs) false sent None = IDone o (sent + length evs)%nat /\
            map (fun mc => msg_proj (fst mc)) o = map (fun e => msg_proj (expect e)) evs /\
            map snd o = map encode evs.
Proof. exact C08_inner. Qed.
Print Assumptions C08_inner_thm.

Theorem C08_scalar_thm : forall r rest, is_scalar r = true ->
  decode_rune (utf8_encode r ++ rest) = (r, length (utf8_encode r)).
Proof. exact C08_scalar. Qed.
Print Assumptions C08_scalar_thm.

(* non-vacuity: a concrete stream with every kind of event satisfies the hypotheses *)
Definition C08_example : list event :=
  [EKey 0 false; EKey 3 true; ECtl 13 false; ECtl 127 true; ESpace true; ENul false; ENul true;
   ERunes [97; 233; 8364; 128512; 65533]; EAltRune 91; ECtl 1 false; EAltRune 79; ESpace false;
   EAltRune 233; EAltEsc; EMouseSGR 35 10 2 false; EMouseX10 64 1 223;
   EPaste [97; 27; 91; 50; 48; 49; 200; 255; 27]; EPaste [];
   EUnknownCSI [60; 49; 59] [32] 77; EUnknownCSI [50; 48; 48] [33] 126; ERunes [98]; EFocus].

Example C08_nonvacuous :
  wf_stream C08_example = true /\ forallb bounded_event C08_example = true /\
  length (encode_all C08_example) <> 256%nat /\ length C08_example = 22%nat.
Proof. vm_compute. repeat split. discriminate. Qed.
