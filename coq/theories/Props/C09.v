(* C09 — the input reader is total: never panics, stalls, loses or repeats bytes.
   Property theorems only; proofs in Proof/ReaderProofs.v. *)
From Coq Require Import NArith ZArith List Bool.
Import ListNotations.
From BT Require Import Base.Bytes Model.Keys Model.Decoder Model.Reader Proof.DecoderTies Proof.ReaderProofs.
From BTGen Require Consts KeyTable.
Open Scope N_scope.

Theorem C09_tie :
  (KeyTable.unsupported = nil /\ Consts.unsupported = nil) /\
  (Consts.read_buf_size = 256 /\ Consts.c_mouseEventX10Len = 6)%Z /\
  (bytes_eqb Consts.re_unknownCSIRe expect_unknownCSIRe = true /\
   bytes_eqb Consts.re_mouseSGRRegex expect_mouseSGRRegex = true /\
   bytes_eqb Consts.re_incompleteCSIRe expect_incompleteCSIRe = true /\
   bytes_eqb Consts.s_bpStart [27;91;50;48;48;126] = true /\
   bytes_eqb Consts.s_bpEnd [27;91;50;48;49;126] = true) /\
  forallb (fun e => negb (Nat.eqb (length (fst e)) 0)) ext_sequences = true.
Proof. exact (conj Tie_KeyTable_supported (conj Tie_ReaderConsts (conj Tie_Regexes ext_keys_nonempty))). Qed.
Print Assumptions C09_tie.

(* one decoding step: for EVERY non-empty buffer, either a message of width
   1..len(b), or "need more" with a stated reason; never a panic *)
Theorem C09_detect_total : forall b more, b <> [] ->
  match detect_one_msg b more with
  | DMsg w _ => (1 <= w <= length b)%nat
  | DMore => more = true \/ paste_open b
  | DPanic => False
  end.
Proof. exact detect_width. Qed.
Print Assumptions C09_detect_total.

(* after a short read nothing but an unterminated paste is held back *)
Theorem C09_short_read_flushes : forall b, b <> [] ->
  detect_one_msg b false = DMore -> paste_open b.
Proof. exact detect_short_read_flushes. Qed.
Print Assumptions C09_short_read_flushes.

(* the reader over EVERY script of reads (any bytes, any chunking, optional
   cancellation point): no panic, the inner loop's fuel always suffices (no
   stall), each emitted message accounts for a non-empty run of the input,
   runs are adjacent and in order, and runs ++ leftover is exactly the input
   read so far (a prefix of it when cancelled). *)
Theorem C09_reader_accounts : forall script cancel,
  reader_ok (script_bytes script) (reader script cancel).
Proof. exact reader_account. Qed.
Print Assumptions C09_reader_accounts.

(* bytes are carried to the next read only for a reason *)
Theorem C09_held_only_if_incomplete : forall fuel b more sent cancel o s r,
  (length b <= fuel)%nat -> inner fuel b more sent cancel = ILeft o s r ->
  r <> [] /\ (more = true \/ paste_open r).
Proof. exact inner_held. Qed.
Print Assumptions C09_held_only_if_incomplete.

(* prompt stop: nothing is delivered after the cancellation point, and a read
   error ends the reader at once *)
Theorem C09_cancel_prompt : forall k script,
  (length (rd_out (reader script (Some k))) <= k)%nat.
Proof. intros k script. exact (reader_cancel_bound k script [] 0%nat (Nat.le_0_l k)). Qed.
Print Assumptions C09_cancel_prompt.

Theorem C09_error_prompt : forall left sent cancel rest,
  reader_from (ReadErr :: rest) left sent cancel = read_end left [] sent cancel.
Proof. exact reader_stops_on_error. Qed.
Print Assumptions C09_error_prompt.

(* non-vacuity: a hostile script (invalid UTF-8, truncated CSI, NUL, huge SGR
   numbers, unterminated paste, split across reads) runs to the error *)
Example C09_nonvacuous :
  let r := reader [Chunk [255; 27; 91; 49]; Chunk [59; 0; 27; 91; 60; 57; 57; 57; 57; 57; 57; 57; 57; 57; 57; 57; 57; 57; 57; 57; 57; 57; 57; 57; 57; 59; 49; 59; 49; 77];
                   Chunk [27; 91; 50; 48; 48; 126; 104]; ReadErr] None in
  rd_why r = StopErr /\ length (rd_out r) = 6%nat /\ rd_left r = [27; 91; 50; 48; 48; 126; 104].
Proof. vm_compute. repeat split. Qed.

(* the end of the input (a read error that is not a cancellation; the bytes a Read returns TOGETHER with its error -
   io.Reader allows n > 0 with err != nil - included): what was held back in case more would follow is decoded as it
   stands, the reader stops with the error, the runs still account for every byte (C09_reader_accounts: script_bytes
   counts the bytes that came with the error), and nothing stays held back unless a paste is still open *)
Theorem C09_data_with_error : forall bs rest left sent cancel,
  reader_from (ChunkErr bs :: rest) left sent cancel = read_end left bs sent cancel.
Proof. exact reader_data_with_error. Qed.
Print Assumptions C09_data_with_error.
Theorem C09_nothing_held_at_end_of_input : forall cancel left bs sent,
  rd_why (read_end left bs sent cancel) = StopErr ->
  rd_left (read_end left bs sent cancel) = [] \/ paste_open (rd_left (read_end left bs sent cancel)).
Proof. exact read_end_nothing_held. Qed.
Print Assumptions C09_nothing_held_at_end_of_input.
Example C09_data_with_error_nonvacuous :
  let r := reader [Chunk [97]; ChunkErr [98; 27; 91; 65]] None in
  rd_why r = StopErr /\ length (rd_out r) = 3%nat /\ rd_left r = [] /\ runs (rd_out r) = [97; 98; 27; 91; 65].
Proof. vm_compute. repeat split. Qed.
(* a full read of 256 x 'a' is held back (a rune run may continue); the end of the input releases it *)
Example C09_full_read_then_eof :
  let r := reader [Chunk (repeat 97 256); ReadErr] None in
  rd_why r = StopErr /\ length (rd_out r) = 1%nat /\ rd_left r = [] /\ runs (rd_out r) = repeat 97 256.
Proof. vm_compute. repeat split. Qed.
