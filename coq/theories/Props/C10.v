(* C10 — property theorems only. *)
From Coq Require Import NArith ZArith List Bool.
Import ListNotations.
From BT Require Import Base.Bytes Model.Keys Model.Decoder Model.Reader RefTable Spec.Events Proof.DecoderTies Proof.ReaderProofs.
From BTGen Require Consts KeyTable.
Open Scope N_scope.

Theorem C10_tie :
  (KeyTable.unsupported = nil /\ Consts.unsupported = nil) /\
  (Consts.read_buf_size = 256 /\ Consts.c_mouseEventX10Len = 6)%Z /\
  (bytes_eqb Consts.re_unknownCSIRe expect_unknownCSIRe = true /\
   bytes_eqb Consts.re_mouseSGRRegex expect_mouseSGRRegex = true /\
   bytes_eqb Consts.re_incompleteCSIRe expect_incompleteCSIRe = true /\
   bytes_eqb Consts.s_bpStart [27;91;50;48;48;126] = true /\
   bytes_eqb Consts.s_bpEnd [27;91;50;48;49;126] = true).
Proof. exact (conj Tie_KeyTable_supported (conj Tie_ReaderConsts Tie_Regexes)). Qed.
Print Assumptions C10_tie.
