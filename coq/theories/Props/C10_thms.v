(* C10 — bracketed paste.  Property theorems only; proofs in Proof/C10Proofs.v. *)
From Coq Require Import NArith ZArith List Bool.
Import ListNotations.
From BT Require Import Base.Bytes Model.Keys Model.Decoder Model.Reader Spec.Events
  Proof.C15Proofs Proof.C10Proofs.
Open Scope N_scope.

(* an open paste (start marker seen, end marker not yet) is held back whatever
   the read size *)
Theorem C10_paste_wait : forall b, is_prefix bp_start b = true ->
  index_of bp_end (skipn (length bp_start) b) = None ->
  forall more, detect_one_msg b more = DMore.
Proof. exact paste_wait. Qed.
Print Assumptions C10_paste_wait.

(* nothing that starts with the start marker ever looks like an incomplete sequence *)
Theorem C10_paste_not_incomplete : forall x, may_be_incomplete (bp_start ++ x) = false.
Proof. exact mbi_paste. Qed.
Print Assumptions C10_paste_not_incomplete.

(* a closed paste is one message of width 12 + |payload|, whatever follows and
   whatever the read size; the payload may contain anything but the end marker *)
Theorem C10_paste_detect : forall p rest more, contains end_marker p = false ->
  detect_one_msg (bp_start ++ p ++ bp_end ++ rest) more =
  DMsg (12 + length p) (MKey KeyRunes (paste_runes (length p) p) false true).
Proof. exact paste_detect. Qed.
Print Assumptions C10_paste_detect.

(* the runes of the message are the valid scalars of the payload, invalid bytes dropped *)
Theorem C10_paste_runes : forall p, paste_runes (length p) p = valid_scalars (length p) p.
Proof. exact paste_runes_spec. Qed.
Print Assumptions C10_paste_runes.

(* a paste cut into reads of ANY sizes: start marker and p1 already read; the
   reads pre do not complete the end marker, read c does, tail_c follows the
   marker inside c.  Nothing is delivered for pre; c delivers exactly one
   paste message for the whole payload, accounting for start marker, payload
   and end marker, and decoding continues with tail_c in the same read. *)
Theorem C10_chunked : forall pre c script p1 payload tail_c sent,
  contains end_marker payload = false ->
  p1 ++ concat pre ++ c = payload ++ bp_end ++ tail_c ->
  (length tail_c < length c)%nat ->
  reader_from (map Chunk pre ++ Chunk c :: script) (bp_start ++ p1) sent None =
  cons_out [(paste_msg payload, bp_start ++ payload ++ bp_end)]
    (after_inner (inner (length tail_c) tail_c (Nat.eqb (length c) buf_size) (S sent) None) script None).
Proof. exact chunked_paste. Qed.
Print Assumptions C10_chunked.

(* ... and every list of reads bringing the rest of the payload, the end marker
   and a tail splits that way *)
Theorem C10_chunked_any : forall reads p1 p2 tail sent,
  contains end_marker (p1 ++ p2) = false ->
  concat reads = p2 ++ bp_end ++ tail ->
  exists pre c post tail_c,
    reads = pre ++ c :: post /\ tail = tail_c ++ concat post /\ (length tail_c < length c)%nat /\
    (length (concat pre) < length p2 + 6 <= length (concat pre) + length c)%nat /\
    reader_from (map Chunk reads) (bp_start ++ p1) sent None =
    cons_out [(paste_msg (p1 ++ p2), bp_start ++ (p1 ++ p2) ++ bp_end)]
      (after_inner (inner (length tail_c) tail_c (Nat.eqb (length c) buf_size) (S sent) None)
                   (map Chunk post) None).
Proof. exact chunked_paste_any. Qed.
Print Assumptions C10_chunked_any.

(* non-vacuity: "h\xff" read with the start marker, then "el", "lo ESC [ 2 0",
   "1 ~ x" (the end marker straddles two reads), then "y": one paste message
   "hello" (the invalid byte dropped), then "x", then "y" *)
Example C10_nonvacuous :
  let p1 := [104; 255] in
  let pre := [[101; 108]; [108; 111; 27; 91; 50; 48]] in
  let c := [49; 126; 120] in
  let payload := [104; 255; 101; 108; 108; 111] in
  contains end_marker payload = false /\
  p1 ++ concat pre ++ c = payload ++ bp_end ++ [120] /\
  msgs (reader_from (map Chunk pre ++ Chunk c :: [Chunk [121]]) (bp_start ++ p1) 0 None) =
    [MKey KeyRunes [104; 101; 108; 108; 111] false true;
     MKey KeyRunes [120] false false; MKey KeyRunes [121] false false] /\
  paste_msg payload = MKey KeyRunes [104; 101; 108; 108; 111] false true /\
  detect_one_msg (bp_start ++ p1 ++ concat pre) true = DMore.
Proof. vm_compute. repeat split. Qed.
