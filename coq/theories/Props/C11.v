(* C11 — mouse reports decode to the right button, action, modifiers and cell.
   Property theorems only; proofs in Proof/MouseProofs.v, ties in Proof/DecoderTies.v. *)
From Coq Require Import NArith ZArith List Bool.
Import ListNotations.
From BT Require Import Base.Bytes Model.Keys Model.Mouse Model.Decoder Spec.MouseSpec Spec.Events
  Proof.DecoderTies Proof.MouseProofs.
From BTGen Require Consts KeyTable.
Open Scope Z_scope.

(* tie: constants, bit masks, enumerations and the SGR expression in the source today *)
Theorem C11_tie :
  (KeyTable.unsupported = nil /\ Consts.unsupported = nil) /\
  (Consts.c_x10MouseByteOffset = 32 /\ Consts.c_bitShift = 4 /\ Consts.c_bitAlt = 8 /\ Consts.c_bitCtrl = 16 /\
   Consts.c_bitMotion = 32 /\ Consts.c_bitWheel = 64 /\ Consts.c_bitAdd = 128 /\ Consts.c_bitsMask = 3 /\
   Consts.c_MouseActionPress = 0 /\ Consts.c_MouseActionRelease = 1 /\ Consts.c_MouseActionMotion = 2 /\
   Consts.c_MouseButtonNone = 0 /\ Consts.c_MouseButtonLeft = 1 /\ Consts.c_MouseButtonMiddle = 2 /\
   Consts.c_MouseButtonRight = 3 /\ Consts.c_MouseButtonWheelUp = 4 /\ Consts.c_MouseButtonWheelDown = 5 /\
   Consts.c_MouseButtonWheelLeft = 6 /\ Consts.c_MouseButtonWheelRight = 7 /\ Consts.c_MouseButtonBackward = 8 /\
   Consts.c_MouseButtonForward = 9 /\ Consts.c_MouseButton10 = 10 /\ Consts.c_MouseButton11 = 11) /\
  bytes_eqb Consts.re_mouseSGRRegex expect_mouseSGRRegex = true.
Proof. exact (conj Tie_KeyTable_supported (conj Tie_MouseConsts (proj1 (proj2 Tie_Regexes)))). Qed.
Print Assumptions C11_tie.

(* SGR: every code, every coordinate, any following bytes: the report decodes
   to the xterm meaning at cell (x-1, y-1) and consumes exactly its own bytes *)
Theorem C11_sgr : forall c x y rel rest,
  0 <= c < 2 ^ 63 -> 1 <= x < 2 ^ 63 -> 1 <= y < 2 ^ 63 ->
  exists m, detect_one_msg (encode (EMouseSGR c x y rel) ++ rest) false
            = DMsg (length (encode (EMouseSGR c x y rel))) m
         /\ msg_proj m = msg_proj (expect (EMouseSGR c x y rel)).
Proof. exact detect_sgr. Qed.
Print Assumptions C11_sgr.

Theorem C11_x10 : forall c x y rest,
  0 <= c <= 223 -> 1 <= x <= 223 -> 1 <= y <= 223 ->
  exists m, detect_one_msg (encode (EMouseX10 c x y) ++ rest) false = DMsg 6 m
         /\ length (encode (EMouseX10 c x y)) = 6%nat
         /\ msg_proj m = msg_proj (expect (EMouseX10 c x y)).
Proof. exact detect_x10. Qed.
Print Assumptions C11_x10.

(* the button/action/modifier decoding is the xterm table for every non-negative code *)
Theorem C11_button_any_code : forall e rel, 0 <= e ->
  agrees (model_sgr e rel) (xterm_mouse e true rel) = true.
Proof. exact model_sgr_spec. Qed.
Print Assumptions C11_button_any_code.

(* X10 and SGR agree on every field wherever both can express the event *)
Theorem C11_encodings_agree : forall e, In e (map Z.of_nat (seq 0 224)) ->
  let a := model_x10 e in let b := model_sgr e false in
  ((mbutton a =? mbutton b) && (maction a =? maction b) && Bool.eqb (mshift a) (mshift b) &&
   Bool.eqb (malt a) (malt b) && Bool.eqb (mctrl a) (mctrl b) && (mtype a =? mtype b)) = true.
Proof. exact (proj1 (forallb_forall _ _) sweep_x10_sgr_agree). Qed.
Print Assumptions C11_encodings_agree.

(* documented edge: coordinates beyond the int range saturate, they do not panic or wrap *)
Theorem C11_saturate : forall x, 2 ^ 63 <= x -> atoi_sat (itoa x) - 1 = 2 ^ 63 - 2.
Proof. exact sgr_saturates. Qed.
Print Assumptions C11_saturate.

(* non-vacuity: concrete reports satisfy the hypotheses and decode as stated *)
Example C11_nonvacuous :
  detect_one_msg (encode (EMouseSGR 35 10 2 false) ++ [97; 98]%N) false
    = DMsg 11 (MMouse 9 1 false false false 2 0 11)
  /\ detect_one_msg (encode (EMouseX10 64 1 223) ++ [27]%N) false
    = DMsg 6 (MMouse 0 222 false false false 0 4 5).
Proof. vm_compute. split; reflexivity. Qed.
