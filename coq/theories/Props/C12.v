(* C12 -- the terminal's modes always equal what the startup options and the
   mode commands asked for, for both cursor-visibility disciplines of the
   terminal (shared = one flag for both buffers / one per buffer); and while the
   alt screen is in use nothing the program writes reaches the main screen.
   Spec: Spec/Modes.v (apply, apply_opts, vt_modes).  Model: the event loop
   (Model/EvLoop.v) over the GENERATED dispatch table and the startup block
   (Model/Lifecycle.v) over the GENERATED call list of Run.
   Property theorems only; proofs in Proof/ModesProofs.v. *)
From Coq Require Import String List Bool NArith.
Import ListNotations.
From BT Require Import Base.Bytes Model.GenTypes Model.VT Model.Renderer Model.EvLoop
  Spec.Modes Model.Lifecycle Proof.ModesProofs.
From BTGen Require Dispatch Lifecycle.
Open Scope list_scope.

(* the shapes the model relies on: nothing the translator could not express, every call of the table known *)
Theorem C12_tie :
  BTGen.Dispatch.unsupported = [] /\ BTGen.Lifecycle.unsupported = [] /\ calls_known BTGen.Dispatch.dispatch = true.
Proof. vm_compute. repeat split. Qed.
Print Assumptions C12_tie.

(* startup with options o, then any history of mode commands, no filter, any
   program (update, view): the modes read off the terminal are the fold of the
   abstract machine over the commands, started from the options *)
Theorem C12_modes_follow_commands :
  forall (M U : Type) (upd : M -> rmsg U -> M * option cmdid) (view : M -> bytes)
         (shared : bool) (o : opts) (cmds : list modecmd) (w h : nat) (m0 : M),
    let '(r0, toks0, ok) := startup BTGen.Lifecycle.run_calls dm o r_init in
    ok = true /\
    vt_modes (vt_run shared (vt_init w h [] 0)
                (toks0 ++ el_out (el_run BTGen.Dispatch.dispatch dm None upd view (el_init m0 r0)
                                         (map (fun c => RB (kind_of_cmd c)) cmds))))
    = fold_left apply cmds (apply_opts o).
Proof. exact (@modes_follow_commands). Qed.
Print Assumptions C12_modes_follow_commands.

(* the same from any earlier terminal contents, with the loop still running and
   the renderer's own copy of the flags in agreement with the terminal *)
Theorem C12_modes_tracked :
  forall (M U : Type) (upd : M -> rmsg U -> M * option cmdid) (view : M -> bytes)
         (shared : bool) (o : opts) (cmds : list modecmd) (w h : nat) (hist : list (list N)) (used : nat) (m0 : M),
    let '(r0, toks0, ok) := startup BTGen.Lifecycle.run_calls dm o r_init in
    let s := el_run BTGen.Dispatch.dispatch dm None upd view (el_init m0 r0) (map (fun c => RB (kind_of_cmd c)) cmds) in
    let t := vt_run shared (vt_init w h hist used) (toks0 ++ el_out s) in
    ok = true /\ el_exit s = None /\ tracker_ok shared (el_r s) t /\
    vt_modes t = fold_left apply cmds (apply_opts o).
Proof. exact (@modes_tracked). Qed.
Print Assumptions C12_modes_tracked.

(* each single command, from any state where renderer and terminal agree *)
Theorem C12_one_command : forall shared c r t, tracker_ok shared r t ->
  tracker_ok shared (fst (cmd_effect c r)) (vt_run shared t (snd (cmd_effect c r))) /\
  vt_modes (vt_run shared t (snd (cmd_effect c r))) = apply (vt_modes t) c.
Proof. exact cmd_effect_ok. Qed.
Print Assumptions C12_one_command.

(* tokens reach the buffer in use only: as long as the alt screen is not left
   the main buffer (tape and cursor) is untouched *)
Theorem C12_main_untouched : forall shared t toks, in_alt t = true ->
  Forall (fun k => k <> TReset 1049%N) toks ->
  vmain (vt_run shared t toks) = vmain t.
Proof. exact main_untouched. Qed.
Print Assumptions C12_main_untouched.

(* WithAltScreen and no ExitAltScreen command: at shutdown (renderer stopped or
   killed), and after restoreTerminalState, the main screen is what it was before Run *)
Theorem C12_alt_run_main_untouched :
  forall (M U : Type) (upd : M -> rmsg U -> M * option cmdid) (view : M -> bytes)
         (shared kill : bool) (o : opts) (cmds : list modecmd) (w h : nat) (hist : list (list N)) (used : nat) (m0 : M),
    o_alt o = true -> ~ In MExitAlt cmds ->
    let '(r0, toks0, ok0) := startup BTGen.Lifecycle.run_calls dm o r_init in
    let s := el_run BTGen.Dispatch.dispatch dm None upd view (el_init m0 r0) (map (fun c => RB (kind_of_cmd c)) cmds) in
    let '(r1, toks1) := if kill then r_kill (el_r s) else r_stop (el_r s) in
    let '(r2, toks2, ok2) := restore_state BTGen.Lifecycle.restore_terminal_state_calls dm r1 in
    vmain (vt_run shared (vt_init w h hist used) ((toks0 ++ el_out s) ++ toks1)) = vmain (vt_init w h hist used) /\
    vmain (vt_run shared (vt_init w h hist used) ((toks0 ++ el_out s) ++ toks1 ++ toks2)) = vmain (vt_init w h hist used).
Proof. exact (@alt_run_main_untouched). Qed.
Print Assumptions C12_alt_run_main_untouched.

(* non-vacuity: alt screen + all-motion mouse at startup, six commands; both
   sides are the same, non-default modes; per-buffer cursor visibility *)
Example C12_example :
  let o := {| o_alt := true; o_cell := false; o_all := true; o_nopaste := false; o_focus := false |} in
  let cmds := [MShowCursor; MMouseCell; MExitAlt; MFocusOn; MPasteOff; MClear] in
  let upd := fun (m : nat) (_ : rmsg unit) => (S m, @None cmdid) in
  let view := fun m : nat => repeat 65%N m in
  let '(r0, toks0, ok) := startup BTGen.Lifecycle.run_calls dm o r_init in
  let out := el_out (el_run BTGen.Dispatch.dispatch dm None upd view (el_init 0 r0)
                            (map (fun c => RB (kind_of_cmd c)) cmds)) in
  ok = true /\
  toks0 = [TReset 25; TSet 1049; TEDall; THome; TReset 25; TSet 2004; TSet 1003; TSet 1006] /\
  out = [TSet 25; TSet 1002; TSet 1006; TReset 1049; TSet 25; TSet 1004; TReset 2004; TEDall; THome] /\
  vt_modes (vt_run false (vt_init 20 5 [] 0) (toks0 ++ out)) = mk_modes false false true true true false true /\
  fold_left apply cmds (apply_opts o) = mk_modes false false true true true false true.
Proof. vm_compute. repeat split. Qed.

(* non-vacuity of the main-screen statement: drawing on the alt screen *)
Example C12_example_main :
  let t := vt_run true (vt_init 4 2 [] 0) [TChar 65; TSet 1049] in
  let toks := [TEDall; THome; TChar 66; TChar 67; TCR; TLF; TChar 68; TReset 25] in
  in_alt t = true /\ vmain (vt_run true t toks) = vmain t /\
  tape (valt (vt_run true t toks)) <> tape (valt t) /\
  tape (vmain t) = [[65; 32; 32; 32]; [32; 32; 32; 32]]%N.
Proof. vm_compute. repeat split. discriminate. Qed.
