(* C13 — Send, Quit, Wait, Println and Printf never hang once the program has ended. *)
From Coq Require Import List Bool NArith Arith String.
Import ListNotations.
From BT Require Import Model.Skel Model.SkelTie Proof.SkelCert Proof.SkelProofs.

(* Send selects on ctx.Done; Quit, Println and Printf go through Send and have no channel
   operation of their own; Wait is one receive from p.finished, which is made once (in
   NewProgram) and only ever closed; p.msgs is a rendezvous channel (Send before the loop blocks) *)
Theorem C13_tie : api_guarded = true /\ rendezvous_channels = true /\ nothing_unsupported = true /\ G = guards_of_gen /\
  bare_ops_ok = true /\ shapes_ok_for ["NewProgram"; "Send"; "Quit"; "Wait"; "Println"; "Printf"; "Kill"; "shutdown"]%string = true.
Proof. vm_compute. repeat split. Qed.
Print Assumptions C13_tie.

(* whenever Run has returned - by any path - the context is cancelled (every call that selects on
   it returns at once, whether it was already blocked or comes later) and finished is closed (a
   receive from a closed channel never blocks: every Wait caller, however many, returns) *)
Theorem C13_released_at_return : forall s, Reach s -> is_returned s = true -> ctx s = true /\ fin s = FinClosed.
Proof. exact returned_releases. Qed.
Print Assumptions C13_released_at_return.

(* and it stays that way *)
Theorem C13_release_is_stable : forall s e, Reach s -> In e (steps G s) ->
  (ctx s = true -> ctx (snd e) = true) /\ (fin s = FinClosed -> fin (snd e) = FinClosed).
Proof.
  intros s e Hr Hin. pose proof (all_R _ release_stable_R s Hr) as H. unfold release_stable in H.
  rewrite forallb_forall in H. specialize (H _ Hin). apply andb_true_iff in H. destruct H as [H1 H2].
  split; intros Hx; rewrite Hx in *; cbn in *; [exact H1|]. destruct (fin (snd e)); try discriminate; reflexivity.
Qed.
Print Assumptions C13_release_is_stable.

Example C13_nonvacuous : exists s, lookup R s = true /\ is_returned s = true /\ dec s = DCtx.
Proof.
  exists (mk_skel (RReturned EKilled) CdDone SgDone IfNone RdNone TkDone true KxDone true false FinClosed true DCtx true false).
  vm_compute. repeat split.
Qed.
