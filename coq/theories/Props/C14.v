(* C14 — property theorems only (see also C14_thms.v when present). *)
From Coq Require Import NArith ZArith List Bool Arith.
Import ListNotations.
From BT Require Import Base.Bytes Model.VT Model.Renderer Spec.Screen Spec.Economy Proof.RendererBasics.
From BTGen Require Consts.

(* tie: the frame-rate constants in standard_renderer.go *)
Theorem C14_tie : Consts.unsupported = nil /\ (Consts.c_defaultFPS = 60 /\ Consts.c_maxFPS = 120)%Z.
Proof. vm_compute. repeat split. Qed.
Print Assumptions C14_tie.

(* write replaces the pending frame and emits nothing: a later view is never replaced by an earlier one *)
Theorem C14_write_replaces : forall r v1 v2,
  snd (r_step r (OWrite v1)) = [] /\ r_buf (r_write (r_write r v1) v2) = norm v2.
Proof. exact write_silent_and_replaces. Qed.
Print Assumptions C14_write_replaces.

(* the delivery half of the property ("every line printed while the alt screen is not active appears") is FALSE of the
   faithful model, and of the code (finding F20, open): a line printed on the main screen, the alt screen entered before
   the next flush, then Stop - the line is still in the queue afterwards and none of its characters was ever written *)
Definition c14_lost_line_history : list rop :=
  [OResize 10 4; OWrite [118%N]; OFlush; OPrint [76%N; 79%N; 71%N]; OEnterAlt; OWrite [118%N]; OStop].
Theorem C14_delivery_refuted :
  let '(r, outs) := r_run r_init c14_lost_line_history in
  r_queued r = [[76%N; 79%N; 71%N]] /\
  forallb (fun k => match k with TChar 76%N => false | _ => true end) (concat outs) = true.
Proof. vm_compute. split; reflexivity. Qed.
Print Assumptions C14_delivery_refuted.
