(* C14 — property theorems only (see also C14_thms.v when present). *)
From Coq Require Import NArith ZArith List Bool Arith.
Import ListNotations.
From BT Require Import Base.Bytes Model.VT Model.Renderer Spec.Screen Spec.Economy Proof.RendererBasics.
From BTGen Require Consts.

(* tie: the frame-rate constants in standard_renderer.go *)
Theorem C14_tie : Consts.unsupported = nil /\ (Consts.c_defaultFPS = 60 /\ Consts.c_maxFPS = 120)%Z.
Proof. vm_compute. repeat split. Qed.
Print Assumptions C14_tie.

(* write replaces the pending frame and emits nothing: a later view is never replaced by an earlier one *)
Theorem C14_write_replaces : forall r v1 v2,
  snd (r_step r (OWrite v1)) = [] /\ r_buf (r_write (r_write r v1) v2) = norm v2.
Proof. exact write_silent_and_replaces. Qed.
Print Assumptions C14_write_replaces.

(* delivery across EnterAltScreen (finding F20, repaired): a line printed on the main screen is written out before the
   switch to the alt screen - enterAltScreen flushes when lines are queued - so it is not lost when the program ends
   while still in the alt screen.  The model's enterAltScreen = (flush when lines are queued and the main screen is
   active) then the switch; whenever a frame is pending (the event loop writes the view after every message, so one is)
   the queue is empty afterwards. *)
Theorem C14_enter_alt_writes_queued_lines : forall r,
  r_alt r = false -> r_buf r <> [] -> r_lastRender r = [] ->
  r_queued (fst (r_enter_alt r)) = [].
Proof. exact enter_alt_writes_queued_lines. Qed.
Print Assumptions C14_enter_alt_writes_queued_lines.

Definition c14_line_before_alt_history : list rop :=
  [OResize 10 4; OWrite [118%N]; OFlush; OPrint [76%N; 79%N; 71%N]; OWrite [118%N]; OEnterAlt; OWrite [118%N]; OStop].
Example C14_line_before_alt_is_written :
  let '(r, outs) := r_run r_init c14_line_before_alt_history in
  r_queued r = [] /\
  existsb (fun k => match k with TChar 76%N => true | _ => false end) (concat outs) = true /\
  (* ... and it was written before the switch *)
  existsb (fun k => match k with TChar 76%N => true | _ => false end) (nth 5 outs []) = true.
Proof. vm_compute. repeat split. Qed.
