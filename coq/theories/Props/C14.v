(* C14 — property theorems only (see also C14_thms.v when present). *)
From Coq Require Import NArith ZArith List Bool Arith.
Import ListNotations.
From BT Require Import Base.Bytes Model.VT Model.Renderer Spec.Screen Spec.Economy Proof.RendererBasics.
From BTGen Require Consts.

(* tie: the frame-rate constants in standard_renderer.go *)
Theorem C14_tie : Consts.unsupported = nil /\ (Consts.c_defaultFPS = 60 /\ Consts.c_maxFPS = 120)%Z.
Proof. vm_compute. repeat split. Qed.
Print Assumptions C14_tie.

(* write replaces the pending frame and emits nothing: a later view is never replaced by an earlier one *)
Theorem C14_write_replaces : forall r v1 v2,
  snd (r_step r (OWrite v1)) = [] /\ r_buf (r_write (r_write r v1) v2) = norm v2.
Proof. exact write_silent_and_replaces. Qed.
Print Assumptions C14_write_replaces.
