(* C14 — lines printed with Println appear exactly once, in order, directly
   above the view, are never overwritten and scroll into history like
   ordinary output.  Property theorems only; proofs in Proof/RenderPrint.v.

   The invariant sync_weak is FlushSync.sync_inline with si_minh
   (h <= |region| + |below|) replaced by "the tape has a whole window"
   (h <= |above| + |region| + |below|): si_minh is not preserved by a flush
   with queued lines (C14_minh_not_preserved). *)
From Coq Require Import NArith List Bool Arith.
Import ListNotations.
From BT Require Import Base.Bytes Model.VT Model.Renderer Spec.Screen
  Proof.VTLemmas Proof.FlushProofs Proof.FlushSync Proof.RenderPrint.
Open Scope nat_scope.

(* the printed rows of a body: its lines, each wrapped at the margin *)
Theorem C14_print_rows : forall w body, print_rows w body = flat_map (wrap w) (split_lines body).
Proof. exact print_rows_split. Qed.
Print Assumptions C14_print_rows.

(* a line occupies ceil(|l| / w) rows of width w, at least one *)
Theorem C14_wrap_rows : forall w l, 0 < w ->
  rows_w w (wrap w l) /\
  length (wrap w l) = if Nat.eqb (length l) 0 then 1 else (length l + w - 1) / w.
Proof. exact wrap_rows_facts. Qed.
Print Assumptions C14_wrap_rows.

(* a character written while a wrap is pending goes to column 0 of the next
   row, the window scrolling when the cursor is on the last row of the tape *)
Theorem C14_char_on_pending_wrap : forall w h pre r post c g,
  exists r' post', next_rows w post = r' :: post' /\
    buf_apply w h (bz pre r post c true) (TChar g) =
    buf_apply w h (bz (pre ++ [r]) r' post' 0 false) (TChar g).
Proof. exact bz_char_pend. Qed.
Print Assumptions C14_char_on_pending_wrap.

(* one queued line on the terminal, of any length: its wrapped rows replace the
   rows from the cursor row on; the cursor ends at column 0 of the row after
   them, a fresh blank row when the tape is exhausted (the final LF scrolls) *)
Theorem C14_line_on_terminal : forall w h l pre r0 post, 0 < w -> length r0 = w -> rows_w w post ->
  exists r1 post1, next_rows w (skipn (length (wrap w l)) (r0 :: post)) = r1 :: post1 /\
    buf_run w h (bz pre r0 post 0 false) (msg_line w l) = bz (pre ++ wrap w l) r1 post1 0 false.
Proof. exact msg_line_on_terminal. Qed.
Print Assumptions C14_line_on_terminal.

Theorem C14_lines_on_terminal : forall w h, 0 < w -> forall q pre r0 post, length r0 = w -> rows_w w post ->
  exists r1 post1,
    next_rows w (skipn (length (flat_map (wrap w) q)) (r0 :: post)) = r1 :: post1 /\
    buf_run w h (bz pre r0 post 0 false) (flat_map (msg_line w) q) =
    bz (pre ++ flat_map (wrap w) q) r1 post1 0 false.
Proof. exact msg_lines_run. Qed.
Print Assumptions C14_lines_on_terminal.

(* the strong invariant implies the weak one, and back when a whole window is at and below the view *)
Theorem C14_sync_inline_weak : forall w h r b above region below,
  sync_inline w h r b above region below -> sync_weak w h r b above region below.
Proof. exact sync_inline_weak. Qed.
Print Assumptions C14_sync_inline_weak.

Theorem C14_sync_weak_inline : forall w h r b above region below,
  sync_weak w h r b above region below -> h <= length region + length below ->
  sync_inline w h r b above region below.
Proof. exact sync_weak_inline. Qed.
Print Assumptions C14_sync_weak_inline.

(* the invariant, read on the tape *)
Theorem C14_sync_tape : forall w h r b above region below,
  sync_weak w h r b above region below ->
  tape b = above ++ region ++ below /\
  crow (cur b) = length above + (length region - 1) /\ ccol (cur b) = 0 /\ cpend (cur b) = false.
Proof. exact sync_weak_tape. Qed.
Print Assumptions C14_sync_tape.

(* a render, with or without queued lines, whatever the cache: the queued
   lines' rows are appended to the rows above the view, the new view is painted
   directly below them, nothing stale is left, the queue is empty *)
Theorem C14_flush : forall w h r b above region below v,
  sync_weak w h r b above region below ->
  r_buf r = v -> v <> [] -> bytes_eqb v (r_lastRender r) = false ->
  exists below',
    let r' := fst (r_flush r) in
    let b' := buf_run w h b (snd (r_flush r)) in
    sync_weak w h r' b' (above ++ flat_map (wrap w) (r_queued r)) (map (paint_row w) (frame_lines h v)) below' /\
    r_lastRender r' = v /\ r_lastLines r' = frame_lines h v /\ r_buf r' = [] /\ r_queued r' = [].
Proof. exact flush_weak. Qed.
Print Assumptions C14_flush.

Theorem C14_flush_inline_queued : forall w h r b above region below q v,
  sync_inline w h r b above region below ->
  r_queued r = q -> q <> [] -> r_buf r = v -> v <> [] -> r_lastRender r = [] ->
  exists below',
    let r' := fst (r_flush r) in
    let b' := buf_run w h b (snd (r_flush r)) in
    sync_weak w h r' b' (above ++ flat_map (wrap w) q) (map (paint_row w) (frame_lines h v)) below' /\
    r_lastRender r' = v /\ r_lastLines r' = frame_lines h v /\ r_buf r' = [] /\ r_queued r' = [].
Proof. exact flush_inline_queued. Qed.
Print Assumptions C14_flush_inline_queued.

(* when the frame fills the window the strong invariant is re-established *)
Theorem C14_flush_full_window : forall w h r b above region below v,
  sync_weak w h r b above region below ->
  r_buf r = v -> v <> [] -> bytes_eqb v (r_lastRender r) = false ->
  length (frame_lines h v) = h ->
  exists below',
    let r' := fst (r_flush r) in
    let b' := buf_run w h b (snd (r_flush r)) in
    sync_inline w h r' b' (above ++ flat_map (wrap w) (r_queued r)) (map (paint_row w) (frame_lines h v)) below'.
Proof. exact flush_weak_full. Qed.
Print Assumptions C14_flush_full_window.

(* si_minh cannot be kept: 2x3 window, Println "x", view "a" *)
Theorem C14_minh_not_preserved :
  let w := 2 in let h := 3 in
  let r0 := r_window_size r_init w h in
  let b0 := mk (repeat (blank_row w) h) 0 0 false in
  let r1 := r_write (r_print_line r0 [120%N]) [97%N] in
  sync_inline w h r1 b0 [] [] (repeat (blank_row w) h) /\
  forall region' below',
    ~ sync_inline w h (fst (r_flush r1)) (buf_run w h b0 (snd (r_flush r1)))
                  ([] ++ flat_map (wrap w) (r_queued r1)) region' below'.
Proof. exact flush_queued_breaks_minh. Qed.
Print Assumptions C14_minh_not_preserved.

(* Println writes nothing: it queues the body's lines and invalidates the cache *)
Theorem C14_print_only_queues : forall w h r b above region below body,
  sync_inline w h r b above region below ->
  sync_inline w h (r_print_line r body) b above region below /\
  r_queued (r_print_line r body) = r_queued r ++ split_lines body /\
  r_lastRender (r_print_line r body) = [] /\ r_buf (r_print_line r body) = r_buf r.
Proof. exact print_line_sync. Qed.
Print Assumptions C14_print_only_queues.

Theorem C14_print_only_queues_weak : forall w h r b above region below body,
  sync_weak w h r b above region below ->
  sync_weak w h (r_print_line r body) b above region below /\
  r_queued (r_print_line r body) = r_queued r ++ split_lines body /\
  r_lastRender (r_print_line r body) = [] /\ r_buf (r_print_line r body) = r_buf r.
Proof. exact print_line_weak. Qed.
Print Assumptions C14_print_only_queues_weak.

(* ... and is ignored on the alternate screen *)
Theorem C14_print_alt_ignored : forall r body, r_alt r = true -> r_print_line r body = r.
Proof. exact print_line_alt. Qed.
Print Assumptions C14_print_alt_ignored.

(* the bookkeeping loses and duplicates nothing and keeps the order *)
Theorem C14_conserve : forall ops s,
  pt_flushed (pt_run s ops) ++ pt_queued (pt_run s ops) = pt_flushed s ++ pt_queued s ++ prints_of ops.
Proof. exact pt_conserve. Qed.
Print Assumptions C14_conserve.

(* C14: any interleaving of Write / Flush / Print from a synchronised state
   with nothing queued.  The tape is: the initial rows above the view, then
   the rows of the prints that reached the terminal — each exactly once, in
   print order —, then the view, then blank rows; the prints that have not
   reached the terminal are exactly the renderer's queue. *)
Theorem C14_append_only : forall w h r b above0 region below ops,
  sync_inline w h r b above0 region below -> r_queued r = [] ->
  forallb c14_op ops = true ->
  let s := pt_run (pt_init r) ops in
  let r' := fst (run_ops w h r b ops) in
  let b' := snd (run_ops w h r b ops) in
  exists region' below',
    sync_weak w h r' b' (above0 ++ flat_map (print_rows w) (pt_flushed s)) region' below' /\
    tape b' = (above0 ++ flat_map (print_rows w) (pt_flushed s)) ++ region' ++ below' /\
    r_queued r' = flat_map split_lines (pt_queued s) /\
    pt_flushed s ++ pt_queued s = prints_of ops.
Proof. exact C14_append_only_proof. Qed.
Print Assumptions C14_append_only.

(* the same from any weakly synchronised state, with the bookkeeping in step *)
Theorem C14_append_only_gen : forall w h A0 ops s r b region below, forallb c14_op ops = true ->
  sync_weak w h r b (A0 ++ flat_map (print_rows w) (pt_flushed s)) region below -> track_ok s r ->
  exists region' below',
    sync_weak w h (fst (run_ops w h r b ops)) (snd (run_ops w h r b ops))
              (A0 ++ flat_map (print_rows w) (pt_flushed (pt_run s ops))) region' below' /\
    track_ok (pt_run s ops) (fst (run_ops w h r b ops)).
Proof. exact c14_run. Qed.
Print Assumptions C14_append_only_gen.

(* never overwritten: what is above the view after a prefix of the history is
   a prefix of what is above the view later *)
Theorem C14_prefix_stable : forall w above0 r ops1 ops2,
  exists more,
    above0 ++ flat_map (print_rows w) (pt_flushed (pt_run (pt_init r) (ops1 ++ ops2))) =
    (above0 ++ flat_map (print_rows w) (pt_flushed (pt_run (pt_init r) ops1))) ++ more.
Proof. exact C14_prefix_stable_proof. Qed.
Print Assumptions C14_prefix_stable.

(* the initial state satisfies the hypothesis *)
Theorem C14_init : forall w h hist, 0 < w -> 0 < h -> rows_w w hist ->
  sync_inline w h (r_window_size r_init w h)
              (mk (hist ++ repeat (blank_row w) h) (length hist) 0 false) hist [] (repeat (blank_row w) h).
Proof. exact sync_inline_init. Qed.
Print Assumptions C14_init.

(* non-vacuity: 4x3 window.  "ab" rendered; Println "hello" (wraps) and
   "x\ny"; view "cd\nef" rendered; Println "z"; a Flush without a new frame
   (nothing happens); the same view written again and rendered (the cache is
   invalid: "z" goes out, the tape scrolls); Println "q" stays queued. *)
Example C14_nonvacuous :
  let ops := [OWrite [97;98]%N; OFlush; OPrint [104;101;108;108;111]%N; OPrint [120;10;121]%N;
              OWrite [99;100;10;101;102]%N; OFlush; OPrint [122]%N; OFlush;
              OWrite [99;100;10;101;102]%N; OFlush; OPrint [113]%N] in
  let r0 := r_window_size r_init 4 3 in
  let b0 := mk (repeat (blank_row 4) 3) 0 0 false in
  forallb c14_op ops = true /\ r_queued r0 = [] /\
  snd (run_ops 4 3 r0 b0 ops) =
    mk [[104;101;108;108]; [111;32;32;32]; [120;32;32;32]; [121;32;32;32]; [122;32;32;32];
        [99;100;32;32]; [101;102;32;32]]%N 6 0 false /\
  flat_map (print_rows 4) (pt_flushed (pt_run (pt_init r0) ops)) =
    [[104;101;108;108]; [111;32;32;32]; [120;32;32;32]; [121;32;32;32]; [122;32;32;32]]%N /\
  pt_queued (pt_run (pt_init r0) ops) = [[113]]%N /\
  r_queued (fst (run_ops 4 3 r0 b0 ops)) = [[113]]%N /\
  wrap 4 [104;101;108;108;111;119;111;114]%N = [[104;101;108;108]; [111;119;111;114]]%N /\
  wrap 4 [] = [[32;32;32;32]]%N.
Proof. vm_compute. repeat split. Qed.
