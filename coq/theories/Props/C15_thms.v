(* C15 — input longer than the read buffer decodes as if it had arrived in one
   piece.  Property theorems only; proofs in Proof/C15Proofs.v. *)
From Coq Require Import NArith ZArith List Bool.
Import ListNotations.
From BT Require Import Base.Bytes Model.Keys Model.Decoder Model.Reader Spec.Events Proof.C15Proofs.
Open Scope N_scope.

(* canHaveMoreData only ever adds waiting: a message emitted with it set is the
   message emitted without it *)
Theorem C15_more_refines : forall b w m,
  detect_one_msg b true = DMsg w m -> detect_one_msg b false = DMsg w m.
Proof. exact more_refines. Qed.
Print Assumptions C15_more_refines.

(* stability, for EVERY byte string: a message emitted from a full buffer is
   the message the same bytes give whatever follows them.  Focus reports are
   the exception (recognised by whole-buffer equality). *)
Theorem C15_stable : forall p w m,
  detect_one_msg p true = DMsg w m -> m <> MFocus -> m <> MBlur ->
  forall ext, detect_one_msg (p ++ ext) false = DMsg w m.
Proof. exact stable. Qed.
Print Assumptions C15_stable.

Theorem C15_stable_true : forall p w m,
  detect_one_msg p true = DMsg w m -> m <> MFocus -> m <> MBlur ->
  forall ext, detect_one_msg (p ++ ext) true = DMsg w m \/ detect_one_msg (p ++ ext) true = DMore.
Proof. exact stable_true. Qed.
Print Assumptions C15_stable_true.

(* one pass with canHaveMoreData set, then a flushing pass over what it left
   plus the following bytes, is a single flushing pass over everything *)
Theorem C15_inner_stable : forall ext fuel p sent o s r,
  (length p <= fuel)%nat ->
  hands_on (inner fuel p true sent None) o s r -> no_focusb o = true ->
  inner (length (p ++ ext)) (p ++ ext) false sent None =
  prepend o (inner (length (r ++ ext)) (r ++ ext) false s None).
Proof. exact inner_stable. Qed.
Print Assumptions C15_inner_stable.

(* chunk invariance, for EVERY byte string: n full reads of 256 bytes and a
   last read of any other length give the messages, leftover and stop reason
   of the single read of the concatenation — provided no focus report was
   emitted while processing the full reads *)
Theorem C15_chunk_invariance : forall fulls last,
  Forall (fun f => length f = 256%nat) fulls -> length last <> 256%nat ->
  length (concat fulls ++ last) <> 256%nat ->
  no_focusb (rd_out (reader (map Chunk fulls) None)) = true ->
  let r := reader (map Chunk (fulls ++ [last])) None in
  let r1 := reader [Chunk (concat fulls ++ last)] None in
  msgs r = msgs r1 /\ rd_out r = rd_out r1 /\ rd_left r = rd_left r1 /\ rd_why r = rd_why r1.
Proof. exact chunk_invariance_fields. Qed.
Print Assumptions C15_chunk_invariance.

(* the same without the restriction on the total length: the one-shot side is
   the inner loop with canHaveMoreData off (flush) *)
Theorem C15_chunk_invariance_flush : forall fulls last,
  Forall (fun f => length f = 256%nat) fulls -> length last <> 256%nat ->
  no_focusb (rd_out (reader (map Chunk fulls) None)) = true ->
  reader (map Chunk (fulls ++ [last])) None = flush (concat fulls ++ last) 0.
Proof. exact chunk_invariance_flush. Qed.
Print Assumptions C15_chunk_invariance_flush.

(* event streams (indeed any bytes) cut into 256-byte reads plus the short remainder *)
Theorem C15_chunked_stream : forall evs fulls last,
  chunks_of 256 (encode_all evs) = (fulls, last) ->
  no_focusb (rd_out (reader (map Chunk fulls) None)) = true ->
  reader (map Chunk (fulls ++ [last])) None = flush (encode_all evs) 0 /\
  (length (encode_all evs) <> 256%nat ->
   reader (map Chunk (fulls ++ [last])) None = reader [Chunk (encode_all evs)] None).
Proof. exact (fun evs => chunked_input (encode_all evs)). Qed.
Print Assumptions C15_chunked_stream.

(* non-vacuity: 300 bytes where the read boundary falls inside an SGR mouse
   report that follows a rune run, then a two-byte rune and a key *)
Example C15_nonvacuous :
  let full := repeat 97 246 ++ [27; 91; 60; 49; 50; 59; 51; 52; 59; 53] in
  let last := [54; 77; 195; 169; 27; 91; 65] in
  Forall (fun f => length f = 256%nat) [full] /\ length last <> 256%nat /\
  length (concat [full] ++ last) <> 256%nat /\
  no_focusb (rd_out (reader (map Chunk [full]) None)) = true /\
  length (rd_out (reader (map Chunk [full]) None)) = 1%nat /\
  rd_left (reader (map Chunk [full]) None) = [27; 91; 60; 49; 50; 59; 51; 52; 59; 53] /\
  length (msgs (reader (map Chunk ([full] ++ [last])) None)) = 4%nat /\
  chunks_of 256 (concat [full] ++ last) = ([full], last).
Proof. vm_compute. repeat split; try (constructor; [reflexivity|constructor]); discriminate. Qed.
