(* C16 — the message filter sees every message once and its verdict is obeyed.
   Property theorems only (proofs: Proof/EvLoopProofs.v), over the L0 event-loop
   model interpreted from the GENERATED dispatch table, for ANY user program
   (model type, update, view), ANY filter and ANY message history. *)
From Coq Require Import String List Bool NArith Arith.
Import ListNotations.
From BT Require Import Base.Bytes Model.GenTypes Model.VT Model.Renderer Model.EvLoop Proof.EvLoopProofs.
From BT Require Model.Skel Model.SkelTie.
From BTGen Require Dispatch.
Open Scope string_scope.
Open Scope list_scope.

(* tie: the statement order el_step hard-codes is the one eventLoop has today: filter, nil check, type switch,
   renderer's handleMessages, Update, command hand-off, write(View); every call in the switch is known to the model *)
Theorem C16_tie :
  Dispatch.pre_switch = ["filter"; "nilcheck"] /\
  Dispatch.post_switch = ["handleMessages"; "Update"; "cmds<-:ctx"; "write(View)"] /\
  calls_known Dispatch.dispatch = true /\ Dispatch.unsupported = [] /\
  (* the cases of the type switch are the known ones; the two sources of messages that are not Send callers - the Exec
     callback and the signal handler - deliver through Send (their bodies are the reviewed ones) *)
  SkelTie.dispatch_kinds_ok = true /\ SkelTie.shapes_ok_for ["exec"; "handleSignals"; "Send"; "handleCommands"; "eventLoop:sequenceMsg"] = true.
Proof. vm_compute. repeat split. Qed.
Print Assumptions C16_tie.

Section C16.
  Context {M U : Type}.
  Variable dm : list string.
  Variable f : M -> rmsg U -> option (rmsg U).
  Variable upd : M -> rmsg U -> M * option cmdid.
  Variable view : M -> bytes.
  Notation table := Dispatch.dispatch.

  (* consulted exactly once per message processed, with the model current at that time, before anything else *)
  Theorem C16_consulted_once : forall s m, el_exit s = None ->
    el_filter_log (el_step table dm (Some f) upd view s m) = el_filter_log s ++ [(el_model s, m)].
  Proof. exact (filter_consulted_once table dm f upd view). Qed.

  (* the verdict is obeyed: on every observable (model, renderer state, mode output, Update log, spawned commands,
     side effects, exit decision) the run with the filter IS the run without filter over the messages the filter
     returned - nil verdicts leave no trace at all, a replacement behaves exactly as if it had been sent *)
  Theorem C16_simulation : forall ms s s0, same_obs s s0 ->
    same_obs (el_run table dm (Some f) upd view s ms) (el_run table dm None upd view s0 (passed table dm f upd view s0 ms)).
  Proof. exact (filter_simulation table dm f upd view). Qed.

  Theorem C16_at_most_once : forall ms s,
    List.length (el_filter_log (el_run table dm (Some f) upd view s ms)) <= List.length (el_filter_log s) + List.length ms.
  Proof. exact (filter_log_length table dm f upd view). Qed.
End C16.
Print Assumptions C16_consulted_once.
Print Assumptions C16_simulation.
Print Assumptions C16_at_most_once.

(* ---- the statement evaluated on REAL callback logs (Spec/FilterSpec.filter_log_ok) follows from the model: for every
   filter and message history, the interleaved filter/Update trace of the L0 run (counting model of the harness, the
   generated dispatch table) satisfies it, and that trace is nothing but the model's two logs *)
From BT Require Import Model.FilterPolicy Spec.FilterSpec Proof.FilterSpecSound.
Theorem C16_spec_sound : forall dm f view ms s, el_exit s = None ->
  filter_log_ok (map msg_code ms) (el_model s) (trace dm f view s ms) = true.
Proof. exact filter_spec_sound. Qed.
Print Assumptions C16_spec_sound.
Theorem C16_trace_is_the_logs : forall dm f view ms s,
  map pf (el_filter_log (el_run Dispatch.dispatch dm (Some f) count_upd view s ms)) = map pf (el_filter_log s) ++ tr_filters (trace dm f view s ms) /\
  map pf (el_update_log (el_run Dispatch.dispatch dm (Some f) count_upd view s ms)) = map pf (el_update_log s) ++ tr_updates (trace dm f view s ms).
Proof. exact trace_projects. Qed.
Print Assumptions C16_trace_is_the_logs.
Example C16_spec_nonvacuous :
  let f := policy_filter [(1000%N, None); (1001%N, Some (RB KQuit))] in
  trace [] f (fun _ => []) (el_init 0 r_init) [RUser 0; RUser 2; RB KBatch; RUser 1; RUser 5] =
  [FFilter 0 1000 None; FFilter 0 1002 (Some 1002%N); FUpdate 0 1002; FFilter 1 16 (Some 16%N); FFilter 1 1001 (Some 0%N)].
Proof. vm_compute. reflexivity. Qed.
