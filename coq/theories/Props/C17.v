(* NOTE on the read loop: the skeleton's `rd` thread is a CANCELLABLE reader (a file descriptor: terminal or pipe, as in
   the property's statement): ReleaseTerminal's Cancel() makes a blocked Read return.  For a plain io.Reader the
   cancelreader library cannot interrupt a Read in progress; that case is outside this theorem (and outside the
   property's "file-descriptor input" clause).  The failure paths of ReleaseTerminal / RestoreTerminal (term.Restore or
   MakeRaw returning an error) are not modelled either. *)
(* C17 — Exec hands the terminal over cleanly (control half): while the external command runs the
   renderer's ticker has been stopped (handshake) and the read loop is not reading, signals are
   ignored and the terminal is in its restored state; afterwards ticker and reader run again. *)
From Coq Require Import List Bool NArith Arith String.
Import ListNotations.
From BT Require Import Model.Skel Model.SkelTie Proof.SkelCert Proof.SkelProofs.

Theorem C17_tie : G = guards_of_gen /\ g_release_stops_reader G = true /\ g_release_stops_renderer G = true /\ g_release_ignores G = true /\ g_ticker_stopped_by_stopper G = true /\
  shapes_ok_for ["exec"; "ReleaseTerminal"; "RestoreTerminal"; "restoreTerminalState"; "waitForReadLoop"; "initCancelReader"; "standardRenderer.start"; "standardRenderer.stop"; "standardRenderer.kill"; "standardRenderer.stopTicker"; "standardRenderer.listen"]%string = true.
Proof. vm_compute. repeat split. Qed.
Print Assumptions C17_tie.

Theorem C17_quiet_during_exec : forall s, Reach s -> run s = RExecRun ->
  tk s <> TkListen /\ rd s <> RdReading /\ ign s = true /\ restored_last s = true.
Proof. exact exec_is_quiet. Qed.
Print Assumptions C17_quiet_during_exec.

Theorem C17_resumes_after_exec : forall s, Reach s -> exec_resumes s = true.
Proof. exact (all_R _ exec_resumes_R). Qed.
Print Assumptions C17_resumes_after_exec.

Example C17_nonvacuous : exists s, lookup R s = true /\ run s = RExecRun.
Proof.
  exists (mk_skel RExecRun CdSelect SgWait IfNone RdDone TkDone true KxNone false true Fin0 true DNone false false).
  vm_compute. repeat split.
Qed.
