(* C17 (mode half) -- ReleaseTerminal hands over a terminal in its default
   modes and remembers alt screen / bracketed paste / focus reporting;
   RestoreTerminal brings back exactly these three and hides the cursor
   (w0 = whatever an earlier ReleaseTerminal remembered: it is overwritten).  The
   mouse modes are NOT re-enabled by RestoreTerminal (as the code stands), and a
   cursor the program had shown is hidden again.
   Model: Model/Lifecycle.v over the GENERATED call lists of ReleaseTerminal,
   restoreTerminalState, RestoreTerminal and initTerminal.
   Property theorems only; proofs in Proof/ModesProofs.v. *)
From Coq Require Import String List Bool NArith.
Import ListNotations.
From BT Require Import Base.Bytes Model.GenTypes Model.VT Model.Renderer Model.EvLoop
  Spec.Modes Model.Lifecycle Proof.ModesProofs.
From BTGen Require Dispatch Lifecycle.
Open Scope list_scope.

Theorem C17_release_then_restore : forall shared w0 r t, tracker_ok shared r t ->
  let '(r1, toks1, w, ok1) := release BTGen.Lifecycle.release_terminal_calls dm w0 r in
  let t1 := vt_run shared t toks1 in
  ok1 = true /\
  w = (a_alt (vt_modes t), a_paste (vt_modes t), a_focus (vt_modes t)) /\
  vt_modes t1 = defaults /\ tracker_ok shared r1 t1 /\
  let '(r2, toks2, ok2) := restore_term BTGen.Lifecycle.restore_terminal_calls dm w r1 in
  let t2 := vt_run shared t1 toks2 in
  ok2 = true /\ tracker_ok shared r2 t2 /\
  vt_modes t2 = mk_modes (a_alt (vt_modes t)) true false false false (a_paste (vt_modes t)) (a_focus (vt_modes t)).
Proof. exact release_then_restore. Qed.
Print Assumptions C17_release_then_restore.

(* the same, in the vocabulary of the real-run Spec: an Exec is one step of the abstract mode machine
   (Spec.Modes.hist_apply ... HExec), which is what the check evaluates on the real output after every Exec *)
Theorem C17_exec_is_a_mode_step : forall shared w0 r t, tracker_ok shared r t ->
  let '(r1, toks1, w, ok1) := release BTGen.Lifecycle.release_terminal_calls dm w0 r in
  let '(r2, toks2, ok2) := restore_term BTGen.Lifecycle.restore_terminal_calls dm w r1 in
  vt_modes (vt_run shared t toks1) = defaults /\
  vt_modes (vt_run shared (vt_run shared t toks1) toks2) = hist_apply (vt_modes t) HExec.
Proof.
  intros shared w0 r t H. pose proof (release_then_restore shared w0 r t H) as P.
  destruct (release BTGen.Lifecycle.release_terminal_calls dm w0 r) as [[[r1 toks1] w] ok1].
  destruct P as [_ [_ [Hd [_ P]]]].
  destruct (restore_term BTGen.Lifecycle.restore_terminal_calls dm w r1) as [[r2 toks2] ok2].
  destruct P as [_ [_ Hm]]. split; [exact Hd|]. rewrite Hm. reflexivity.
Qed.
Print Assumptions C17_exec_is_a_mode_step.

(* non-vacuity: alt screen, cell-motion mouse, focus; the cursor shown by a
   command.  Released: defaults.  Restored: alt, paste and focus are back, the
   cursor is hidden, the mouse stays off; per-buffer cursor visibility *)
Example C17_modes_example :
  let o := {| o_alt := true; o_cell := true; o_all := false; o_nopaste := false; o_focus := true |} in
  let upd := fun (m : nat) (_ : rmsg unit) => (S m, @None cmdid) in
  let view := fun m : nat => repeat 65%N m in
  let '(r0, toks0, ok0) := startup BTGen.Lifecycle.run_calls dm o r_init in
  let s := el_run BTGen.Dispatch.dispatch dm None upd view (el_init 0 r0) [RB KShowCursor] in
  let t := vt_run false (vt_init 20 5 [] 0) (toks0 ++ el_out s) in
  let '(r1, toks1, w, ok1) := release BTGen.Lifecycle.release_terminal_calls dm (false, false, false) (el_r s) in
  let t1 := vt_run false t toks1 in
  let '(r2, toks2, ok2) := restore_term BTGen.Lifecycle.restore_terminal_calls dm w r1 in
  let t2 := vt_run false t1 toks2 in
  ok0 = true /\ ok1 = true /\ ok2 = true /\ tracker_ok false (el_r s) t /\
  vt_modes t = mk_modes true false true false true true true /\
  w = (true, true, true) /\
  vt_modes t1 = defaults /\
  toks2 = [TReset 25; TSet 1049; TEDall; THome; TReset 25; TSet 2004; TSet 1004] /\
  vt_modes t2 = mk_modes true true false false false true true.
Proof. vm_compute. repeat split. Qed.
