(* C18 — OS signals are reported faithfully (model half; delivery itself is the OS and the Go runtime). *)
From Coq Require Import List Bool NArith Arith.
Import ListNotations.
From BT Require Import Model.Skel Model.SkelTie Proof.SkelCert Proof.SkelProofs.

Theorem C18_tie : G = guards_of_gen /\ g_sig_int_is_interrupt G = true /\ g_sig_honours_ignore G = true /\
                  g_sig_loops G = true /\ g_restore_keeps_nosig G = true /\ g_int_err G = true /\ g_quit_nil G = true.
Proof. vm_compute. repeat split. Qed.
Print Assumptions C18_tie.

(* not ignored: SIGINT makes the handler forward an interrupt, SIGTERM a quit ... *)
Theorem C18_signal_forwarded : forall s, Reach s -> sigmap_ok s = true.
Proof. exact (all_R _ sigmap_R). Qed.
Print Assumptions C18_signal_forwarded.
(* ... which the event loop takes as that very message ... *)
Theorem C18_signal_received : forall s, Reach s -> sigrecv_ok s = true.
Proof. exact (all_R _ sigrecv_R). Qed.
Print Assumptions C18_signal_received.
(* ... and (C04_error_ok) an interrupt decision returns ErrInterrupted, a quit decision nil, terminal restored (C05) *)
Theorem C18_error : forall s, Reach s -> error_ok s = true /\ (is_returned s = true -> restored_last s = true).
Proof. intros s Hr. split; [exact (returned_error_ok s Hr)|exact (returned_restored s Hr)]. Qed.
Print Assumptions C18_error.

(* while signals are ignored no step makes the handler forward one, and the handler stays *)
Theorem C18_ignored : forall s, Reach s -> ignored_ok s = true.
Proof. exact (all_R _ ignored_R). Qed.
Print Assumptions C18_ignored.
(* WithoutSignals: never, also after the terminal was released and restored *)
Theorem C18_without_signals : forall s, Reach s -> nosig s = true -> sending (sg s) = false.
Proof. exact without_signals_never_forwards. Qed.
Print Assumptions C18_without_signals.
(* WithoutSignalHandler: no handler thread ever exists *)
Theorem C18_no_handler : forall s, Reach s -> sigoff_ok s = true.
Proof. exact (all_R _ sigoff_R). Qed.
Print Assumptions C18_no_handler.
