(* C18 — OS signals are reported faithfully (model half; delivery itself is the OS and the Go runtime). *)
From Coq Require Import List Bool NArith Arith String.
Import ListNotations.
From BT Require Import Model.Skel Model.SkelTie Proof.SkelCert Proof.SkelProofs.

Theorem C18_tie : G = guards_of_gen /\ g_sig_int_is_interrupt G = true /\ g_sig_honours_ignore G = true /\
                  g_sig_loops G = true /\ g_restore_keeps_nosig G = true /\ g_int_err G = true /\ g_quit_nil G = true /\
                  g_sig_stays G = true /\ g_rz_guarded G = true /\ g_restore_unignores_first G = true /\ g_release_failure_restores G = true /\
                  shapes_ok_for ["handleSignals"; "handleResize"; "listenForResize"; "checkResize"; "WithoutSignals"; "WithoutSignalHandler"; "ReleaseTerminal"; "RestoreTerminal"]%string = true.
Proof. vm_compute. repeat split. Qed.
Print Assumptions C18_tie.

(* not ignored: SIGINT makes the handler forward an interrupt, SIGTERM a quit ... *)
Theorem C18_signal_forwarded : forall s, Reach s -> sigmap_ok s = true.
Proof. exact (all_R _ sigmap_R). Qed.
Print Assumptions C18_signal_forwarded.
(* ... which the event loop takes as that very message ... *)
Theorem C18_signal_received : forall s, Reach s -> sigrecv_ok s = true.
Proof. exact (all_R _ sigrecv_R). Qed.
Print Assumptions C18_signal_received.
(* ... and (C04_error_ok) an interrupt decision returns ErrInterrupted, a quit decision nil, terminal restored (C05) *)
Theorem C18_error : forall s, Reach s -> error_ok s = true /\ (is_returned s = true -> restored_last s = true).
Proof. intros s Hr. split; [exact (returned_error_ok s Hr)|exact (returned_restored s Hr)]. Qed.
Print Assumptions C18_error.

(* while signals are ignored no step makes the handler forward one, and the handler stays *)
Theorem C18_ignored : forall s, Reach s -> ignored_ok s = true.
Proof. exact (all_R _ ignored_R). Qed.
Print Assumptions C18_ignored.
(* WithoutSignals: never, also after the terminal was released and restored *)
Theorem C18_without_signals : forall s, Reach s -> nosig s = true -> sending (sg s) = false.
Proof. exact without_signals_never_forwards. Qed.
Print Assumptions C18_without_signals.
(* the handler is there as long as the program is (a signal a filter swallowed is not the last one it can take) *)
Theorem C18_handler_stays : forall s, Reach s -> sg s = SgDone -> struck s = true.
Proof. exact signal_handler_stays. Qed.
Print Assumptions C18_handler_stays.
(* outside a release window signals count: whenever the loop waits at its select (also after an Exec whose
   RestoreTerminal failed) the ignore flag is down unless WithoutSignals was asked for *)
Theorem C18_signals_count_at_select : forall s, Reach s -> run s = RSelect -> nosig s = false -> ign s = false.
Proof. exact signals_count_at_select. Qed.
Print Assumptions C18_signals_count_at_select.
(* WithoutSignalHandler: no handler thread ever exists *)
Theorem C18_no_handler : forall s, Reach s -> sigoff_ok s = true.
Proof. exact (all_R _ sigoff_R). Qed.
Print Assumptions C18_no_handler.

(* ---- window size (model half): the renderer adopts exactly the reported size, drops its cache (the next flush
   repaints), and a WindowSizeMsg is not consumed by the dispatch: it reaches Update like any user message *)
From Coq Require Import String.
From BT Require Import Base.Bytes Model.GenTypes Model.VT Model.Renderer Model.EvLoop.
From BTGen Require Dispatch.

Theorem C18_size_adopted : forall r w h,
  r_width (r_window_size r w h) = w /\ r_height (r_window_size r w h) = h /\ r_lastRender (r_window_size r w h) = nil.
Proof. intros r w h. unfold r_window_size, r_repaint. cbn. repeat split. Qed.
Print Assumptions C18_size_adopted.

Theorem C18_size_reaches_update : forall (M U : Type) dm flt upd view (s : elstate M U) w h,
  flt = None -> el_exit s = None ->
  let s' := el_step Dispatch.dispatch dm flt upd view s (RWindowSize w h) in
  el_update_log s' = (el_update_log s ++ ((el_model s, RWindowSize w h) :: nil))%list /\ el_exit s' = None.
Proof.
  intros M U dm flt upd view s w h Hf He. subst flt. unfold el_step. rewrite He. cbn.
  destruct (upd (el_model s) (RWindowSize w h)) as [m' c]. cbn. split; reflexivity.
Qed.
Print Assumptions C18_size_reaches_update.

(* ---- the resize listener (Proof/ResizeModel.v; listenForResize takes the signal BEFORE it reads the size, shapes tied
   in C18_tie): for any interleaving of resizes with the listener's steps, once it is idle with no signal pending the
   last size Update received is the terminal's true size; and the listener is never stuck with work to do *)
From BT Require Import Proof.ResizeModel.
Theorem C18_last_reported_size_is_true : forall n ls,
  let s := rrun (rinit n) ls in
  pending s = false -> lst s = LWait -> delivered s = Some (cur s).
Proof. exact last_reported_size_is_true. Qed.
Print Assumptions C18_last_reported_size_is_true.
Theorem C18_resize_listener_progress : forall s,
  (lst s = LWait -> pending s = true -> rstep s RzTake <> None) /\
  (lst s = LRead -> rstep s RzQuery <> None) /\
  (forall n, lst s = LSend n -> rstep s RzDeliver <> None).
Proof. exact resize_listener_progress. Qed.
Print Assumptions C18_resize_listener_progress.
Example C18_resize_nonvacuous :
  let s := rrun (rinit 80%nat) [RzQuery; RzResize 100%nat; RzDeliver; RzResize 120%nat; RzTake; RzQuery; RzDeliver] in
  pending s = false /\ lst s = LWait /\ delivered s = Some 120%nat /\ cur s = 120%nat.
Proof. vm_compute. repeat split. Qed.

(* ---- listener AND WindowSize commands (Proof/ResizeModel2.v): any number of command goroutines query the size
   concurrently with the listener.  Every report carries a size the terminal had between the report's cause and its
   query; without commands in flight the model is the listener above (last report true); with one in flight the last
   report can be an older size - the witness is stated, not hidden. *)
From BT Require Import Proof.ResizeModel2.
Theorem C18_reports_are_fresh : forall n ls r, In r (c_log (crun (cinit n) ls)) -> In (r_size r) (r_window r).
Proof. exact reports_are_fresh. Qed.
Print Assumptions C18_reports_are_fresh.
Theorem C18_update_has_the_newest_report : forall n ls,
  let s := crun (cinit n) ls in
  match c_log s with [] => c_delivered s = None | r :: _ => c_delivered s = Some (r_size r) end.
Proof. exact delivered_is_the_newest_report. Qed.
Print Assumptions C18_update_has_the_newest_report.
Theorem C18_last_report_true_without_commands : forall n ls, forallb is_listener_label ls = true ->
  let s := crun (cinit n) ls in
  c_pending s = false -> c_lst s = L2Wait -> c_delivered s = Some (c_cur s).
Proof. exact last_report_true_without_commands. Qed.
Print Assumptions C18_last_report_true_without_commands.
Theorem C18_stale_report_can_arrive_last_refuted :
  exists ls, let s := crun (cinit 3%nat) ls in
  c_pending s = false /\ c_lst s = L2Wait /\ c_cmds s = [] /\ c_cur s = 7%nat /\ c_delivered s = Some 3%nat.
Proof. eexists. exact stale_report_can_arrive_last. Qed.
Print Assumptions C18_stale_report_can_arrive_last_refuted.
Example C18_reports_nonvacuous :
  let s := crun (cinit 80%nat) [CzQuery; CzDeliver; CzIssue; CzResize 100%nat; CzCmdQuery 0; CzTake; CzQuery; CzCmdDeliver 0; CzDeliver] in
  map r_size (c_log s) = [100%nat; 100%nat; 80%nat] /\ map r_by_command (c_log s) = [false; true; false] /\
  map r_window (c_log s) = [[100%nat]; [80%nat; 100%nat]; [80%nat]].
Proof. vm_compute. repeat split. Qed.
