(* C19 — property theorems only (see also C19_thms.v when present). *)
From Coq Require Import NArith ZArith List Bool Arith.
Import ListNotations.
From BT Require Import Base.Bytes Model.VT Model.Renderer Spec.Screen Spec.Economy Proof.RendererBasics.
From BTGen Require Consts.

(* tie: the frame-rate constants in standard_renderer.go *)
Theorem C19_tie : Consts.unsupported = nil /\ (Consts.c_defaultFPS = 60 /\ Consts.c_maxFPS = 120)%Z.
Proof. vm_compute. repeat split. Qed.
Print Assumptions C19_tie.

(* write replaces the pending frame and emits nothing: a later view is never replaced by an earlier one *)
Theorem C19_write_replaces : forall r v1 v2,
  snd (r_step r (OWrite v1)) = [] /\ r_buf (r_write (r_write r v1) v2) = norm v2.
Proof. exact write_silent_and_replaces. Qed.
Print Assumptions C19_write_replaces.

Theorem C19_same_view_silent : forall r v, snd (r_flush (r_write (fst (r_flush (r_write r v))) v)) = [].
Proof. exact same_view_twice_silent. Qed.
Print Assumptions C19_same_view_silent.

Theorem C19_only_ticks_emit : forall r o,
  match o with OWrite _ | OResize _ _ | ORepaint | OPrint _ => snd (r_step r o) = [] | _ => True end.
Proof. exact silent_ops. Qed.
Print Assumptions C19_only_ticks_emit.

Theorem C19_fps_clamp : forall fps,
  r_framerate_ns fps = frame_interval_ns 60 120 fps /\
  (1 <= clamp_fps 60 120 fps <= 120)%Z /\ ((fps < 1)%Z -> clamp_fps 60 120 fps = 60%Z) /\
  ((1 <= fps <= 120)%Z -> clamp_fps 60 120 fps = fps).
Proof. exact fps_clamp. Qed.
Print Assumptions C19_fps_clamp.

Theorem C19_frame_interval_bounds : forall fps, (8333333 <= r_framerate_ns fps <= 1000000000)%Z.
Proof. exact frame_interval_bounds. Qed.
Print Assumptions C19_frame_interval_bounds.
