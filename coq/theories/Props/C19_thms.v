(* C19 — economy of rendering.  Property theorems only; proofs in
   Proof/RenderCost.v and Proof/RendererBasics.v. *)
From Coq Require Import NArith ZArith List Bool Arith Lia.
Import ListNotations.
From BT Require Import Base.Bytes Model.VT Model.Renderer Spec.Screen Spec.Economy
  Proof.RendererBasics Proof.FlushSync Proof.RenderCost.
Open Scope nat_scope.

(* an inline flush with a valid cache and nothing queued writes at most
   cost_bound bytes: a changed line costs its text (cut at the width) + 5, an
   unchanged line at most 1, plus an overhead logarithmic in width / line count *)
Theorem C19_flush_cost : forall r v,
  r_alt r = false -> r_queued r = [] -> r_buf r = v -> v <> [] ->
  bytes_eqb v (r_lastRender r) = false -> r_lastRender r <> [] ->
  0 < r_width r ->
  r_linesRendered r = length (r_lastLines r) ->
  out_len (snd (r_flush r)) <= cost_bound (r_width r) (r_lastLines r) (frame_lines (r_height r) v).
Proof. exact flush_cost. Qed.
Print Assumptions C19_flush_cost.

(* the same bound holds whatever the state of the cache *)
Theorem C19_flush_cost_any_cache : forall r v,
  r_alt r = false -> r_queued r = [] -> r_buf r = v -> v <> [] ->
  bytes_eqb v (r_lastRender r) = false ->
  0 < r_width r ->
  r_linesRendered r = length (r_lastLines r) ->
  out_len (snd (r_flush r)) <= cost_bound (r_width r) (r_lastLines r) (frame_lines (r_height r) v).
Proof. exact flush_cost_any_cache. Qed.
Print Assumptions C19_flush_cost_any_cache.

(* ... in particular whenever renderer and terminal are in sync (FlushSync) *)
Theorem C19_flush_cost_sync : forall w h r b above region below v,
  sync_inline w h r b above region below ->
  r_queued r = [] -> r_buf r = v -> v <> [] ->
  bytes_eqb v (r_lastRender r) = false -> r_lastRender r <> [] ->
  out_len (snd (r_flush r)) <= cost_bound w (r_lastLines r) (frame_lines h v).
Proof. exact flush_cost_sync. Qed.
Print Assumptions C19_flush_cost_sync.

(* the paint loop alone, for any cache state: the extra byte is the leading CR
   of a first paint over an empty cache *)
Theorem C19_paint_lines_cost : forall w, 0 < w -> forall lines first ce last,
  out_len (paint_lines first true ce w lines last) <=
  lines_cost w last lines + (if first && ce then 1 else 0).
Proof. exact paint_lines_cost. Qed.
Print Assumptions C19_paint_lines_cost.

(* the overhead is logarithmic: digits is monotone *)
Theorem C19_digits_mono : forall n m, n <= m -> digits n <= digits m.
Proof. exact digits_mono. Qed.
Print Assumptions C19_digits_mono.

(* the bound is meaningful: exactly one line changed costs that line + 5 and one
   byte for each other line *)
Theorem C19_lines_cost_one_change : forall w a x y b, bytes_eqb x y = false ->
  lines_cost w (a ++ x :: b) (a ++ y :: b) = length a + length b + Nat.min (length y) w + 5.
Proof. exact lines_cost_one_change. Qed.
Print Assumptions C19_lines_cost_one_change.

Theorem C19_lines_cost_same : forall w ls, lines_cost w ls ls = length ls.
Proof. exact lines_cost_same. Qed.
Print Assumptions C19_lines_cost_same.

(* Write v; Flush; Write v; Flush : the second flush is silent *)
Theorem C19t_same_view_twice_silent : forall r v,
  snd (r_flush (r_write (fst (r_flush (r_write r v))) v)) = [].
Proof. exact same_view_twice_silent. Qed.
Print Assumptions C19t_same_view_twice_silent.

(* write never emits and replaces (never appends to) the pending frame *)
Theorem C19t_write_silent_and_replaces : forall r v1 v2,
  snd (r_step r (OWrite v1)) = [] /\ r_buf (r_write (r_write r v1) v2) = norm v2.
Proof. exact write_silent_and_replaces. Qed.
Print Assumptions C19t_write_silent_and_replaces.

(* only Flush, Stop and explicit terminal commands produce output *)
Theorem C19t_silent_ops : forall r o,
  match o with OWrite _ | OResize _ _ | ORepaint | OPrint _ => snd (r_step r o) = [] | _ => True end.
Proof. exact silent_ops. Qed.
Print Assumptions C19t_silent_ops.

Theorem C19t_fps_clamp : forall fps,
  r_framerate_ns fps = frame_interval_ns 60 120 fps /\
  (1 <= clamp_fps 60 120 fps <= 120)%Z /\ ((fps < 1)%Z -> clamp_fps 60 120 fps = 60%Z) /\
  ((1 <= fps <= 120)%Z -> clamp_fps 60 120 fps = fps).
Proof. exact fps_clamp. Qed.
Print Assumptions C19t_fps_clamp.

Theorem C19t_frame_interval_bounds : forall fps, (8333333 <= r_framerate_ns fps <= 1000000000)%Z.
Proof. exact frame_interval_bounds. Qed.
Print Assumptions C19t_frame_interval_bounds.

(* non-vacuity: a 10x5 window showing "ab\ncd" (flushed, so the cache is valid),
   then "ab\ncX" is written.  All hypotheses of C19_flush_cost hold; the flush
   writes ESC[A, LF, "cX", ESC[K, ESC[10D = 14 bytes; the bound is 8 + 19 = 27. *)
Example C19_nonvacuous :
  let v0 := [97; 98; 10; 99; 100]%N in
  let v := [97; 98; 10; 99; 88]%N in
  let r := r_write (fst (r_flush (r_write (r_window_size r_init 10 5) v0))) v in
  r_alt r = false /\ r_queued r = [] /\ r_buf r = v /\ v <> [] /\
  bytes_eqb v (r_lastRender r) = false /\ r_lastRender r <> [] /\
  0 < r_width r /\
  r_linesRendered r = length (r_lastLines r) /\
  snd (r_flush r) = [TCUU 1; TLF; TChar 99%N; TChar 88%N; TELright; TCUB 10] /\
  out_len (snd (r_flush r)) = 14 /\
  lines_cost (r_width r) (r_lastLines r) (frame_lines (r_height r) v) = 8 /\
  overhead (r_width r) 2 2 = 19 /\
  cost_bound (r_width r) (r_lastLines r) (frame_lines (r_height r) v) = 27.
Proof. vm_compute. repeat split; try discriminate; lia. Qed.

(* a full repaint of the same two lines over an empty cache, for comparison:
   CR "ab" ESC[K CR LF "cX" ESC[K ESC[10D = 18 bytes, still within the bound
   (here 14 + 19 = 33) *)
Example C19_nonvacuous_first_paint :
  let v := [97; 98; 10; 99; 88]%N in
  let r := r_write (r_window_size r_init 10 5) v in
  out_len (snd (r_flush r)) = 18 /\
  cost_bound (r_width r) (r_lastLines r) (frame_lines (r_height r) v) = 33.
Proof. vm_compute. repeat split. Qed.
