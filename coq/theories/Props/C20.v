(* C20 — Tick and Every never fire early and report the time they fired.
   Property theorems only; proofs are in Proof/TimerProofs.v. *)
From Coq Require Import ZArith Bool.
From BT Require Import Model.Timer Spec.TimerSpec Proof.TimerProofs.
From BTGen Require Import TimerExpr.
Open Scope Z_scope.

(* Tie: the delay expressions and closure structure below are the ones the
   translator found in commands.go today. *)
Theorem C20_tie :
  TimerExpr.unsupported = nil /\ flags_ok every_flags = true /\ flags_ok tick_flags = true.
Proof. exact (conj Tie_Timer_supported Tie_Timer_flags). Qed.
Print Assumptions C20_tie.

(* ... and the bodies of Every and Tick as a whole are the ones mirrored (a statement added around the delay expression
   is an unclassified change) *)
From Coq Require Import String List.
From BT Require Model.SkelTie.
Theorem C20_shapes : SkelTie.shapes_ok_for ("Every" :: "Tick" :: nil)%string = true.
Proof. vm_compute. reflexivity. Qed.
Print Assumptions C20_shapes.

(* Every: the timer is armed for the distance to the next whole multiple of d
   strictly after the creation instant — never zero, never a period more. *)
Theorem C20_every_delay : forall n d, 0 < d ->
  0 < every_delay n d <= d /\ (n + every_delay n d) mod d = 0.
Proof. exact every_delay_pos. Qed.
Print Assumptions C20_every_delay.

(* ... and that instant is the least multiple after n. *)
Theorem C20_every_least : forall n d m, 0 < d -> n < m -> m mod d = 0 ->
  n + every_delay n d <= m.
Proof.
  intros n d m Hd Hnm Hm. rewrite (every_delay_is_next_multiple n d Hd).
  exact (next_multiple_spec n d m Hd Hnm Hm).
Qed.
Print Assumptions C20_every_least.

Theorem C20_every_nonpos : forall n d, d <= 0 -> every_delay n d = d.
Proof. exact every_delay_nonpos. Qed.
Print Assumptions C20_every_nonpos.

Theorem C20_tick_delay : forall n d, tick_delay n d = d.
Proof. exact tick_delay_id. Qed.
Print Assumptions C20_tick_delay.

(* Not early, and the message is the callback applied to the firing time,
   for every execution the Go runtime can produce (runtime_timer_ok is the
   runtime's contract for time.NewTimer, a hypothesis). C20 is _partial in
   exactly this sense: timers and the clock are the Go runtime's. *)
Theorem C20_every_not_early_partial :
  forall (M : Type) (fn : Z -> M) n d (r : timer_run),
  0 < d -> created r = n -> runtime_timer_ok (every_delay n d) r ->
  next_multiple n d <= fired r /\ cmd_result fn r = fn (fired r).
Proof.
  intros M fn n d r Hd Hc Hr. split; [exact (every_not_early_run n d r Hd Hc Hr)|reflexivity].
Qed.
Print Assumptions C20_every_not_early_partial.

Theorem C20_tick_not_early_partial :
  forall (M : Type) (fn : Z -> M) n d (r : timer_run),
  created r = n -> runtime_timer_ok (tick_delay n d) r ->
  n + d <= fired r /\ cmd_result fn r = fn (fired r).
Proof.
  intros M fn n d r Hc Hr. split; [exact (tick_not_early_run n d r Hc Hr)|reflexivity].
Qed.
Print Assumptions C20_tick_not_early_partial.

(* non-vacuity: a concrete run satisfying the hypotheses *)
Example C20_nonvacuous :
  let d := 1000000000 in let n := 63894748812345678901 in
  0 < d /\ runtime_timer_ok (every_delay n d) {| created := n; armed := n + 5; fired := n + every_delay n d + 7 |}
  /\ every_delay n d = 654321099.
Proof. vm_compute. repeat split; discriminate. Qed.
