(* Frozen reference copies of the bodies ("shapes") of the functions that the runtime models mirror by hand.
   gen/Signals.v carries the same list regenerated from /repo on every run; Model/SkelTie.shapes_ok_for compares
   them.  An edit to one of these functions is an unclassified change: the tie of every property whose model
   rests on it breaks, and the check then searches for a failing input.  (White space and comments are normalised.) *)
From Coq Require Import String List.
From BT Require Import Model.GenTypes.
Import ListNotations.
Open Scope string_scope.

Definition ref_shapes : list (string * string) := [
  ("handleSignals", "{ v1 := make(chan struct{}) go func() { v2 := make(chan os.Signal, 1) signal.Notify(v2, syscall.SIGINT, syscall.SIGTERM) defer func() { signal.Stop(v2) close(v1) }() for { select { case <-p.ctx.Done(): return case v3 := <-v2: if atomic.LoadUint32(&p.ignoreSignals) == 0 { switch v3 { case syscall.SIGINT: p.Send(InterruptMsg{}) default: p.Send(QuitMsg{}) } } } } }() return v1 }");
  ("handleResize", "{ v1 := make(chan struct{}) if p.ttyOutput != nil { go p.checkResize() go p.listenForResize(v1) } else { close(v1) } return v1 }");
  ("listenForResize", "{ v1 := make(chan os.Signal, 1) signal.Notify(v1, syscall.SIGWINCH) defer func() { signal.Stop(v1) close(v2) }() for { select { case <-p.ctx.Done(): return case <-v1: } p.checkResize() } }");
  ("checkResize", "{ if p.ttyOutput == nil { return } v1, v2, v3 := term.GetSize(p.ttyOutput.Fd()) if v3 != nil { select { case <-p.ctx.Done(): case p.errs <- v3: } return } p.Send(WindowSizeMsg{ Width: v1, Height: v2, }) }");
  ("Send", "{ select { case <-p.ctx.Done(): case p.msgs <- v1: } }");
  ("Quit", "{ p.Send(Quit()) }");
  ("Kill", "{ p.shutdown(true) }");
  ("Wait", "{ <-p.finished }");
  ("Println", "{ p.Send(printLineMessage{ messageBody: fmt.Sprint(v1...), }) }");
  ("Printf", "{ p.Send(printLineMessage{ messageBody: fmt.Sprintf(v1, v2...), }) }");
  ("handleCommands", "{ v1 := make(chan struct{}) go func() { defer close(v1) for { select { case <-p.ctx.Done(): return case v2 := <-v3: if v2 == nil { continue } go func() { if !p.startupOptions.has(withoutCatchPanics) { defer p.recoverFromPanic() } v4 := v2() p.Send(v4) }() } } }() return v1 }");
  ("channelHandlers.shutdown", "{ var v1 sync.WaitGroup for _, v2 := range h { v1.Add(1) go func(v3 chan struct{}) { <-v3 v1.Done() }(v2) } v1.Wait() }");
  ("readLoop", "{ defer close(v1) v2 := readInputs(p.ctx, p.msgs, v3) if !errors.Is(v2, io.EOF) && !errors.Is(v2, cancelreader.ErrCanceled) { select { case <-p.ctx.Done(): case p.errs <- v2: } } }");
  ("waitForReadLoop", "{ select { case <-p.readLoopDone: case <-time.After(500 * time.Millisecond): } }");
  ("exec", "{ if v1 := p.ReleaseTerminal(); v1 != nil { _ = p.RestoreTerminal() if v2 != nil { go p.Send(v2(v1)) } return } v3.SetStdin(p.input) v3.SetStdout(p.output) v3.SetStderr(os.Stderr) if v4 := v3.Run(); v4 != nil { _ = p.RestoreTerminal() if v2 != nil { go p.Send(v2(v4)) } return } v5 := p.RestoreTerminal() if v2 != nil { go p.Send(v2(v5)) } }");
  ("suspend", "{ if v1 := p.ReleaseTerminal(); v1 != nil { _ = p.RestoreTerminal() return } suspendProcess() _ = p.RestoreTerminal() go p.Send(ResumeMsg{}) }");
  ("Batch", "{ var v1 []Cmd for _, v2 := range v3 { if v2 == nil { continue } v1 = append(v1, v2) } switch len(v1) { case 0: return nil case 1: return v1[0] default: return func() Msg { return BatchMsg(v1) } } }");
  ("Sequence", "{ return func() Msg { return sequenceMsg(v1) } }");
  ("standardRenderer.start", "{ if r.ticker == nil { r.ticker = time.NewTicker(r.framerate) } else { r.ticker.Reset(r.framerate) } r.once = sync.Once{} go r.listen() }");
  ("standardRenderer.stop", "{ r.once.Do(func() { r.done <- struct{}{} r.stopTicker() }) r.flush() r.mtx.Lock() defer r.mtx.Unlock() r.execute(ansi.EraseEntireLine) r.execute(""\r"") if r.useANSICompressor { if v1, v2 := r.out.(io.WriteCloser); v2 { _ = v1.Close() } } }");
  ("standardRenderer.kill", "{ r.once.Do(func() { r.done <- struct{}{} r.stopTicker() }) r.mtx.Lock() defer r.mtx.Unlock() r.execute(ansi.EraseEntireLine) r.execute(""\r"") }");
  ("standardRenderer.listen", "{ for { select { case <-r.done: return case <-r.ticker.C: r.flush() } } }");
  ("shutdown", "{ p.cancel() p.handlers.shutdown() if p.cancelReader != nil { if p.cancelReader.Cancel() { if !v1 { p.waitForReadLoop() } } _ = p.cancelReader.Close() } if p.renderer != nil { if v1 { p.renderer.kill() } else { p.renderer.stop() } } _ = p.restoreTerminalState() p.finishOnce.Do(func() { close(p.finished) }) }");
  ("recoverFromPanic", "{ if v1 := recover(); v1 != nil { p.handlePanic(v1) } }");
  ("handlePanic", "{ p.shutdown(true) fmt.Printf(""Caught panic:\n\n%s\n\nRestoring terminal...\n\n"", v1) debug.PrintStack() }");
  ("initCancelReader", "{ if v1 && p.cancelReader != nil { p.cancelReader.Cancel() p.waitForReadLoop() } var v2 error p.cancelReader, v2 = newInputReader(p.input, p.mouseMode) if v2 != nil { return fmt.Errorf(""error creating cancelreader: %w"", v2) } v3 := make(chan struct{}) p.readLoopDone = v3 go p.readLoop(p.cancelReader, v3) return nil }");
  ("Every", "{ v1 := time.Now() v2 := v1.Truncate(v3).Add(v3).Sub(v1) v4 := time.NewTimer(v2) return func() Msg { v5 := <-v4.C v4.Stop() for len(v4.C) > 0 { <-v4.C } return v6(v5) } }");
  ("Tick", "{ v1 := time.NewTimer(v2) return func() Msg { v3 := <-v1.C v1.Stop() for len(v1.C) > 0 { <-v1.C } return v4(v3) } }");
  ("NewProgram", "{ v1 := &Program{ initialModel: v2, msgs: make(chan Msg), finished: make(chan struct{}), } for _, v3 := range v4 { v3(v1) } if v1.ctx == nil { v1.ctx = context.Background() } v1.ctx, v1.cancel = context.WithCancel(v1.ctx) if v1.output == nil { v1.output = os.Stdout } if v1.environ == nil { v1.environ = os.Environ() } return v1 }");
  ("ReleaseTerminal", "{ atomic.StoreUint32(&p.ignoreSignals, 1) if p.cancelReader != nil { p.cancelReader.Cancel() } p.waitForReadLoop() if p.renderer != nil { p.renderer.stop() p.altScreenWasActive = p.renderer.altScreen() p.bpWasActive = p.renderer.bracketedPasteActive() p.reportFocus = p.renderer.reportFocus() } return p.restoreTerminalState() }");
  ("RestoreTerminal", "{ if !p.startupOptions.has(withoutSignals) { atomic.StoreUint32(&p.ignoreSignals, 0) } if v1 := p.initTerminal(); v1 != nil { return v1 } if p.input != nil { if v2 := p.initCancelReader(false); v2 != nil { return v2 } } if p.altScreenWasActive { p.renderer.enterAltScreen() } else { go p.Send(repaintMsg{}) } if p.renderer != nil { p.renderer.start() } if p.bpWasActive { p.renderer.enableBracketedPaste() } if p.reportFocus { p.renderer.enableReportFocus() } go p.checkResize() return nil }");
  ("restoreTerminalState", "{ if p.renderer != nil { p.renderer.disableBracketedPaste() p.renderer.showCursor() p.disableMouse() if p.renderer.reportFocus() { p.renderer.disableReportFocus() } if p.renderer.altScreen() { p.renderer.exitAltScreen() time.Sleep(time.Millisecond * 10) } } return p.restoreInput() }");
  ("restoreInput", "{ if p.ttyInput != nil && p.previousTtyInputState != nil { if v1 := term.Restore(p.ttyInput.Fd(), p.previousTtyInputState); v1 != nil { return fmt.Errorf(""error restoring console: %w"", v1) } } if p.ttyOutput != nil && p.previousOutputState != nil { if v2 := term.Restore(p.ttyOutput.Fd(), p.previousOutputState); v2 != nil { return fmt.Errorf(""error restoring console: %w"", v2) } } return nil }");
  ("initTerminal", "{ if _, v1 := p.renderer.(*nilRenderer); v1 { return nil } if v2 := p.initInput(); v2 != nil { return v2 } p.renderer.hideCursor() return nil }");
  ("initInput", "{ if v1, v2 := p.input.(term.File); v2 && term.IsTerminal(v1.Fd()) { p.ttyInput = v1 p.previousTtyInputState, v3 = term.MakeRaw(p.ttyInput.Fd()) if v3 != nil { return fmt.Errorf(""error entering raw mode: %w"", v3) } } if v4, v5 := p.output.(term.File); v5 && term.IsTerminal(v4.Fd()) { p.ttyOutput = v4 } return nil }");
  ("standardRenderer.stopTicker", "{ if r.ticker != nil { r.ticker.Stop() } }");
  ("WithoutSignals", "{ return func(v1 *Program) { v1.startupOptions |= withoutSignals atomic.StoreUint32(&v1.ignoreSignals, 1) } }");
  ("WithoutSignalHandler", "{ return func(v1 *Program) { v1.startupOptions |= withoutSignalHandler } }");
  ("WithoutCatchPanics", "{ return func(v1 *Program) { v1.startupOptions |= withoutCatchPanics } }");
  ("readInputs", "{ return readAnsiInputs(v1, v2, v3) }");
  ("eventLoop:sequenceMsg", "go func() { if !p.startupOptions.has(withoutCatchPanics) { defer p.recoverFromPanic() } for _, v1 := range v2 { if v1 == nil { continue } v3 := v1() if v4, v5 := v3.(BatchMsg); v5 { v6, _ := errgroup.WithContext(p.ctx) for _, v7 := range v4 { if v7 == nil { continue } v8 := v7 v6.Go(func() error { if !p.startupOptions.has(withoutCatchPanics) { defer p.recoverFromPanic() } p.Send(v8()) return nil }) } v6.Wait() continue } p.Send(v3) } }()");
  ("eventLoop:BatchMsg", "for _, v1 := range v2 { select { case <-p.ctx.Done(): return v3, nil case v4 <- v1: } } ; continue")
].

(* the cases of eventLoop's type switch (message types, how the case ends), frozen: a message kind that gains or loses
   built-in handling, or a case that starts / stops reaching Update, is an unclassified change *)
Definition ref_dispatch : list (list string * dend) := [
  (["QuitMsg"], (DReturn "nil"));
  (["InterruptMsg"], (DReturn "ErrInterrupted"));
  (["SuspendMsg"], DFall);
  (["clearScreenMsg"], DFall);
  (["enterAltScreenMsg"], DFall);
  (["exitAltScreenMsg"], DFall);
  (["enableMouseCellMotionMsg"; "enableMouseAllMotionMsg"], DFall);
  (["disableMouseMsg"], DFall);
  (["showCursorMsg"], DFall);
  (["hideCursorMsg"], DFall);
  (["enableBracketedPasteMsg"], DFall);
  (["disableBracketedPasteMsg"], DFall);
  (["enableReportFocusMsg"], DFall);
  (["disableReportFocusMsg"], DFall);
  (["execMsg"], DFall);
  (["BatchMsg"], DContinue);
  (["sequenceMsg"], DFall);
  (["setWindowTitleMsg"], DFall);
  (["windowSizeMsg"], DFall)
].
