(* Frozen reference copies of the bodies ("shapes") of the functions that the runtime models mirror by hand.
   gen/Signals.v carries the same list regenerated from /repo on every run; Model/SkelTie.shapes_ok_for compares
   them.  An edit to one of these functions is an unclassified change: the tie of every property whose model
   rests on it breaks, and the check then searches for a failing input.  (White space and comments are normalised.) *)
From Coq Require Import String List.
From BT Require Import Model.GenTypes.
Import ListNotations.
Open Scope string_scope.

Definition ref_shapes : list (string * string) := [
  ("handleSignals", "{ ch := make(chan struct{}) go func() { sig := make(chan os.Signal, 1) signal.Notify(sig, syscall.SIGINT, syscall.SIGTERM) defer func() { signal.Stop(sig) close(ch) }() for { select { case <-p.ctx.Done(): return case s := <-sig: if atomic.LoadUint32(&p.ignoreSignals) == 0 { switch s { case syscall.SIGINT: p.Send(InterruptMsg{}) default: p.Send(QuitMsg{}) } } } } }() return ch }");
  ("handleResize", "{ ch := make(chan struct{}) if p.ttyOutput != nil { go p.checkResize() go p.listenForResize(ch) } else { close(ch) } return ch }");
  ("listenForResize", "{ sig := make(chan os.Signal, 1) signal.Notify(sig, syscall.SIGWINCH) defer func() { signal.Stop(sig) close(done) }() for { select { case <-p.ctx.Done(): return case <-sig: } p.checkResize() } }");
  ("checkResize", "{ if p.ttyOutput == nil { return } w, h, err := term.GetSize(p.ttyOutput.Fd()) if err != nil { select { case <-p.ctx.Done(): case p.errs <- err: } return } p.Send(WindowSizeMsg{ Width: w, Height: h, }) }");
  ("Send", "{ select { case <-p.ctx.Done(): case p.msgs <- msg: } }");
  ("Quit", "{ p.Send(Quit()) }");
  ("Kill", "{ p.shutdown(true) }");
  ("Wait", "{ <-p.finished }");
  ("Println", "{ p.Send(printLineMessage{ messageBody: fmt.Sprint(args...), }) }");
  ("Printf", "{ p.Send(printLineMessage{ messageBody: fmt.Sprintf(template, args...), }) }");
  ("handleCommands", "{ ch := make(chan struct{}) go func() { defer close(ch) for { select { case <-p.ctx.Done(): return case cmd := <-cmds: if cmd == nil { continue } go func() { if !p.startupOptions.has(withoutCatchPanics) { defer p.recoverFromPanic() } msg := cmd() p.Send(msg) }() } } }() return ch }");
  ("channelHandlers.shutdown", "{ var wg sync.WaitGroup for _, ch := range h { wg.Add(1) go func(ch chan struct{}) { <-ch wg.Done() }(ch) } wg.Wait() }");
  ("readLoop", "{ defer close(p.readLoopDone) err := readInputs(p.ctx, p.msgs, p.cancelReader) if !errors.Is(err, io.EOF) && !errors.Is(err, cancelreader.ErrCanceled) { select { case <-p.ctx.Done(): case p.errs <- err: } } }");
  ("waitForReadLoop", "{ select { case <-p.readLoopDone: case <-time.After(500 * time.Millisecond): } }");
  ("exec", "{ if err := p.ReleaseTerminal(); err != nil { if fn != nil { go p.Send(fn(err)) } return } c.SetStdin(p.input) c.SetStdout(p.output) c.SetStderr(os.Stderr) if err := c.Run(); err != nil { _ = p.RestoreTerminal() if fn != nil { go p.Send(fn(err)) } return } err := p.RestoreTerminal() if fn != nil { go p.Send(fn(err)) } }");
  ("suspend", "{ if err := p.ReleaseTerminal(); err != nil { return } suspendProcess() _ = p.RestoreTerminal() go p.Send(ResumeMsg{}) }");
  ("Batch", "{ var validCmds []Cmd for _, c := range cmds { if c == nil { continue } validCmds = append(validCmds, c) } switch len(validCmds) { case 0: return nil case 1: return validCmds[0] default: return func() Msg { return BatchMsg(validCmds) } } }");
  ("Sequence", "{ return func() Msg { return sequenceMsg(cmds) } }");
  ("standardRenderer.start", "{ if r.ticker == nil { r.ticker = time.NewTicker(r.framerate) } else { r.ticker.Reset(r.framerate) } r.once = sync.Once{} go r.listen() }");
  ("standardRenderer.stop", "{ r.once.Do(func() { r.done <- struct{}{} }) r.flush() r.mtx.Lock() defer r.mtx.Unlock() r.execute(ansi.EraseEntireLine) r.execute(""\r"") if r.useANSICompressor { if w, ok := r.out.(io.WriteCloser); ok { _ = w.Close() } } }");
  ("standardRenderer.kill", "{ r.once.Do(func() { r.done <- struct{}{} }) r.mtx.Lock() defer r.mtx.Unlock() r.execute(ansi.EraseEntireLine) r.execute(""\r"") }");
  ("standardRenderer.listen", "{ for { select { case <-r.done: r.ticker.Stop() return case <-r.ticker.C: r.flush() } } }");
  ("shutdown", "{ p.cancel() p.handlers.shutdown() if p.cancelReader != nil { if p.cancelReader.Cancel() { if !kill { p.waitForReadLoop() } } _ = p.cancelReader.Close() } if p.renderer != nil { if kill { p.renderer.kill() } else { p.renderer.stop() } } _ = p.restoreTerminalState() p.finishOnce.Do(func() { close(p.finished) }) }");
  ("recoverFromPanic", "{ if r := recover(); r != nil { p.handlePanic(r) } }");
  ("handlePanic", "{ p.shutdown(true) fmt.Printf(""Caught panic:\n\n%s\n\nRestoring terminal...\n\n"", r) debug.PrintStack() }");
  ("initCancelReader", "{ if cancel && p.cancelReader != nil { p.cancelReader.Cancel() p.waitForReadLoop() } var err error p.cancelReader, err = newInputReader(p.input, p.mouseMode) if err != nil { return fmt.Errorf(""error creating cancelreader: %w"", err) } p.readLoopDone = make(chan struct{}) go p.readLoop() return nil }");
  ("eventLoop:sequenceMsg", "go func() { for _, cmd := range msg { if cmd == nil { continue } msg := cmd() if batchMsg, ok := msg.(BatchMsg); ok { g, _ := errgroup.WithContext(p.ctx) for _, cmd := range batchMsg { cmd := cmd g.Go(func() error { p.Send(cmd()) return nil }) } g.Wait() continue } p.Send(msg) } }()");
  ("eventLoop:BatchMsg", "for _, cmd := range msg { select { case <-p.ctx.Done(): return model, nil case cmds <- cmd: } } ; continue")
].

(* the cases of eventLoop's type switch (message types, how the case ends), frozen: a message kind that gains or loses
   built-in handling, or a case that starts / stops reaching Update, is an unclassified change *)
Definition ref_dispatch : list (list string * dend) := [
  (["QuitMsg"], (DReturn "nil"));
  (["InterruptMsg"], (DReturn "ErrInterrupted"));
  (["SuspendMsg"], DFall);
  (["clearScreenMsg"], DFall);
  (["enterAltScreenMsg"], DFall);
  (["exitAltScreenMsg"], DFall);
  (["enableMouseCellMotionMsg"; "enableMouseAllMotionMsg"], DFall);
  (["disableMouseMsg"], DFall);
  (["showCursorMsg"], DFall);
  (["hideCursorMsg"], DFall);
  (["enableBracketedPasteMsg"], DFall);
  (["disableBracketedPasteMsg"], DFall);
  (["enableReportFocusMsg"], DFall);
  (["disableReportFocusMsg"], DFall);
  (["execMsg"], DFall);
  (["BatchMsg"], DContinue);
  (["sequenceMsg"], DFall);
  (["setWindowTitleMsg"], DFall);
  (["windowSizeMsg"], DFall)
].
