(* C01 / C02 / C03 as executable statements over the ghost event log of a run
   (Model/Conc.ev): the same predicates are the conclusions of the theorems
   (for every program, environment and schedule) and are evaluated on the
   projected logs of real runs.  No proofs. *)
From Coq Require Import List Bool Arith.
Import ListNotations.
From BT Require Import Model.Conc.

Definition ocmd_eqb (a b : option cmdid) : bool :=
  match a, b with None, None => true | Some x, Some y => Nat.eqb x y | _, _ => false end.
Fixpoint ocmds_eqb (a b : list (option cmdid)) : bool :=
  match a, b with [], [] => true | x :: a', y :: b' => ocmd_eqb x y && ocmds_eqb a' b' | _, _ => false end.
Definition msg_eqb (a b : msg) : bool :=
  match a, b with
  | MNil, MNil | MQuit, MQuit => true
  | MUser x, MUser y => Nat.eqb x y
  | MBatch x, MBatch y | MSeq x, MSeq y => ocmds_eqb x y
  | _, _ => false
  end.
Definition who_eqb (a b : who) : bool :=
  match a, b with
  | WSender x, WSender y | WCmd x, WCmd y | WSeq x, WSeq y => Nat.eqb x y
  | WGrp k j, WGrp k' j' => Nat.eqb k k' && Nat.eqb j j'
  | _, _ => false
  end.

Fixpoint prefixb {A} (e : A -> A -> bool) (a b : list A) : bool :=
  match a, b with [], _ => true | x :: a', y :: b' => e x y && prefixb e a' b' | _ :: _, [] => false end.
Fixpoint list_eqb {A} (e : A -> A -> bool) (a b : list A) : bool :=
  match a, b with [], [] => true | x :: a', y :: b' => e x y && list_eqb e a' b' | _, _ => false end.

(* messages that reach Update *)
Definition updatable (m : msg) : bool := match m with MUser _ | MSeq _ => true | _ => false end.

(* ---------------------------------------------------------------- C01 *)

(* what sender i got through, in order *)
Definition recv_from (w : who) (log : list ev) : list msg :=
  flat_map (fun e => match e with ERecv w' m => if who_eqb w w' then [m] else [] | _ => [] end) log.

(* what sender w got rid of, in order: taken by the loop, or dropped because its Send gave up after cancellation *)
Definition sent_from (w : who) (log : list ev) : list msg :=
  flat_map (fun e => match e with
                     | ERecv w' m | EDrop w' m => if who_eqb w w' then [m] else []
                     | _ => [] end) log.

(* a Send gives up only once the context has been cancelled: no EDrop before the first ECancel *)
Fixpoint no_drop_before_cancel (log : list ev) : bool :=
  match log with
  | [] => true
  | ECancel :: _ => true
  | EDrop _ _ :: _ => false
  | _ :: rest => no_drop_before_cancel rest
  end.

(* (iv) per-sender order and no invention: what the loop took from sender i is a prefix of what i sends, and
   together with what i still holds it is exactly i's script *)
Definition per_sender_ok (scripts remaining : list (list msg)) (log : list ev) : bool :=
  forallb (fun i => list_eqb msg_eqb (sent_from (WSender i) log ++ nth i remaining []) (nth i scripts []))
          (seq 0 (length scripts)).
(* (until the context is cancelled nothing is dropped, so what the loop took from i is then a prefix of i's script;
    afterwards it is a subsequence: see no_drop_before_cancel) *)

(* (iii) exactly once: Update is called with exactly the updatable messages received, in receive order, each
   right after its receipt; `held` = the message received but not yet processed, if any *)
Fixpoint updates_follow (held : option msg) (log : list ev) : bool :=
  match log with
  | [] => true
  | ERecv _ m :: rest =>
    (* a held message that does not reach Update (nil, quit, batch) may have been disposed of silently *)
    match held with Some m' => negb (updatable m') && updates_follow (Some m) rest | None => updates_follow (Some m) rest end
  | EUpdate m _ :: rest =>
    match held with Some m' => msg_eqb m m' && updatable m && updates_follow None rest | None => false end
  | EExit :: rest | EFail :: rest => updates_follow None rest      (* a failing callback loses the message it held *)
  | EView :: rest =>
    (* the held message, if not updatable, has been disposed of by now (EHand is no marker: the Init forwarder's
       hand-over happens on another goroutine) *)
    match held with Some m' => negb (updatable m') && updates_follow None rest | None => updates_follow None rest end
  | _ :: rest => updates_follow held rest
  end.
(* at the end: a held updatable message is the single in-flight one *)
Definition updates_ok (log : list ev) : bool := updates_follow None log.

Definition n_updates (log : list ev) : nat := length (filter (fun e => match e with EUpdate _ _ => true | _ => false end) log).
Definition n_received_updatable (log : list ev) : nat :=
  length (filter (fun e => match e with ERecv _ m => updatable m | _ => false end) log).

(* ---------------------------------------------------------------- C02 *)

Definition hands (log : list ev) : list cmdid := flat_map (fun e => match e with EHand c => [c] | _ => [] end) log.
Definition somes {A} (l : list (option A)) : list A := flat_map (fun o => match o with Some x => [x] | None => [] end) l.

(* the non-nil commands the runtime owes an execution: the one Init returned, those Update returned, the members
   of every batch message whose expansion has begun (processed: the next loop event after its receipt exists) *)
Definition returned (log : list ev) : list cmdid :=
  flat_map (fun e => match e with EUpdate _ (Some c) => [c] | _ => [] end) log.
Fixpoint batches (log : list ev) : list cmdid :=
  match log with
  | [] => []
  | ERecv _ (MBatch cs) :: rest => somes cs ++ batches rest
  | _ :: rest => batches rest
  end.
Definition owed (init_cmd : option cmdid) (log : list ev) : list cmdid :=
  (match init_cmd with Some c => [c] | None => [] end) ++ returned log ++ batches log.

Fixpoint remove_one (x : nat) (l : list nat) : option (list nat) :=
  match l with [] => None | y :: t => if Nat.eqb x y then Some t else match remove_one x t with Some t' => Some (y :: t') | None => None end end.
Fixpoint sub_multiset (a b : list nat) : option (list nat) :=      (* b minus a, when a is contained in b *)
  match a with [] => Some b | x :: a' => match remove_one x b with Some b' => sub_multiset a' b' | None => None end end.

(* every hand-over is of an owed command, none twice: handed is a sub-multiset of owed *)
Definition handed_owed (init_cmd : option cmdid) (log : list ev) : bool :=
  match sub_multiset (hands log) (owed init_cmd log) with Some _ => true | None => false end.
(* when the loop is at its select nothing is owed any more, except Init's command while its forwarder goroutine has
   not been served yet (pending_init = the forwarder's command, if it is still waiting) *)
Definition all_handed (init_cmd pending_init : option cmdid) (log : list ev) : bool :=
  match sub_multiset (hands log) (owed init_cmd log), pending_init with
  | Some [], None => true
  | Some [c], Some c' => Nat.eqb c c'
  | _, _ => false
  end.

(* each hand-over starts exactly one goroutine, which invokes the command exactly once, off the loop:
   the starts on dispatcher goroutines are the hand-overs, in order, on goroutines 0,1,2,... *)
Definition starts_of_cmds (log : list ev) : list (nat * cmdid) :=
  flat_map (fun e => match e with EStart (WCmd j) c => [(j, c)] | _ => [] end) log.
Definition started_once (log : list ev) : bool :=
  list_eqb (fun a b => Nat.eqb (fst a) (fst b) && Nat.eqb (snd a) (snd b))
           (starts_of_cmds log) (combine (seq 0 (length (hands log))) (hands log)).

(* a command's result is delivered at most once, after it returned, and it is that command's result *)
Definition ends_of (w : who) (log : list ev) : list cmdid :=
  flat_map (fun e => match e with EEnd w' c => if who_eqb w w' then [c] else [] | _ => [] end) log.
Fixpoint delivered_after_end (cres : cmdid -> msg) (w : who) (ended : option cmdid) (log : list ev) : bool :=
  match log with
  | [] => true
  | EEnd w' c :: rest => if who_eqb w w' then match ended with None => delivered_after_end cres w (Some c) rest | Some _ => false end
                         else delivered_after_end cres w ended rest
  | ERecv w' m :: rest | EDrop w' m :: rest =>
    if who_eqb w w' then match ended with Some c => msg_eqb m (cres c) && delivered_after_end cres w None rest | None => false end
    else delivered_after_end cres w ended rest
  | _ :: rest => delivered_after_end cres w ended rest
  end.
Definition results_once (cres : cmdid -> msg) (log : list ev) : bool :=
  forallb (fun j => delivered_after_end cres (WCmd j) None log && (length (recv_from (WCmd j) log) <=? 1))
          (seq 0 (length (hands log))).

(* ---------------------------------------------------------------- C03 *)

(* the events of sequence goroutine k and of its errgroup members *)
Definition of_seq (k : nat) (e : ev) : bool :=
  match e with
  | ERecv (WSeq k') _ | EDrop (WSeq k') _ | EStart (WSeq k') _ | EEnd (WSeq k') _ => Nat.eqb k k'
  | ERecv (WGrp k' _) _ | EDrop (WGrp k' _) _ | EStart (WGrp k' _) _ | EEnd (WGrp k' _) _ => Nat.eqb k k'
  | _ => false
  end.

(* the pattern a sequence must follow: for each non-nil element c in order:
     EStart (WSeq k) c, EEnd (WSeq k) c, then
       - a plain result m = cres c:   ERecv (WSeq k) m
       - a batch result:  for its members: EStart (WGrp k j) cj (all, at once), then their EEnd / ERecv in any
         order, each member EEnd before its ERecv, every member's ERecv before the next element starts.
   `open` = the members still to be received (as (j, cj, ended?)) while a group is awaited. *)
Inductive sq_state :=
| QIdle                                     (* between elements *)
| QRunning (c : cmdid)
| QSending (m : msg)
| QGroupStart (todo : list (nat * cmdid)) (all : list (nat * cmdid))     (* member starts still to come *)
| QGroup (open : list (nat * cmdid * bool)).                             (* members not yet received *)

Fixpoint upd_member (j : nat) (f : cmdid -> bool -> option (option bool)) (l : list (nat * cmdid * bool))
  : option (list (nat * cmdid * bool)) :=
  (* f returns None = illegal, Some None = remove the member, Some (Some b) = set its flag *)
  match l with
  | [] => None
  | (j', c, b) :: t =>
    if Nat.eqb j j' then match f c b with None => None | Some None => Some t | Some (Some b') => Some ((j', c, b') :: t) end
    else match upd_member j f t with Some t' => Some ((j', c, b) :: t') | None => None end
  end.

(* the next non-nil element and what follows it *)
Fixpoint next_elem (rest : list (option cmdid)) : option (cmdid * list (option cmdid)) :=
  match rest with [] => None | None :: r => next_elem r | Some c :: r => Some (c, r) end.

Definition sq_step (cres : cmdid -> msg) (rest : list (option cmdid)) (st : sq_state) (e : ev)
  : option (list (option cmdid) * sq_state) :=
  match st, e with
  | QIdle, EStart (WSeq _) c =>
    match next_elem rest with
    | Some (c', rest') => if Nat.eqb c c' then Some (rest', QRunning c) else None
    | None => None
    end
  | QRunning c, EEnd (WSeq _) c' =>
    if Nat.eqb c c' then
      match cres c with
      | MBatch cs => let ms := combine (seq 0 (length (somes cs))) (somes cs) in
                     match ms with [] => Some (rest, QIdle) | _ => Some (rest, QGroupStart ms ms) end
      | m => Some (rest, QSending m)
      end
    else None
  | QSending m, ERecv (WSeq _) m' | QSending m, EDrop (WSeq _) m' => if msg_eqb m m' then Some (rest, QIdle) else None
  | QGroupStart ((j, c) :: todo) all, EStart (WGrp _ j') c' =>
    if Nat.eqb j j' && Nat.eqb c c' then
      match todo with
      | [] => Some (rest, QGroup (map (fun jc => (fst jc, snd jc, false)) all))
      | _ => Some (rest, QGroupStart todo all)
      end
    else None
  | QGroup open, EEnd (WGrp _ j) c =>
    match upd_member j (fun c' b => if Nat.eqb c c' && negb b then Some (Some true) else None) open with
    | Some open' => Some (rest, QGroup open')
    | None => None
    end
  | QGroup open, ERecv (WGrp _ j) m | QGroup open, EDrop (WGrp _ j) m =>
    match upd_member j (fun c' b => if b && msg_eqb m (cres c') then Some None else None) open with
    | Some [] => Some (rest, QIdle)
    | Some open' => Some (rest, QGroup open')
    | None => None
    end
  | _, _ => None
  end.

(* walk the log; events of other threads are skipped.  rest = elements not yet looked at *)
Fixpoint seq_walk (cres : cmdid -> msg) (k : nat) (rest : list (option cmdid)) (st : sq_state) (log : list ev) : bool :=
  match log with
  | [] => true
  | e :: log' =>
    if of_seq k e then
      match sq_step cres rest st e with
      | Some (rest', st') => seq_walk cres k rest' st' log'
      | None => false
      end
    else seq_walk cres k rest st log'
  end.

(* the elements of sequence k = the k-th MSeq message processed *)
Definition seq_msgs (log : list ev) : list (list (option cmdid)) :=
  flat_map (fun e => match e with EUpdate (MSeq cs) _ => [cs] | _ => [] end) log.

(* C03: every sequence goroutine follows the pattern: elements strictly one after another, in order, nil entries
   skipped, the next element started only after the previous element's message (every message of its batch) was
   taken by the event loop - or, once the context has been cancelled (no_drop_before_cancel), dropped by a Send
   that gave up *)
Definition sequences_ok (cres : cmdid -> msg) (log : list ev) : bool :=
  forallb (fun kc => seq_walk cres (fst kc) (snd kc) QIdle log) (combine (seq 0 (length (seq_msgs log))) (seq_msgs log)).
