(* C19 specification: output cost of a render, frame-rate clamp. *)
From Coq Require Import NArith ZArith List Bool Arith.
Import ListNotations.
From BT Require Import Base.Bytes Model.VT Spec.Screen.
Open Scope nat_scope.

Fixpoint digits_fuel (fuel n : nat) : nat :=
  match fuel with
  | O => 1
  | S f => if Nat.ltb n 10 then 1 else S (digits_fuel f (Nat.div n 10))
  end.
Definition digits (n : nat) : nat := digits_fuel n n.

(* number of bytes of each token's wire form (x/ansi) *)
Definition tok_len (t : tok) : nat :=
  match t with
  | TChar _ | TCR | TLF => 1
  | TCUU n | TCUB n | TCUD n | TCUF n => 3 + (if Nat.leb n 1 then 0 else digits n)
  | TCUP r => 4 + digits r
  | THome | TELright | TEDbelow => 3
  | TELall | TEDall => 4
  | TSet m | TReset m => 4 + digits (N.to_nat m)
  | TTitle s => 5 + length s
  end.
Definition out_len (ts : list tok) : nat := fold_right (fun t a => (tok_len t + a)%nat) 0%nat ts.

(* cost allowed for re-rendering `new` over `old` (both already clipped to the
   window height) when the cache is valid and nothing is queued: a changed line
   costs its (cut) text plus erase-to-end-of-line and CR LF, an unchanged line
   at most its line feed; plus one cursor-up / home, one erase-below group,
   one final cursor-back / cursor-position, one leading CR. *)
Fixpoint lines_cost (w : nat) (old new : list bytes) : nat :=
  match new with
  | [] => 0
  | l :: rest =>
    let same := match old with x :: _ => bytes_eqb x l | [] => false end in
    (if same then 1 else Nat.min (length l) w + 5) +
    lines_cost w (match old with _ :: t => t | [] => [] end) rest
  end.
Definition overhead (w l n : nat) : nat := (3 + digits l) + 8 + (4 + Nat.max (digits w) (digits n)) + 1.
Definition cost_bound (w : nat) (old new : list bytes) : nat :=
  lines_cost w old new + overhead w (length old) (length new).

(* the frame interval for a requested fps: clamped to 1..max, default when < 1 *)
Definition clamp_fps (default_fps max_fps fps : Z) : Z :=
  if (fps <? 1)%Z then default_fps else if (max_fps <? fps)%Z then max_fps else fps.
Definition frame_interval_ns (default_fps max_fps fps : Z) : Z :=
  Z.quot 1000000000 (clamp_fps default_fps max_fps fps).
