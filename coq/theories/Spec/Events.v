(* The grammar of well-formed input events (C08, C10, C11, C15), their wire
   encoding and the message each must decode to.  Written from the property
   text and the frozen RefTable; independent of Model/Decoder.v. *)
From Coq Require Import NArith ZArith List Bool Arith.
Import ListNotations.
From BT Require Import Base.Bytes Model.Utf8 Model.Keys RefTable Spec.MouseSpec.
Open Scope N_scope.

Inductive event :=
| EKey (i : nat) (alt : bool)        (* i-th RefTable entry, optionally ESC-prefixed (only if the entry is not alt itself) *)
| ECtl (b : N) (alt : bool)          (* control byte 1..31 without 27, or 127 *)
| ESpace (alt : bool)
| ENul (alt : bool)
| ERunes (rs : list N)               (* non-empty run of printable scalars *)
| EAltRune (r : N)                   (* ESC + one printable scalar *)
| EAltEsc                            (* ESC ESC *)
| EMouseSGR (code x y : Z) (release : bool)
| EMouseX10 (code : Z) (x y : Z)     (* code 0..223, x,y 1..223 *)
| EPaste (payload : bytes)
| EUnknownCSI (params inter : bytes) (final : N)
| EEsc                               (* lone ESC, last event of a read only *)
| EFocus | EBlur.                    (* last event of a read only *)

(* decimal digits of a non-negative number *)
Fixpoint digits_fuel (fuel : nat) (n : N) (acc : bytes) : bytes :=
  match fuel with
  | O => acc
  | S f => let acc' := (48 + n mod 10) :: acc in
           if n / 10 =? 0 then acc' else digits_fuel f (n / 10) acc'
  end.
Definition itoa (n : Z) : bytes := digits_fuel (S (N.to_nat (N.log2 (Z.to_N n)))) (Z.to_N n) [].

Definition ref_entry (i : nat) : option (bytes * (Z * bool)) := nth_error RefTable.sequences i.

Definition encode (e : event) : bytes :=
  match e with
  | EKey i alt => match ref_entry i with
                  | Some (s, _) => if alt then ESC :: s else s
                  | None => []
                  end
  | ECtl b alt => if alt then [ESC; b] else [b]
  | ESpace alt => if alt then [ESC; 32] else [32]
  | ENul alt => if alt then [ESC; 0] else [0]
  | ERunes rs => flat_map utf8_encode rs
  | EAltRune r => ESC :: utf8_encode r
  | EAltEsc => [ESC; ESC]
  | EMouseSGR c x y rel => [27; 91; 60] ++ itoa c ++ [59] ++ itoa x ++ [59] ++ itoa y ++ [if rel then 109 else 77]
  | EMouseX10 c x y => [27; 91; 77; Z.to_N (c + 32); Z.to_N (x + 32); Z.to_N (y + 32)]
  | EPaste p => [27; 91; 50; 48; 48; 126] ++ p ++ [27; 91; 50; 48; 49; 126]
  | EUnknownCSI ps is f => [27; 91] ++ ps ++ is ++ [f]
  | EEsc => [ESC]
  | EFocus => [27; 91; 73]
  | EBlur => [27; 91; 79]
  end.

(* greedy UTF-8 scan keeping every valid scalar, dropping invalid bytes one at a time *)
Fixpoint valid_scalars (fuel : nat) (p : bytes) : list N :=
  match fuel, p with
  | S f, b0 :: t =>
    let '(r, w) := decode_rune p in
    if Nat.leb w 1 && (128 <=? b0) then valid_scalars f t   (* invalid byte *)
    else r :: valid_scalars f (skipn w p)
  | _, _ => []
  end.

Definition mouse_msg_of (s : mouse_spec) (x y : Z) : msg :=
  MMouse x y (s_shift s) (s_alt s) (s_ctrl s) (s_action s) (s_button s) 0.

Definition expect (e : event) : msg :=
  match e with
  | EKey i alt => match ref_entry i with
                  | Some (_, (ty, a)) => MKey ty [] (a || alt) false
                  | None => MUnknownByte 0
                  end
  | ECtl b alt => MKey (Z.of_N b) [] alt false
  | ESpace alt => MKey RefTable.KeySpace [32] alt false
  | ENul alt => MKey RefTable.KeyNull [] alt false
  | ERunes rs => MKey RefTable.KeyRunes rs false false
  | EAltRune r => MKey RefTable.KeyRunes [r] true false
  | EAltEsc => MKey RefTable.KeyEscape [] true false
  | EMouseSGR c x y rel => mouse_msg_of (xterm_mouse c true rel) (x - 1) (y - 1)
  | EMouseX10 c x y => mouse_msg_of (xterm_mouse c false false) (x - 1) (y - 1)
  | EPaste p => MKey RefTable.KeyRunes (valid_scalars (length p) p) false true
  | EUnknownCSI ps is f => MUnknownCSI ([27; 91] ++ ps ++ is ++ [f])
  | EEsc => MKey RefTable.KeyEscape [] false false
  | EFocus => MFocus
  | EBlur => MBlur
  end.

(* messages compared up to the deprecated mouse Type field, which the property does not mention *)
Definition msg_proj (m : msg) : msg :=
  match m with
  | MMouse x y s a c act b _ => MMouse x y s a c act b 0
  | _ => m
  end.

(* ------------------------------------------------------------ validity *)

Definition printable_scalar (r : N) : bool :=
  is_scalar r && (32 <? r) && negb (r =? 127).

Definition is_ctl (b : N) : bool := ((1 <=? b) && (b <=? 31) && negb (b =? 27)) || (b =? 127).

Definition is_param (b : N) : bool := in_range 48 63 b.
Definition is_inter (b : N) : bool := in_range 32 47 b.
Definition is_final (b : N) : bool := in_range 64 126 b.

(* the documented extended table: entries, their ESC-prefixed variants, control bytes, space, ESC ESC *)
Definition ref_ext_keys : list bytes :=
  flat_map (fun e : bytes * (Z * bool) => let '(s, (_, alt)) := e in s :: (if alt then @nil bytes else (ESC :: s) :: nil)) RefTable.sequences
  ++ flat_map (fun b : N => ([b] : bytes) :: [ESC; b] :: nil) (filter is_ctl (map N.of_nat (seq 0 128)))
  ++ (([32] : bytes) :: [ESC; 32] :: [ESC; ESC] :: nil).

Definition end_marker : bytes := [27; 91; 50; 48; 49; 126].

Fixpoint contains (pat l : bytes) : bool :=
  is_prefix pat l || match l with [] => false | _ :: t => contains pat t end.

(* ESC [ < digits ; digits ; digits (M|m) is a mouse report, not an unknown CSI *)
Definition is_dig (b : N) : bool := in_range 48 57 b.
Definition is_sgr_report (ps is : bytes) (f : N) : bool :=
  match ps, is with
  | 60 :: r, [] =>
    let '(d1, r1) := span is_dig r in
    match d1, r1 with
    | _ :: _, 59 :: r1' =>
      let '(d2, r2) := span is_dig r1' in
      match d2, r2 with
      | _ :: _, 59 :: r2' =>
        let '(d3, r3) := span is_dig r2' in
        match d3, r3 with
        | _ :: _, [] => (f =? 77) || (f =? 109)
        | _, _ => false
        end
      | _, _ => false
      end
    | _, _ => false
    end
  | _, _ => false
  end.

Definition valid_event (e : event) : bool :=
  match e with
  | EKey i alt => match ref_entry i with Some (_, (_, a)) => negb (alt && a) | None => false end
  | ECtl b _ => is_ctl b
  | ESpace _ | ENul _ | EAltEsc | EEsc | EFocus | EBlur => true
  | ERunes rs => negb (Nat.eqb (length rs) 0) && forallb printable_scalar rs
  | EAltRune r => printable_scalar r
  | EMouseSGR c x y _ => ((0 <=? c) && (1 <=? x) && (1 <=? y))%Z
  | EMouseX10 c x y => ((0 <=? c) && (c <=? 223) && (1 <=? x) && (x <=? 223) && (1 <=? y) && (y <=? 223))%Z
  | EPaste p => negb (contains end_marker p) && all_bytes (fun b => b <? 256) p
  | EUnknownCSI ps is f =>
    all_bytes is_param ps && all_bytes is_inter is && is_final f &&
    (* not a known sequence, not the paste markers, not a mouse report, not a focus report *)
    negb (existsb (fun k => is_prefix k ([27; 91] ++ ps ++ is ++ [f])) ref_ext_keys) &&
    negb (bytes_eqb ([27; 91] ++ ps ++ is ++ [f]) [27; 91; 50; 48; 48; 126]) &&
    negb (match ps ++ is ++ [f] with 77 :: _ => true | _ => false end) &&
    negb (is_sgr_report ps is f)
  end.

(* the protocol-inherent ambiguity between an event and the bytes that follow
   it in the same read: those bytes must not extend the event to a longer
   documented sequence, nor turn ESC [ into a CSI *)
Definition csi_syntax (b : bytes) : bool :=
  match b with
  | 27 :: 91 :: r =>
    let '(_, r1) := span is_param r in
    let '(_, r2) := span is_inter r1 in
    match r2 with f :: _ => is_final f | [] => false end
  | _ => false
  end.

Definition clean (e : event) (rest : bytes) : bool :=
  let s := encode e in
  negb (existsb (fun k => Nat.ltb (length s) (length k) && is_prefix k (s ++ rest)) ref_ext_keys)
  && match e with
     | EAltRune 91 => negb (csi_syntax (s ++ rest))
     | ERunes _ => match rest with
                   | [] => true
                   | b :: _ => (b <? 128) && negb (printable_scalar b)  (* the run must end here *)
                   end
     | EUnknownCSI _ _ _ => negb (bytes_eqb (s ++ rest) [27; 91; 73]) && negb (bytes_eqb (s ++ rest) [27; 91; 79])
     | EEsc | EFocus | EBlur => match rest with [] => true | _ => false end
     | _ => true
     end.

Fixpoint encode_all (evs : list event) : bytes :=
  match evs with [] => [] | e :: t => encode e ++ encode_all t end.

Fixpoint wf_stream (evs : list event) : bool :=
  match evs with
  | [] => true
  | e :: t => valid_event e && clean e (encode_all t) && wf_stream t
  end.
