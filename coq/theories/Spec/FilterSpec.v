(* C16 as an executable statement over the callback log of a real run (one
   sender, so the receive order is the send order): the filter is consulted
   exactly once per message sent, in order, with the model current at that time;
   a nil verdict leaves no trace; any other verdict is treated exactly as if
   that message had been sent: it reaches Update with the same model unless it
   is one of the messages that never reach Update (quit, interrupt, batch),
   and nothing else reaches Update.  Codes as in Model/FilterPolicy.msg_code. *)
From Coq Require Import List Bool NArith Arith.
Import ListNotations.

Inductive fev :=
| FFilter (ver : nat) (key : N) (verdict : option N)     (* filter called with model version, message; returned nil / a message *)
| FUpdate (ver : nat) (key : N).

Definition no_update (code : N) : bool := ((code =? 0) || (code =? 1) || (code =? 16))%N.   (* quit, interrupt, batch *)
Definition ends_loop (code : N) : bool := ((code =? 0) || (code =? 1))%N.

(* sent: the codes of the messages sent, in order; log: the projected callback log *)
Fixpoint filter_log_ok (sent : list N) (ver : nat) (log : list fev) : bool :=
  match sent, log with
  | [], [] => true
  | k :: sent', FFilter v key verdict :: log' =>
    (v =? ver)%nat && (key =? k)%N &&
    match verdict with
    | None => filter_log_ok sent' ver log'
    | Some k' =>
      if ends_loop k' then match log' with [] => true | _ => false end      (* the program ends: nothing more is processed *)
      else if no_update k' then filter_log_ok sent' ver log'
      else match log' with
           | FUpdate v' key' :: log'' => (v' =? ver)%nat && (key' =? k')%N && filter_log_ok sent' (S ver) log''
           | _ => false
           end
    end
  | _, _ => false
  end.
