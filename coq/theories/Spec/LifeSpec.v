(* Executable statements of the life-cycle properties over what a run of a real
   Program lets us observe (C04, C05, C13, C18): which causes struck, whether
   Run returned, the class of its error, which API calls returned, the mode
   tokens written.  The same classification is what the skeleton's error_ok
   uses (Proof/SkelProofs.v, C04_error_ok). No proofs. *)
From Coq Require Import List Bool NArith.
Import ListNotations.
From BT Require Import Model.Skel.

(* a termination cause as the harness injects it *)
Inductive cause := CQuit | CInterrupt | CKill | CCtx | CPanic | CReadErr | CSigInt | CSigTerm | CStartFail.

(* the error class the property assigns to a cause *)
Definition class_of (c : cause) : err :=
  match c with
  | CQuit | CSigTerm => ENil
  | CInterrupt | CSigInt => EInt
  | CKill | CCtx | CPanic => EKilled
  | CReadErr => EReadErr
  | CStartFail => EOther
  end.

(* the exit decision a cause leads to *)
Definition dec_of (c : cause) : decision :=
  match c with
  | CQuit | CSigTerm => DQuit | CInterrupt | CSigInt => DInt | CKill | CCtx => DCtx | CPanic => DPanic
  | CReadErr => DReadErr | CStartFail => DStartFail end.

(* one observed run: the causes injected (in order), did Run return before the watchdog, its error class *)
Record outcome := { o_causes : list cause; o_returned : bool; o_err : err }.

(* C04: Run returned, and its error is the class of one of the causes that struck *)
Definition outcome_ok (o : outcome) : bool :=
  o_returned o && existsb (fun c => err_is (class_of c) (o_err o)) (o_causes o).

(* C13: every API call made before or after the end returned *)
Definition api_ok (returned : list bool) : bool := forallb (fun b => b) returned.
