(* C12 / C05 / C17 (mode half): the terminal modes a program asked for.
   An abstract machine over seven booleans, written from the property text:
   what each startup option and each mode command means for the terminal, and
   how the modes are read off the terminal model.  Executable, bool-valued;
   the only proof here is the correctness of the boolean equality. *)
From Coq Require Import List Bool NArith.
Import ListNotations.
From BT Require Import Model.VT Model.EvLoop.
Open Scope list_scope.

(* the commands a program can issue that concern terminal modes *)
Inductive modecmd :=
| MEnterAlt | MExitAlt | MMouseCell | MMouseAll | MMouseOff | MPasteOn | MPasteOff
| MFocusOn | MFocusOff | MShowCursor | MHideCursor | MClear.

Record modes := {
  a_alt : bool;                (* the alternate screen is in use *)
  a_hidden : bool;             (* cursor hidden, of the buffer in use *)
  a_cell : bool;               (* mouse cell-motion reporting (1002) *)
  a_all : bool;                (* mouse all-motion reporting (1003) *)
  a_sgr : bool;                (* SGR mouse encoding (1006) *)
  a_paste : bool;              (* bracketed paste (2004) *)
  a_focus : bool               (* focus reporting (1004) *)
}.

Definition modes_eqb (a b : modes) : bool :=
  Bool.eqb (a_alt a) (a_alt b) && Bool.eqb (a_hidden a) (a_hidden b) && Bool.eqb (a_cell a) (a_cell b) &&
  Bool.eqb (a_all a) (a_all b) && Bool.eqb (a_sgr a) (a_sgr b) && Bool.eqb (a_paste a) (a_paste b) &&
  Bool.eqb (a_focus a) (a_focus b).

Lemma modes_eqb_spec a b : modes_eqb a b = true <-> a = b.
Proof.
  split.
  - destruct a as [a1 a2 a3 a4 a5 a6 a7], b as [b1 b2 b3 b4 b5 b6 b7]. unfold modes_eqb. cbn.
    rewrite !andb_true_iff, !eqb_true_iff. intros [[[[[[-> ->] ->] ->] ->] ->] ->]. reflexivity.
  - intros <-. unfold modes_eqb. rewrite !eqb_reflx. reflexivity.
Qed.

Definition mk_modes (alt hidden cell all sgr paste focus : bool) : modes :=
  {| a_alt := alt; a_hidden := hidden; a_cell := cell; a_all := all; a_sgr := sgr; a_paste := paste; a_focus := focus |}.

(* the meaning of one command *)
Definition apply (m : modes) (c : modecmd) : modes :=
  match c with
  (* entering / leaving the alternate screen: idempotent, the cursor keeps its visibility *)
  | MEnterAlt => mk_modes true (a_hidden m) (a_cell m) (a_all m) (a_sgr m) (a_paste m) (a_focus m)
  | MExitAlt => mk_modes false (a_hidden m) (a_cell m) (a_all m) (a_sgr m) (a_paste m) (a_focus m)
  (* either mouse mode also selects the SGR encoding; DisableMouse clears all three *)
  | MMouseCell => mk_modes (a_alt m) (a_hidden m) true (a_all m) true (a_paste m) (a_focus m)
  | MMouseAll => mk_modes (a_alt m) (a_hidden m) (a_cell m) true true (a_paste m) (a_focus m)
  | MMouseOff => mk_modes (a_alt m) (a_hidden m) false false false (a_paste m) (a_focus m)
  | MPasteOn => mk_modes (a_alt m) (a_hidden m) (a_cell m) (a_all m) (a_sgr m) true (a_focus m)
  | MPasteOff => mk_modes (a_alt m) (a_hidden m) (a_cell m) (a_all m) (a_sgr m) false (a_focus m)
  | MFocusOn => mk_modes (a_alt m) (a_hidden m) (a_cell m) (a_all m) (a_sgr m) (a_paste m) true
  | MFocusOff => mk_modes (a_alt m) (a_hidden m) (a_cell m) (a_all m) (a_sgr m) (a_paste m) false
  | MShowCursor => mk_modes (a_alt m) false (a_cell m) (a_all m) (a_sgr m) (a_paste m) (a_focus m)
  | MHideCursor => mk_modes (a_alt m) true (a_cell m) (a_all m) (a_sgr m) (a_paste m) (a_focus m)
  (* ClearScreen changes no mode *)
  | MClear => m
  end.

(* the startup options that concern modes *)
Record opts := { o_alt : bool; o_cell : bool; o_all : bool; o_nopaste : bool; o_focus : bool }.

(* the modes right after startup: cursor hidden; alt screen iff asked; paste on
   unless disabled; cell motion wins over all motion, either one with SGR; focus iff asked *)
Definition apply_opts (o : opts) : modes :=
  let '(cell, all, sgr) :=
    if o_cell o then (true, false, true)
    else if o_all o then (false, true, true)
    else (false, false, false) in
  mk_modes (o_alt o) true cell all sgr (negb (o_nopaste o)) (o_focus o).

(* a terminal nobody has touched: main screen, cursor visible, everything off *)
Definition defaults : modes := mk_modes false false false false false false false.

(* reading the modes off the terminal model *)
Definition vt_modes (t : vt) : modes :=
  mk_modes (in_alt t)
           (if in_alt t then negb (vis_alt t) else negb (vis_main t))
           (m_cell t) (m_all t) (m_sgr t) (m_paste t) (m_focus t).

(* the message each command is delivered as (EvLoop's kinds) *)
Definition kind_of_cmd (c : modecmd) : bkind :=
  match c with
  | MEnterAlt => KEnterAlt | MExitAlt => KExitAlt
  | MMouseCell => KMouseCell | MMouseAll => KMouseAll | MMouseOff => KMouseOff
  | MPasteOn => KPasteOn | MPasteOff => KPasteOff
  | MFocusOn => KFocusOn | MFocusOff => KFocusOff
  | MShowCursor => KShowCursor | MHideCursor => KHideCursor
  | MClear => KClear
  end.

(* ---- histories that contain Exec: what an external command leaves behind, as one more step of the abstract machine
   (alt screen, bracketed paste and focus reporting as they were; the cursor hidden again; mouse modes off: the code
   deliberately does not re-enable them and the property does not ask for it) *)
Inductive hstep := HC (c : modecmd) | HExec.
Definition hist_apply (m : modes) (h : hstep) : modes :=
  match h with
  | HC c => apply m c
  | HExec => mk_modes (a_alt m) true false false false (a_paste m) (a_focus m)
  end.
