(* C11 specification: the xterm mouse encoding, written from the ctlseqs text,
   independently of mouse.go / Model/Mouse.v.

   Cb (after removing the X10 offset 32) :
     low two bits  0,1,2 = buttons 1,2,3 ; 3 = release (no button)
     +4 shift   +8 meta(alt)   +16 control   +32 motion
     +64  wheel buttons 4..7      +128 buttons 8..11
   Wheel events are presses (never release, never motion).  A motion report
   stays a motion whatever the final byte.  Otherwise release comes from the
   final byte `m` in SGR and from low bits = 3 in X10.  For the combination
   xterm itself never emits (SGR, low bits 3 without wheel/extra/motion bit)
   no button can be named, so the event is the release of "no button" whatever
   the final byte — the same reading X10 gives it. *)
From Coq Require Import ZArith Bool List.
Import ListNotations.
Open Scope Z_scope.

(* documented enumerations (mouse.go doc comments) *)
Definition ActPress := 0. Definition ActRelease := 1. Definition ActMotion := 2.
Definition BtnNone := 0. Definition BtnLeft := 1. Definition BtnWheelUp := 4. Definition BtnBackward := 8.

Definition bit (e : Z) (k : Z) : bool := Z.testbit e k.

Record mouse_spec := { s_button : Z; s_action : Z; s_shift : bool; s_alt : bool; s_ctrl : bool }.

Definition xterm_mouse (e : Z) (sgr release_final : bool) : mouse_spec :=
  let low := e mod 4 in
  let extra := bit e 7 in
  let wheel := negb extra && bit e 6 in
  let motion := bit e 5 in
  let nobutton := negb extra && negb wheel && (low =? 3) in
  let button := if extra then BtnBackward + low
                else if wheel then BtnWheelUp + low
                else if nobutton then BtnNone else BtnLeft + low in
  let action := if wheel then ActPress
                else if motion then ActMotion
                else if nobutton then ActRelease
                else if sgr && release_final then ActRelease
                else ActPress in
  {| s_button := button; s_action := action;
     s_shift := bit e 2; s_alt := bit e 3; s_ctrl := bit e 4 |}.
